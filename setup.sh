#!/bin/bash
# Builds the framework from files on disk only (offline): the Lean model + theorems + driver, and the Rust harness
# (which rebuilds the crate from /repo's working tree with --cfg orx_concurrent_iter_verif).
set -e
cd "$(dirname "$0")"
export CARGO_NET_OFFLINE=true
unset RUSTFLAGS
(cd lean && lake build Orx orxdriver)
(cd harness && cargo build --offline --quiet && cargo build --release --offline --quiet)
if [ -d probes ]; then (cd probes && cargo fetch --offline >/dev/null 2>&1 || true); fi
echo setup-ok
