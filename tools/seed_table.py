#!/usr/bin/env python3
"""Renders the seeded-change table of DESIGN.md §10 from seeded/*/meta.json and matrix.json (if present)."""
import json, glob, os, sys
V = os.path.dirname(os.path.dirname(os.path.abspath(__file__)))
src = sys.argv[1] if len(sys.argv) > 1 else os.path.join(V, "seeded")
rows = ["| seed | change (one line) | needs | caught by (concrete replay) | caught by (tie only) |", "|---|---|---|---|---|"]
for d in sorted(glob.glob(os.path.join(src, "*/"))):
    sid = os.path.basename(d.rstrip("/"))
    mp = os.path.join(V, "seeded", sid, "meta.json")
    if not os.path.exists(mp):
        continue
    m = json.load(open(mp))
    mx = {}
    for cand in (os.path.join(d, "matrix.json"), os.path.join(V, "seeded", sid, "matrix.json")):
        if os.path.exists(cand):
            mx = json.load(open(cand))
            break
    conc = [p for p, v in sorted(mx.items()) if v["detected"] == "concrete"]
    tie = [p for p, v in sorted(mx.items()) if v["detected"] == "tie-only"]
    s = (m.get("summary") or "").replace("|", "/").replace("\n", " ")
    n = (m.get("needs") or "").replace("|", "/").replace("\n", " ")
    rows.append("| %s | %s | %s | %s | %s |" % (sid, s[:150], n[:110], " ".join(conc) or "—", " ".join(tie) or "—"))
print("\n".join(rows))
