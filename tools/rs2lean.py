#!/usr/bin/env python3
"""rs2lean.py: translates the word-arithmetic functions of orx-concurrent-iter from Rust to Lean 4.

Reads the function bodies named in TARGETS from $ORX_REPO_SRC/src (default /repo/src), parses the Rust expression
subset they use, and writes lean/Orx/Generated/Arith.lean: one Lean definition per Rust function, in A-normal form,
in the monad `Orx.RS.M` (state = the position counter + the log of atomic accesses + the spans destroyed in place;
failure = overflow / index / precondition / assertion fault). The translation is syntax directed and type blind:
every Rust method call `r.m(a)` becomes `m_m r a` (a primitive of lean/Orx/RS/Prim.lean) unless the receiver is known
to be an object whose methods are themselves translated (`self`, or a receiver listed in the target's `recv` map), in
which case it becomes a call of the generated definition. Lean's elaborator type-checks the result.

Anything outside the subset becomes `m_unsupported "<what>"`, which fails at run time of the definition: the theorems
of lean/Orx/GenThms.lean about that function then no longer check, and the check reports it.

Run on every check (`check` calls it before `lake build`)."""
import os, re, sys

SRC = os.path.join(os.environ.get("ORX_REPO_SRC", "/repo"), "src")
VERIF = os.path.dirname(os.path.dirname(os.path.abspath(__file__)))
OUT = os.path.join(os.environ.get("ORX_LEAN_DIR", os.path.join(VERIF, "lean")), "Orx", "Generated", "Arith.lean")

LEAN_KEYWORDS = {"end", "from", "at", "then", "do", "fun", "show", "have", "open", "in", "with", "by", "if", "else", "let",
                 "match", "where", "def", "theorem", "instance", "class", "structure", "namespace", "section", "import",
                 "return", "for", "unless", "mut", "local", "private", "protected", "prefix", "infix", "notation", "macro",
                 "syntax", "deriving", "extends", "axiom", "example", "abbrev", "inductive", "universe", "variable", "using", "calc", "nomatch", "Type", "Prop", "Sort"}


def lid(name):
    return name + "_" if name in LEAN_KEYWORDS else name


# ---------------------------------------------------------------------------------------------------
# tokenizer

TOK = re.compile(r"""
    (?P<ws>\s+|//[^\n]*|/\*.*?\*/)
  | (?P<life>'[A-Za-z_][A-Za-z0-9_]*(?!'))
  | (?P<num>\d[\d_]*(?:usize|u64|u32|i32|isize)?)
  | (?P<id>[A-Za-z_][A-Za-z0-9_]*)
  | (?P<str>"(?:[^"\\]|\\.)*")
  | (?P<op>::|->|=>|==|!=|<=|>=|&&|\|\||\.\.=|\.\.|\+=|-=|[-+*/%<>=!&|.,;:(){}\[\]#?@^])
""", re.X | re.S)


def tokenize(text):
    out = []
    i = 0
    while i < len(text):
        m = TOK.match(text, i)
        if not m:
            raise SyntaxError("cannot tokenize at: " + text[i:i + 30])
        i = m.end()
        k = m.lastgroup
        if k == "ws":
            continue
        v = m.group(k)
        if k == "num":
            v = re.sub(r"(usize|u64|u32|i32|isize)$", "", v).replace("_", "")
        out.append((k, v))
    return out


# ---------------------------------------------------------------------------------------------------
# locating functions

def strip_comments(text):
    text = re.sub(r"/\*.*?\*/", "", text, flags=re.S)
    return re.sub(r"//[^\n]*", "", text)


def match_brace(text, i, open_="{", close="}"):
    depth = 0
    while i < len(text):
        if text[i] == open_:
            depth += 1
        elif text[i] == close:
            depth -= 1
            if depth == 0:
                return i
        i += 1
    raise SyntaxError("unbalanced")


def find_fn(text, impl_pat, fn):
    """(params text, body text) of `fn <fn>` inside the first impl/trait block whose header matches impl_pat"""
    for m in re.finditer(r"^(?:unsafe\s+)?(?:impl|pub\s+trait|trait)\b(?:[^{;\[]|\[[^\]]*\])*\{", text, flags=re.M):
        header = m.group(0)
        if not re.search(impl_pat, header):
            continue
        end = match_brace(text, m.end() - 1)
        block = text[m.end():end]
        fm = re.search(r"\bfn\s+%s\s*(?:<[^>]*>)?\s*\(" % re.escape(fn), block)
        if not fm:
            continue
        p0 = fm.end() - 1
        p1 = match_brace(block, p0, "(", ")")
        params = block[p0 + 1:p1]
        b0 = block.index("{", p1)
        semi = block.find(";", p1)
        if semi != -1 and semi < b0:
            continue            # a declaration without body
        b1 = match_brace(block, b0)
        return params, block[b0:b1 + 1]
    raise LookupError("fn %s not found in an impl matching %s" % (fn, impl_pat))


# ---------------------------------------------------------------------------------------------------
# parser (Rust expression subset)

class P:
    def __init__(self, toks):
        self.t = toks
        self.i = 0

    def peek(self, k=0):
        return self.t[self.i + k] if self.i + k < len(self.t) else ("eof", "")

    def next(self):
        x = self.peek()
        self.i += 1
        return x

    def at(self, v):
        return self.peek()[1] == v and self.peek()[0] in ("op", "id")

    def eat(self, v):
        if self.at(v):
            self.i += 1
            return True
        return False

    def expect(self, v):
        if not self.eat(v):
            raise SyntaxError("expected %r, got %r" % (v, self.peek()))

    # ---- helpers
    def skip_angles(self):
        assert self.at("<")
        depth = 0
        while True:
            k, v = self.next()
            if v == "<":
                depth += 1
            elif v == ">":
                depth -= 1
                if depth == 0:
                    return
            elif v == "->":
                pass
            elif k == "eof":
                raise SyntaxError("unbalanced <>")

    def skip_type(self, stops):
        depth = 0
        while True:
            k, v = self.peek()
            if k == "eof":
                return
            if depth == 0 and v in stops:
                return
            if v in "<([":
                depth += 1
            elif v in ">)]":
                depth -= 1
            self.i += 1

    # ---- blocks and statements
    def block(self):
        self.expect("{")
        stmts = []
        final = None
        while not self.at("}"):
            if self.eat(";"):
                continue
            if self.at("let"):
                self.next()
                is_mut = self.eat("mut")
                pat = self.pattern()
                if self.eat(":"):
                    self.skip_type({"=", ";"})
                self.expect("=")
                e = self.expr()
                self.expect(";")
                stmts.append(("let", pat, e, bool(is_mut)))
                continue
            e = self.expr()
            if self.peek()[0] == "op" and self.peek()[1] in ("=", "+=", "-="):
                op = self.next()[1]
                rhs = self.expr()
                self.expect(";")
                stmts.append(("expr", ("assign", op, e, rhs)))
                continue
            if self.eat(";"):
                stmts.append(("expr", e))
            elif self.at("}"):
                final = e
            else:
                # block-like expression statements need no semicolon
                if e[0] in ("match", "if", "block", "unsafe", "loop"):
                    stmts.append(("expr", e))
                else:
                    raise SyntaxError("expected ; or } after expression, got %r" % (self.peek(),))
        self.expect("}")
        return ("block", stmts, final)

    def pattern(self):
        k, v = self.peek()
        if v == "_" :
            self.next()
            return ("pwild",)
        if v == "(":
            self.next()
            elems = []
            while not self.at(")"):
                elems.append(self.pattern())
                self.eat(",")
            self.expect(")")
            return ("ptuple", elems)
        if k == "num":
            self.next()
            return ("pnum", v)
        if v == "&":
            self.next()
            return self.pattern()
        if k == "id":
            segs = [self.next()[1]]
            while self.at("::"):
                self.next()
                segs.append(self.next()[1])
            if segs == ["mut"]:
                return self.pattern()
            if self.at("("):
                self.next()
                args = []
                while not self.at(")"):
                    args.append(self.pattern())
                    self.eat(",")
                self.expect(")")
                return ("pctor", segs, args)
            if len(segs) == 1 and segs[0] not in ("None", "true", "false") and (segs[0][0].islower() or segs[0][0] == "_"):
                return ("pvar", segs[0])
            return ("pctor", segs, [])
        raise SyntaxError("pattern? %r" % (self.peek(),))

    # ---- expressions (precedence climbing)
    def expr(self, no_struct=False):
        return self.range_expr(no_struct)

    def range_expr(self, ns):
        lhs = self.binary(0, ns)
        if self.at("..") or self.at("..="):
            op = self.next()[1]
            rhs = self.binary(0, ns)
            return ("range", lhs, rhs, op == "..=")
        return lhs

    LEVELS = [["||"], ["&&"], ["==", "!=", "<", ">", "<=", ">="], ["+", "-"], ["*", "/", "%"]]

    def binary(self, lvl, ns):
        if lvl == len(self.LEVELS):
            return self.unary(ns)
        lhs = self.binary(lvl + 1, ns)
        while self.peek()[0] == "op" and self.peek()[1] in self.LEVELS[lvl]:
            op = self.next()[1]
            rhs = self.binary(lvl + 1, ns)
            lhs = ("bin", op, lhs, rhs)
        return lhs

    def unary(self, ns):
        if self.at("&"):
            self.next()
            self.eat("mut")
            return ("unary", "&", self.unary(ns))
        if self.at("*") or self.at("!") or self.at("-"):
            op = self.next()[1]
            return ("unary", op, self.unary(ns))
        return self.postfix(ns)

    def args(self):
        self.expect("(")
        out = []
        while not self.at(")"):
            out.append(self.expr())
            self.eat(",")
        self.expect(")")
        return out

    def postfix(self, ns):
        e = self.primary(ns)
        while True:
            if self.at("."):
                self.next()
                k, name = self.next()
                if k == "num":
                    e = ("field", e, name)
                    continue
                if self.at("::"):
                    self.next()
                    self.skip_angles()
                if self.at("("):
                    e = ("mcall", e, name, self.args())
                else:
                    e = ("field", e, name)
            elif self.at("("):
                e = ("call", e, self.args())
            elif self.at("["):
                self.next()
                idx = self.expr()
                self.expect("]")
                e = ("index", e, idx)
            elif self.at("?"):
                self.next()
                e = ("try", e)
            elif self.at("as"):
                self.next()
                self.skip_type({";", ",", ")", "}", "]", ".", "=>", "==", "+", "-"})
                e = ("cast", e)
            else:
                return e

    def primary(self, ns):
        k, v = self.peek()
        if k == "num":
            self.next()
            return ("num", v)
        if k == "str":
            self.next()
            return ("str", v)
        if v == "(":
            self.next()
            if self.at(")"):
                self.next()
                return ("tuple", [])
            e = self.expr()
            if self.at(","):
                elems = [e]
                while self.eat(","):
                    if self.at(")"):
                        break
                    elems.append(self.expr())
                self.expect(")")
                return ("tuple", elems)
            self.expect(")")
            return ("paren", e)
        if v == "{":
            return self.block()
        if v == "unsafe":
            self.next()
            return ("unsafe", self.block())
        if v == "|" or v == "||":
            params = []
            if v == "||":
                self.next()
            else:
                self.next()
                while not self.at("|"):
                    params.append(self.pattern())
                    if self.eat(":"):
                        self.skip_type({",", "|"})
                    self.eat(",")
                self.expect("|")
            body = self.expr()
            return ("closure", params, body)
        if v == "move":
            self.next()
            return self.primary(ns)
        if v == "match":
            self.next()
            scrut = self.expr(no_struct=True)
            self.expect("{")
            arms = []
            while not self.at("}"):
                pat = self.pattern()
                guard = None
                if self.at("if"):
                    self.next()
                    guard = self.expr(no_struct=True)
                self.expect("=>")
                body = self.expr()
                if self.peek()[0] == "op" and self.peek()[1] in ("=", "+=", "-="):
                    op = self.next()[1]
                    body = ("assign", op, body, self.expr())
                self.eat(",")
                arms.append((pat, guard, body))
            self.expect("}")
            return ("match", scrut, arms)
        if v == "if":
            self.next()
            c = self.expr(no_struct=True)
            th = self.block()
            el = None
            if self.eat("else"):
                el = self.primary(ns) if self.at("if") else self.block()
            return ("if", c, th, el)
        if v == "loop":
            self.next()
            return ("loop", self.block())
        if v == "while" and self.peek(1)[1] == "let":
            # `while let PAT = EXPR BLOCK`  ==  `loop { match EXPR { PAT => BLOCK, _ => break } }`
            self.next()
            self.next()
            pat = self.pattern()
            self.expect("=")
            scrut = self.expr(no_struct=True)
            body = self.block()
            return ("loop", ("block", [], ("match", scrut, [(pat, None, body), (("pwild",), None, ("break",))])))
        if v == "for":
            self.next()
            pat = self.pattern()
            self.expect("in")
            it = self.expr(no_struct=True)
            body = self.block()
            return ("for", pat, it, body)
        if v == "break":
            self.next()
            return ("break",)
        if v == "return":
            self.next()
            if self.at(";") or self.at("}"):
                return ("return", None)
            return ("return", self.expr())
        if v == "<":
            # qualified path <T as Trait>::name
            self.skip_angles()
            segs = ["Self"]
            while self.eat("::"):
                if self.at("<"):
                    self.skip_angles()
                    continue
                segs.append(self.next()[1])
            return ("path", segs)
        if k == "id":
            segs = [self.next()[1]]
            while self.at("::"):
                self.next()
                if self.at("<"):
                    self.skip_angles()
                    continue
                segs.append(self.next()[1])
            if self.at("!"):
                # macro call
                self.next()
                open_ = self.next()[1]
                close = {"(": ")", "[": "]", "{": "}"}[open_]
                depth = 1
                inner = []
                while True:
                    kk, vv = self.next()
                    if vv == open_:
                        depth += 1
                    elif vv == close:
                        depth -= 1
                        if depth == 0:
                            break
                    inner.append((kk, vv))
                return ("macro", segs[-1], inner)
            if self.at("{") and not ns and (segs[-1][0].isupper()):
                # struct literal
                self.next()
                fields = []
                while not self.at("}"):
                    fname = self.next()[1]
                    if self.eat(":"):
                        fields.append((fname, self.expr()))
                    else:
                        fields.append((fname, ("id", fname)))
                    self.eat(",")
                self.expect("}")
                return ("struct", segs, fields)
            if len(segs) == 1:
                return ("id", segs[0])
            return ("path", segs)
        raise SyntaxError("expression? %r" % (self.peek(),))


def split_macro_args(toks):
    out, cur, depth = [], [], 0
    for (k, v) in toks:
        if v in "([{":
            depth += 1
        elif v in ")]}":
            depth -= 1
        if v == "," and depth == 0:
            out.append(cur)
            cur = []
        else:
            cur.append((k, v))
    if cur:
        out.append(cur)
    return out


# ---------------------------------------------------------------------------------------------------
# emitter: A-normal form in the monad M

ORDERINGS = {"Less": "Ord3.less", "Equal": "Ord3.equal", "Greater": "Ord3.greater"}
MEMORDS = {"Relaxed": "Ord.relaxed", "Acquire": "Ord.acquire", "Release": "Ord.release", "AcqRel": "Ord.acqrel", "SeqCst": "Ord.seqcst"}
BINOPS = {"+": "op_add", "-": "op_sub", "*": "op_mul", "<": "op_lt", "<=": "op_le", ">": "op_gt", ">=": "op_ge", "==": "op_eq", "!=": "op_ne",
          "&&": "op_and", "||": "op_or"}


def src_text(e):
    """canonical text of simple receiver expressions (for the recv map)"""
    if e[0] == "id":
        return e[1]
    if e[0] == "field":
        return src_text(e[1]) + "." + e[2]
    if e[0] in ("unary", "paren"):
        return src_text(e[-1])
    return "?"


NOARG_STRUCTS = {"CompleteOnUnwind", "BufferedIter", "Taken", "BufIterSelf", "CounterNew", "SliceNew", "RangeNew", "VecNew", "ArrNew", "IterNew"}


class Emitter:
    def __init__(self, ns, own_fns, recv, consts):
        self.ns = ns              # Lean namespace of `self`'s generated functions
        self.own = own_fns        # names of functions generated in that namespace
        self.recv = recv          # receiver text -> namespace whose generated functions are its methods
        self.consts = consts      # free identifiers that are Lean parameters (const generics)
        self.n = 0
        self.unsupported = []
        self.self_struct = None

    def fresh(self):
        self.n += 1
        return "t%d" % self.n

    def gen_call(self, fn):
        """a call of `fn`: generated functions of the program-tree target take the loop fuel first"""
        return fn

    def unsup(self, what):
        self.unsupported.append(what)
        return 'm_unsupported "%s"' % what.replace('"', "'")

    # returns (list of do-lines, atom)
    def ex(self, e, ind):
        k = e[0]
        if k == "num":
            return [], "(%s : Nat)" % e[1]
        if k == "id":
            if e[1] == "None":
                return [], "none"
            if e[1] in ("true", "false"):
                return [], e[1]
            return [], lid(e[1])
        if k == "paren":
            return self.ex(e[1], ind)
        if k == "cast":
            return self.ex(e[1], ind)
        if k == "unsafe":
            return self.ex(e[1], ind)
        if k == "unary":
            if e[1] in ("&", "*"):
                return self.ex(e[2], ind)
            if e[1] == "!":
                ls, a = self.ex(e[2], ind)
                t = self.fresh()
                return ls + ["let %s ← op_not %s" % (t, a)], t
            return [], "(" + self.unsup("unary " + e[1]) + ")"
        if k == "path":
            segs = e[1]
            if segs[-1] in ORDERINGS and "Ordering" in segs:
                return [], ORDERINGS[segs[-1]]
            if segs[-1] in MEMORDS and "Ordering" in segs:
                return [], MEMORDS[segs[-1]]
            if segs[-2:] == ["Idx", "from"]:
                return [], "m_from"
            return [], "_".join(s for s in segs[-2:])
        if k == "field":
            ls, a = self.ex(e[1], ind)
            return ls, "%s.%s" % (a, lid(e[2])) if re.match(r"^[A-Za-z_][\w.']*$", a) else "(%s).%s" % (a, lid(e[2]))
        if k == "tuple":
            ls, atoms = [], []
            for x in e[1]:
                l, a = self.ex(x, ind)
                ls += l
                atoms.append(a)
            return ls, "(" + ", ".join(atoms) + ")" if atoms else "()"
        if k == "struct":
            ls, fs = [], []
            for (fname, fe) in e[2]:
                if fname == "phantom":
                    continue
                l, a = self.ex(fe, ind)
                ls += l
                fs.append("%s := %s" % (lid(fname), a))
            sname = e[1][-1]
            if sname == "Self":
                sname = self.self_struct or "Self"
            if sname in NOARG_STRUCTS:
                return ls, "({ %s } : %s)" % (", ".join(fs), sname)
            return ls, "({ %s } : %s _)" % (", ".join(fs), sname)
        if k == "bin":
            l1, a = self.ex(e[2], ind)
            l2, b = self.ex(e[3], ind)
            t = self.fresh()
            fn = BINOPS.get(e[1])
            if fn is None:
                return l1 + l2 + ["let %s ← %s" % (t, self.unsup("operator " + e[1]))], t
            return l1 + l2 + ["let %s ← %s %s %s" % (t, fn, a, b)], t
        if k == "range":
            l1, a = self.ex(e[1], ind)
            l2, b = self.ex(e[2], ind)
            t = self.fresh()
            return l1 + l2 + ["let %s ← m_range %s %s" % (t, a, b)], t
        if k == "index":
            l1, a = self.ex(e[1], ind)
            if e[2][0] == "range":
                l2, lo = self.ex(e[2][1], ind)
                l3, hi = self.ex(e[2][2], ind)
                t = self.fresh()
                return l1 + l2 + l3 + ["let %s ← m_index_range %s %s %s" % (t, a, lo, hi)], t
            l2, i = self.ex(e[2], ind)
            t = self.fresh()
            return l1 + l2 + ["let %s ← m_index %s %s" % (t, a, i)], t
        if k == "closure":
            params = " ".join(self.pat(p) for p in e[1]) or "_"
            body = self.do_block(e[2], ind + 2)
            return [], "(fun %s => %s)" % (params, body)
        if k == "call":
            fn = e[1]
            ls, atoms = [], []
            if fn[0] == "id" and fn[1] in ("Some",):
                l, a = self.ex(e[2][0], ind)
                return l, "(some %s)" % a
            if fn[0] == "path" and fn[1][-2:] == ["AtomicCounter", "new"] and not e[2]:
                t = self.fresh()
                return ["let %s ← NewCounter.new ()" % t], t
            if fn[0] == "path" and fn[1] == ["Self", "ConIter", "new"] and getattr(self, "ctor_of", None) and len(e[2]) == 1:
                l, a = self.ex(e[2][0], ind)
                t = self.fresh()
                return l + ["let %s ← %s.new %s" % (t, self.ctor_of, a)], t
            if fn[0] == "path" and fn[1][0] == "Self" and len(fn[1]) == 2 and e[2] and e[2][0] == ("id", "self"):
                # UFCS <Self as Trait>::f(self, ..)  ==  self.f(..)
                return self.ex(("mcall", ("id", "self"), fn[1][1], e[2][1:]), ind)
            for x in e[2]:
                l, a = self.ex(x, ind)
                ls += l
                atoms.append(a)
            l0, f = self.ex(fn, ind)
            t = self.fresh()
            return ls + l0 + ["let %s ← %s %s" % (t, f, " ".join(atoms) if atoms else "()")], t
        if k == "mcall":
            recv, name, args = e[1], e[2], e[3]
            ls, r = self.ex(recv, ind)
            atoms = []
            for x in args:
                l, a = self.ex(x, ind)
                ls += l
                atoms.append(a)
            t = self.fresh()
            rtxt = src_text(recv)
            if name == "get" and not args:
                return ls, r                       # UnsafeCell::get / OnceLock: the object itself
            if name in ("get_mut", "as_ref", "as_mut", "by_ref", "clone") and not args and rtxt != "?":
                pass
            if rtxt == "self" and name in self.own:
                fn = "%s.%s" % (self.ns, lid(name))
            elif rtxt in self.recv and name in self.recv[rtxt][1]:
                fn = "%s.%s" % (self.recv[rtxt][0], lid(name))
            elif name == "clone" and not args and rtxt in COUNTER_CLONE_RECV:
                fn = "NewCounter.clone"
            elif name in COUNTER_FNS and self.ns != "Counter" and len(args) == COUNTER_ARITY[name]:
                fn = "Counter.%s" % lid(name)      # the only object with these methods is the crate's AtomicCounter
            else:
                fn = "m_" + name
            fn = self.gen_call(fn)
            return ls + ["let %s ← %s %s" % (t, fn, " ".join([r] + atoms))], t
        if k == "block":
            t = self.fresh()
            return ["let %s ← %s" % (t, self.do_block(e, ind + 2))], t
        if k == "match":
            ls, s = self.ex(e[1], ind)
            t = self.fresh()
            pad = " " * (ind + 2)
            arms = []
            last = e[2][-1] if e[2] else None
            fallback = last[2] if (last is not None and last[0] == ("pwild",) and last[1] is None) else None
            for idx, (pat, guard, body) in enumerate(e[2]):
                if guard is not None and fallback is not None:
                    # `P if g => A` directly before the final `_ => B`: `P => if g { A } else { B }`
                    if idx != len(e[2]) - 2:
                        arms.append("%s| %s => %s" % (pad, self.pat(pat), self.unsup("match guard not followed by the final wildcard arm")))
                        continue
                    gl, g = self.ex(guard, ind + 4)
                    pad4 = " " * (ind + 4)
                    arms.append("%s| %s => (do\n%s\n%slet r__ ← (if %s = true then %s else %s)\n%spure r__)" % (
                        pad, self.pat(pat), "\n".join(pad4 + l for l in gl), pad4, g, self.do_block(body, ind + 6), self.do_block(fallback, ind + 6), pad4))
                elif guard is not None:
                    arms.append("%s| %s => %s" % (pad, self.pat(pat), self.unsup("match guard")))
                elif fallback is not None and idx == len(e[2]) - 1 and len(e[2]) >= 2 and e[2][-2][1] is not None:
                    # the final wildcard after a guarded arm has been folded into that arm; Lean rejects a redundant
                    # alternative, and reports missing cases if the remaining patterns are not exhaustive
                    continue
                else:
                    arms.append("%s| %s => %s" % (pad, self.pat(pat), self.do_block(body, ind + 4)))
            return ls + ["let %s ← (match %s with\n%s)" % (t, s, "\n".join(arms))], t
        if k == "if":
            ls, c = self.ex(e[1], ind)
            t = self.fresh()
            th = self.do_block(e[2], ind + 2)
            el = self.do_block(e[3], ind + 2) if e[3] is not None else "(pure ())"
            return ls + ["let %s ← (if %s = true then %s else %s)" % (t, c, th, el)], t
        if k == "macro":
            name, toks = e[1], e[2]
            parts = split_macro_args(toks)
            if name in ("debug_assert", "assert") and parts:
                sub = P(parts[0] + [("eof", "")])
                ce = sub.expr()
                ls, c = self.ex(ce, ind)
                t = self.fresh()
                return ls + ["let %s ← m_%s %s" % (t, name, c)], t
            if name in ("assert_eq", "debug_assert_eq") and len(parts) >= 2:
                a = P(parts[0] + [("eof", "")]).expr()
                b = P(parts[1] + [("eof", "")]).expr()
                l1, x = self.ex(a, ind)
                l2, y = self.ex(b, ind)
                t = self.fresh()
                return l1 + l2 + ["let %s ← m_%s %s %s" % (t, name, x, y)], t
            t = self.fresh()
            return ["let %s ← %s" % (t, self.unsup("macro " + name))], t
        t = self.fresh()
        return ["let %s ← %s" % (t, self.unsup(k))], t

    def pat(self, p):
        k = p[0]
        if k == "pwild":
            return "_"
        if k == "pvar":
            return lid(p[1])
        if k == "pnum":
            return p[1]
        if k == "ptuple":
            return "(" + ", ".join(self.pat(x) for x in p[1]) + ")"
        if k == "pctor":
            segs, args = p[1], p[2]
            last = segs[-1]
            if last in ORDERINGS and (len(segs) == 1 or "Ordering" in segs):
                return ORDERINGS[last]
            if last == "Some":
                return "some " + " ".join(self.pat(x) for x in args)
            if last == "None":
                return "none"
            if last in ("true", "false"):
                return last
            return "." + last + "".join(" " + self.pat(x) for x in args)
        return "_"

    def do_block(self, e, ind):
        """an expression as a Lean term of type M _"""
        pad = " " * ind
        lines = []
        if e[0] == "block":
            for st in e[1]:
                if st[0] == "let":
                    ls, a = self.ex(st[2], ind)
                    lines += ls
                    if st[1][0] == "pvar":
                        lines.append("let %s := %s" % (lid(st[1][1]), a))
                    elif st[1][0] == "pwild":
                        lines.append("let _ := %s" % a)
                    else:
                        lines.append("let %s := %s" % (self.pat(st[1]), a))
                else:
                    ls, a = self.ex(st[1], ind)
                    lines += ls
            if e[2] is None:
                lines.append("pure ()")
            else:
                ls, a = self.ex(e[2], ind)
                lines += ls
                lines.append("pure %s" % a)
        else:
            ls, a = self.ex(e, ind)
            lines = ls + ["pure %s" % a]
        return "(do\n" + "\n".join(pad + l for l in lines) + ")"



def ids_in(e, acc):
    """identifiers occurring in an AST"""
    if isinstance(e, tuple):
        if len(e) == 2 and e[0] == "id":
            acc.add(e[1])
        for x in e:
            ids_in(x, acc)
    elif isinstance(e, list):
        for x in e:
            ids_in(x, acc)
    return acc


def has_node(e, kind):
    if isinstance(e, tuple):
        if e and e[0] == kind:
            return True
        return any(has_node(x, kind) for x in e)
    if isinstance(e, list):
        return any(has_node(x, kind) for x in e)
    return False


def pat_vars(p, acc):
    if p[0] == "pvar":
        acc.append(p[1])
    elif p[0] == "ptuple":
        for x in p[1]:
            pat_vars(x, acc)
    elif p[0] == "pctor":
        for x in p[2]:
            pat_vars(x, acc)
    return acc


class PEmitter(Emitter):
    """emitter for the program-tree target (`Orx/RS/Prog.lean`): `loop`, `return`, `break`, assignments, drop guards"""

    def __init__(self, ns, own_fns, recv, consts, fname, scope, let_types):
        super().__init__(ns, own_fns, recv, consts)
        self.fname = fname
        self.scope = list(scope)          # [(name, lean type)] in scope
        self.let_types = let_types        # types of `let`-bound names that are not `Nat`
        self.hoisted = []                 # [(name, text)] loop bodies, as definitions of their own
        self.nloops = 0

    def gen_call(self, fn):
        return fn if fn.startswith("m_") else fn + " fuel"

    def bind(self, name):
        self.scope.append((name, self.let_types.get(name, "Nat")))

    def ex(self, e, ind):
        k = e[0]
        if k == "str":
            return [], e[1]
        if k == "return":
            ls, a = self.ex(e[1], ind) if e[1] is not None else ([], "()")
            t = self.fresh()
            return ls + ["let %s ← (m_return %s : PF _ Unit)" % (t, a)], "()"
        if k == "break":
            t = self.fresh()
            return ["let %s ← (m_break : PF _ Unit)" % t], "()"
        if k == "assign":
            op, lhs, rhs = e[1], e[2], e[3]
            ls, a = self.ex(rhs, ind)
            if lhs == ("id", "_") and op == "=":
                return ls, "()"
            if lhs[0] == "field" and lhs[1][0] == "id" and op == "=":
                obj = lid(lhs[1][1])
                return ls + ["let %s := { %s with %s := %s }" % (obj, obj, lid(lhs[2]), a)], "()"
            return ls + ["let _ ← %s" % self.unsup("assignment " + op)], "()"
        if k == "loop":
            self.nloops += 1
            name = "%s.%s.loop%d" % (self.ns, lid(self.fname), self.nloops)
            used = ids_in(e[1], set())
            params = [(n, ty) for (n, ty) in self.scope if n in used]
            sub_scope = len(self.scope)
            body = self.do_block(e[1], 2)
            del self.scope[sub_scope:]
            sig = " (fuel : Nat)" + "".join(" (%s : %s)" % (lid(n), ty) for (n, ty) in params)
            if has_node(e[1], "return"):
                text = "/-- the body of `loop {}` number %d of `%s::%s` -/\ndef %s%s :=\n  (%s : PF _ Unit)\n" % (self.nloops, self.ns, self.fname, name, sig, body)
            else:
                text = "/-- the body of `loop {}` number %d of `%s::%s` -/\ndef %s {ρ : Type}%s : PF ρ Unit :=\n  %s\n" % (self.nloops, self.ns, self.fname, name, sig, body)
            self.hoisted.append((name, text))
            t = self.fresh()
            return ["let %s ← m_loop fuel (%s fuel%s)" % (t, name, "".join(" " + lid(n) for (n, _) in params))], "()"
        if k == "closure":
            sub_scope = len(self.scope)
            for p in e[1]:
                for v in pat_vars(p, []):
                    self.bind(v)
            out = super().ex(e, ind)
            del self.scope[sub_scope:]
            return out
        return super().ex(e, ind)

    def do_block(self, e, ind):
        if e[0] != "block":
            return super().do_block(e, ind)
        pad = " " * ind
        lines = []
        sub_scope = len(self.scope)
        stmts = list(e[1])
        i = 0
        while i < len(stmts):
            st = stmts[i]
            # `let g = x.complete_on_unwind(); ...; g.disarm();`: the statements in between run under the guard
            if st[0] == "let" and st[1][0] == "pvar" and st[2][0] == "mcall" and st[2][2] == "complete_on_unwind":
                g = st[1][1]
                j = next((m for m in range(i + 1, len(stmts))
                          if stmts[m] == ("expr", ("mcall", ("id", g), "disarm", []))), None)
                if j is None:
                    lines.append("let _ ← %s" % self.unsup("drop guard without disarm in the same block"))
                    i += 1
                    continue
                ls, a = self.ex(st[2], ind)
                lines += ls
                lines.append("let %s := %s" % (lid(g), a))
                self.scope.append((g, "CompleteOnUnwind"))
                inner = ("block", stmts[i + 1:j], None)
                bound = []
                for s2 in stmts[i + 1:j]:
                    if s2[0] == "let":
                        pat_vars(s2[1], bound)
                mark = len(self.scope)
                body = self.do_block(inner, ind + 2)
                del self.scope[mark:]
                tup = "(" + ", ".join(lid(v) for v in bound) + ")" if len(bound) != 1 else lid(bound[0])
                body = body[:-len("pure ())")] + "pure %s)" % (tup if bound else "()")
                t = self.fresh()
                lines.append("let %s ← m_guarded (Guard.drop fuel %s) %s" % (tup if bound else t, lid(g), body))
                for v in bound:
                    self.bind(v)
                t2 = self.fresh()
                lines.append("let %s ← Guard.disarm fuel %s" % (t2, lid(g)))
                i = j + 1
                continue
            if st[0] == "let":
                ls, a = self.ex(st[2], ind)
                lines += ls
                if st[1][0] == "pvar":
                    lines.append("let %s := %s" % (lid(st[1][1]), a))
                elif st[1][0] == "pwild":
                    lines.append("let _ := %s" % a)
                else:
                    lines.append("let %s := %s" % (self.pat(st[1]), a))
                for v in pat_vars(st[1], []):
                    self.bind(v)
            else:
                ls, a = self.ex(st[1], ind)
                lines += ls
            i += 1
        if e[2] is None:
            lines.append("pure ()")
        elif e[2][0] == "loop" and not has_node(e[2][1], "break"):
            # a `loop {}` without `break` has type `!`: nothing follows it
            ls, a = self.ex(e[2], ind)
            lines += ls
            lines.append("m_unreachable")
        else:
            ls, a = self.ex(e[2], ind)
            lines += ls
            lines.append("pure %s" % a)
        del self.scope[sub_scope:]
        return "(do\n" + "\n".join(pad + l for l in lines) + ")"



def root_id(e):
    """the variable at the root of a place expression (`x`, `x.f`, `x.f[i]`, `*x`)"""
    while e[0] in ("field", "index", "paren", "unary"):
        e = e[1] if e[0] != "unary" else e[2]
    return e[1] if e[0] == "id" else None


def assigned_in(e, acc):
    """names assigned (`=`, `+=`, …) anywhere in an AST"""
    if isinstance(e, tuple):
        if e and e[0] == "assign":
            r = root_id(e[2])
            if r and r != "_":
                acc.add(r)
        for x in e:
            assigned_in(x, acc)
    elif isinstance(e, list):
        for x in e:
            assigned_in(x, acc)
    return acc


class MEmitter(PEmitter):
    """program-tree emitter for functions with mutable locals / `&mut self`: statements whose value is not used (`if`,
    `match`, assignments, `loop`) are emitted as do-elements so that Lean's `let mut` carries the mutation; a `loop` with
    assigned variables threads them as its state (`m_loop_st`)."""

    def __init__(self, *a, **kw):
        super().__init__(*a, **kw)
        self.loop_state = None      # text of the state tuple while emitting the body of a state loop

    def ty_of(self, name):
        for (n, ty) in reversed(self.scope):
            if n == name:
                return ty
        return "Nat"

    def do_block(self, e, ind):
        if e[0] != "block":
            return Emitter.do_block(self, e, ind)
        saved = self.loop_state
        lines = self.stmts(e[1], e[2], ind)
        self.loop_state = saved
        pad = " " * ind
        return "(do\n" + "\n".join(pad + l for l in lines) + ")"

    # a sequence of statements (+ final value) -> chunks; the first line of a chunk is relative, embedded lines are absolute
    def stmts(self, stmts, final, ind, tail=None, capture=None):
        lines = []
        declared_owned = []
        sub_scope = len(self.scope)
        stmts = list(stmts)
        i = 0
        while i < len(stmts):
            st = stmts[i]
            if st[0] == "let" and st[1][0] == "pvar" and st[2][0] == "mcall" and st[2][2] == "complete_on_unwind":
                g = st[1][1]
                j = next((m for m in range(i + 1, len(stmts))
                          if stmts[m] == ("expr", ("mcall", ("id", g), "disarm", []))), None)
                if j is None:
                    lines.append("let _ ← %s" % self.unsup("drop guard without disarm in the same block"))
                    i += 1
                    continue
                ls, a = self.ex(st[2], ind)
                lines += ls
                lines.append("let %s := %s" % (lid(g), a))
                self.scope.append((g, "CompleteOnUnwind"))
                inner = stmts[i + 1:j]
                declared = []
                for s2 in inner:
                    if s2[0] == "let":
                        for v in pat_vars(s2[1], []):
                            declared.append((v, len(s2) > 3 and s2[3]))
                in_scope = {n for (n, _) in self.scope}
                outer = sorted(v for v in assigned_in(inner, set()) if v in in_scope and v not in [d[0] for d in declared])
                names = [d[0] for d in declared] + outer
                mark = len(self.scope)
                body = ["let mut %s := %s" % (lid(v), lid(v)) for v in outer]
                body += self.stmts(inner, None, ind + 2, tail="pure (%s)" % ", ".join(lid(v) for v in names) if names else "pure ()")
                del self.scope[mark:]
                pad2 = " " * (ind + 2)
                t = self.fresh()
                lines.append("let %s ← m_guarded (Guard.drop fuel %s) (do\n%s)" % (t, lid(g), "\n".join(pad2 + l for l in body)))
                for k, (v, is_mut) in enumerate(declared):
                    proj = t if len(names) == 1 else proj_of(t, k, len(names))
                    lines.append("let %s%s := %s" % ("mut " if is_mut else "", lid(v), proj))
                    self.bind(v)
                for k, v in enumerate(outer):
                    kk = len(declared) + k
                    proj = t if len(names) == 1 else proj_of(t, kk, len(names))
                    lines.append("%s := %s" % (lid(v), proj))
                t2 = self.fresh()
                lines.append("let %s ← Guard.disarm fuel %s" % (t2, lid(g)))
                i = j + 1
                continue
            if st[0] == "let":
                ls, a = self.ex(st[2], ind)
                lines += ls
                is_mut = len(st) > 3 and st[3]
                if st[1][0] == "pvar":
                    lines.append("let %s%s := %s" % ("mut " if is_mut else "", lid(st[1][1]), a))
                elif st[1][0] == "pwild":
                    lines.append("let _ := %s" % a)
                else:
                    lines.append("let %s := %s" % (self.pat(st[1]), a))
                for v in pat_vars(st[1], []):
                    self.bind(v)
                self.after_let(st, lines, declared_owned)
            else:
                lines += self.stmt_expr(st[1], ind)
            i += 1
        if capture is not None:
            lines += self.value_stmt(final, ind, capture) if final is not None else ["%s := some ()" % capture]
            lines.append("pure ()")
        elif tail is not None:
            if final is not None:
                lines += self.stmt_expr(final, ind)
            lines.append(tail)
        elif final is None:
            lines.append("pure ()")
        elif final[0] in ("if", "match") and assigned_in(final, set()):
            # the value of a branching expression whose branches assign: computed by do-level branches into a variable
            r = self.fresh()
            lines.append("let mut %s := none" % r)
            lines += self.value_stmt(final, ind, r)
            v = self.fresh()
            lines.append("let %s ← m_the %s" % (v, r))
            lines.append("pure %s" % v)
        elif final[0] == "loop" and not has_node(final[1], "break"):
            lines += self.stmt_expr(final, ind)
            lines.append("m_unreachable")
        elif final[0] == "for":
            lines += self.stmt_expr(final, ind)
            lines.append("pure ()")
        elif final[0] in ("unsafe", "block") and (final[1] if final[0] == "unsafe" else final)[2] is None:
            # a block without a value in tail position: its statements (they may mutate the locals)
            lines += self.stmt_expr(final, ind)
            lines.append("pure ()")
        else:
            ls, a = self.ex(final, ind)
            lines += ls
            lines.append("pure %s" % a)
        extra = self.end_of_block(declared_owned, final)
        if extra:
            lines = lines[:-1] + extra + lines[-1:]
        del self.scope[sub_scope:]
        return lines

    def after_let(self, st, lines, declared_owned):
        pass

    def end_of_block(self, declared, final):
        return []

    def value_stmt(self, e, ind, r):
        """statements that leave the value of `e` in the mutable variable `r` (as `some value`)"""
        k = e[0]
        if k == "block":
            return self.stmts(e[1], e[2], ind, capture=r)[:-1]
        if k == "if" and e[3] is not None:
            ls, c = self.ex(e[1], ind)
            pad2 = " " * (ind + 2)
            th = self.value_stmt(e[2], ind + 2, r) + ["pure ()"]
            el = self.value_stmt(e[3], ind + 2, r) + ["pure ()"]
            return ls + ["if %s = true then\n%s\n%selse\n%s" % (c, "\n".join(pad2 + l for l in th), " " * ind, "\n".join(pad2 + l for l in el))]
        if k == "match":
            ls, sc = self.ex(e[1], ind)
            pad, pad4 = " " * ind, " " * (ind + 4)
            parts = ["match %s with" % sc]
            for (pat, guard, body) in e[2]:
                mark = len(self.scope)
                for v in pat_vars(pat, []):
                    self.bind(v)
                arm = self.value_stmt(body, ind + 4, r) + ["pure ()"]
                parts.append("%s| %s => do\n%s" % (pad, self.pat(pat), "\n".join(pad4 + l for l in arm)))
                del self.scope[mark:]
            return ls + ["\n".join(parts)]
        ls, a = self.ex(e, ind)
        return ls + ["%s := some %s" % (r, a)]

    MUT_FNS = {"pull"}       # generated `&mut self` functions: they return `(result, self)`

    def has_mut_call(self, e):
        if isinstance(e, tuple):
            if e and e[0] == "mcall" and e[2] in self.MUT_FNS:
                return True
            return any(self.has_mut_call(x) for x in e)
        if isinstance(e, list):
            return any(self.has_mut_call(x) for x in e)
        return False

    def ex(self, e, ind):
        # a call of a generated `&mut self` method on a place: the new receiver is written back
        if e[0] == "mcall" and e[2] in self.MUT_FNS and root_id(e[1]) is not None:
            recv, name, args = e[1], e[2], e[3]
            ls, r = PEmitter.ex(self, recv, ind)
            atoms = []
            for x in args:
                l, a = self.ex(x, ind)
                ls += l
                atoms.append(a)
            rtxt = src_text(recv)
            fn = "%s.%s" % (self.recv[rtxt][0], lid(name)) if rtxt in self.recv else "%s.%s" % (self.ns, lid(name))
            t = self.fresh()
            ls = ls + ["let %s ← %s fuel %s" % (t, fn, " ".join([r] + atoms))]
            root = root_id(recv)
            if recv[0] == "id":
                ls.append("%s := %s.2" % (lid(root), t))
            elif recv[0] == "field" and recv[1][0] == "id":
                ls.append("%s := { %s with %s := %s.2 }" % (lid(root), lid(root), lid(recv[2]), t))
            else:
                ls.append("let _ ← %s" % self.unsup("&mut self call on a complex place"))
            return ls, "%s.1" % t
        # `opt.and_then(|p| body)` / `opt.map(|p| body)` whose body calls a `&mut self` method: do-level branches
        if e[0] == "mcall" and e[2] in ("and_then", "map") and len(e[3]) == 1 and e[3][0][0] == "closure" and self.has_mut_call(e[3][0]):
            ls, o = self.ex(e[1], ind)
            clo = e[3][0]
            r = self.fresh()
            pad, pad4 = " " * ind, " " * (ind + 4)
            mark = len(self.scope)
            for pv in clo[1]:
                for v in pat_vars(pv, []):
                    self.bind(v)
            arm = self.value_stmt(clo[2], ind + 4, r) + ["pure ()"]
            del self.scope[mark:]
            chunk = "match %s with\n%s| some %s => do\n%s\n%s| none => do\n%spure ()" % (
                o, pad, " ".join(self.pat(pv) for pv in clo[1]), "\n".join(pad4 + l for l in arm), pad, pad4)
            ls = ls + ["let mut %s := none" % r, chunk]
            if e[2] == "and_then":
                t = self.fresh()
                return ls + ["let %s ← m_join %s" % (t, r)], t
            return ls, r
        # `place[i].take()`: the slot is emptied in place
        if e[0] == "mcall" and e[2] == "take" and not e[3] and e[1][0] == "index" and e[1][1][0] == "field" and e[1][1][1][0] == "id":
            obj, f = lid(e[1][1][1][1]), lid(e[1][1][2])
            l2, idx = PEmitter.ex(self, e[1][2], ind)
            t, t2 = self.fresh(), self.fresh()
            return l2 + ["let %s ← m_index %s.%s %s" % (t, obj, f, idx),
                         "let %s ← m_set_index %s.%s %s none" % (t2, obj, f, idx),
                         "%s := { %s with %s := %s }" % (obj, obj, f, t2)], t
        return PEmitter.ex(self, e, ind)

    def arm(self, e, ind):
        """the statements of an `if` branch / a `match` arm whose value is not used"""
        if e[0] == "block":
            return self.stmts(e[1], e[2], ind, tail="pure ()")
        return self.stmt_expr(e, ind) + ["pure ()"]

    def stmt_expr(self, e, ind):
        k = e[0]
        if k in ("block", "unsafe"):
            b = e if k == "block" else e[1]
            return self.stmts(b[1], b[2], ind, tail="pure ()")[:-1] or []
        if k == "assign":
            op, lhs, rhs = e[1], e[2], e[3]
            ls, a = self.ex(rhs, ind)
            if lhs == ("id", "_") and op == "=":
                return ls
            root = root_id(lhs)
            if root is None:
                return ls + ["let _ ← %s" % self.unsup("assignment to a complex place")]
            cur_ls, cur = self.ex(lhs, ind)
            if op in ("+=", "-="):
                t = self.fresh()
                ls = ls + cur_ls + ["let %s ← %s %s %s" % (t, "op_add" if op == "+=" else "op_sub", cur, a)]
                a = t
            # rebuild the place bottom-up: x := a | x := { x with f := a } | x.f[i] := a
            if lhs[0] == "id":
                return ls + ["%s := %s" % (lid(root), a)]
            if lhs[0] == "field" and lhs[1][0] == "id":
                return ls + ["%s := { %s with %s := %s }" % (lid(root), lid(root), lid(lhs[2]), a)]
            if lhs[0] == "index" and lhs[1][0] == "field" and lhs[1][1][0] == "id":
                l2, idx = self.ex(lhs[2], ind)
                t = self.fresh()
                f = lid(lhs[1][2])
                return ls + l2 + ["let %s ← m_set_index %s.%s %s %s" % (t, lid(root), f, idx, a),
                                  "%s := { %s with %s := %s }" % (lid(root), lid(root), f, t)]
            return ls + ["let _ ← %s" % self.unsup("assignment to a complex place")]
        if k == "if":
            ls, c = self.ex(e[1], ind)
            pad2 = " " * (ind + 2)
            chunk = "if %s = true then\n%s" % (c, "\n".join(pad2 + l for l in self.arm(e[2], ind + 2)))
            if e[3] is not None:
                chunk += "\n%selse\n%s" % (" " * ind, "\n".join(pad2 + l for l in self.arm(e[3], ind + 2)))
            return ls + [chunk]
        if k == "match":
            ls, sc = self.ex(e[1], ind)
            pad, pad4 = " " * ind, " " * (ind + 4)
            parts = ["match %s with" % sc]
            for (pat, guard, body) in e[2]:
                if guard is not None:
                    parts.append("%s| %s => %s" % (pad, self.pat(pat), self.unsup("match guard")))
                    continue
                mark = len(self.scope)
                for v in pat_vars(pat, []):
                    self.bind(v)
                parts.append("%s| %s => do\n%s" % (pad, self.pat(pat), "\n".join(pad4 + l for l in self.arm(body, ind + 4))))
                del self.scope[mark:]
            return ls + ["\n".join(parts)]
        if k == "break":
            if self.loop_state is not None:
                return ["let _ ← (m_break_st %s : PF _ Unit)" % self.loop_state]
            return ["let _ ← (m_break : PF _ Unit)"]
        if k == "loop":
            in_scope = [n for (n, _) in self.scope]
            state = [v for v in dict.fromkeys(in_scope) if v in assigned_in(e[1], set())]
            if not state:
                ls, _ = PEmitter.ex(self, e, ind)
                return ls
            if has_node(e[1], "return"):
                return ["let _ ← %s" % self.unsup("return inside a loop with mutable state")]
            self.nloops += 1
            name = "%s.%s.loop%d" % (self.ns, lid(self.fname), self.nloops)
            used = ids_in(e[1], set())
            params = [(n, ty) for (n, ty) in dict(self.scope).items() if n in used and n not in state]
            st_ty = " × ".join(self.ty_of(v) for v in state)
            st_tuple = "(%s)" % ", ".join(lid(v) for v in state) if len(state) > 1 else lid(state[0])
            saved = self.loop_state
            self.loop_state = st_tuple
            mark = len(self.scope)
            body = ["let mut %s := %s" % (lid(v), "st" if len(state) == 1 else proj_of("st", k2, len(state))) for k2, v in enumerate(state)]
            body += self.stmts(e[1][1], e[1][2], 2, tail="pure %s" % st_tuple)
            del self.scope[mark:]
            self.loop_state = saved
            sig = " (fuel : Nat)" + "".join(" (%s : %s)" % (lid(n), ty) for (n, ty) in params) + " (st : %s)" % st_ty
            text = ("/-- the body of `loop {}` number %d of `%s::%s`; its state: %s -/\ndef %s {ρ : Type}%s : PF (Sum (%s) ρ) (%s) :=\n  (do\n%s)\n"
                    % (self.nloops, self.ns, self.fname, ", ".join(state), name, sig, st_ty, st_ty, "\n".join("  " + l for l in body)))
            self.hoisted.append((name, text))
            t = self.fresh()
            out = ["let %s ← m_loop_st fuel %s (%s fuel%s)" % (t, st_tuple, name, "".join(" " + lid(n) for (n, _) in params))]
            for k2, v in enumerate(state):
                out.append("%s := %s" % (lid(v), t if len(state) == 1 else proj_of(t, k2, len(state))))
            return out
        ls, _ = self.ex(e, ind)
        return ls


def fn_body_mut(em, ast, ind, mut_self):
    """body of a function emitted by MEmitter; a `&mut self` function returns its result paired with the new `self`"""
    lines = (["let mut self := self"] if mut_self else []) + em.stmts(ast[1], ast[2], ind)
    if mut_self:
        assert lines[-1].startswith("pure ")
        lines[-1] = "pure (%s, self)" % lines[-1][5:]
    pad = " " * ind
    return "(do\n" + "\n".join(pad + l for l in lines) + ")"


def proj_of(t, k, n):
    """k-th component of an n-tuple (right-nested pairs)"""
    if n == 1:
        return t
    if k == n - 1:
        return t + "".join(".2" for _ in range(n - 1))
    return t + "".join(".2" for _ in range(k)) + ".1"


# ---------------------------------------------------------------------------------------------------
# targets

def T(ns, file, impl_pat, fns, self_ty, params=None, recv=None, consts=None, extra_params="", self_struct=None, ctor_of=None):
    return dict(ns=ns, file=file, impl=impl_pat, fns=fns, self_ty=self_ty, params=params or {}, recv=recv or {}, consts=consts or [],
                extra=extra_params, self_struct=self_struct, ctor_of=ctor_of)


KNOWN = ["progress_and_get_begin_idx", "get", "fetch_n", "early_exit", "initial_len"]
COUNTER_FNS = ["fetch_and_add", "fetch_and_increment", "current", "store", "swap"]
COUNTER_CLONE_RECV = {"self.counter"}
COUNTER_ARITY = {"fetch_and_add": 1, "fetch_and_increment": 0, "current": 0, "store": 1, "swap": 1}

TARGETS = [
    T("Counter", "iter/atomic_counter.rs", r"impl AtomicCounter", COUNTER_FNS, "CounterSelf"),
    # slice
    T("Slice", "iter/implementors/slice.rs", r"AtomicIter<&'a T> for ConIterOfSlice", ["counter", "progress_and_get_begin_idx", "get", "fetch_n", "early_exit"], "SliceSelf"),
    T("Slice", "iter/implementors/slice.rs", r"AtomicIterWithInitialLen<&'a T> for ConIterOfSlice", ["initial_len"], "SliceSelf"),
    T("Slice", "iter/implementors/slice.rs", r"impl<'a, T: Send \+ Sync> ConIterOfSlice", ["as_slice"], "SliceSelf"),
    T("Slice", "iter/atomic_iter.rs", r"trait AtomicIter<", ["fetch_one"], "SliceSelf"),
    T("Slice", "iter/implementors/slice.rs", r"ConcurrentIter for ConIterOfSlice", ["try_get_len", "into_seq_iter", "next_id_and_value", "next_chunk", "skip_to_end"], "SliceSelf"),
    T("BufSlice", "iter/buffered/slice.rs", r"BufferedChunk<&'a T> for BufferedSlice", ["chunk_size", "pull"], "BufSelf",
      params={"iter": "SliceSelf"}, recv={"iter": "Slice"}),
    # vec
    T("Vec", "iter/implementors/vec.rs", r"AtomicIter<T> for ConIterOfVec", ["counter", "progress_and_get_begin_idx", "get", "fetch_n", "early_exit"], "VecSelf"),
    T("Vec", "iter/implementors/vec.rs", r"AtomicIterWithInitialLen<T> for ConIterOfVec", ["initial_len"], "VecSelf"),
    T("Vec", "iter/implementors/vec.rs", r"impl<T: Send \+ Sync> ConIterOfVec", ["take_slice"], "VecSelf"),
    T("Vec", "iter/atomic_iter.rs", r"trait AtomicIter<", ["fetch_one"], "VecSelf"),
    T("Vec", "iter/implementors/vec.rs", r"ConcurrentIter for ConIterOfVec", ["try_get_len", "next_id_and_value", "next_chunk", "skip_to_end"], "VecSelf"),
    T("BufVec", "iter/buffered/vec.rs", r"BufferedChunk<T> for BufferedVec", ["chunk_size", "pull"], "BufSelf",
      params={"iter": "VecSelf"}, recv={"iter": "Vec"}),
    # array
    T("Arr", "iter/implementors/array.rs", r"AtomicIter<T> for ConIterOfArray", ["counter", "progress_and_get_begin_idx", "get", "fetch_n", "early_exit"], "ArrSelf", consts=["N"]),
    T("Arr", "iter/implementors/array.rs", r"AtomicIterWithInitialLen<T> for ConIterOfArray", ["initial_len"], "ArrSelf", consts=["N"]),
    T("Arr", "iter/implementors/array.rs", r"impl<const N: usize, T: Send \+ Sync> ConIterOfArray", ["take_slice"], "ArrSelf", consts=["N"]),
    T("Arr", "iter/atomic_iter.rs", r"trait AtomicIter<", ["fetch_one"], "ArrSelf", consts=["N"]),
    T("Arr", "iter/implementors/array.rs", r"ConcurrentIter for ConIterOfArray", ["try_get_len", "next_id_and_value", "next_chunk", "skip_to_end"], "ArrSelf", consts=["N"]),
    T("BufArr", "iter/buffered/array.rs", r"BufferedChunk<T> for BufferedArray", ["chunk_size", "pull"], "BufSelf",
      params={"iter": "ArrSelf"}, recv={"iter": "Arr"}, consts=["N"]),
    # range
    T("Range", "iter/implementors/range.rs", r"AtomicIter<Idx> for ConIterOfRange", ["counter", "progress_and_get_begin_idx", "get", "fetch_n", "early_exit"], "RangeSelf"),
    T("Range", "iter/implementors/range.rs", r"AtomicIterWithInitialLen<Idx> for ConIterOfRange", ["initial_len"], "RangeSelf"),
    T("Range", "iter/implementors/range.rs", r"impl<Idx> ConIterOfRange", ["range"], "RangeSelf"),
    T("Range", "iter/atomic_iter.rs", r"trait AtomicIter<", ["fetch_one"], "RangeSelf"),
    T("Range", "iter/implementors/range.rs", r"ConcurrentIter for ConIterOfRange", ["try_get_len", "into_seq_iter", "next_id_and_value", "next_chunk", "skip_to_end"], "RangeSelf"),
    T("BufRange", "iter/buffered/range.rs", r"BufferedChunk<Idx> for BufferedRange", ["chunk_size", "pull"], "BufSelf",
      params={"iter": "RangeSelf"}, recv={"iter": "Range"}),
]

# the trait's one-line default methods, instantiated per kind: `next` (= next_id_and_value().map(value)) and `has_more`
for (k, c) in (("Slice", []), ("Vec", []), ("Arr", ["N"]), ("Range", [])):
    TARGETS.append(T(k, "iter/con_iter.rs", r"trait ConcurrentIter", ["next", "has_more"], k + "Self", consts=c))
TARGETS.append(T("Iter", "iter/con_iter.rs", r"trait ConcurrentIter", ["has_more"], "IterSelf"))

# construction and cloning (C19): a new iterator is its storage plus a fresh counter with an initial value
CT = "iter/constructors/implementors/"
TARGETS += [
    T("NewCounter", "iter/atomic_counter.rs", r"impl AtomicCounter", ["new"], None, self_struct="CounterNew", params={}),
    T("NewCounter", "iter/atomic_counter.rs", r"impl Clone for AtomicCounter", ["clone"], "CounterSelf", self_struct="CounterNew"),
    T("NewSlice", "iter/implementors/slice.rs", r"impl<'a, T: Send \+ Sync> ConIterOfSlice", ["new"], None, self_struct="SliceNew", params={"slice": "SliceObj"}),
    T("NewSlice", "iter/implementors/slice.rs", r"Clone for ConIterOfSlice", ["clone"], "SliceSelf", self_struct="SliceNew"),
    T("NewRange", "iter/implementors/range.rs", r"impl<Idx> ConIterOfRange", ["new"], None, self_struct="RangeNew", params={"range": "RangeObj"}),
    T("NewVec", "iter/implementors/vec.rs", r"impl<T: Send \+ Sync> ConIterOfVec", ["new"], None, self_struct="VecNew", params={"vec": "VecObj"}),
    T("NewArr", "iter/implementors/array.rs", r"impl<const N: usize, T: Send \+ Sync> ConIterOfArray", ["new"], None, self_struct="ArrNew", params={"array": "ArrObj"}),
    T("NewIter", "iter/implementors/iter.rs", r"impl<T: Send \+ Sync, Iter> ConIterOfIter", ["new"], None, self_struct="IterNew", params={"iter": "WrappedIt"}),
    T("CtorVec", CT + "vec.rs", r"ConcurrentIterable for Vec<T>", ["con_iter"], "VecObj", ctor_of="NewSlice"),
    T("CtorVec", CT + "vec.rs", r"IntoConcurrentIter for Vec<T>", ["into_con_iter"], "VecObj", ctor_of="NewVec"),
    T("CtorArr", CT + "array.rs", r"ConcurrentIterable for \[T; N\]", ["con_iter"], "ArrObj", ctor_of="NewSlice"),
    T("CtorArr", CT + "array.rs", r"IntoConcurrentIter for \[T; N\]", ["into_con_iter"], "ArrObj", ctor_of="NewArr"),
    T("CtorSlice", CT + "slice.rs", r"ConcurrentIterable for &'a \[T\]", ["con_iter"], "SliceObj", ctor_of="NewSlice"),
    T("CtorSlice", CT + "slice.rs", r"IntoConcurrentIter for &'a \[T\]", ["into_con_iter"], "SliceObj", ctor_of="NewSlice"),
    T("CtorRange", CT + "range.rs", r"ConcurrentIterable for Range<Idx>", ["con_iter"], "RangeObj", ctor_of="NewRange"),
    T("CtorRange", CT + "range.rs", r"IntoConcurrentIter for Range<Idx>", ["into_con_iter"], "RangeObj", ctor_of="NewRange"),
]

# the non-blocking functions of the wrapper over an arbitrary Iterator (the ticket protocol itself -- spin loop, lazy
# iterator pipeline -- is outside the subset: it is the hand-written small-step model IW/Core.lean, tied by traces)
TARGETS.append(T("Iter", "iter/implementors/iter.rs", r"impl<T: Send \+ Sync, Iter> ConIterOfIter", ["progress_yielded_counter", "mark_completed"], "IterSelf"))
TARGETS.append(T("Iter", "iter/implementors/iter.rs", r"AtomicIter<T> for ConIterOfIter", ["counter", "early_exit"], "IterSelf"))
TARGETS.append(T("Iter", "iter/implementors/iter.rs", r"ConcurrentIter for ConIterOfIter", ["try_get_len", "into_seq_iter", "skip_to_end"], "IterSelf"))

# cloned() / copied() over the slice iterator (vecref / arrref are slice iterators too)
for (A, f, bf, big) in (("Cloned", "iter/cloned.rs", "iter/buffered/cloned_buffered_chunk.rs", "ClonedBufferedChunk"),
                        ("Copied", "iter/copied.rs", "iter/buffered/copied_buffered_chunk.rs", "CopiedBufferedChunk")):
    TARGETS.append(T(A, f, r"impl<'a, T, A> %s<'a, T, A>" % A, ["underlying_iter"], "AdaptSelf SliceSelf"))
    TARGETS.append(T(A, f, r"AtomicIter<T> for %s" % A, ["counter", "progress_and_get_begin_idx", "get", "fetch_n", "early_exit"],
                     "AdaptSelf SliceSelf", recv={"self.iter": "Slice"}))
    TARGETS.append(T(A, f, r"AtomicIterWithInitialLen<T> for %s" % A, ["initial_len"], "AdaptSelf SliceSelf", recv={"self.iter": "Slice"}))
    TARGETS.append(T(A, "iter/atomic_iter.rs", r"trait AtomicIter<", ["fetch_one"], "AdaptSelf SliceSelf"))
    TARGETS.append(T(A, f, r"ConcurrentIter for %s" % A, ["into_seq_iter", "next_id_and_value", "next_chunk", "skip_to_end", "try_get_len"],
                     "AdaptSelf SliceSelf", recv={"self.iter": "Slice"}))
    TARGETS.append(T("Buf" + A, bf, r"BufferedChunk<T> for %s" % big, ["chunk_size", "pull"], "AdaptBufSelf",
                     params={"iter": "AdaptSelf SliceSelf"}, recv={"self.chunk": "BufSlice", "iter": A}))
    TARGETS.append(T("BufferedIter" + A, "iter/buffered/buffered_iter.rs", r"impl<'a, T, B> BufferedIter", ["next"],
                     "BufferedIterSelfA (AdaptSelf SliceSelf)", recv={"self.atomic_iter": A, "self.buffered_iter": "Buf" + A}))

# BufferedIter::next / new, instantiated per kind
for (k, b) in (("Slice", "BufSlice"), ("Vec", "BufVec"), ("Arr", "BufArr"), ("Range", "BufRange")):
    TARGETS.append(T("BufferedIter" + k, "iter/buffered/buffered_iter.rs", r"impl<'a, T, B> BufferedIter", ["next"],
                     "BufferedIterSelf %sSelf" % k, recv={"self.atomic_iter": k, "self.buffered_iter": b},
                     consts=(["N"] if k == "Arr" else [])))
TARGETS.append(T("BufferedIterNew", "iter/buffered/buffered_iter.rs", r"impl<'a, T, B> BufferedIter", ["new"], None,
                 params={"buffered_iter": "BufSelf", "atomic_iter": "Unit"}, recv={"buffered_iter": "BufAny"}))


# the ticket protocol of the wrapper, translated to program trees (Orx/RS/Prog.lean); `lets`: `let`-bound names that are not `Nat`
IT = "iter/implementors/iter.rs"
PTARGETS = [
    dict(ns="Counter", file="iter/atomic_counter.rs", impl=r"impl AtomicCounter", fns=["fetch_and_add", "fetch_and_increment", "current"], self_ty="CounterSelf"),
    dict(ns="Guard", file=IT, impl=r"impl Drop for CompleteOnUnwind", fns=["drop"], self_ty="CompleteOnUnwind"),
    dict(ns="Guard", file=IT, impl=r"impl CompleteOnUnwind", fns=["disarm"], self_ty="CompleteOnUnwind", drop_self=True),
    dict(ns="Iter", file=IT, impl=r"impl<T: Send \+ Sync, Iter> ConIterOfIter", fns=["mut_iter", "progress_yielded_counter", "mark_completed", "complete_on_unwind"], self_ty="IterSelf"),
    dict(ns="Iter", file=IT, impl=r"AtomicIter<T> for ConIterOfIter", fns=["counter", "progress_and_get_begin_idx", "get", "fetch_n", "early_exit"], self_ty="IterSelf"),
    dict(ns="Iter", file="iter/atomic_iter.rs", impl=r"trait AtomicIter<", fns=["fetch_one"], self_ty="IterSelf"),
    dict(ns="Iter", file=IT, impl=r"ConcurrentIter for ConIterOfIter", fns=["next_id_and_value", "next_chunk", "skip_to_end"], self_ty="IterSelf"),
]
PTARGETS += [
    dict(ns="BufIter", file="iter/buffered/iter.rs", impl=r"BufferedChunk<T> for BufferIter", fns=["new"], self_ty=None, self_struct="BufIterSelf"),
    dict(ns="BufIter", file="iter/buffered/iter.rs", impl=r"BufferedChunk<T> for BufferIter", fns=["chunk_size", "pull"], self_ty="BufIterSelf",
         params={"iter": "IterSelf"}, recv={"iter": "Iter"}, mutable=["pull"], lets={"core_iter": "WrappedH", "guard": "CompleteOnUnwind"}),
    dict(ns="BufferedIterIter", file="iter/buffered/buffered_iter.rs", impl=r"impl<'a, T, B> BufferedIter", fns=["next"], self_ty="BufferedIterSelfP",
         recv={"self.atomic_iter": "Iter", "self.buffered_iter": "BufIter"}, mutable=["next"]),
    dict(ns="ChunkIt", file="iter/buffered/iter.rs", impl=r"Iterator for BufferedIter<'a, T>", fns=["next", "size_hint"], self_ty="BufferedIter", mutable=["next"],
         lets={"next": "Option Nat"}),
    dict(ns="ChunkIt", file="iter/buffered/iter.rs", impl=r"ExactSizeIterator for BufferedIter<'a, T>", fns=["len"], self_ty="BufferedIter"),
]
# cloned() / copied() over the wrapper (an iterator of references): every function forwards to the wrapper's
for (A, f, bf, big) in (("ClonedI", "iter/cloned.rs", "iter/buffered/cloned_buffered_chunk.rs", "ClonedBufferedChunk"),
                        ("CopiedI", "iter/copied.rs", "iter/buffered/copied_buffered_chunk.rs", "CopiedBufferedChunk")):
    short = A[:-1]
    PTARGETS += [
        dict(ns=A, file=f, impl=r"impl<'a, T, A> %s<'a, T, A>" % short, fns=["underlying_iter"], self_ty="AdaptSelfP"),
        dict(ns=A, file=f, impl=r"AtomicIter<T> for %s" % short, fns=["counter", "progress_and_get_begin_idx", "get", "fetch_n", "early_exit"],
             self_ty="AdaptSelfP", recv={"self.iter": "Iter"}),
        dict(ns=A, file="iter/atomic_iter.rs", impl=r"trait AtomicIter<", fns=["fetch_one"], self_ty="AdaptSelfP"),
        dict(ns=A, file=f, impl=r"ConcurrentIter for %s" % short, fns=["next_id_and_value", "next_chunk", "skip_to_end"], self_ty="AdaptSelfP",
             recv={"self.iter": "Iter"}),
        dict(ns="Buf" + A, file=bf, impl=r"BufferedChunk<T> for %s" % big, fns=["chunk_size", "pull"], self_ty="AdaptBufSelfP",
             params={"iter": "AdaptSelfP"}, recv={"self.chunk": "BufIter", "iter": A}, mutable=["pull"]),
        dict(ns="BufferedIter" + A, file="iter/buffered/buffered_iter.rs", impl=r"impl<'a, T, B> BufferedIter", fns=["next"], self_ty="BufferedIterSelfPA",
             recv={"self.atomic_iter": A, "self.buffered_iter": "Buf" + A}, mutable=["next"]),
    ]
P_OUT = os.path.join(os.path.dirname(OUT), "ProtoIter.lean")


def main_prog(PTARGETS=None, P_OUT=None, own=False):
    """second pass: the blocking functions of `ConIterOfIter` as program trees -> Generated/ProtoIter.lean;
    third pass (`own`): the owner-side code of the consuming kinds -> Generated/Own.lean (prelude RS/Own.lean)"""
    if PTARGETS is None:
        PTARGETS, P_OUT = globals()["PTARGETS"], globals()["P_OUT"]
    nsf = {}
    for t in PTARGETS:
        nsf.setdefault(t["ns"], set()).update(t["fns"])
    chunks, report = [], []
    for t in PTARGETS:
        text = strip_comments(open(os.path.join(SRC, t["file"])).read())
        for fn in t["fns"]:
            params, body = find_fn(text, t["impl"], fn)
            has_self, plist = param_list(params, t.get("params", {}))
            ast = P(tokenize(body) + [("eof", "")]).block()
            if t.get("drop_self"):
                # the function takes `self` by value: it is dropped when the function returns
                ast = ("block", ast[1] + ([("expr", ast[2])] if ast[2] is not None else []) + [("expr", ("mcall", ("id", "self"), "drop", []))], None)
            by_value = own and re.match(r"^\s*(mut\s+)?self\s*(,|$)", params) is not None
            forgets = 'mem_forget self' in repr_calls(ast)
            if by_value and not forgets:
                # the same for a function with a result: the tail expression is evaluated, then `self` is dropped
                ast = ("block", ast[1] + [("let", ("pvar", "ret__"), ast[2]), ("expr", ("mcall", ("id", "self"), "drop", []))], ("id", "ret__"))
            scope = ([("self", t["self_ty"])] if has_self else []) + [(n, ty) for (n, ty) in plist]
            recv = {} if own else {"guard": ("Guard", nsf["Guard"])}
            for k, v in t.get("recv", {}).items():
                recv[k] = (v, nsf.get(v, set()))
            is_mut = own or fn in t.get("mutable", [])
            cls = OEmitter if own else (MEmitter if is_mut else PEmitter)
            em = cls(t["ns"], nsf[t["ns"]], recv, t.get("consts", []), fn, scope, t.get("lets", {}))
            mut_self = is_mut and re.search(r"&\s*mut\s+self", params) is not None
            if own:
                em.prepare(ast)
                em.self_struct = "Taken" if t["ns"] == "Taken" else None
                em.recv["TakenTy__"] = ("Taken", nsf["Taken"])
            elif t.get("self_struct"):
                em.self_struct = t["self_struct"]
            term = fn_body_mut(em, ast, 2, mut_self) if is_mut else em.do_block(ast, 2)
            sig = " {ρ' : Type} (fuel : Nat)" + "".join(" (%s : Nat)" % c for c in t.get("consts", [])) + "".join(" (%s : %s)" % (lid(n), ty) for (n, ty) in scope)
            if t.get("consts"):
                for ns2, fns2 in nsf.items():
                    if ns2 == t["ns"]:
                        for f2 in fns2:
                            term = re.sub(r"\b%s\.%s fuel\b(?! N\b)" % (ns2, re.escape(lid(f2))), "%s.%s fuel N" % (ns2, lid(f2)), term)
            for (hn, htext) in em.hoisted:
                chunks.append((hn, htext, htext))
            name = "%s.%s" % (t["ns"], lid(fn))
            chunks.append((name, "/-- `%s::%s` (src/%s) -/\ndef %s%s :=\n  (m_fn (%s : PF _ _) : PF ρ' _)\n" % (t["ns"], fn, t["file"], name, sig, term), term))
            report.append((t["ns"], fn, em.unsupported))
    names = [c[0] for c in chunks]
    deps = {n: [m for m in names if m != n and re.search(r"(?<![\w.])%s(?![\w.])" % re.escape(m), term)] for (n, _, term) in chunks}
    done, order = set(), []

    def visit(n, stack=()):
        if n in done:
            return
        if n in stack:
            raise SyntaxError("recursive functions: " + " -> ".join(stack + (n,)))
        for m in deps[n]:
            visit(m, stack + (n,))
        done.add(n)
        order.append(n)
    for n in names:
        visit(n)
    text_of = {c[0]: c[1] for c in chunks}
    if own:
        body = ("/- GENERATED by tools/rs2lean.py from the Rust sources on every run -- do not edit. -/\n"
                "import Orx.RS.Own\nset_option linter.unusedVariables false\nnamespace Orx.GenO\nopen Orx Orx.RSO\n"
                "open Orx.RS (AtomicH CounterSelf Next NextChunk Ord3)\n\n" +
                "\n".join(text_of[n] for n in order) + "\n" + own_facts() + "end Orx.GenO\n")
    else:
        body = ("/- GENERATED by tools/rs2lean.py from the Rust sources on every run -- do not edit. -/\n"
            "import Orx.RS.Prog\nset_option linter.unusedVariables false\nnamespace Orx.GenP\nopen Orx Orx.RSP\n"
            "open Orx.RS (AtomicH CounterSelf AtomicBoolH Next NextChunk Ord3)\n\n" +
            "\n".join(text_of[n] for n in order) + "\n" + proto_facts() + "end Orx.GenP\n")
    old = open(P_OUT).read() if os.path.exists(P_OUT) else None
    if old != body:
        open(P_OUT, "w").write(body)
    return report



# ---------------------------------------------------------------------------------------------------
# third pass: owner-side code of the consuming kinds (prelude Orx/RS/Own.lean)

OWNED_TYPES = {"VecVal"}
MUT_PRIMS = {"set_len", "split_off"}          # `&mut self` std methods: the primitive returns (result, new receiver)
CONSUMING = {"into_iter"}                     # methods taking `self` by value


class OEmitter(MEmitter):
    """MEmitter + owned locals: a `let` of an owned type is registered (`m_owned_push`), kept up to date after every
    mutation (`m_owned_set`), forgotten when it is moved (`m_owned_forget`) and dropped at the end of its block
    (`m_owned_drop`); `m_fn` drops what is still registered when the function unwinds."""

    MUT_FNS = set()

    def __init__(self, *a, **kw):
        super().__init__(*a, **kw)
        self.owned_id = {}
        self.live = []           # owned locals alive, in declaration order

    def gen_call(self, fn):
        if fn.startswith("m_"):
            return fn
        if self.consts and fn.split(".")[0] == self.ns:
            return fn + " fuel " + " ".join(self.consts)
        return fn + " fuel"

    def prepare(self, ast):
        # every use of an owned local outside the recognised positions is outside the subset
        for n, ty in self.let_types.items():
            if ty in OWNED_TYPES:
                self.owned_id[n] = len(self.owned_id)

    def is_owned(self, e):
        return e[0] == "id" and e[1] in self.owned_id and e[1] in self.live

    def forget(self, n):
        self.live.remove(n)
        return ["let _ ← m_owned_forget %d" % self.owned_id[n]]

    def ex(self, e, ind):
        k = e[0]
        if k == "mcall" and e[2] in MUT_PRIMS and e[1][0] == "id":
            n = e[1][1]
            ls, atoms = [], []
            for x in e[3]:
                l, a = self.ex(x, ind)
                ls += l
                atoms.append(a)
            t = self.fresh()
            ls.append("let %s ← m_%s %s" % (t, e[2], " ".join([lid(n)] + atoms)))
            ls.append("%s := %s.2" % (lid(n), t))
            if n in self.live:
                ls.append("let _ ← m_owned_set %d %s" % (self.owned_id[n], lid(n)))
            return ls, "%s.1" % t
        if k == "mcall" and e[2] in CONSUMING and self.is_owned(e[1]):
            ls, a = MEmitter.ex(self, e, ind)
            return ls + self.forget(e[1][1]), a
        if k == "call" and e[1][0] == "path" and e[1][1][-2:] == ["Taken", "new"]:
            ls, a = MEmitter.ex(self, ("mcall", ("id", "TakenTy__"), "new", e[2]), ind)
            return [l.replace(" TakenTy__", "") for l in ls], a
        if k == "call":
            moved = [x[1] for x in e[2] if self.is_owned(x)]
            ls, a = MEmitter.ex(self, e, ind)
            for n in moved:
                ls += self.forget(n)
            return ls, a
        if k == "path" and len(e[1]) >= 2 and e[1][-1] == "uninit":
            return [], "MaybeUninit_uninit"
        return MEmitter.ex(self, e, ind)

    def stmt_expr(self, e, ind):
        if e[0] == "assign" and e[1] == "=" and e[2][0] == "unary" and e[2][1] == "*" and e[2][2][0] == "id":
            ls, a = self.ex(e[3], ind)
            return ls + ["let _ ← m_write_cell %s %s" % (lid(e[2][2][1]), a)]
        return MEmitter.stmt_expr(self, e, ind)

    def after_let(self, st, lines, declared_owned):
        if st[1][0] == "pvar" and st[1][1] in self.owned_id:
            n = st[1][1]
            lines.append("let _ ← m_owned_push %d %s" % (self.owned_id[n], lid(n)))
            self.live.append(n)
            declared_owned.append(n)

    def end_of_block(self, declared, final):
        out = []
        if final is not None and final[0] == "id" and final[1] in declared and final[1] in self.live:
            out += self.forget(final[1])
        for n in reversed(declared):
            if n in self.live:
                self.live.remove(n)
                out.append("let _ ← m_owned_drop %d" % self.owned_id[n])
        return out


O_OUT = os.path.join(os.path.dirname(OUT), "Own.lean")
TK = "iter/implementors/taken.rs"
VR = "iter/implementors/vec.rs"
AR = "iter/implementors/array.rs"
OTARGETS = [
    dict(ns="Counter", file="iter/atomic_counter.rs", impl=r"impl AtomicCounter", fns=["fetch_and_add", "fetch_and_increment", "current", "swap"], self_ty="CounterSelf"),
    dict(ns="Taken", file=TK, impl=r"impl<T> Taken<T>", fns=["new"], self_ty=None, params={"ptr": "Ptr"}),
    dict(ns="Taken", file=TK, impl=r"impl<T> Iterator for Taken<T>", fns=["next", "size_hint"], self_ty="Taken"),
    dict(ns="Taken", file=TK, impl=r"impl<T> Drop for Taken<T>", fns=["drop"], self_ty="Taken"),
    dict(ns="Vec", file=VR, impl=r"impl<T: Send \+ Sync> Drop for ConIterOfVec", fns=["drop"], self_ty="VecSelf", lets={"vec": "VecVal"}),
    dict(ns="Vec", file=VR, impl=r"impl<T: Send \+ Sync> ConIterOfVec", fns=["take_one", "take_slice", "split_off_right"], self_ty="VecSelf",
         lets={"left_vec": "VecVal", "right_vec": "VecVal", "value": "MaybeUninitH"}),
    dict(ns="Vec", file=VR, impl=r"AtomicIter<T> for ConIterOfVec", fns=["counter", "progress_and_get_begin_idx", "get", "fetch_n", "early_exit"], self_ty="VecSelf"),
    dict(ns="Vec", file=VR, impl=r"AtomicIterWithInitialLen<T> for ConIterOfVec", fns=["initial_len"], self_ty="VecSelf"),
    dict(ns="Vec", file="iter/atomic_iter.rs", impl=r"trait AtomicIter<", fns=["fetch_one"], self_ty="VecSelf"),
    dict(ns="Vec", file=VR, impl=r"ConcurrentIter for ConIterOfVec", fns=["into_seq_iter"], self_ty="VecSelf",
         lets={"remaining_vec": "VecVal"}),
    dict(ns="Arr", file=AR, impl=r"Drop for ConIterOfArray", fns=["drop"], self_ty="ArrSelf", consts=["N"], lets={"_remaining_vec_to_be_dropped": "VecVal"}),
    dict(ns="Arr", file=AR, impl=r"impl<const N: usize, T: Send \+ Sync> ConIterOfArray", fns=["take_one", "take_slice", "split_off_right"], self_ty="ArrSelf",
         consts=["N"], lets={"value": "MaybeUninitH"}),
    dict(ns="Arr", file=AR, impl=r"AtomicIter<T> for ConIterOfArray", fns=["counter", "progress_and_get_begin_idx", "get", "fetch_n", "early_exit"], self_ty="ArrSelf", consts=["N"]),
    dict(ns="Arr", file=AR, impl=r"AtomicIterWithInitialLen<T> for ConIterOfArray", fns=["initial_len"], self_ty="ArrSelf", consts=["N"]),
    dict(ns="Arr", file="iter/atomic_iter.rs", impl=r"trait AtomicIter<", fns=["fetch_one"], self_ty="ArrSelf", consts=["N"]),
    dict(ns="Arr", file=AR, impl=r"ConcurrentIter for ConIterOfArray", fns=["into_seq_iter"], self_ty="ArrSelf", consts=["N"],
         lets={"remaining_vec": "VecVal"}),
]


def repr_calls(e, acc=None):
    """`f x` for every call of a path / identifier on a single identifier argument, as text"""
    top = acc is None
    acc = [] if top else acc
    if isinstance(e, tuple):
        if e and e[0] == "call" and len(e[2]) == 1 and e[2][0][0] == "id":
            f = e[1]
            name = "_".join(f[1][-2:]) if f[0] == "path" else (f[1] if f[0] == "id" else "?")
            acc.append("%s %s" % (name, e[2][0][1]))
        for x in e:
            repr_calls(x, acc)
    elif isinstance(e, list):
        for x in e:
            repr_calls(x, acc)
    return " ; ".join(acc) if top else None


def impl_fn_names(text, impl_pat):
    """names of the functions defined in the first impl block matching impl_pat"""
    for m in re.finditer(r"^(?:unsafe\s+)?impl\b[^{;]*\{", text, flags=re.M):
        if re.search(impl_pat, m.group(0)):
            end = match_brace(text, m.end() - 1)
            return re.findall(r"\bfn\s+(\w+)", text[m.end():end])
    raise LookupError("no impl matching " + impl_pat)


def proto_facts():
    """which `Iterator` / `ExactSizeIterator` methods the wrapper's chunk value iterator defines, and whether it has a `Drop`"""
    txt = strip_comments(open(os.path.join(SRC, "iter/buffered/iter.rs")).read())
    it = impl_fn_names(txt, r"Iterator for BufferedIter<'a, T>")
    ex = impl_fn_names(txt, r"ExactSizeIterator for BufferedIter<'a, T>")
    has_drop = re.search(r"impl[^{;]*\bDrop\s+for\s+BufferedIter\s*<", txt) is not None
    return ("/-- the `Iterator` methods the chunk value iterator of buffered/iter.rs defines (every other one is std's default over `next`) -/\n"
            "def ChunkIt.iterator_overrides : List String := [%s]\n\n"
            "/-- its `ExactSizeIterator` methods -/\ndef ChunkIt.exact_size_overrides : List String := [%s]\n\n"
            "/-- whether it has a `Drop` impl (it has none: unconsumed slots stay in the buffer, which owns them) -/\n"
            "def ChunkIt.has_drop : Bool := %s\n\n" % (", ".join('"%s"' % n for n in it), ", ".join('"%s"' % n for n in ex), "true" if has_drop else "false"))


def own_facts():
    """facts about the source that the ownership theorems read besides the function bodies"""
    tk = strip_comments(open(os.path.join(SRC, TK)).read())
    names = impl_fn_names(tk, r"impl<T> Iterator for Taken<T>")
    out = ["/-- the methods of `Iterator` that `Taken` overrides (every other one is std's default, built on `next`) -/",
           "def Taken.iterator_overrides : List String := [%s]\n" % ", ".join('"%s"' % n for n in names)]
    for (ns, f, field) in (("Vec", VR, "vec"), ("Arr", AR, "array")):
        txt = strip_comments(open(os.path.join(SRC, f)).read())
        sm = re.search(r"\bstruct\s+ConIterOf\w+[^{;]*\{", txt)
        blk = txt[sm.end():match_brace(txt, sm.end() - 1)] if sm else ""
        m = re.search(r"\b%s\s*:\s*([^\n]*?),\s*\n" % field, blk)
        ty = m.group(1).strip() if m else "?"
        out.append("/-- the type of the storage field `%s` (a `ManuallyDrop`: no destructor runs for the field itself) -/" % field)
        out.append('def %s.storage_field_type : String := "%s"\n' % (ns, re.sub(r"\s+", "", ty)))
    return "\n".join(out) + "\n"



# ---------------------------------------------------------------------------------------------------
# fourth pass: the default loops over an abstract known-size iterator (prelude Orx/RS/Loop.lean)

CLOSURE_TYPES = {"Closure1": 1, "ClosureIdx": 2, "ClosureFold": 2}


class LEmitter(MEmitter):
    """MEmitter + calls of closure-typed locals (`f(x)` -> `m_call1 f x`) and `for PAT in EXPR { .. }`"""

    MUT_FNS = set()

    def closure_arity(self, name):
        return CLOSURE_TYPES.get(self.ty_of(name))

    def ex(self, e, ind):
        if e[0] == "call" and e[1][0] == "id" and self.closure_arity(e[1][1]) is not None:
            ls, atoms = [], []
            for x in e[2]:
                l, a = self.ex(x, ind)
                ls += l
                atoms.append(a)
            t = self.fresh()
            return ls + ["let %s ← m_call%d %s %s" % (t, len(atoms), lid(e[1][1]), " ".join(atoms))], t
        if e[0] == "unary" and e[1] == "&mut":
            return self.ex(e[2], ind)
        return MEmitter.ex(self, e, ind)

    def stmts(self, stmts, final, ind, tail=None, capture=None):
        # `let mut f = fun;` keeps the closure type
        for st in stmts:
            if st[0] == "let" and st[1][0] == "pvar" and st[2][0] == "id" and self.ty_of(st[2][1]) in CLOSURE_TYPES:
                self.let_types[st[1][1]] = self.ty_of(st[2][1])
        return MEmitter.stmts(self, stmts, final, ind, tail=tail, capture=capture)

    def stmt_expr(self, e, ind):
        if e[0] == "for":
            pat, it, body = e[1], e[2], e[3]
            if has_node(body, "break") or has_node(body, "return"):
                return ["let _ ← %s" % self.unsup("break / return inside a for loop")]
            ls, x = self.ex(it, ind)
            in_scope = [n for (n, _) in self.scope]
            state = [v for v in dict.fromkeys(in_scope) if v in assigned_in(body, set())]
            mark = len(self.scope)
            for v in pat_vars(pat, []):
                self.bind(v)
            pad2 = " " * (ind + 2)
            if not state:
                inner = self.stmts(body[1], body[2], ind + 2, tail="pure ()")
                del self.scope[mark:]
                return ls + ["let _ ← m_for_in %s (fun %s => do\n%s)" % (x, self.pat(pat), "\n".join(pad2 + l for l in inner))]
            st_tuple = "(%s)" % ", ".join(lid(v) for v in state) if len(state) > 1 else lid(state[0])
            inner = ["let mut %s := %s" % (lid(v), "st__" if len(state) == 1 else proj_of("st__", k2, len(state))) for k2, v in enumerate(state)]
            inner += self.stmts(body[1], body[2], ind + 2, tail="pure %s" % st_tuple)
            del self.scope[mark:]
            t = self.fresh()
            out = ls + ["let %s ← m_for_in_st %s %s (fun st__ %s => do\n%s)" % (t, x, st_tuple, self.pat(pat), "\n".join(pad2 + l for l in inner))]
            for k2, v in enumerate(state):
                out.append("%s := %s" % (lid(v), t if len(state) == 1 else proj_of(t, k2, len(state))))
            return out
        return MEmitter.stmt_expr(self, e, ind)


L_OUT = os.path.join(os.path.dirname(OUT), "Loops.lean")
LTARGETS = [
    dict(ns="Loops", file="iter/default_fns/for_each.rs", impl=None, fns=["for_each"], self_ty=None,
         params={"iter": "ItH", "fun": "Closure1"}),
    dict(ns="Loops", file="iter/default_fns/for_each.rs", impl=None, fns=["for_each_with_ids"], self_ty=None,
         params={"iter": "ItH", "fun": "ClosureIdx"}),
    dict(ns="Loops", file="iter/default_fns/fold.rs", impl=None, fns=["fold"], self_ty=None,
         params={"iter": "ItH", "fold": "ClosureFold", "neutral": "Nat"}, lets={"buffered_iter": "BufH"}),
]


def find_free_fn(text, fn):
    """(params text, body text) of a free function `fn <fn>`"""
    fm = re.search(r"\bfn\s+%s\s*(?:<[^>]*>)?\s*\(" % re.escape(fn), text)
    if not fm:
        raise LookupError("free fn %s not found" % fn)
    p0 = fm.end() - 1
    p1 = match_brace(text, p0, "(", ")")
    b0 = text.index("{", p1)
    b1 = match_brace(text, b0)
    return text[p0 + 1:p1], text[b0:b1 + 1]


LTARGETS += [
    dict(ns="Values", file="iter/wrappers/values.rs", impl=r"Iterator for ConIterValues", fns=["next"], self_ty="ValuesH"),
    dict(ns="IdsAndValues", file="iter/wrappers/ids_and_values.rs", impl=r"Iterator for ConIterIdsAndValues", fns=["next"], self_ty="ValuesH"),
]


def main_loops():
    chunks, report = [], []
    for t in LTARGETS:
        text = strip_comments(open(os.path.join(SRC, t["file"])).read())
        for fn in t["fns"]:
            if t.get("impl"):
                params, body = find_fn(text, t["impl"], fn)
            else:
                params, body = find_free_fn(text, fn)
            _, plist = param_list(params, t.get("params", {}))
            if t.get("self_ty"):
                plist = [("self", t["self_ty"])] + plist
            ast = P(tokenize(body) + [("eof", "")]).block()
            scope = [(n, ty) for (n, ty) in plist]
            lets = dict(t.get("lets", {}))
            lets.setdefault("buffered_iter", "BufH")
            em = LEmitter(t["ns"], set(), {}, [], fn, scope, lets)
            term = fn_body_mut(em, ast, 2, False)
            sig = " {ρ' : Type} (fuel : Nat)" + "".join(" (%s : %s)" % (lid(n), ty) for (n, ty) in scope)
            for (hn, htext) in em.hoisted:
                chunks.append(htext)
            name = "%s.%s" % (t["ns"], lid(fn))
            chunks.append("/-- `%s` (src/%s) -/\ndef %s%s :=\n  (m_fn (%s : PF _ _) : PF ρ' _)\n" % (fn, t["file"], name, sig, term))
            report.append((t["ns"], fn, em.unsupported))
    # the trait's default methods dispatch to these functions with the arguments in this order
    ci = strip_comments(open(os.path.join(SRC, "iter/con_iter.rs")).read())
    disp = []
    for (m, callee) in (("for_each", "for_each::for_each"), ("enumerate_for_each", "for_each::for_each_with_ids"), ("fold", "fold::fold")):
        mm = re.search(r"\bfn\s+%s\b.*?\{\s*(default_fns::%s\s*\([^;{}]*\))\s*;?\s*\}" % (m, re.escape(callee)), ci, flags=re.S)
        disp.append('("%s", "%s")' % (m, re.sub(r"\s+", "", mm.group(1)) if mm else "?"))
    facts = ("/-- how `ConcurrentIter::{for_each, enumerate_for_each, fold}` (src/iter/con_iter.rs) call the functions above -/\n"
             "def Loops.dispatch : List (String × String) := [%s]\n" % ", ".join(disp))
    for (ns, f, pat) in (("Values", "iter/wrappers/values.rs", r"Iterator for ConIterValues"),
                         ("IdsAndValues", "iter/wrappers/ids_and_values.rs", r"Iterator for ConIterIdsAndValues")):
        names = impl_fn_names(strip_comments(open(os.path.join(SRC, f)).read()), pat)
        facts += ("\n/-- the methods of `Iterator` the wrapper overrides (every other one is std's default, built on `next`) -/\n"
                  "def %s.iterator_overrides : List String := [%s]\n" % (ns, ", ".join('"%s"' % n for n in names)))
    body = ("/- GENERATED by tools/rs2lean.py from the Rust sources on every run -- do not edit. -/\n"
            "import Orx.RS.Loop\nset_option linter.unusedVariables false\nnamespace Orx.GenL\nopen Orx Orx.RSL\n"
            "open Orx.RS (Next NextChunk Span)\n\n" + "\n".join(chunks) + "\n" + facts + "\nend Orx.GenL\n")
    old = open(L_OUT).read() if os.path.exists(L_OUT) else None
    if old != body:
        open(L_OUT, "w").write(body)
    return report


def ctor_facts():
    """`#[derive(..)]` of the range iterator and the absence of a hand-written `Clone` for it"""
    txt = strip_comments(open(os.path.join(SRC, "iter/implementors/range.rs")).read())
    m = re.search(r"#\[derive\(([^)]*)\)\]\s*pub struct ConIterOfRange", txt)
    ders = [d.strip() for d in m.group(1).split(",")] if m else []
    manual = re.search(r"impl[^{;]*\bClone\s+for\s+ConIterOfRange", txt) is not None
    sl = strip_comments(open(os.path.join(SRC, "iter/implementors/slice.rs")).read())
    ac = strip_comments(open(os.path.join(SRC, "iter/atomic_counter.rs")).read())
    scl = impl_fn_names(sl, r"\bClone\s+for\s+ConIterOfSlice")
    ccl = impl_fn_names(ac, r"\bClone\s+for\s+AtomicCounter")
    extra = ("\n/-- the methods the hand-written `Clone for ConIterOfSlice` / `Clone for AtomicCounter` define (`clone_from` is then std's\n"
             "default, `*self = source.clone()`) -/\ndef NewSlice.clone_methods : List String := [%s]\ndef NewCounter.clone_methods : List String := [%s]\n"
             % (", ".join('"%s"' % n for n in scl), ", ".join('"%s"' % n for n in ccl)))
    return extra + ("\n/-- the derives of `ConIterOfRange` (a derived `Clone` clones field by field) -/\n"
            "def Range.derives : List String := [%s]\n\n/-- whether range.rs has a hand-written `impl Clone for ConIterOfRange` -/\n"
            "def Range.manual_clone : Bool := %s\n" % (", ".join('"%s"' % d for d in ders), "true" if manual else "false"))


def ns_functions():
    """namespace -> set of generated function names"""
    out = {}
    for t in TARGETS:
        out.setdefault(t["ns"], set()).update(t["fns"])
    out["BufAny"] = {"chunk_size"}
    return out


def param_list(ptext, overrides):
    """[(name, lean type)] for the non-self parameters"""
    out = []
    depth = 0
    cur = ""
    parts = []
    for ch in ptext:
        if ch in "<([":
            depth += 1
        elif ch in ">)]":
            depth -= 1
        if ch == "," and depth == 0:
            parts.append(cur)
            cur = ""
        else:
            cur += ch
    if cur.strip():
        parts.append(cur)
    has_self = False
    for p in parts:
        p = p.strip()
        if re.match(r"^(&\s*)?(mut\s+)?(&\s*mut\s+)?self$", p) or p in ("&self", "&mut self", "self", "mut self"):
            has_self = True
            continue
        name, _, ty = p.partition(":")
        name = name.strip().replace("mut ", "")
        ty = ty.strip()
        if name in overrides:
            out.append((name, overrides[name]))
        elif ty in ("usize", "&usize"):
            out.append((name, "Nat"))
        else:
            out.append((name, "Nat /- %s -/" % ty.replace("-/", "")))
    return has_self, out


def strip_generics(s):
    """`Foo<'a, T, Bar<U>>` -> `Foo` (angle brackets at any depth removed; `->` kept out of the way)"""
    out, depth = [], 0
    s = s.replace("->", "\x00")
    for ch in s:
        if ch == "<":
            depth += 1
        elif ch == ">":
            depth -= 1
        elif depth == 0:
            out.append(ch)
    return "".join(out).replace("\x00", "->")


def surface():
    """every `impl` block and every trait of the crate with the functions it defines:
    [(file, "Trait for Type" | "Type" | "trait Name", [fn names in source order])]"""
    out = []
    for root, _, files in sorted(os.walk(SRC)):
        for f in sorted(files):
            if not f.endswith(".rs") or f == "verif_shim.rs":
                continue
            rel = os.path.relpath(os.path.join(root, f), SRC)
            if "tests" in rel.split(os.sep)[:-1] or f == "tests.rs":
                continue       # `#[cfg(test)] mod tests` directories
            txt = strip_comments(open(os.path.join(root, f)).read())
            # test modules are not part of the crate's surface
            tm = re.search(r"#\[cfg\(test\)\]", txt)
            if tm:
                txt = txt[:tm.start()]
            for m in re.finditer(r"^[ \t]*(?:pub(?:\([a-z]+\))?\s+)?(?:unsafe\s+)?(impl\b|trait\s+\w+)", txt, flags=re.M):
                # the header ends at the first `{` (a `;` first, outside `[T; N]`, means: no body)
                ob, sq = -1, 0
                for j in range(m.end(), len(txt)):
                    ch = txt[j]
                    if ch == "[":
                        sq += 1
                    elif ch == "]":
                        sq -= 1
                    elif ch == ";" and sq == 0:
                        break
                    elif ch == "{":
                        ob = j
                        break
                if ob < 0:
                    continue
                hdr = txt[m.start(1):ob]
                hdr = hdr.split(" where")[0].split("\nwhere")[0]
                if hdr.startswith("impl"):
                    h = strip_generics(hdr[4:])
                    h = re.sub(r"\s+", " ", h).strip()
                    name = h
                else:
                    name = "trait " + re.match(r"trait\s+(\w+)", hdr).group(1)
                end = match_brace(txt, ob)
                body = txt[ob + 1:end]
                fns, depth, i = [], 0, 0
                for mm in re.finditer(r"[{}]|\bfn\s+(\w+)", body):
                    if mm.group(0) == "{":
                        depth += 1
                    elif mm.group(0) == "}":
                        depth -= 1
                    elif depth == 0:
                        fns.append(mm.group(1))
                out.append((rel, name, fns))
                if name.startswith("From for "):
                    # the body of the conversion, whitespace removed
                    fm = re.search(r"\bfn\s+from\s*\([^)]*\)\s*->\s*Self\s*\{", body)
                    if fm:
                        fb = body[fm.end():match_brace(body, fm.end() - 1)]
                        out.append((rel, "frombody " + name[len("From for "):], [re.sub(r"\s+", "", fb)]))
            # free functions of the file (brace depth 0)
            free, depth = [], 0
            for mm in re.finditer(r"[{}]|\bfn\s+(\w+)", txt):
                if mm.group(0) == "{":
                    depth += 1
                elif mm.group(0) == "}":
                    depth -= 1
                elif depth == 0:
                    free.append(mm.group(1))
            if free:
                out.append((rel, "fn " + rel, free))
            # the derives of every type
            for m in re.finditer(r"((?:#\[[^\]]*\]\s*)*)(?:pub(?:\([a-z]+\))?\s+)?(struct|enum)\s+(\w+)", txt):
                ders = []
                for d in re.finditer(r"#\[derive\(([^)]*)\)\]", m.group(1)):
                    ders += [x.strip() for x in d.group(1).split(",") if x.strip()]
                out.append((rel, "%s %s" % (m.group(2), m.group(3)), ders))
                # the fields of a struct with named fields: its state
                if m.group(2) == "struct":
                    j = m.end()
                    ob, sq = -1, 0
                    while j < len(txt):
                        ch = txt[j]
                        if ch == "[":
                            sq += 1
                        elif ch == "]":
                            sq -= 1
                        elif ch in ";(" and sq == 0:
                            break
                        elif ch == "{":
                            ob = j
                            break
                        j += 1
                    if ob >= 0:
                        blk = txt[ob + 1:match_brace(txt, ob)]
                        fields, depth, cur = [], 0, ""
                        for ch in blk:
                            if ch in "<([{":
                                depth += 1
                            elif ch in ">)]}":
                                depth -= 1
                            if ch == "," and depth == 0:
                                fields.append(cur)
                                cur = ""
                            else:
                                cur += ch
                        fields.append(cur)
                        fl = []
                        for f0 in fields:
                            f0 = re.sub(r"#\[[^\]]*\]", "", f0)
                            f0 = re.sub(r"\bpub(\([a-z]+\))?\s+", "", f0).strip()
                            if ":" in f0:
                                nm, ty = f0.split(":", 1)
                                fl.append("%s: %s" % (nm.strip(), re.sub(r"\s+", "", ty)))
                        out.append((rel, "fields " + m.group(3), fl))
    return out


def split_hdr(n):
    for k in ("trait", "struct", "enum", "fn", "fields", "frombody"):
        if n.startswith(k + " "):
            return (k, n[len(k) + 1:])
    if " for " in n:
        a, b = n.split(" for ", 1)
        return (a, b)
    return ("", n)


def main_surface():
    rows = surface()
    S_OUT = os.path.join(os.path.dirname(OUT), "Surface.lean")
    body = ("/- GENERATED by tools/rs2lean.py from the Rust sources on every run -- do not edit. -/\n"
            "namespace Orx.Gen\n\n/-- every `impl` block and trait of the crate (test modules and the verification shim excluded) with the\n"
            "functions it defines, in source order: (file, header without generics, functions) -/\n"
            "structure Block where\n  file : String\n  /-- the implemented trait; `\"\"` for an inherent impl; `\"trait\"` / `\"struct\"` / `\"enum\"` for a definition -/\n"
            "  tr : String\n  /-- the implementing (or defined) type / trait -/\n  ty : String\n  /-- functions defined (for a type: its derives) -/\n  fns : List String\n\n"
            "def surface : List Block := [\n" +
            ",\n".join('  ⟨"%s", "%s", "%s", [%s]⟩' % ((f,) + split_hdr(n) + (", ".join('"%s"' % x for x in fns),)) for (f, n, fns) in rows) +
            "\n]\n\nend Orx.Gen\n")
    old = open(S_OUT).read() if os.path.exists(S_OUT) else None
    if old != body:
        open(S_OUT, "w").write(body)


def main():
    main_surface()
    nsf = ns_functions()
    chunks = []
    report = []
    for t in TARGETS:
        text = strip_comments(open(os.path.join(SRC, t["file"])).read())
        for fn in t["fns"]:
            params, body = find_fn(text, t["impl"], fn)
            has_self, plist = param_list(params, t["params"])
            toks = tokenize(body) + [("eof", "")]
            ast = P(toks).block()
            recv = {k: (v, nsf.get(v, set())) for k, v in t["recv"].items()}
            em = Emitter(t["ns"], nsf[t["ns"]], recv, t["consts"])
            em.self_struct = "BufferedIterSelf" if t["ns"] == "BufferedIterNew" else t.get("self_struct")
            em.ctor_of = t.get("ctor_of")
            term = em.do_block(ast, 2)
            sig = ""
            for c in t["consts"]:
                sig += " (%s : Nat)" % c
            if has_self and t["self_ty"]:
                sig += " (self : %s)" % t["self_ty"]
            for (n, ty) in plist:
                sig += " (%s : %s)" % (lid(n), ty)
            if not sig:
                sig = " (_ : Unit)"
            # calls of generated functions of const-generic kinds pass the constant along
            if t["consts"]:
                for ns2, fns2 in nsf.items():
                    if ns2 in ("Arr", "BufArr"):
                        for f2 in fns2:
                            term = re.sub(r"\b%s\.%s\b(?! N\b)" % (ns2, re.escape(lid(f2))), "%s.%s N" % (ns2, lid(f2)), term)
            chunks.append(("%s.%s" % (t["ns"], lid(fn)), "/-- `%s::%s` (src/%s) -/\ndef %s.%s%s :=\n  (%s : M _)\n" % (t["ns"], fn, t["file"], t["ns"], lid(fn), sig, term), term))
            report.append((t["ns"], fn, em.unsupported))
    # definitions in dependency order (Lean needs a callee before its caller)
    names = [c[0] for c in chunks]
    deps = {n: [m for m in names if m != n and re.search(r"(?<![\w.])%s(?![\w.])" % re.escape(m), term)] for (n, _, term) in chunks}
    done, order = set(), []

    def visit(n, stack=()):
        if n in done:
            return
        if n in stack:
            raise SyntaxError("recursive functions: " + " -> ".join(stack + (n,)))
        for m in deps[n]:
            visit(m, stack + (n,))
        done.add(n)
        order.append(n)
    for n in names:
        visit(n)
    text_of = {c[0]: c[1] for c in chunks}
    # one Lean file per group of Rust files, so that a change in one source file only touches the theorems about it
    def group_of(name):
        ns = name.split(".")[0]
        if ns == "Counter":
            return "Counter"
        if ns == "BufferedIterNew":
            return "New"
        if ns.startswith("New") or ns.startswith("Ctor"):
            return "Ctor"
        for g in ("Cloned", "Copied"):
            if g in ns:
                return "Adapt"
        for g in ("Slice", "Vec", "Arr", "Range", "Iter"):
            if ns.endswith(g):
                return g
        raise SyntaxError("no group for " + name)
    groups = {}
    for n in order:
        groups.setdefault(group_of(n), []).append(n)
    gdeps = {g: sorted({group_of(m) for n in ns_ for m in deps[n]} - {g}) for g, ns_ in groups.items()}
    gen_dir = os.path.dirname(OUT)
    os.makedirs(gen_dir, exist_ok=True)
    for g, ns_ in groups.items():
        header = ("/- GENERATED by tools/rs2lean.py from the Rust sources on every run -- do not edit. -/\n"
                  "import Orx.RS.Prim\n" + "".join("import Orx.Generated.Arith%s\n" % d for d in gdeps[g]) +
                  "set_option linter.unusedVariables false\nnamespace Orx.Gen\nopen Orx Orx.RS\n\n")
        body = header + "\n".join(text_of[n] for n in ns_) + (ctor_facts() if g == "Ctor" else "") + "\nend Orx.Gen\n"
        path = os.path.join(gen_dir, "Arith%s.lean" % g)
        old = open(path).read() if os.path.exists(path) else None
        if old != body:
            open(path, "w").write(body)
    body = ("/- GENERATED by tools/rs2lean.py -- do not edit. -/\n" + "".join("import Orx.Generated.Arith%s\n" % g for g in sorted(groups)))
    old = open(OUT).read() if os.path.exists(OUT) else None
    if old != body:
        open(OUT, "w").write(body)
    report += main_prog()
    report += main_prog(OTARGETS, O_OUT, own=True)
    report += main_loops()
    bad = [(ns, fn, u) for (ns, fn, u) in report if u]
    print("rs2lean: %d functions translated, %d with unsupported constructs" % (len(report), len(bad)))
    for (ns, fn, u) in bad:
        print("  %s.%s: %s" % (ns, fn, "; ".join(u)))
    return 0


if __name__ == "__main__":
    try:
        sys.exit(main())
    except (LookupError, SyntaxError) as ex:
        print("rs2lean: " + str(ex))
        sys.exit(2)
