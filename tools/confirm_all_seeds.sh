#!/bin/bash
# confirm_all.sh P...: confirm both seeds of each given property worktree, in parallel per property
for p in "$@"; do
  ( for n in 1 2; do
      if [ -f /tmp/seedwt/$p/out/mut$n.diff ]; then
        /verif/tools/confirm_seed.sh /tmp/seedwt/$p $n > /tmp/seedwt/$p/out/confirm$n.json 2>/tmp/seedwt/$p/out/confirm$n.err
      fi
    done; echo done $p ) &
done
wait
