#!/usr/bin/env python3
"""monitor_file.py <cases> <trace-file> [ids...]: run every monitor on every case's recorded trace."""
import sys, os
sys.path.insert(0, os.path.dirname(os.path.abspath(__file__)))
from cases import parse_cases
from runner import split_blocks
from monitors import MONITORS, Trace

cases = parse_cases(open(sys.argv[1]).read())
blocks, _ = split_blocks(open(sys.argv[2]).read())
props = sys.argv[3:] or sorted(MONITORS)
for c in cases:
    lines = blocks.get(c.id)
    if lines is None:
        print("%s: NO TRACE" % c.id)
        continue
    tr = Trace(c, lines)
    res = []
    for p in props:
        bad = MONITORS[p](tr)
        if bad:
            res.append("%s: %s" % (p, bad[0]))
    flag = " [abort]" if tr.aborted else (" [hang]" if tr.hang else "")
    print("%s%s: %s" % (c.id, flag, "ok" if not res else ""))
    for r in res:
        print("     " + r)
