"""Mathematical sequential reference: what a single-threaded program must return on a source of
unbounded-integer positions (no machine words anywhere). Used as an oracle for sequential cases
(C04 'any single-threaded sequence yields what the sequential iterator yields', C16 boundaries, C19 slots)."""

from cases import take_params, take_plan

W = 1 << 64


class Unsupported(Exception):
    pass


def expected_rets(case):
    """list of expected `ret`/`panic` token lists for thread 0 of a single-threaded case, plus the owner's.
    Raises Unsupported when the reference does not apply (several threads, non-fused or panicking scripts,
    cumulative requests reaching 2^64 -- the property's own exclusion)."""
    if len([t for t in case.threads if t]) > 1:
        raise Unsupported("several threads")
    if case.is_iter() and (not case.fused() or any(e == "P" for e in case.script)):
        raise Unsupported("non-fused / panicking script")
    n = case.src_len()
    is_iter = case.is_iter()
    slots = {k: 0 for k in range(case.iters)}     # cursor per slot
    completed = False          # wrapper: the flag (set by a single/one-shot end, or skip)
    reserved = 0               # wrapper: positions reserved so far (for the exact-hint length report)
    requested = {k: 0 for k in range(case.iters)}
    buf = None                 # (slot, n)
    out = []
    # the one thread that has a program (not necessarily thread 0)
    prog = next((t for t in case.threads if t), [])

    def val(i):
        return case.val_at(i)

    def take(slot, k_req, cnt):
        """advance the cursor by up to cnt positions; returns (begin, positions)"""
        b = slots[slot]
        e = min(b + cnt, n)
        slots[slot] = e
        return b, (b, e)

    for op in prog:
        toks = op.split()
        slot = 0
        if toks[0].startswith("@"):
            slot = int(toks[0][1:])
            toks = toks[1:]
        name = toks[0]
        if name in ("next", "nextv"):
            requested[slot] += 1
            if is_iter and completed:
                out.append(["ret", "end"]); continue
            reserved += 1
            b, (_, e1) = take(slot, 1, 1)
            if e1 > b:
                out.append(["ret", "item", str(b), str(val(b))] if name == "next" else ["ret", "value", str(val(b))])
            else:
                completed = True
                out.append(["ret", "end"])
        elif name in ("chunk", "bufnext"):
            if name == "chunk":
                cnt = int(toks[1]); k = toks[2]
            else:
                if buf is None:
                    raise Unsupported("bufnext without buffer")
                slot, cnt = buf; k = toks[1]
            if cnt == 0:
                out.append(["ret", "end"]); continue
            requested[slot] += cnt
            if is_iter and completed:
                out.append(["ret", "end"]); continue
            reserved += cnt
            b, (_, e1) = take(slot, k, cnt)
            if e1 <= b:
                if name == "chunk":
                    completed = True
                out.append(["ret", "end"])
            else:
                a = e1 - b
                sk, j = take_params(k, a) if ("+nth:" not in k and "+last" not in k and "+forget" not in k) else (0, 0)
                if j - sk > 1000000:
                    raise Unsupported("astronomic consumption")
                offs, j = take_plan(k, a)
                out.append(["ret", "chunk", str(b), str(a), str(a - j)] + [str(val(b + o)) for o in offs])
        elif name == "bufnew":
            cnt = int(toks[1])
            if cnt == 0:
                out.append(["panic", "chunksize"]); break
            buf = (slot, cnt)
            out.append(["ret", "unit"])
        elif name == "bufdrop":
            buf = None
            out.append(["ret", "unit"])
        elif name in ("foreach", "enumforeach", "fold", "values", "idsvalues"):
            cnt = int(toks[1]) if name in ("foreach", "enumforeach", "fold") else 1
            if any(t.startswith("panic=") or t == "pull" for t in toks):
                raise Unsupported("closure panic / closure that pulls")
            if cnt == 0:
                out.append(["panic", "chunksize"]); break
            total = 0
            visits = []
            if not (is_iter and completed):
                b = slots[slot]
                if n - b > 1000000:
                    raise Unsupported("astronomic loop")
                for p in range(b, n):
                    visits.append(p)
                    total = (total + val(p)) % W
                slots[slot] = n
                requested[slot] += (n - b) + cnt
                if cnt == 1 or name in ("values", "idsvalues"):
                    completed = True
            out.append((["ret", "fold", str(total)] if name == "fold" else ["ret", "done"], visits, name in ("enumforeach", "idsvalues")))
        elif name == "skip":
            if not is_iter:
                slots[slot] = n        # the wrapper keeps its wrapped iterator where it is: into_seq_iter hands it back
            completed = True
            out.append(["ret", "unit"])
        elif name in ("len", "hasmore"):
            if is_iter:
                out.append(None)          # not judged by the reference (depends on the completed flag protocol)
            else:
                rem = n - slots[slot]
                if name == "len":
                    out.append(["ret", "len", str(rem)])
                else:
                    out.append(["ret", "more", "no"] if rem == 0 else ["ret", "more", "yes", str(rem)])
        elif name == "get":
            if is_iter:
                raise Unsupported("get on iter")
            i = int(toks[1])
            out.append(["ret", "got", str(val(i))] if i < n else ["ret", "got", "none"])
        elif name == "clone":
            j = int(toks[1])
            slots[j] = slots[slot]
            requested[j] = requested[slot]
            out.append(["ret", "unit"])
        else:
            raise Unsupported(name)
        if max(requested.values()) >= W - 1:
            raise Unsupported("cumulative requested count reaches 2^64 (excluded by the property)")
    owner = None
    if case.owner.startswith("intoseq"):
        k = case.owner.split()[1]
        rem = list(range(slots[0], n))
        j = len(rem) if k == "all" else min(int(k), len(rem))
        owner = ["ret", "seq"] + [str(val(p)) for p in rem[:j]]
    return out, owner


def check_sequential(tr):
    """compare a recorded trace of a single-threaded case with the reference; list of discrepancies"""
    case = tr.case
    try:
        exp, owner = expected_rets(case)
    except Unsupported:
        return []
    bad = []
    the_tid = next((i for i, t in enumerate(case.threads) if t), 0)
    ops = [o for o in tr.ops if o.tid == the_tid]
    for i, e in enumerate(exp):
        if i >= len(ops):
            bad.append("operation %d (%s) never returned" % (i, case.threads[the_tid][i]))
            break
        o = ops[i]
        if e is None:
            continue
        if isinstance(e, tuple):
            ret, visits, with_idx = e
            got_ret = (["panic", o.panic] if o.panic else ["ret"] + (o.rtoks or []))
            got_vis = [(idx, v) for (idx, v, _) in o.visits]
            want_vis = [((p if with_idx else None), case.val_at(p)) for p in visits]
            if got_vis != want_vis:
                bad.append("%s at line %d visited %s, sequential iteration visits %s" % (o.op, o.call, got_vis[:6], want_vis[:6]))
            if got_ret != ret:
                bad.append("%s at line %d returned %s, expected %s" % (o.op, o.call, " ".join(got_ret), " ".join(ret)))
            continue
        got = ["panic", o.panic] if o.panic else ["ret"] + (o.rtoks or ["<none>"])
        if got != e:
            bad.append("`%s` (line %d) returned `%s`, a sequential cursor over the source returns `%s`" % (" ".join(o.toks), o.call, " ".join(got), " ".join(e)))
            break
    if owner is not None and not bad:
        got = None
        for (_, toks) in tr.own:
            if toks[0] == "ret":
                got = toks
            if toks[0] == "panic":
                got = toks
        if got != owner and not any(o.panic for o in ops):
            bad.append("into_seq_iter yields `%s`, the undelivered remainder is `%s`" % (" ".join(got or ["<none>"]), " ".join(owner)))
    return bad
