#!/usr/bin/env python3
"""extract_bounds.py [--repo /repo] [--out /verif/lean/Orx/Generated/Bounds.lean]

Translator for property C14 (DESIGN.md 4.2). Reads the CURRENT sources under <repo>/src with anchored regular
expressions and writes the declarations that decide thread-safety / lifetime soundness as plain Lean data:

  * every `unsafe impl .. Send/Sync for X`: struct, auto trait, type parameters with their declared bounds
    (impl header + where clause), predicates on non-parameter types;
  * every constructor trait impl (ConcurrentIterable / IntoConcurrentIter / IterIntoConcurrentIter);
  * supertraits of ConcurrentIter and AtomicIter, bounds of AtomicIter's type parameter and of ConcurrentIter::Item;
  * safety and reachability of AtomicIter::get;
  * return type of BufferedIter::next; lifetime shape of ConIterOfSlice.

An expected item that is not found is an error: exit code 3 and a line `extract_bounds: missing anchor: <what>`.
The output is deterministic (sorted) and contains no line numbers."""
import os, re, sys, argparse

VERIF = os.path.dirname(os.path.dirname(os.path.abspath(__file__)))
DEFAULT_OUT = os.path.join(VERIF, "lean", "Orx", "Generated", "Bounds.lean")

# files that must contain `unsafe impl Send` and `unsafe impl Sync` for the named struct
EXPECTED_UNSAFE = {
    "src/iter/implementors/slice.rs": "ConIterOfSlice",
    "src/iter/implementors/vec.rs": "ConIterOfVec",
    "src/iter/implementors/array.rs": "ConIterOfArray",
    "src/iter/implementors/range.rs": "ConIterOfRange",
    "src/iter/implementors/iter.rs": "ConIterOfIter",
    "src/iter/implementors/taken.rs": "Taken",
    "src/iter/cloned.rs": "Cloned",
    "src/iter/copied.rs": "Copied",
}
CONSTRUCTOR_TRAITS = ("ConcurrentIterable", "IntoConcurrentIter", "IterIntoConcurrentIter")
EXPECTED_CONSTRUCTORS = {
    "src/iter/constructors/implementors/slice.rs": ["ConcurrentIterable", "IntoConcurrentIter"],
    "src/iter/constructors/implementors/vec.rs": ["ConcurrentIterable", "IntoConcurrentIter"],
    "src/iter/constructors/implementors/array.rs": ["ConcurrentIterable", "IntoConcurrentIter"],
    "src/iter/constructors/implementors/range.rs": ["ConcurrentIterable", "IntoConcurrentIter"],
    "src/iter/constructors/implementors/iter.rs": ["IterIntoConcurrentIter"],
}


class Missing(Exception):
    pass


def missing(what):
    raise Missing(what)


# ---- lexical helpers -------------------------------------------------------------------------------

def strip_comments(src):
    """remove // line comments (incl. doc comments) and /* */ blocks; keeps string literals naive (none matter here)"""
    src = re.sub(r"/\*.*?\*/", lambda m: " " * len(m.group(0)), src, flags=re.S)
    src = re.sub(r"//[^\n]*", "", src)
    return src


def balanced(src, i, open_c="<", close_c=">"):
    """src[i] == open_c; returns index just after the matching close. `->` and `=>` do not close angle brackets."""
    assert src[i] == open_c, (src[i:i + 20], open_c)
    depth = 0
    j = i
    while j < len(src):
        c = src[j]
        if c == open_c:
            depth += 1
        elif c == close_c and not (close_c == ">" and j > 0 and src[j - 1] in "-="):
            depth -= 1
            if depth == 0:
                return j + 1
        j += 1
    missing("unbalanced %s%s near `%s`" % (open_c, close_c, src[i:i + 40].replace("\n", " ")))


def split_top(s, sep):
    """split at `sep` outside of <>, (), []"""
    out, depth, cur = [], 0, ""
    for k, c in enumerate(s):
        if c in "<([":
            depth += 1
        elif c in ")]" or (c == ">" and not (k > 0 and s[k - 1] in "-=")):
            depth -= 1
        if c == sep and depth == 0:
            out.append(cur)
            cur = ""
        else:
            cur += c
    out.append(cur)
    return [x.strip() for x in out if x.strip()]


def ws(s):
    return re.sub(r"\s+", " ", s).strip()


BOUND_NAMES = {"Send": "send", "Sync": "sync", "Clone": "clone", "Copy": "copy"}


def norm_bound(b):
    b = ws(b)
    head = re.match(r"(?:\?|~const\s+)?((?:[A-Za-z_][A-Za-z0-9_]*::)*)([A-Za-z_][A-Za-z0-9_]*)", b)
    if b.startswith("'"):
        return "lifetime"
    if not head:
        return "other"
    name = head.group(2)
    if b.startswith("?"):
        return "other"
    if name in BOUND_NAMES and ws(b[head.end():]) == "":
        return BOUND_NAMES[name]
    if name == "Iterator":
        return "iterator"
    if name == "AtomicIter":
        return "atomicIter"
    return "other"


def norm_bounds(text):
    """`Send + Sync + 'a + Into<usize>` -> sorted unique list of enum names (lifetime bounds dropped)"""
    bs = set(norm_bound(b) for b in split_top(text, "+"))
    bs.discard("lifetime")
    order = ["send", "sync", "clone", "copy", "iterator", "atomicIter", "other"]
    return [b for b in order if b in bs]


def parse_generics(text):
    """text between the outer <> of `impl<..>`: returns (type params in order, {param: [bounds]}, lifetimes, consts)"""
    params, bounds, lifetimes, consts = [], {}, [], []
    for g in split_top(text, ","):
        g = ws(g)
        if g.startswith("'"):
            lifetimes.append(g.split(":")[0].strip())
            continue
        if g.startswith("const "):
            consts.append(g[len("const "):].split(":")[0].strip())
            continue
        g = g.split("=")[0].strip() if re.match(r"^[A-Za-z_][A-Za-z0-9_]*\s*=", g) else g
        if ":" in g:
            name, b = g.split(":", 1)
            name = name.strip()
            params.append(name)
            bounds.setdefault(name, [])
            bounds[name] += split_top(b, "+")
        else:
            params.append(g)
            bounds.setdefault(g, [])
    return params, bounds, lifetimes, consts


def parse_where(text, params, bounds, extra):
    for pred in split_top(text, ","):
        if ":" not in pred:
            continue
        # split at the first top-level ':' that is not part of '::'
        depth, cut = 0, None
        for k, c in enumerate(pred):
            if c in "<([":
                depth += 1
            elif c in ")]" or (c == ">" and not (k > 0 and pred[k - 1] in "-=")):
                depth -= 1
            elif c == ":" and depth == 0 and pred[k:k + 2] != "::" and (k == 0 or pred[k - 1] != ":"):
                cut = k
                break
        if cut is None:
            continue
        lhs, rhs = ws(pred[:cut]), pred[cut + 1:]
        if lhs.startswith("'"):
            continue
        if lhs in params:
            bounds[lhs] += split_top(rhs, "+")
        else:
            extra.setdefault(lhs, [])
            extra[lhs] += split_top(rhs, "+")


def parse_impl_headers(src, unsafe_only):
    """yields dicts for every `[unsafe] impl<..> Trait for Type [where ..] {`"""
    pat = re.compile(r"\bunsafe\s+impl\b" if unsafe_only else r"(?<![A-Za-z0-9_])impl\b")
    for m in pat.finditer(src):
        i = m.end()
        while src[i].isspace():
            i += 1
        gen_text = ""
        if src[i] == "<":
            j = balanced(src, i)
            gen_text = src[i + 1:j - 1]
            i = j
        brace = src.find("{", i)
        if brace < 0:
            continue
        header = src[i:brace]
        hm = re.match(r"\s*(!?[A-Za-z_][A-Za-z0-9_:]*)\s*(<.*?>)?\s+for\s+(.*)$", header, flags=re.S)
        if not hm:
            # inherent impl
            continue
        trait = hm.group(1).split("::")[-1]
        rest = hm.group(3)
        wm = re.search(r"\bwhere\b", rest)
        self_ty = ws(rest[:wm.start()] if wm else rest)
        where_text = rest[wm.end():] if wm else ""
        params, bounds, lifetimes, consts = parse_generics(gen_text)
        extra = {}
        parse_where(where_text, params, bounds, extra)
        name = re.match(r"&?\s*(?:'[a-z_]+\s+)?(\[?[A-Za-z_][A-Za-z0-9_]*)", self_ty)
        yield dict(trait=trait, trait_args=ws(hm.group(2) or ""), self_ty=self_ty,
                   ty=(name.group(1) if name else self_ty), params=params,
                   bounds={p: norm_bounds(" + ".join(bounds[p])) if bounds[p] else [] for p in params},
                   extra={k: norm_bounds(" + ".join(v)) for k, v in extra.items()},
                   lifetimes=lifetimes, consts=consts, body_at=brace)


# ---- extraction ------------------------------------------------------------------------------------

def read(repo, rel):
    p = os.path.join(repo, rel)
    if not os.path.exists(p):
        missing("file " + rel)
    return strip_comments(open(p).read())


def rust_files(repo):
    out = []
    for root, _, files in os.walk(os.path.join(repo, "src")):
        for f in files:
            if f.endswith(".rs"):
                out.append(os.path.relpath(os.path.join(root, f), repo))
    return sorted(out)


def extract(repo):
    data = {}
    # 1. unsafe impls, everywhere in the crate
    impls = []
    for rel in rust_files(repo):
        src = read(repo, rel)
        if not re.search(r"\bunsafe\s+impl\b", src):
            continue
        for h in parse_impl_headers(src, unsafe_only=True):
            if h["trait"] not in ("Send", "Sync"):
                # an unsafe impl of another trait: recorded so that the Lean side sees it (tr = other is not representable:
                # fail loudly instead of silently dropping it)
                missing("unsafe impl of unexpected trait `%s` in %s" % (h["trait"], rel))
            impls.append(dict(file=rel, ty=h["ty"], tr=h["trait"].lower(),
                              params=[(p, h["bounds"][p]) for p in h["params"]],
                              extra=sorted(h["extra"].items())))
    for rel, ty in sorted(EXPECTED_UNSAFE.items()):
        for tr in ("send", "sync"):
            if not any(i["file"] == rel and i["ty"] == ty and i["tr"] == tr for i in impls):
                missing("`unsafe impl %s for %s` in %s" % (tr.capitalize(), ty, rel))
    impls.sort(key=lambda i: (i["ty"], i["tr"], i["file"]))
    data["impls"] = impls

    # 2. constructor trait impls
    ctors = []
    for rel in rust_files(repo):
        src = read(repo, rel)
        for h in parse_impl_headers(src, unsafe_only=False):
            if h["trait"] in CONSTRUCTOR_TRAITS:
                ctors.append(dict(file=rel, trait=h["trait"], self_ty=h["self_ty"],
                                  params=[(p, h["bounds"][p]) for p in h["params"]],
                                  extra=sorted(h["extra"].items())))
    for rel, traits in sorted(EXPECTED_CONSTRUCTORS.items()):
        for t in traits:
            if not any(c["file"] == rel and c["trait"] == t for c in ctors):
                missing("`impl %s for ..` in %s" % (t, rel))
    ctors.sort(key=lambda c: (c["trait"], c["self_ty"], c["file"]))
    data["ctors"] = ctors

    # 3. ConcurrentIter
    src = read(repo, "src/iter/con_iter.rs")
    m = re.search(r"\bpub\s+trait\s+ConcurrentIter\s*(?::\s*([^{]*?))?\s*\{", src)
    if not m:
        missing("`pub trait ConcurrentIter` in src/iter/con_iter.rs")
    data["con_super"] = norm_bounds(m.group(1) or "")
    body = src[m.end():]
    im = re.search(r"\btype\s+Item\s*(?::\s*([^;]*?))?\s*;", body)
    if not im:
        missing("`type Item` of ConcurrentIter in src/iter/con_iter.rs")
    data["item_bounds"] = norm_bounds(im.group(1) or "")

    # 4. AtomicIter
    src = read(repo, "src/iter/atomic_iter.rs")
    m = re.search(r"\b(pub(?:\([^)]*\))?\s+)?trait\s+AtomicIter\s*<", src)
    if not m:
        missing("`trait AtomicIter<..>` in src/iter/atomic_iter.rs")
    trait_pub = (m.group(1) or "").strip() == "pub"
    gi = m.end() - 1
    gj = balanced(src, gi)
    params, bounds, _, _ = parse_generics(src[gi + 1:gj - 1])
    if len(params) != 1:
        missing("AtomicIter is expected to have exactly one type parameter, found %r" % (params,))
    brace = src.find("{", gj)
    head = src[gj:brace]
    wm = re.search(r"\bwhere\b", head)
    sup = head[:wm.start()] if wm else head
    extra = {}
    if wm:
        parse_where(head[wm.end():], params, bounds, extra)
    sup = sup.strip()
    if sup.startswith(":"):
        sup = sup[1:]
    data["atomic_super"] = norm_bounds(sup)
    data["atomic_param"] = params[0]
    data["atomic_param_bounds"] = norm_bounds(" + ".join(bounds[params[0]])) if bounds[params[0]] else []
    end = balanced(src, brace, "{", "}")
    tbody = src[brace:end]
    gm = re.search(r"((?:\bunsafe\s+)?)\bfn\s+get\s*(?:<[^>]*>)?\s*\(([^)]*)\)\s*(?:->\s*([^;{]*?))?\s*(?:;|\{|where\b)", tbody)
    if not gm:
        missing("`fn get` in trait AtomicIter (src/iter/atomic_iter.rs)")
    data["get_unsafe"] = bool(gm.group(1).strip())
    data["get_receiver"] = ws(gm.group(2).split(",")[0])
    data["get_ret"] = ws(gm.group(3) or "()")
    # reachability: lib.rs `pub mod iter;` and iter/mod.rs `pub mod atomic_iter;`, or a `pub use` of the trait in lib.rs
    lib = read(repo, "src/lib.rs")
    mod = read(repo, "src/iter/mod.rs")
    lm = re.search(r"^\s*(pub(?:\([^)]*\))?\s+)?mod\s+iter\s*;", lib, flags=re.M)
    if not lm:
        missing("`mod iter;` in src/lib.rs")
    mm = re.search(r"^\s*(pub(?:\([^)]*\))?\s+)?mod\s+atomic_iter\s*;", mod, flags=re.M)
    if not mm:
        missing("`mod atomic_iter;` in src/iter/mod.rs")
    data["mod_iter_pub"] = (lm.group(1) or "").strip() == "pub"
    data["mod_atomic_iter_pub"] = (mm.group(1) or "").strip() == "pub"
    reexport = False
    for um in re.finditer(r"^\s*pub\s+use\s+([^;]*);", lib, flags=re.M | re.S):
        if re.search(r"\batomic_iter\s*::\s*(\{[^}]*\bAtomicIter\b(?!With)[^}]*\}|AtomicIter\b(?!With)|\*)", um.group(1)):
            reexport = True
    data["atomic_reexported"] = reexport
    data["atomic_trait_pub"] = trait_pub

    # 5. BufferedIter::next
    src = read(repo, "src/iter/buffered/buffered_iter.rs")
    sm = re.search(r"\bpub\s+struct\s+BufferedIter\b", src)
    if not sm:
        missing("`pub struct BufferedIter` in src/iter/buffered/buffered_iter.rs")
    nm = re.search(r"\bpub\s+fn\s+next\s*\(\s*(&\s*(?:'[a-z_]+\s+)?(?:mut\s+)?self)\s*\)\s*->\s*(.*?)\s*\{", src, flags=re.S)
    if not nm:
        missing("`pub fn next(&mut self) -> ..` of BufferedIter in src/iter/buffered/buffered_iter.rs")
    data["buf_next_receiver"] = ws(nm.group(1))
    data["buf_next_ret"] = ws(nm.group(2))

    # 6. ConIterOfSlice lifetime shape
    src = read(repo, "src/iter/implementors/slice.rs")
    sm = re.search(r"\bpub\s+struct\s+ConIterOfSlice\s*<", src)
    if not sm:
        missing("`pub struct ConIterOfSlice<..>` in src/iter/implementors/slice.rs")
    gi = sm.end() - 1
    gj = balanced(src, gi)
    sparams, _, slifetimes, _ = parse_generics(src[gi + 1:gj - 1])
    if len(slifetimes) != 1 or len(sparams) != 1:
        missing("ConIterOfSlice is expected to have one lifetime and one type parameter, found %r %r" % (slifetimes, sparams))
    found = None
    for h in parse_impl_headers(src, unsafe_only=False):
        if h["trait"] == "ConcurrentIter" and h["ty"] == "ConIterOfSlice":
            found = h
    if not found:
        missing("`impl ConcurrentIter for ConIterOfSlice` in src/iter/implementors/slice.rs")
    end = balanced(src, found["body_at"], "{", "}")
    ib = src[found["body_at"]:end]
    tm = re.search(r"\btype\s+Item\s*=\s*([^;]*);", ib)
    if not tm:
        missing("`type Item = ..;` in impl ConcurrentIter for ConIterOfSlice")
    data["slice_self_ty"] = found["self_ty"]
    am = re.match(r"ConIterOfSlice\s*<\s*('[a-z_]+)\s*,\s*([A-Za-z_][A-Za-z0-9_]*)\s*>$", found["self_ty"])
    if not am:
        missing("self type `ConIterOfSlice<'a, T>` in impl ConcurrentIter (found `%s`)" % found["self_ty"])
    data["slice_self_lifetime"], data["slice_self_elem"] = am.group(1), am.group(2)
    data["slice_item"] = ws(tm.group(1))
    # the field that holds the borrow
    fb = src.find("{", gj)
    fend = balanced(src, fb, "{", "}")
    fm = re.search(r"\b([a-z_]+)\s*:\s*(&\s*'[a-z_]+\s*\[[^\]]*\])", src[fb:fend])
    if not fm:
        missing("a field of type `&'a [T]` in struct ConIterOfSlice")
    data["slice_field_ty"] = ws(fm.group(2))
    data["slice_struct_lifetime"] = slifetimes[0]
    data["slice_struct_elem"] = sparams[0]
    # 9. the wrapped iterator behind `UnsafeCell<Iter>` (src/iter/implementors/iter.rs): every function that touches the field,
    #    and every function (in the two files that can see it: `mut_iter` is pub(crate)) that calls `mut_iter()`
    cell, callers = [], []
    for rel in rust_files(repo):
        src = read(repo, rel)
        if "/tests/" in rel or rel.endswith("verif_shim.rs"):
            continue
        for fm in re.finditer(r"\bfn\s+(\w+)\s*(?:<[^>]*>)?\s*\(", src):
            p1 = balanced(src, fm.end() - 1, "(", ")")
            rest = src[p1:]
            bm = re.match(r"[^;{]*\{", rest)
            if not bm:
                continue
            b0 = p1 + bm.end() - 1
            b1 = balanced(src, b0, "{", "}")
            body = src[b0:b1]
            name = fm.group(1)
            if rel == "src/iter/implementors/iter.rs":
                for am in re.finditer(r"\bself\s*\.\s*iter\s*\.\s*(\w+)\s*\(", body):
                    cell.append((name, am.group(1)))
            if re.search(r"\bmut_iter\s*\(\s*\)", body) and name != "mut_iter":
                callers.append((rel, name))
            if re.search(r"\bsize_hint\s*\(", body) and rel in ("src/iter/implementors/iter.rs", "src/iter/buffered/iter.rs") and name != "size_hint":
                callers.append((rel, name + ":size_hint"))
    data["cell_accesses"] = sorted(set(cell))
    data["mut_iter_callers"] = sorted(set(callers))
    return data


# ---- Lean output -----------------------------------------------------------------------------------

def lstr(s):
    return '"' + s.replace("\\", "\\\\").replace('"', '\\"') + '"'


def lbounds(bs):
    return "[" + ", ".join("." + b for b in bs) + "]"


def lpairs(ps):
    return "[" + ", ".join("(%s, %s)" % (lstr(n), lbounds(b)) for n, b in ps) + "]"


def lbool(b):
    return "true" if b else "false"


def render(d):
    o = []
    o.append("/-! GENERATED by /verif/tools/extract_bounds.py from the sources under /repo/src — do not edit.")
    o.append("Regenerated on every run of `./check C14`; theorems over this data live in `Orx/Props/C14.lean`. -/")
    o.append("namespace Orx.Generated")
    o.append("")
    o.append("/-- a trait bound, normalised -/")
    o.append("inductive Bound where")
    o.append("  | send | sync | clone | copy | iterator | atomicIter | other")
    o.append("deriving DecidableEq, Repr")
    o.append("")
    o.append("inductive AutoTrait where")
    o.append("  | send | sync")
    o.append("deriving DecidableEq, Repr")
    o.append("")
    o.append("/-- `unsafe impl<params> tr for ty<..> where ..`: bounds of header and where clause merged per type parameter;")
    o.append("`extra` are where-predicates whose left side is not a type parameter -/")
    o.append("structure UnsafeImpl where")
    o.append("  ty : String")
    o.append("  tr : AutoTrait")
    o.append("  params : List (String × List Bound)")
    o.append("  extra : List (String × List Bound) := []")
    o.append("  file : String")
    o.append("deriving DecidableEq, Repr")
    o.append("")
    o.append("/-- `impl<params> trait for selfTy where ..` of a constructor trait -/")
    o.append("structure CtorImpl where")
    o.append("  trait : String")
    o.append("  selfTy : String")
    o.append("  params : List (String × List Bound)")
    o.append("  extra : List (String × List Bound) := []")
    o.append("  file : String")
    o.append("deriving DecidableEq, Repr")
    o.append("")
    o.append("def unsafeImpls : List UnsafeImpl := [")
    rows = []
    for i in d["impls"]:
        rows.append("  { ty := %s, tr := .%s, params := %s, extra := %s, file := %s }" % (
            lstr(i["ty"]), i["tr"], lpairs(i["params"]), lpairs(i["extra"]), lstr(i["file"])))
    o.append(",\n".join(rows))
    o.append("]")
    o.append("")
    o.append("def ctorImpls : List CtorImpl := [")
    rows = []
    for c in d["ctors"]:
        rows.append("  { trait := %s, selfTy := %s, params := %s, extra := %s, file := %s }" % (
            lstr(c["trait"]), lstr(c["self_ty"]), lpairs(c["params"]), lpairs(c["extra"]), lstr(c["file"])))
    o.append(",\n".join(rows))
    o.append("]")
    o.append("")
    o.append("/-- `pub trait ConcurrentIter: <these>` (src/iter/con_iter.rs) -/")
    o.append("def concurrentIterSupertraits : List Bound := %s" % lbounds(d["con_super"]))
    o.append("/-- `type Item: <these>;` in ConcurrentIter -/")
    o.append("def concurrentIterItemBounds : List Bound := %s" % lbounds(d["item_bounds"]))
    o.append("/-- `pub trait AtomicIter<T: ..>: <these>` (src/iter/atomic_iter.rs) -/")
    o.append("def atomicIterSupertraits : List Bound := %s" % lbounds(d["atomic_super"]))
    o.append("def atomicIterParam : String := %s" % lstr(d["atomic_param"]))
    o.append("def atomicIterParamBounds : List Bound := %s" % lbounds(d["atomic_param_bounds"]))
    o.append("")
    o.append("/-- `fn get` of AtomicIter is declared `unsafe fn` -/")
    o.append("def atomicGetIsUnsafe : Bool := %s" % lbool(d["get_unsafe"]))
    o.append("def atomicGetReceiver : String := %s" % lstr(d["get_receiver"]))
    o.append("def atomicGetReturn : String := %s" % lstr(d["get_ret"]))
    o.append("/-- `pub trait AtomicIter` -/")
    o.append("def atomicIterTraitIsPub : Bool := %s" % lbool(d["atomic_trait_pub"]))
    o.append("/-- src/lib.rs: `pub mod iter;` -/")
    o.append("def modIterIsPub : Bool := %s" % lbool(d["mod_iter_pub"]))
    o.append("/-- src/iter/mod.rs: `pub mod atomic_iter;` -/")
    o.append("def modAtomicIterIsPub : Bool := %s" % lbool(d["mod_atomic_iter_pub"]))
    o.append("/-- src/lib.rs has a `pub use iter::atomic_iter::AtomicIter` (or glob) -/")
    o.append("def atomicIterReexported : Bool := %s" % lbool(d["atomic_reexported"]))
    o.append("")
    o.append("/-- receiver and return type of `BufferedIter::next` (src/iter/buffered/buffered_iter.rs) -/")
    o.append("def bufferedNextReceiver : String := %s" % lstr(d["buf_next_receiver"]))
    o.append("def bufferedNextReturn : String := %s" % lstr(d["buf_next_ret"]))
    o.append("def bufferedNextReturnHasAnonLifetime : Bool := %s" % lbool("'_" in d["buf_next_ret"]))
    o.append("")
    o.append("/-- `pub struct ConIterOfSlice<LT, ELEM> { .. : &LT [ELEM] }`, `impl ConcurrentIter for SELF { type Item = ITEM; }` -/")
    o.append("def sliceStructLifetime : String := %s" % lstr(d["slice_struct_lifetime"]))
    o.append("def sliceStructElem : String := %s" % lstr(d["slice_struct_elem"]))
    o.append("def sliceFieldType : String := %s" % lstr(d["slice_field_ty"]))
    o.append("def sliceImplSelfType : String := %s" % lstr(d["slice_self_ty"]))
    o.append("def sliceImplSelfLifetime : String := %s" % lstr(d["slice_self_lifetime"]))
    o.append("def sliceImplSelfElem : String := %s" % lstr(d["slice_self_elem"]))
    o.append("def sliceItemType : String := %s" % lstr(d["slice_item"]))
    o.append("")
    o.append("/-- the methods called on the `UnsafeCell<Iter>` field of `ConIterOfIter`, by function of implementors/iter.rs -/")
    o.append("def wrappedCellAccesses : List (String × String) := [%s]" % ", ".join("(%s, %s)" % (lstr(a), lstr(b)) for (a, b) in d["cell_accesses"]))
    o.append("/-- the functions of the crate that call `mut_iter()` (or `size_hint` in the two files that can reach the wrapped iterator) -/")
    o.append("def mutIterCallers : List (String × String) := [%s]" % ", ".join("(%s, %s)" % (lstr(a), lstr(b)) for (a, b) in d["mut_iter_callers"]))
    o.append("")
    o.append("end Orx.Generated")
    return "\n".join(o) + "\n"


def main(argv=None):
    ap = argparse.ArgumentParser()
    ap.add_argument("--repo", default="/repo")
    ap.add_argument("--out", default=DEFAULT_OUT)
    a = ap.parse_args(argv)
    try:
        d = extract(a.repo)
    except Missing as e:
        sys.stderr.write("extract_bounds: missing anchor: %s\n" % e)
        return 3
    text = render(d)
    os.makedirs(os.path.dirname(a.out), exist_ok=True)
    old = open(a.out).read() if os.path.exists(a.out) else None
    if old != text:
        tmp = a.out + ".tmp"
        with open(tmp, "w") as f:
            f.write(text)
        os.replace(tmp, a.out)
    print("extract_bounds: %d unsafe impls, %d constructor impls -> %s%s" % (
        len(d["impls"]), len(d["ctors"]), a.out, "" if old != text else " (unchanged)"))
    return 0


if __name__ == "__main__":
    sys.exit(main())
