"""Case streams per property (DESIGN.md §4.1 generator). Everything derives from one random.Random(seed)."""
import itertools, os, random
from cases import Case, parse_cases, make_source, rand_sched, distinct_vals, rand_take, KNOWN_KINDS, ALL_KINDS, MAXW

VERIF = os.path.dirname(os.path.dirname(os.path.abspath(__file__)))


def corpus(names):
    out = []
    for n in names:
        p = os.path.join(VERIF, "corpus", n)
        if os.path.exists(p):
            out += parse_cases(open(p).read())
    return out


# ---------------------------------------------------------------------------------------------------
# random structured cases

DEFAULT = dict(
    kinds=ALL_KINDS, adapts=True, lens=[0, 1, 2, 3, 5, 8, 17, 64], threads=(1, 4), ops=(1, 5),
    pulls=True, loops=True, skip=False, query=True, buffered=True, drain=0.6, owners=["drop", "intoseq all", "intoseq 1", "intoseq 0", "intoseq 3"],
    nonfused=0.15, liars=True, panics=False, zero=False, frozen=False, get=False,
)


def rand_case(rng, cid, prof):
    P = dict(DEFAULT)
    P.update(prof)
    kind = rng.choice(P["kinds"])
    n = rng.choice(P["lens"])
    adapt = "none"
    if P["adapts"] and kind in ("slice", "vecref", "arrref", "iterref") and rng.random() < 0.35:
        adapt = rng.choice(["cloned", "copied"])
    tail = None
    if kind in ("iter", "iterref"):
        n = min(n, 17)
        if P["nonfused"] and rng.random() < (0.5 if P["nonfused"] is True else P["nonfused"]):
            tail = ["N"] * rng.randint(1, 2) + ["S%d" % v for v in distinct_vals(rng, rng.randint(1, 3))]
            tail = [("S%d" % (int(t[1:]) + 2000)) if t.startswith("S") else t for t in tail]
        if P["panics"] and rng.random() < 0.7:
            tail = ["P"]
    c = make_source(rng, cid, kind, n, adapt=adapt, tail=tail)
    if c.is_iter() and P["liars"] and rng.random() < 0.12:
        # an "exact" size hint that is not the number of elements (size_hint must not be trusted for correctness)
        c.hint = "fixed%d" % max(0, c.src_len() + rng.choice([-2, -1, -1, 1, 3]))
    if P["panics"] and c.is_iter() and tail == ["P"]:
        # panic position anywhere
        k = rng.randint(0, len(c.script) - 1)
        c.script = c.script[:k] + ["P"] + c.script[k:-1]
    L = c.src_len()
    nt = rng.randint(*P["threads"])
    threads = []
    for t in range(nt):
        ops = []
        has_buf = False
        for _ in range(rng.randint(*P["ops"])):
            r = rng.random()
            choices = []
            if P["pulls"]:
                choices += ["next"] * 4 + ["nextv", "chunk", "chunk"]
                if P["buffered"]:
                    choices += ["buf", "buf"]
            if P["loops"]:
                choices += ["loop"]
            if P["skip"]:
                choices += ["skip"]
            if P["query"]:
                choices += ["len", "hasmore"]
            if P["get"] and not c.is_iter():
                choices += ["get"]
            ch = rng.choice(choices)
            sizes = [1, 2, 3, max(1, L - 1), max(1, L), L + 1, L + 4]
            if P["zero"]:
                sizes.append(0)
            if ch == "chunk":
                nn = rng.choice(sizes)
                ops.append("chunk %d %s" % (nn, rand_take(rng, nn)))
            elif ch == "buf":
                if not has_buf or rng.random() < 0.25:
                    nn = max(1, rng.choice(sizes)) if not P["zero"] else rng.choice(sizes)
                    ops.append("bufnew %d" % nn)
                    if nn == 0:
                        break
                    has_buf = True
                ops.append("bufnext %s" % (rng.choice(["all", "all", "0", "1", "2"]) if rng.random() < 0.85 else "nth:%d" % rng.randint(0, 3)))
                if rng.random() < 0.15:
                    ops.append("bufdrop")
                    has_buf = False
            elif ch == "loop":
                nn = rng.choice([1, 1, 2, 3, max(1, L), L + 2])
                lp = rng.choice(["foreach %d", "enumforeach %d", "fold %d", "values", "idsvalues"])
                ops.append(lp % nn if "%d" in lp else lp)
            elif ch == "get":
                ops.append("get %d" % rng.randint(0, L + 1))
            else:
                ops.append(ch)
        if rng.random() < P["drain"] and P["pulls"]:
            nn = rng.choice([1, 1, 2, 4])
            ops.append(rng.choice(["foreach %d" % nn, "enumforeach %d" % nn, "values", "idsvalues", "fold %d" % nn]))
        threads.append(ops)
    c.threads = threads
    c.owner = rng.choice(P["owners"])
    total_steps = sum(len(t) for t in threads) * 8 + 10
    c.sched = rand_sched(rng, nt, rng.randint(0, total_steps))
    if P["frozen"] and nt > 1 and rng.random() < 0.8:
        c.frozen = [rng.randrange(nt)]
    return c


# ---------------------------------------------------------------------------------------------------
# small-scope exhaustive schedules

def exhaustive(prefix, base_cases, nthreads, depth):
    """every schedule prefix of length `depth` over `nthreads` threads, for each base case"""
    out = []
    for bi, base in enumerate(base_cases):
        for si, sched in enumerate(itertools.product(range(nthreads), repeat=depth)):
            c = parse_cases(base.text())[0]
            c.id = "%s-%d-%d" % (prefix, bi, si)
            c.sched = list(sched)
            c.tags = set(base.tags) | {"exh"}
            out.append(c)
    return out


def small_bases(rng, progs, kinds, n=3):
    out = []
    for kind in kinds:
        for prog in progs:
            c = make_source(rng, "b", kind, n, hint="exact")
            c.threads = [list(p) for p in prog]
            c.owner = "intoseq all"
            out.append(c)
    return out


def overshoot_stream(rng, pid, tier):
    """a long range drained by chunk pulls, then the counter driven more than 2^20 positions past the end by late chunk pulls of
    two threads, in every order of their accesses (a late pull has one access today; any second one is interleaved)"""
    n = 1 << 20
    out = []
    tails = [[0, 1, 0, 1], [1, 0, 1, 0], [0, 1, 1, 0], [0, 0, 1, 1]]
    if tier != "quick":
        tails = [list(t) for t in itertools.product((0, 1), repeat=4)]
    for i, tl in enumerate(tails):
        c = Case("%s-ov%d" % (pid, i), "range", start=7, stop=7 + 3 * n, owner="drop")
        c.threads = [["chunk %d 0" % n] * 4 + ["chunk %d 0" % n, "len", "next", "hasmore"], ["chunk %d 0" % n, "chunk %d 1" % n, "next", "len"]]
        c.sched = [0] * 4 + tl
        out.append(c)
    return out


def relocate_stream(rng, pid, kinds=ALL_KINDS):
    """the iterator value itself is moved to another address between two operations (what `Box::new(it)`, `vec.push(it)`, a
    return by value or a move into a closure do), and the bytes it occupied are overwritten: single thread, every kind"""
    out = []
    i = 0
    pres = [["next"], ["chunk 2 all"], ["next", "chunk 2 1"], ["skip"], ["len"], ["foreach 2 panic=1"], ["next", "next", "next"]]
    posts = [["next", "next", "len"], ["chunk 3 all", "next"], ["skip", "next"], ["foreach 1"], ["bufnew 2", "bufnext all", "bufnext 1"], ["values"], []]
    for kind in kinds:
        for L in (3, 6, 8):
            for pre in pres:
                post = rng.choice(posts)
                c = make_source(rng, "%s-mv%d" % (pid, i), kind, L, hint=rng.choice(["exact", "inexact"]))
                c.threads = [list(pre) + list(post)]
                c.relocate = len(pre)
                c.owner = rng.choice(["drop", "intoseq all", "intoseq 1"])
                out.append(c)
                i += 1
    return out


def fat_stream(rng, pid, big_ones=True):
    """large element types: 128-byte elements with a destructor through every life-cycle of the consuming kinds and the slice
    (also under cloned() / copied()), and a few cases with 64 KiB elements and chunk sizes above a thousand (so that
    `chunk size * size_of::<T>()` passes every plausible byte threshold: 16 MiB, 64 MiB)"""
    out = []
    i = 0
    for kind in ("array", "vec", "slice", "iter"):
        for n in (3, 6, 8):
            for pre in (0, 1, n // 2, n):
                for mid in (["chunk 2 1"], ["bufnew 3", "bufnext 1", "bufnext all"], ["skip"], []):
                    c = make_source(rng, "%s-fat%d" % (pid, i), kind, n, hint=rng.choice(["exact", "inexact"]))
                    c.fat = 128 if i % 2 else 2048
                    c.threads = [["next"] * pre + list(mid)]
                    if rng.random() < 0.4:
                        c.threads.append(["next", "chunk 2 all"])
                        c.sched = rand_sched(rng, 2, 10)
                    c.owner = rng.choice(["drop", "intoseq all", "intoseq 1"])
                    if kind == "slice" and i % 3 == 0:
                        c.adapt = rng.choice(["cloned", "copied"])
                    out.append(c)
                    i += 1
    if big_ones:
        L = 1100
        for (kind, adapt, prog) in (("iter", "none", ["chunk 1050 0", "next", "chunk 1050 1"]), ("slice", "copied", ["bufnew 1050", "bufnext 0", "bufnext 1"]),
                                    ("vec", "none", ["chunk 1050 1", "bufnew 1040", "bufnext 0"]), ("slice", "cloned", ["foreach 1050"]), ("iter", "none", ["bufnew 1050", "bufnext 0", "bufnext 0"])):
            if kind == "iter":
                c = Case("%s-fatbig%d" % (pid, i), "iter", script=["S%d" % (5000 + j) for j in range(L)], hint="inexact", owner="drop")
            else:
                c = Case("%s-fatbig%d" % (pid, i), kind, vals=[5000 + j for j in range(L)], adapt=adapt, owner="drop")
            c.fat = 65536
            c.threads = [list(prog)]
            out.append(c)
            i += 1
    return out


def nested_stream(rng, pid, n=60):
    """two wrappers nested on the same threads: the iterator under test wraps the sequential view `values()` of an inner concurrent
    iterator over the probe (so a pull of the outer one pulls from the inner one from inside its wrapped `next()`).
    Implementation only"""
    out = []
    for i in range(n):
        L = rng.choice([0, 1, 3, 5, 8])
        c = make_source(rng, "%s-nest%d" % (pid, i), "iter", L, hint="unbounded")
        nt = rng.randint(1, 3)
        c.threads = []
        for t in range(nt):
            ops = [rng.choice(["next", "next", "nextv", "chunk 2 all", "chunk 3 1", "bufnew 2 ; bufnext all ; bufnext 1", "foreach 1", "foreach 2", "values", "hasmore", "len"])
                   for _ in range(rng.randint(1, 4))]
            ops = [o for op in ops for o in op.split(" ; ")]
            if rng.random() < 0.5:
                ops.append(rng.choice(["foreach 1", "enumforeach 2", "fold 2"]))
            c.threads.append(ops)
        c.nested = True
        c.sched = rand_sched(rng, nt, rng.randint(0, 40))
        c.owner = rng.choice(["drop", "intoseq all"])
        c.tags = {"implonly", "nomodel"}
        out.append(c)
    return out


def long_chunk_stream(rng, pid):
    """one-shot and buffered chunk pulls of several thousand positions over a wrapped iterator while other threads reserve single
    positions at many different moments of the fill (a chunk is *one* reservation however long it is). Implementation only"""
    out = []
    L = 9000
    for i, (first, at) in enumerate((("chunk 6000 all", 8200), ("chunk 5000 1", 4100), ("chunk 6000 all", 30), ("bufnew 6000 ; bufnext all", 8300),
                                     ("chunk 8999 all", 12000))):
        c = Case("%s-long%d" % (pid, i), "iter", script=["S%d" % (10000 + j) for j in range(L)], hint=rng.choice(["exact", "inexact"]), owner="drop")
        c.threads = [first.split(" ; ") + ["next"], ["next", "next", "chunk 3 all"], ["next"]]
        # thread 0 alone for `at` steps (somewhere inside its fill), then the others reserve, then everybody
        c.sched = [0] * at + [1, 1, 1, 2, 2, 2, 1, 1]
        c.tags = {"implonly", "nomodel"}
        out.append(c)
    return out


def far_waiter_stream(rng, pid):
    """waiters *far behind* the turn: a chunk / buffered pull of 24-40 positions is in flight (and the wrapped iterator panics or ends
    somewhere inside it) while other threads have reserved positions behind it and wait"""
    out = []
    i = 0
    for n in (24, 40):
        for k in (None, 0, 5, n - 1):
            for waiters in ([["next"]], [["next"], ["chunk 2 all"]], [["bufnew 3", "bufnext all"], ["next", "next"]]):
                for first in ("chunk %d all" % n, "bufnew %d ; bufnext all" % n):
                    L = n + 6
                    c = Case("%s-far%d" % (pid, i), "iter", script=["S%d" % (3000 + j) for j in range(L)], hint=rng.choice(["exact", "inexact"]))
                    if k is not None:
                        c.script = c.script[:k] + ["P"] + c.script[k:]
                    c.threads = [first.split(" ; ") + ["next"]] + [list(w) + ["foreach 1"] for w in waiters]
                    nt = len(c.threads)
                    # thread 0 reserves and enters the wrapped iterator, then everybody else reserves and waits, then thread 0 goes on
                    c.sched = [0] * (7 if "bufnew" in first else 6) + [t for t in range(1, nt) for _ in range(5)] + [0] * 200
                    c.owner = "drop"
                    out.append(c)
                    i += 1
    return out


def dropwait_stream(rng, pid):
    """a destructor that *blocks* on another thread: the wrapped iterator panics inside a buffered / one-shot chunk pull after some
    elements were taken; the destructor of the first of them waits until the other thread -- which is queued behind the pull -- has
    finished. Nothing the machinery destroys while it holds the turn may depend on a waiter (implementation only)"""
    out = []
    i = 0
    for L in (5, 7):
        for k in (1, 2, 3):
            # (buffered pulls only: a one-shot `next_chunk` collects into a local `Vec`, which unwinding destroys before the guard
            # stores `completed` -- on the pinned crate too; see DESIGN §11, re-entrancy)
            for first in (["bufnew 4", "bufnext all"], ["bufnew 3", "bufnext 1"]):
                for second in (["next", "next"], ["chunk 2 all"], ["bufnew 2", "bufnext all"]):
                    vals = distinct_vals(rng, L)
                    c = Case("%s-dw%d" % (pid, i), "iter", script=["S%d" % v for v in vals[:k]] + ["P"] + ["S%d" % v for v in vals[k:]], hint=rng.choice(["exact", "inexact"]))
                    c.threads = [list(first) + ["next"], list(second)]
                    c.dropwait = (vals[0], 1)
                    # thread 0 reserves and enters the wrapped iterator, thread 1 reserves and waits, then thread 0 goes on to the panic
                    c.sched = [0] * (7 if first[0].startswith("bufnew") else 6) + [1] * (6 if second[0].startswith("bufnew") else 5) + [0] * 60
                    c.owner = "drop"
                    c.tags = {"implonly", "nomodel"}
                    out.append(c)
                    i += 1
    return out


def closure_pull_stream(rng, pid):
    """the function given to `for_each` / `enumerate_for_each` itself pulls one more element from the same iterator after each
    call (and processes it): re-entrancy from user code that runs *outside* the turn. Implementation only"""
    out = []
    i = 0
    for kind in ALL_KINDS:
        for L in (0, 3, 6, 9):
            for progs in ([["foreach 1 pull"]], [["foreach 2 pull"]], [["enumforeach 1 pull"]], [["enumforeach 3 pull"], ["foreach 1"]],
                          [["foreach 2 pull"], ["enumforeach 2 pull"], ["next", "chunk 2 all"]]):
                c = make_source(rng, "%s-cpl%d" % (pid, i), kind, L, hint=rng.choice(["exact", "inexact"]))
                c.threads = [list(t) for t in progs]
                if len(progs) > 1:
                    c.sched = rand_sched(rng, len(progs), 20)
                c.owner = rng.choice(["drop", "intoseq all"])
                c.tags = {"implonly", "nomodel"}
                out.append(c)
                i += 1
    return out


def many_threads_stream(rng, pid, n=24):
    """8 to 12 threads on one iterator (every other stream has at most 4): pulls of every form, loops, a skip now and then"""
    out = []
    for i in range(n):
        kind = rng.choice(ALL_KINDS)
        L = rng.choice([3, 8, 17, 40])
        c = make_source(rng, "%s-mt%d" % (pid, i), kind, L, hint=rng.choice(["exact", "inexact"]))
        L = c.src_len()
        nt = rng.randint(8, 12)
        c.threads = []
        for t in range(nt):
            ops = []
            for _ in range(rng.randint(1, 3)):
                ops.append(rng.choice(["next", "next", "nextv", "chunk 2 all", "chunk 3 1", "chunk %d all" % max(1, L // 4), "len", "hasmore"]))
            if rng.random() < 0.6:
                ops.append(rng.choice(["foreach 1", "foreach 2", "enumforeach 3", "fold 2", "values"]))
            c.threads.append(ops)
        if pid in ("C06", "C09") and rng.random() < 0.3:
            c.threads[rng.randrange(nt)].insert(0, "skip")
        c.sched = rand_sched(rng, nt, rng.randint(0, 80))
        c.owner = rng.choice(["drop", "intoseq all"])
        out.append(c)
    return out


def reenter_stream(rng, pid, skip=False):
    """re-entrancy: the wrapped iterator's own `next()` asks the concurrent iterator around it how much is left (`has_more`,
    `try_get_len`) -- at its k-th call, from whichever thread is inside. Implementation only (the model has no nested operation)"""
    out = []
    i = 0
    progs = [[["next"] * 5], [["chunk 2 all", "chunk 2 all", "next", "next"]], [["bufnew 2", "bufnext all", "bufnext all", "bufnext all"]],
             [["foreach 1"]], [["fold 2"]], [["next", "next"], ["next", "next", "next"]], [["values"]]]
    for kind in ("iter", "iterref"):
        for L in (3, 4):
            for k in range(0, L + 1):
                for pr in progs:
                    c = make_source(rng, "%s-re%d" % (pid, i), kind, L, hint=rng.choice(["exact", "exact", "inexact"]))
                    c.threads = [list(t) for t in pr]
                    # `skip`: the same `next()` also calls `skip_to_end` (only where the monitors make no assumption about skips:
                    # the skip is not an operation of the case)
                    c.reenter = "%d:skip" % k if (skip and i % 2 == 0) else k
                    c.owner = "intoseq all"
                    if len(pr) > 1:
                        c.sched = rand_sched(rng, 2, 12)
                    c.tags = {"implonly", "nomodel"}
                    out.append(c)
                    i += 1
    return out


WAIT_BASE = 1000000


def stall_stream(rng, pid, ms=2300):
    """a thread waits *long* for its turn: thread 0 is inside the wrapped iterator's `next()` while thread 1, which has reserved the
    next position(s), spins for `ms` milliseconds of wall-clock time at native speed (millions of rounds; a wait window of the
    schedule) -- then thread 0 goes on and both drain the source. Waiting, however long, changes nothing (implementation only:
    the number of spin rounds is not reproducible)"""
    out = []
    for i, second in enumerate((["next", "foreach 1"], ["chunk 2 all", "foreach 2"])):
        c = make_source(rng, "%s-stall%d" % (pid, i), "iter", 6, hint=("exact" if i == 0 else "inexact"))
        c.threads = [["next", "foreach 1"], second]
        c.sched = [0] * 6 + [WAIT_BASE + 16 * ms + 1]
        c.owner = "intoseq all"
        c.tags = {"implonly", "nomodel"}
        out.append(c)
    return out


def hintpanic_stream(rng, pid):
    """a wrapped iterator whose `size_hint` panics once it has produced everything -- if anybody asks at that moment: the crate
    reads `size_hint` only while constructing the concurrent iterator (`hint=panicend` is an inexact hint otherwise)"""
    out = []
    i = 0
    progs = [[["chunk 2 all", "chunk 2 all", "chunk 2 all"], ["next", "next", "hasmore"]], [["chunk 3 all", "chunk 3 1", "next"], ["bufnew 2", "bufnext all", "bufnext all"]],
             [["chunk 2 all"] * 3], [["foreach 2"], ["chunk 2 all", "chunk 2 all", "len"]], [["next"] * 5, ["chunk 1 all", "chunk 4 all", "chunk 4 all"]]]
    for kind in ("iter", "iterref"):
        for L in (2, 4):
            for pr in progs:
                for rep in range(2):
                    c = make_source(rng, "%s-hp%d" % (pid, i), kind, L, hint="panicend")
                    c.threads = [list(t) for t in pr]
                    c.owner = "drop"
                    if len(pr) > 1:
                        c.sched = rand_sched(rng, len(pr), 14)
                    out.append(c)
                    i += 1
    return out


def rawget_stream(rng, pid):
    """the public `AtomicIter::get(i)` on a wrapped iterator, for positions already yielded, the next one and (after the end) any:
    both build profiles are run (the model has no `get` on this kind: implementation-only)"""
    out = []
    i = 0
    for kind in ("iter", "iterref"):
        for L in (0, 2, 4):
            for pre in (0, 1, 3):
                k = min(pre, L)
                for prog in (["get %d" % j for j in range(0, k + 1)] + ["get %d" % k, "next"],
                             ["get %d" % k, "get %d" % max(0, k - 1), "chunk 2 all", "get 0"]):
                    # a position beyond the next one waits for another thread: only asked once the source is drained
                    tail = ["foreach 1", "get 0", "get %d" % (L + 5)]
                    c = make_source(rng, "%s-rawget%d" % (pid, i), kind, L, hint=rng.choice(["exact", "inexact", "unbounded"]))
                    c.threads = [["next"] * pre + prog + tail]
                    c.tags = {"implonly", "nomodel"}
                    out.append(c)
                    i += 1
    return out


# ---------------------------------------------------------------------------------------------------
# the streams

def half_stream(rng, pid, kinds=("iter", "iterref", "vec", "slice", "array")):
    """buffered chunk iterators whose previous chunk was only partly consumed (stale slots in a reused buffer)"""
    cases = []
    i = 0
    for kind in kinds:
        for L in range(1, 7):
            for n in (2, 3, 4):
                for ks in itertools.product(["0", "1", "all"], repeat=3):
                    # the chunk after the partly consumed ones is drained through `next`, through `Iterator::fold`
                    # (what `for_each` uses; an override in the crate is what runs) or through `count`
                    for last in ("all", rng.choice(["fold", "fold", "count"])):
                        c = make_source(rng, "%s-half%d" % (pid, i), kind, L, hint=rng.choice(["exact", "inexact"]))
                        # (a full drain in the middle goes through `fold`/`count` half of the time in the second variant)
                        ks2 = [(rng.choice(["fold", "count", "all"]) if (k == "all" and last != "all") else k) for k in ks]
                        c.threads = [["bufnew %d" % n] + ["bufnext %s" % k for k in ks2] + ["bufnext %s" % last]]
                        c.owner = rng.choice(["drop", "intoseq all"])
                        cases.append(c)
                        i += 1
    return cases


def nth_stream(rng, pid, kinds=("iter", "iterref", "vec", "slice", "array", "range")):
    """chunks consumed through `Iterator::nth` (one-shot and buffered), alone and followed by more pulls"""
    cases = []
    i = 0
    for kind in kinds:
        for L in (1, 2, 4, 6):
            for n in (1, 3, 4):
                for K in (0, 1, 2, 3, 5):
                    for style in range(3):
                        c = make_source(rng, "%s-nth%d" % (pid, i), kind, L, hint=rng.choice(["exact", "inexact"]))
                        if style == 0:
                            c.threads = [["chunk %d nth:%d" % (n, K), "next", "chunk %d nth:0" % n]]
                        elif style == 1:
                            c.threads = [["bufnew %d" % n, "bufnext nth:%d" % K, "bufnext 1", "bufnext nth:%d" % K, "bufnext all"]]
                        else:
                            c.threads = [["chunk %d nth:%d" % (n, K)], ["bufnew %d" % n, "bufnext nth:%d" % K, "next"]]
                            c.sched = rand_sched(rng, 2, 10)
                        c.owner = rng.choice(["drop", "intoseq all"])
                        if kind in ("slice", "iterref") and rng.random() < 0.4:
                            c.adapt = rng.choice(["cloned", "copied"])
                        cases.append(c)
                        i += 1
    return cases


def pod_stream(rng, pid):
    """consumed vectors / arrays of `Copy` elements without drop glue (`needs_drop::<T>() == false`): chunks consumed through
    `next`, `nth`, and `next` followed by `nth` (the latter IMPL-ONLY), then more pulls and the remainder"""
    cases = []
    i = 0
    for kind in ("vec", "array"):
        for L in (3, 6, 8):
            for n in (2, 3, 5):
                for tok in ("all", "1", "nth:0", "nth:1", "nth:2", "count", "fold", "1+nth:0", "2+nth:0", "1+nth:1", "2+nth:1"):
                    for style in (0, 1):
                        c = make_source(rng, "%s-pod%d" % (pid, i), kind, L)
                        c.pod = True
                        if style == 0:
                            c.threads = [["chunk %d %s" % (n, tok), "next", "chunk %d all" % n]]
                        else:
                            c.threads = [["bufnew %d" % n, "bufnext %s" % tok, "bufnext all"]]
                        c.owner = rng.choice(["intoseq all", "drop"])
                        if "+" in tok:
                            c.tags = {"implonly", "nomodel"}
                        cases.append(c)
                        i += 1
    return cases


def spare_stream(rng, pid):
    """consumed vectors with unused capacity (built by `with_capacity` + `push`): every progress point, every ending"""
    cases = []
    i = 0
    for L in (1, 4, 7, 10):
        for spare in (1, 6, 13):
            for k in range(0, L + 2):
                for owner in ("intoseq all", "intoseq 1", "drop"):
                    c = make_source(rng, "%s-spare%d" % (pid, i), "vec", L)
                    c.spare = spare
                    c.threads = [["next"] * k] if k % 2 == 0 else [["chunk %d all" % k]]
                    c.owner = owner
                    cases.append(c)
                    i += 1
    return cases


def wrapper_nth_stream(rng, pid):
    """IMPL-ONLY: std adaptors on top of `values()` / `ids_and_values()` (`nth`, hence `skip` / `step_by`): single-threaded
    sequences near and across the end of the source, every kind"""
    cases = []
    i = 0
    for kind in ("slice", "vec", "array", "range", "iter", "vecref"):
        for L in (1, 3, 5, 8):
            for pre in ([], ["next"], ["chunk 2 all"], ["next", "next", "next"]):
                for k in (0, 1, 2, 4, 7):
                    for op in ("vnth", "ivnth"):
                        c = make_source(rng, "%s-wn%d" % (pid, i), kind, L, hint="exact")
                        c.threads = [list(pre) + ["%s %d" % (op, k), "next", "%s 0" % op, "hasmore"]]
                        c.owner = "drop"
                        c.tags = {"implonly", "nomodel"}
                        cases.append(c)
                        i += 1
    return cases


def phase_stream(rng, pid, tail=None):
    """two threads over a wrapped iterator of every hint kind, scheduled in four phases T0^a T1^b T0^c T1^d (then round-robin):
    one thread is left at every point of its pull -- also right after it has handed the turn over -- while the other advances
    into the wrapped `next()`"""
    cases = []
    i = 0
    progs = [[["next", "next"], ["next", "next"]], [["next", "hasmore"], ["chunk 2 all", "next"]], [["next", "next"], ["bufnew 2", "bufnext all"]]]
    for hint in ("inexact", "unbounded", "exact", "upper", "inverted", "maxnone"):
        for pr in progs:
            for a in range(3, 11):
                for b in range(3, 10):
                    for cc in (0, 1, 2):
                        for d in (0, 2):
                            c = make_source(rng, "%s-ph%d" % (pid, i), "iter", 4, hint=hint)
                            c.threads = [list(t) + list(tail or []) for t in pr]
                            c.sched = [0] * a + [1] * b + [0] * cc + [1] * d
                            c.owner = "drop"
                            cases.append(c)
                            i += 1
    return cases


def clonepoint_stream(rng, pid):
    """IMPL-ONLY: `cloned()` over a slice / a wrapped iterator of references where `Clone::clone` is a scheduling point and may
    panic: another thread skips, pulls and queries while a clone is in flight"""
    cases = []
    i = 0
    progs = [[["next", "next"], ["skip", "next", "hasmore", "next"]], [["chunk 2 all"], ["skip", "hasmore", "next"]],
             [["next"], ["next", "skip", "hasmore", "len", "next"]], [["foreach 1"], ["skip", "next", "hasmore"]]]
    for kind in ("slice", "vecref", "iterref"):
        for pr in progs:
            for cp in (None, 0, 1):
                for sched in ([0, 0, 1, 1, 1, 1, 1, 1, 1, 1, 0], [0, 0, 0, 1, 1, 1, 1, 1, 1], [0, 1, 0, 1, 1, 1, 1, 0, 1, 1], [1, 0, 0, 1, 1, 1, 1]):
                    c = make_source(rng, "%s-clp%d" % (pid, i), kind, 4, hint="exact")
                    c.adapt = "cloned"
                    c.clonepoint = True
                    c.clonepanic = cp
                    c.threads = [list(t) for t in pr]
                    c.sched = list(sched)
                    c.owner = "drop"
                    c.tags = {"implonly", "nomodel"}
                    cases.append(c)
                    i += 1
    return cases


def bigarr_stream(rng, pid):
    """a consumed array of 288 elements (more than 4 KiB inline): every ending after a few pulls"""
    cases = []
    i = 0
    for owner in ("drop", "intoseq all", "intoseq 1", "intoseq 0"):
        for pr in ([["next", "next"]], [["chunk 5 1", "next"]], [["bufnew 3", "bufnext all"]], [[]], [["next", "skip"]]):
            c = make_source(rng, "%s-big%d" % (pid, i), "array", 288)
            c.threads = [list(t) for t in pr]
            c.owner = owner
            cases.append(c)
            i += 1
    return cases


def last_stream(rng, pid):
    """IMPL-ONLY: `Iterator::last()` on a chunk's value iterator after `k` calls of `next()` (also behind `peekable`, `skip`,
    `chain`, ... of std), one-shot and buffered, with a stale element left in the reused buffer by an earlier chunk"""
    cases = []
    i = 0
    for kind in ("vec", "array", "iter", "slice", "range", "iterref"):
        for L in (4, 6, 7):
            for n in (3, 4):
                for k in (0, 1, 2, 4):
                    tok = "%d+last" % k
                    for style in (0, 1, 2):
                        c = make_source(rng, "%s-last%d" % (pid, i), kind, L, hint=rng.choice(["exact", "inexact"]))
                        if style == 0:
                            c.threads = [["chunk %d %s" % (n, tok), "next", "chunk %d %s" % (n, tok)]]
                        elif style == 1:
                            c.threads = [["bufnew %d" % n, "bufnext 1", "bufnext %s" % tok, "bufnext %s" % tok]]
                        else:
                            c.threads = [["bufnew %d" % n, "bufnext 0", "bufnext %s" % tok], ["next"]]
                            c.sched = rand_sched(rng, 2, 8)
                        c.owner = "drop"
                        c.tags = {"implonly", "nomodel"}
                        cases.append(c)
                        i += 1
    return cases


def forget_stream(rng, pid):
    """IMPL-ONLY: a partly consumed buffered chunk of a wrapped iterator is leaked (`mem::forget`: leaking is safe, so nothing
    may depend on a destructor of the chunk), then further chunks -- short ones included -- are pulled through the same buffer"""
    cases = []
    i = 0
    for kind in ("iter", "iterref"):
        for L in (5, 6, 7, 9):
            for n in (3, 4):
                for k in (0, 1, 2):
                    for tail in (["bufnext all", "bufnext all", "bufnext all"], ["bufnext 1", "bufnext all", "bufnext all"]):
                        c = make_source(rng, "%s-fg%d" % (pid, i), kind, L, hint=rng.choice(["exact", "inexact"]))
                        c.threads = [["bufnew %d" % n, "bufnext %d+forget" % k] + list(tail)]
                        c.owner = "drop"
                        c.tags = {"implonly", "nomodel"}
                        cases.append(c)
                        i += 1
    return cases


def zst_stream(rng, pid):
    """zero-sized element types: `ptr.add(i) == ptr`, slices of any length occupy no memory"""
    cases = []
    i = 0
    for kind in ("vec", "array", "slice"):
        for L in (1, 2, 3, 5, 8):
            progs = [[["next"] * (L + 1)], [["chunk 2 all", "chunk 3 1", "next", "chunk 2 0"]], [["bufnew 2", "bufnext all", "bufnext 1", "bufnext all", "next"]],
                     [["chunk %d all" % L, "next"]], [["chunk %d nth:1" % (L + 1)]], [["enumforeach 2"]], [["idsvalues"]],
                     [["next", "skip", "next"]], [["chunk 2 all", "len"], ["next", "next", "hasmore"]], [["bufnew 3", "bufnext all"], ["enumforeach 1"]]]
            for pr in progs:
                for owner in ("drop", "intoseq all", "intoseq 1"):
                    c = Case("%s-zst%d" % (pid, i), kind, vals=[0] * L, threads=[list(t) for t in pr], owner=owner, zst=True)
                    if len(pr) > 1:
                        c.sched = rand_sched(rng, len(pr), 10)
                    cases.append(c)
                    i += 1
    # a wrapped iterator of zero-sized items (a `Vec<ZST>` reports capacity usize::MAX, `ptr.add` never moves)
    for L in (1, 3, 5, 8):
        progs = [[["chunk 2 all", "chunk 2 all", "chunk 2 all", "chunk 3 all", "next"]], [["next"] * (L + 1)], [["chunk 1 all", "next", "chunk 4 all", "next"]],
                 [["bufnew 2", "bufnext all", "bufnext 1", "bufnext all", "bufnext all", "next"]], [["chunk 2 all", "next"], ["chunk 3 all", "next", "next"]],
                 [["enumforeach 2"]], [["chunk 2 1", "chunk 2 all", "idsvalues"]]]
        for pr in progs:
            for hint in ("exact", "inexact"):
                c = make_source(rng, "%s-zsti%d" % (pid, i), "iter", L, hint=hint)
                c.script = ["S0"] * L
                c.zst = True
                c.threads = [list(t) for t in pr]
                c.owner = "drop"
                if len(pr) > 1:
                    c.sched = rand_sched(rng, len(pr), 12)
                cases.append(c)
                i += 1
    return cases


def wrapper_droppanic_stream(rng, pid):
    """IMPL-ONLY (outside the model): the destructor of an element owned by the wrapper's machinery panics -- a stale slot of a
    reused buffer being overwritten inside the critical section, an unconsumed chunk rest, a dropped buffered iterator.
    Judged by the monitors only (nobody hangs, nothing is delivered twice, every element is moved out or dropped once)."""
    cases = []
    i = 0
    progs = [[["bufnew 2", "bufnext 1", "bufnext all", "next"], ["next", "next"]],
             [["bufnew 3", "bufnext 0", "bufnext 1", "bufnext all"], ["chunk 2 all", "next"]],
             [["chunk 3 1", "next"], ["next", "next"]], [["bufnew 3", "bufnext 0", "bufdrop", "next"], ["next"]],
             [["bufnew 2", "bufnext 0", "bufnew 2", "bufnext all"], ["foreach 1"]], [["chunk 4 nth:1", "next"], ["fold 2"]]]
    for pr in progs:
        for k in range(0, 4):
            for rep in range(6):
                c = make_source(rng, "%s-wdp%d" % (pid, i), "iter", 7, hint=rng.choice(["exact", "inexact"]))
                c.threads = [list(t) for t in pr]
                c.droppanic = k
                c.owner = rng.choice(["drop", "intoseq all", "intoseq 1"])
                c.sched = rand_sched(rng, 2, 30)
                c.tags = {"implonly"}
                cases.append(c)
                i += 1
    return cases


def inflight_stream(rng, pid, tier):
    """a buffered (or chunk) pull in flight inside the wrapped `next()` while another thread skips, sees the end reported and
    keeps pulling / querying: every schedule prefix"""
    progs = [[["bufnew 2", "bufnext all", "hasmore"], ["skip", "next", "hasmore", "next", "len"]],
             [["foreach 2"], ["skip", "next", "len", "next"]],
             [["bufnew 3", "bufnext all", "len"], ["next", "skip", "hasmore", "next"]]]
    bases = small_bases(rng, progs, ["iter"], n=5)
    return exhaustive(pid + "-fl", bases, 2, 11 if tier == "quick" else 14)


def huge_chunk_stream(rng, pid):
    """one-shot chunk pulls of astronomic size on wrapped iterators of every hint kind (nothing may be pre-allocated or
    pre-computed from the requested size)"""
    cases = []
    i = 0
    for hint in ("unbounded", "inexact", "exact", "fixed3"):
        # sizes that keep the cumulative requested count below 2^64 together with the few other pulls of the case: beyond that
        # the reserved counter wraps (finding H1; the property's own exclusion for C01/C05) and tickets are re-issued
        for n in (1 << 62, (1 << 63) + 5, MAXW - 64, MAXW - 16):
            for pre in (0, 1):
                for nt in (1, 2):
                    c = make_source(rng, "%s-huge%d" % (pid, i), "iter", 3, hint=hint)
                    c.threads = [["next"] * pre + ["chunk %d all" % n, "next", "hasmore"]] + ([["next", "chunk 2 all"]] if nt == 2 else [])
                    c.sched = rand_sched(rng, nt, 10)
                    cases.append(c)
                    i += 1
    return cases


def huge_then_skip_stream(rng, pid, clones=False):
    """a drain-everything request (`next_chunk` / `for_each` with a chunk size near usize::MAX, keeping the cumulative requested
    count below 2^64) followed by `skip_to_end`, then pulls, queries, clones and the remainder: the counter sits within `len` of
    the largest word when the skip arrives"""
    cases = []
    i = 0
    for kind in ("slice", "vec", "array", "range", "vecref"):
        for L in (2, 5, 8):
            for pre in (0, 1, 2):
                for huge in ("chunk %d all" % (MAXW - pre), "chunk %d 1" % (MAXW - pre - 1), "foreach %d" % (MAXW - pre)):
                    for tail in (["skip", "hasmore", "next", "len", "next"], ["skip", "skip", "next", "chunk 2 all", "hasmore"],
                                 # enough single pulls after the skip to carry a counter that was *not* reset over the wrap
                                 ["skip"] + ["next"] * (pre + 4) + ["hasmore", "len"]):
                        c = make_source(rng, "%s-hs%d" % (pid, i), kind, L)
                        prog = ["next"] * pre + [huge] + list(tail)
                        if clones and kind in ("slice", "range", "vecref"):
                            prog += ["clone 1", "@1 next", "@1 hasmore", "@1 chunk 2 all"]
                        c.threads = [prog]
                        c.owner = "intoseq all" if kind != "range" or L < 100 else "drop"
                        if kind == "slice" and i % 3 == 1:
                            c.adapt = "cloned" if i % 2 else "copied"
                        cases.append(c)
                        i += 1
    return cases


def liar_stream(rng, pid):
    """wrapped iterators whose exact size hint is not their length (size_hint must not be trusted for correctness):
    pulls whose chunks end exactly at, just before and just after the claimed length"""
    cases = []
    i = 0
    for kind in ("iter", "iterref"):
        for L in (2, 3, 5):
            for k in sorted(set([max(0, L - 2), L - 1, L + 1])):
                for n in sorted(set([max(1, k - 1), max(1, k), k + 1])):
                    progs = [[["chunk %d all" % n, "next", "chunk %d all" % n]], [["bufnew %d" % n, "bufnext all", "bufnext all", "bufnext all"]],
                             [["next", "chunk %d 1" % n, "len", "next"]], [["chunk %d all" % n], ["next", "next"]],
                             [["foreach %d" % n], ["chunk %d all" % n]], [["chunk %d all" % n, "hasmore"]],
                             [["values"]], [["next", "idsvalues"]], [["values"], ["idsvalues"]], [["vnth 1", "values"]]]
                    for pr in progs:
                        for owner in ("intoseq all", "drop"):
                            kk = k
                            if (i % 7) == 3:
                                kk = rng.choice([MAXW, MAXW - 1, 1 << 63])     # an "exact" size that saturates the word
                            c = make_source(rng, "%s-liar%d" % (pid, i), kind, L, hint="fixed%d" % kk)
                            c.threads = [list(t) for t in pr]
                            c.owner = owner
                            if len(pr) > 1:
                                c.sched = rand_sched(rng, len(pr), 12)
                            if c.has_op("vnth", "ivnth"):
                                c.tags = {"implonly", "nomodel"}
                            cases.append(c)
                            i += 1
    return cases


def next_then_nth_stream(rng, pid, kinds=("vec", "array", "slice", "iter", "range")):
    """IMPL-ONLY (the model's consumption modes do not include it): some calls of `next()` on a chunk followed by one
    `nth(j)` on the same chunk iterator (`<k>+nth:<j>`), one-shot and buffered, then more pulls and the remainder"""
    cases = []
    i = 0
    for kind in kinds:
        for L in (4, 6, 9):
            for n in (3, 4, 6):
                for k in (1, 2, 3):
                    for j in (0, 1, 2):
                        for style in (0, 1):
                            c = make_source(rng, "%s-nn%d" % (pid, i), kind, L, hint=rng.choice(["exact", "inexact"]))
                            tok = "%d+nth:%d" % (k, j)
                            if style == 0:
                                c.threads = [["chunk %d %s" % (n, tok), "next"]]
                            else:
                                c.threads = [["bufnew %d" % n, "bufnext %s" % tok, "bufnext all"]]
                            c.owner = "intoseq all"
                            c.tags = {"implonly", "nomodel"}
                            cases.append(c)
                            i += 1
    return cases


def big_chunk_stream(rng, pid, tier):
    """IMPL-ONLY (the model's lists make 10^5-element chunks quadratic): loops with chunk sizes beyond 2^16 over a wrapped
    iterator longer than that -- the monitors check the visits (each element once, with its source index)"""
    cases = []
    progs = [[["enumforeach 66000"]], [["enumforeach 70001"], ["next", "next"]]]
    if tier != "quick":
        progs += [[["foreach 65537"], ["enumforeach 66000"]], [["fold 70000"], ["chunk 3 all"]], [["bufnew 66000", "bufnext all", "bufnext all"]]]
    for i, pr in enumerate(progs):
        L = 70000 + 7 * i
        c = Case("%s-big%d" % (pid, i), "iter", script=["S%d" % (1000 + j) for j in range(L)], hint=rng.choice(["exact", "inexact"]))
        c.threads = [list(t) for t in pr]
        c.owner = "drop"
        if len(pr) > 1:
            c.sched = rand_sched(rng, len(pr), 12)
        c.tags = {"implonly", "nomodel"}
        cases.append(c)
    return cases


def closure_panic_stream(rng, pid, kinds=("vec", "array", "iter")):
    """the caller's closure panics inside `for_each` / `enumerate_for_each` at every position of every chunk of a consuming
    source (the element in the closure's hands is the caller's; the rest of the chunk is the chunk iterator's to drop)"""
    cases = []
    i = 0
    for kind in kinds:
        for L in (1, 2, 3, 5, 7):
            for n in (1, 2, 3, 4):
                for j in range(0, L):
                    for op in ("foreach", "enumforeach"):
                        for second in (None, "next", "chunk 2 all"):
                            c = make_source(rng, "%s-cp%d" % (pid, i), kind, L, hint=rng.choice(["exact", "inexact"]))
                            c.threads = [["%s %d panic=%d" % (op, n, j)]]
                            if second:
                                c.threads.append([second, "next"])
                                c.sched = rand_sched(rng, 2, 10)
                            c.owner = rng.choice(["drop", "intoseq all", "intoseq 1"])
                            cases.append(c)
                            i += 1
    return cases


def probe_panic_ledger_stream(rng, pid):
    """the wrapped, owning iterator panics at its k-th `next()` in the middle of a chunk / buffered pull (elements of that pull
    already taken out of it), at every k: with the ledger (every element it produced is moved out or destroyed once)"""
    cases = []
    i = 0
    for L in (3, 5, 6):
        for n in (2, 3, 4):
            for k in range(0, L + 1):
                for style in range(4):
                    c = make_source(rng, "%s-pp%d" % (pid, i), "iter", L, hint=rng.choice(["exact", "inexact"]))
                    c.script = c.script[:k] + ["P"] + c.script[k:]
                    if style == 0:
                        c.threads = [["bufnew %d" % n, "bufnext all", "bufnext all", "bufnext all"]]
                    elif style == 1:
                        c.threads = [["chunk %d all" % n, "chunk %d 1" % n, "next"]]
                    elif style == 2:
                        c.threads = [["bufnew %d" % n, "bufnext 1", "bufnext all"], ["next", "next"]]
                        c.sched = rand_sched(rng, 2, 12)
                    else:
                        c.threads = [["foreach %d" % n], ["bufnew %d" % n, "bufnext all"]]
                        c.sched = rand_sched(rng, 2, 12)
                    c.owner = rng.choice(["drop", "intoseq all"])
                    cases.append(c)
                    i += 1
    return cases


def inpanic_stream(rng, pid):
    """operations issued by a thread that is already unwinding from an unrelated panic (a "drain the rest on drop" guard):
    `std::thread::panicking()` is true during the whole call -- also with a wrapped iterator that panics inside it"""
    cases = []
    i = 0
    progs = [[["foreach 2"]], [["enumforeach 1"]], [["fold 3"]], [["next", "chunk 2 all", "next"]], [["bufnew 2", "bufnext all", "bufnext all"]],
             [["foreach 2"], ["next", "next"]], [["next", "next"], ["enumforeach 2"]], [["chunk 2 all"], ["bufnew 2", "bufnext all", "next"]],
             [["next", "skip", "next"]], [["skip"], ["next", "hasmore"]]]
    for kind in ("iter", "iterref", "vec", "slice", "array"):
        for L in (3, 5):
            for pr in progs:
                for who in ([0], [0, 1]):
                    for k in (None, 0, 2):
                        if k is not None and kind not in ("iter", "iterref"):
                            continue
                        c = make_source(rng, "%s-ip%d" % (pid, i), kind, L, hint=rng.choice(["exact", "inexact"]))
                        if k is not None:
                            c.script = c.script[:k] + ["P"] + c.script[k:]
                        c.threads = [list(t) for t in pr]
                        c.inpanic = [t for t in who if t < len(pr)]
                        if len(pr) > 1:
                            c.sched = rand_sched(rng, len(pr), 12)
                        cases.append(c)
                        i += 1
    return cases


def droppanic_stream(rng, tier, pid):
    """a destructor panics: the k-th destruction of an element performed by the machinery of a consumed vec / array
    (unconsumed chunk rest, elements discarded by `nth`, skip_to_end, Drop, the remainder of into_seq_iter)"""
    cases = []
    i = 0
    styles = [
        lambda n: [["chunk %d 0" % n]], lambda n: [["chunk %d 1" % n, "next"]], lambda n: [["next", "chunk %d nth:1" % n, "next"]],
        lambda n: [["chunk %d nth:%d" % (n + 1, n)]], lambda n: [["bufnew %d" % n, "bufnext 1", "bufnext 0", "next"]],
        lambda n: [["bufnew %d" % n, "bufnext nth:0", "bufnext all"]], lambda n: [["next", "skip", "next"]], lambda n: [["skip"]],
        lambda n: [["next"]], lambda n: [[]], lambda n: [["chunk %d 1" % n], ["next", "skip"]], lambda n: [["bufnew 2", "bufnext 0", "bufnext 1"], ["chunk %d nth:0" % n, "next"]],
        lambda n: [["foreach 2"], ["chunk %d 0" % n]],
    ]
    for kind in ("vec", "array"):
        for L in (1, 2, 3, 5):
            for n in (1, 2, 3):
                for si, st in enumerate(styles):
                    for k in range(0, L):
                        for owner in ("drop", "intoseq 1", "intoseq all"):
                            if tier == "quick" and (i % 3) and L == 5:
                                i += 1
                                continue
                            c = make_source(rng, "%s-dp%d" % (pid, i), kind, L)
                            c.threads = [list(t) for t in st(n)]
                            c.owner = owner
                            c.droppanic = k
                            if len(c.threads) > 1:
                                c.sched = rand_sched(rng, len(c.threads), 8)
                            cases.append(c)
                            i += 1
    for j in range(400 if tier == "quick" else 20000):
        c = rand_case(rng, "%s-dpr%d" % (pid, j), dict(kinds=["vec", "array"], skip=True, lens=[1, 2, 3, 5, 8], drain=0.2, threads=(1, 3)))
        c.droppanic = rng.randint(0, max(0, c.src_len() - 1))
        cases.append(c)
    return cases


def pulls_stream(rng, tier, pid, extra=None, n_random=None, prof=None, exh=True):
    n_random = n_random if n_random is not None else (1500 if tier == "quick" else 60000)
    cases = []
    if exh:
        progs2 = [
            [["next", "next"], ["chunk 2 all"]],
            [["bufnew 2", "bufnext all"], ["next", "next"]],
            [["foreach 2"], ["foreach 1"]],
            [["chunk 3 1"], ["bufnew 1", "bufnext all", "bufnext all"]],
        ]
        depth = 9 if tier == "quick" else 13
        cases += exhaustive(pid + "-x2", small_bases(rng, progs2, ["slice", "vec", "range", "iter"]), 2, depth)
        progs3 = [[["next"], ["chunk 2 all"], ["next", "next"]]]
        cases += exhaustive(pid + "-x3", small_bases(rng, progs3, ["array", "iter"]), 3, 6 if tier == "quick" else 8)
    p = dict(prof or {})
    for i in range(n_random):
        cases.append(rand_case(rng, "%s-r%d" % (pid, i), p))
    return cases


def sanitize(c):
    """a `bufnext` needs a live buffer of the same thread"""
    for t in c.threads:
        live = False
        for j, op in enumerate(t):
            name = op.split()[0] if not op.startswith("@") else op.split()[1]
            if name == "bufnew":
                if op.split()[-1] == "0":
                    break          # documented panic: the thread ends here, what follows is never executed
                live = True
            elif name == "bufdrop":
                live = False
            elif name == "bufnext" and not live:
                t[j] = "next"
    return c


def stream_for(pid, tier, seed):
    cases = [sanitize(c) for c in stream_for0(pid, tier, seed)]
    # every third generated case with a skip ends the iteration through the public `AtomicIter::early_exit` instead of
    # `ConcurrentIter::skip_to_end` (the same operation today); corpus cases are left as written
    r2 = random.Random(seed * 7919 + 13)
    for c in cases:
        if c.has_op("skip") and not c.id.startswith("D") and r2.random() < 0.34:
            c.rawskip = True
        # every fifth plain case builds its iterator with the `From` conversion
        if c.kind in ("slice", "vec", "array", "range", "iter") and c.adapt == "none" and not (c.zst or c.pod or c.fat or c.nested or c.zstiter) and \
                not c.id.startswith("D") and r2.random() < 0.2:
            c.viafrom = True
        # every fourth case over an owning wrapped iterator uses a zero-sized iterator *type*
        if c.kind == "iter" and c.adapt == "none" and not c.zst and not c.pod and not c.id.startswith("D") and r2.random() < 0.25:
            c.zstiter = True
        # ... and every third case with a clone makes it by `Clone::clone_from` onto an iterator that is ahead of the source
        if c.has_op("clone") and not c.id.startswith("D") and r2.random() < 0.34:
            c.clonefrom = True
    return cases


def stream_for0(pid, tier, seed):
    rng = random.Random((seed * 1000003) ^ hash(pid) % 65521 if False else seed * 1000003 + sum(map(ord, pid)))
    defects = corpus(["defects.cases", "regress.cases"])
    big = tier != "quick"
    if pid in ("C01", "C02", "C04"):
        return defects + pulls_stream(rng, tier, pid) + half_stream(rng, pid) + nth_stream(rng, pid) + liar_stream(rng, pid) + zst_stream(rng, pid) + pod_stream(rng, pid) + \
            wrapper_nth_stream(rng, pid) + last_stream(rng, pid) + forget_stream(rng, pid) + relocate_stream(rng, pid) + stall_stream(rng, pid) + reenter_stream(rng, pid) + many_threads_stream(rng, pid) + long_chunk_stream(rng, pid) + nested_stream(rng, pid) + fat_stream(rng, pid) + \
            [c for c in inpanic_stream(rng, pid) if "P" not in (c.script or [])]
    if pid == "C03":
        cases = defects + pulls_stream(rng, tier, pid, prof=dict(loops=False, query=False, drain=0.2))
        cases += half_stream(rng, pid) + nth_stream(rng, pid) + liar_stream(rng, pid) + zst_stream(rng, pid) + pod_stream(rng, pid)
        # a chunk pull in flight while another thread skips: the chunk it had reserved is still delivered in full
        cases += inflight_stream(rng, pid, tier) + last_stream(rng, pid) + forget_stream(rng, pid) + fat_stream(rng, pid)
        # chunk sizes beyond 2^16 (quick) and beyond 2^20 (thorough: a wrapped iterator of 2^20 + 50 elements) on the buffered path
        c = Case("C03-big0", "iter", script=["S%d" % (1000 + j) for j in range(70007)], hint="inexact", owner="drop")
        c.threads = [["bufnew 66000", "bufnext 0", "bufnext 1", "bufnext 0"]]
        c.tags = {"implonly", "nomodel"}
        cases.append(c)
        if big:
            L = (1 << 20) + 50
            c = Case("C03-big1", "iter", script=["S%d" % (1000 + j) for j in range(L)], hint="inexact", owner="drop")
            c.threads = [["bufnew 1100000", "bufnext 0", "bufnext 0"]]
            c.tags = {"implonly", "nomodel"}
            cases.append(c)
        return cases
    if pid == "C05":
        cases = defects + pulls_stream(rng, tier, pid, prof=dict(nonfused=True), exh=False, n_random=800 if not big else 30000)
        # the end reached in every way (drained by singles / chunks / buffered pulls / loops, or skipped), then queries and pulls
        j = 0
        for kind in ALL_KINDS:
            for hint in (["exact", "inexact", "unbounded"] if kind in ("iter", "iterref") else [None]):
                for L in (0, 1, 3, 4):
                    for how in (["next"] * (L + 1), ["chunk 2 all"] * (L // 2 + 1), ["chunk %d all" % max(1, L)] * 2, ["bufnew 2"] + ["bufnext all"] * (L // 2 + 1),
                                ["foreach 1"], ["foreach 3"], ["next", "skip", "next"], ["skip", "chunk 2 all"], ["values"],
                                # a buffered iterator that has seen the end, kept alive over a skip, then dropped (its drop is an event)
                                ["bufnew 2"] + ["bufnext all"] * (L // 2 + 2) + ["skip", "bufdrop"],
                                ["bufnew 3"] + ["bufnext 0"] * (L // 3 + 3) + ["bufdrop"]):
                        for nt in (1, 2):
                            c = make_source(rng, "C05-end%d" % j, kind, L, hint=hint)
                            tail = ["len", "hasmore", "next", "chunk 2 all", "hasmore", "nextv", "len"]
                            c.threads = [list(how) + tail] + ([["next", "len", "chunk 3 all", "hasmore"]] if nt == 2 else [])
                            c.sched = rand_sched(rng, nt, 30)
                            c.owner = rng.choice(["drop", "intoseq all"])
                            cases.append(c)
                            j += 1
        # past-the-end: many further pulls after the first end
        for i in range(300 if not big else 20000):
            c = rand_case(rng, "C05-p%d" % i, dict(lens=[0, 1, 2, 3, 5], ops=(1, 3), drain=1.0, loops=False))
            for t in c.threads:
                if rng.random() < 0.3:
                    t.insert(rng.randint(0, len(t)), "skip")
                for _ in range(rng.randint(3, 20)):
                    t.append(rng.choice(["next", "nextv", "chunk 1 all", "chunk 3 all", "len", "hasmore", "bufnew 2", "bufnext all"]) )
            # a bufnext needs a buffer
            for t in c.threads:
                seen = False
                for j, op in enumerate(t):
                    if op.startswith("bufnew"):
                        seen = True
                    if op.startswith("bufnext") and not seen:
                        t[j] = "next"
            cases.append(c)
        cases += inflight_stream(rng, pid, tier)
        cases += overshoot_stream(rng, pid, tier)
        # very long ranges: the end reported (by a skip or by pulls past it), then further skips, pulls and queries
        j = 0
        for (a, b) in [(0, MAXW), (5, (1 << 63) + 9), (0, (1 << 63) + 1), (1, 1 << 63)]:
            for prog in (["skip", "next", "skip", "next", "hasmore", "len"], ["next", "skip", "chunk 3 all", "skip", "skip", "hasmore", "next", "len"]):
                for nt in (1, 2):
                    c = Case("C05-long%d" % j, "range", start=a, stop=b, threads=[list(prog) for _ in range(nt)], owner="drop")
                    c.sched = rand_sched(rng, nt, 12)
                    cases.append(c)
                    j += 1
        return cases
    if pid == "C06":
        cases = defects + pulls_stream(rng, tier, pid, prof=dict(skip=True), n_random=1200 if not big else 50000, exh=False)
        progs = [[["next", "skip"], ["next", "next"]], [["skip"], ["chunk 2 all", "next"]], [["bufnew 2", "bufnext all", "skip"], ["next"]],
                 # a pull in flight while another thread skips and then pulls again
                 [["bufnew 2", "bufnext all"], ["skip", "next", "hasmore"]], [["chunk 2 all"], ["skip", "next", "hasmore"]],
                 [["next"], ["skip", "chunk 2 all", "hasmore"]]]
        cases += exhaustive("C06-x2", small_bases(rng, progs, ["slice", "vec", "range", "iter", "array"]), 2, 9 if not big else 12)
        # very long known-size sources: one or more skips, then pulls and queries
        j = 0
        for (a, b) in [(0, MAXW), (0, MAXW - 1), (5, (1 << 63) + 9), (1, MAXW), (0, (1 << 63) + 1)]:
            for prog in (["skip", "skip", "next", "hasmore", "len"], ["next", "skip", "chunk 3 all", "skip", "hasmore", "next"],
                         ["chunk 4 all", "skip", "skip", "skip", "next", "len", "hasmore"]):
                for nt in (1, 2):
                    c = Case("C06-long%d" % j, "range", start=a, stop=b, threads=[list(prog) for _ in range(nt)], owner="drop")
                    c.sched = rand_sched(rng, nt, 12)
                    cases.append(c)
                    j += 1
        for i in range(300 if not big else 10000):
            c = rand_case(rng, "C06-s%d" % i, dict(skip=True, lens=[0, 1, 2, 3, 5, 8], drain=0.0))
            k = len(c.all_ops())
            for t in c.threads:
                t.append("skip") if rng.random() < 0.5 else None
                for _ in range(rng.randint(2, 6) + min(k, 6)):
                    t.append(rng.choice(["next", "next", "chunk 2 all", "hasmore", "len"]))
            cases.append(c)
        return cases + huge_then_skip_stream(rng, pid) + clonepoint_stream(rng, pid)
    if pid == "C07":
        prof = dict(kinds=["iter", "iterref"], skip=True, query=True)
        cases = defects + pulls_stream(rng, tier, pid, prof=prof, n_random=1500 if not big else 60000, exh=False)
        progs = [[["next", "next"], ["chunk 2 all"]], [["bufnew 2", "bufnext all"], ["next", "skip"]], [["foreach 1"], ["foreach 2"]]]
        cases += exhaustive("C07-x2", small_bases(rng, progs, ["iter"]), 2, 10 if not big else 14)
        # degenerate chunk sizes next to ordinary pulls
        zprogs = [[["bufnew 0", "bufnext all", "next"], ["next", "next"]], [["chunk 0 all", "next"], ["chunk 2 all"]], [["foreach 0"], ["next", "chunk 1 all"]]]
        cases += exhaustive("C07-z2", small_bases(rng, zprogs, ["iter"]), 2, 9 if not big else 12)
        # length queries on an exact-size source while another thread is inside the wrapped iterator
        qprogs = [[["next", "next"], ["len", "hasmore", "len"]], [["bufnew 2", "bufnext all"], ["hasmore", "len", "hasmore"]]]
        cases += exhaustive("C07-q2", small_bases(rng, qprogs, ["iter", "iterref"]), 2, 9 if not big else 12)
        cases += phase_stream(rng, pid) + stall_stream(rng, pid)
        return cases
    if pid in ("C08", "C15"):
        prof = dict(kinds=["vec", "array", "iter"], skip=True, lens=[0, 1, 2, 3, 5, 8], drain=0.3)
        cases = defects + pulls_stream(rng, tier, pid, prof=prof, n_random=1500 if not big else 60000, exh=False)
        cases += half_stream(rng, pid, kinds=("iter", "vec", "array")) + nth_stream(rng, pid, kinds=("iter", "vec", "array"))
        # every ending at every progress point, sequentially
        for kind in ["vec", "array", "iter"]:
            for n in [0, 1, 2, 5]:
                for k in range(0, n + 3):
                    for owner in ["drop", "intoseq all", "intoseq 0", "intoseq 1"]:
                        for style in range(3):
                            c = make_source(rng, "%s-life-%s-%d-%d-%s-%d" % (pid, kind, n, k, owner.replace(" ", ""), style), kind, n)
                            if style == 0:
                                c.threads = [["next"] * k]
                            elif style == 1:
                                c.threads = [["chunk %d %s" % (max(1, k), rng.choice(["all", "0", "1"]))] if k else []]
                            else:
                                c.threads = [["bufnew 2"] + ["bufnext %s" % rng.choice(["all", "1", "0"])] * k]
                            c.owner = owner
                            cases.append(c)
        cases += droppanic_stream(rng, tier, pid) + zst_stream(rng, pid) + closure_panic_stream(rng, pid) + next_then_nth_stream(rng, pid, kinds=("vec", "array", "iter"))
        cases += spare_stream(rng, pid) + probe_panic_ledger_stream(rng, pid) + bigarr_stream(rng, pid)
        cases += [c for c in inpanic_stream(rng, pid) if c.kind in ("vec", "array", "iter") and "P" not in (c.script or [])]
        cases += relocate_stream(rng, pid, kinds=("vec", "array", "iter")) + [c for c in fat_stream(rng, pid) if c.kind != "slice"]
        # empty chunk requests (legal for one-shot pulls: they take nothing) between ordinary pulls, at every progress point
        j = 0
        for kind in ("vec", "array", "iter"):
            for n in (1, 3, 5):
                for pre in range(0, n + 1):
                    for owner in ("drop", "intoseq all", "intoseq 1"):
                        c = make_source(rng, "%s-zero%d" % (pid, j), kind, n)
                        c.threads = [["next"] * pre + ["chunk 0 all", "chunk 0 1"] + rng.choice([[], ["next"], ["chunk 2 1"], ["skip"]])]
                        c.owner = owner
                        cases.append(c)
                        j += 1
        return cases
    if pid == "C09":
        cases = defects + pulls_stream(rng, tier, pid, n_random=1000 if not big else 40000, prof=dict(skip=True))
        for i in range(600 if not big else 30000):
            cases.append(rand_case(rng, "C09-f%d" % i, dict(kinds=KNOWN_KINDS, frozen=True, threads=(2, 4), skip=True)))
        # other threads stop pulling because they panicked (wrapped iterator, closure) at any point
        for i in range(500 if not big else 20000):
            c = rand_case(rng, "C09-p%d" % i, dict(kinds=["iter", "iterref"], panics=True, threads=(2, 3), query=False, skip=(rng.random() < 0.3)))
            for t in c.threads:
                for j, op in enumerate(t):
                    if op.split()[0] in ("foreach", "enumforeach") and rng.random() < 0.3:
                        t[j] = op + " panic=%d" % rng.randint(0, 4)
            cases.append(c)
        pprogs = [[["chunk 3 all"], ["next", "next"]], [["bufnew 2", "bufnext all", "bufnext all"], ["foreach 1"]], [["fold 2"], ["chunk 2 all", "next"]]]
        for k in range(0, 4):
            bases = small_bases(rng, pprogs, ["iter"], n=4)
            for b in bases:
                b.script = b.script[:k] + ["P"] + b.script[k:]
            cases += exhaustive("C09-px%d" % k, bases, 2, 7 if not big else 10)
        cases += huge_chunk_stream(rng, pid) + wrapper_droppanic_stream(rng, pid) + inpanic_stream(rng, pid) + stall_stream(rng, pid) + reenter_stream(rng, pid, skip=True) + many_threads_stream(rng, pid) + far_waiter_stream(rng, pid)
        return cases
    if pid == "C10":
        return defects + pulls_stream(rng, tier, pid, prof=dict(skip=True, owners=["intoseq all", "intoseq 1", "intoseq 2", "intoseq 0"]), exh=False, n_random=2000 if not big else 80000) + liar_stream(rng, pid) + zst_stream(rng, pid) + \
            [c for c in boundary_stream(rng, tier) if c.kind == "range" and c.owner != "drop"][::2] + next_then_nth_stream(rng, pid) + \
            spare_stream(rng, pid) + pod_stream(rng, pid) + huge_then_skip_stream(rng, pid) + \
            [c for c in half_stream(rng, pid, kinds=("iter", "iterref", "vec")) if c.owner != "drop"] + reenter_stream(rng, pid)
    if pid == "C11":
        return defects + pulls_stream(rng, tier, pid, prof=dict(skip=True, query=True, drain=0.3), n_random=2000 if not big else 80000, exh=False) + \
            exhaustive("C11-x2", small_bases(rng, [[["next", "len"], ["chunk 2 all", "hasmore"]], [["hasmore", "next"], ["skip", "len"]]], ["slice", "vec", "range", "iter"]), 2, 8 if not big else 11) + \
            inflight_stream(rng, pid, tier) + liar_stream(rng, pid) + huge_then_skip_stream(rng, pid) + phase_stream(rng, pid, tail=["hasmore", "next", "hasmore"])
    if pid == "C12":
        cases = defects[:0]
        for i in range(1500 if not big else 60000):
            c = rand_case(rng, "C12-r%d" % i, dict(pulls=(rng.random() < 0.4), loops=True, query=False, ops=(0, 2), drain=1.0))
            cases.append(c)
        progs = [[["foreach 2"], ["foreach 1"]], [["fold 2"], ["fold 3"]], [["enumforeach 1"], ["next", "enumforeach 2"]]]
        cases += exhaustive("C12-x2", small_bases(rng, progs, ["slice", "vec", "iter"], n=4), 2, 9 if not big else 12)
        # a source that yields again after its None: the loops must stop at the first None whoever observes it
        nf = small_bases(rng, [[["foreach 2"], ["foreach 1"]], [["fold 3"], ["enumforeach 1"]], [["foreach 2"], ["values"]]], ["iter"], n=3)
        for b in nf:
            b.script = b.script + ["N", "S2001", "S2002", "N", "S2003"]
            b.hint = "inexact"
        cases += exhaustive("C12-nf", nf, 2, 10 if not big else 13)
        cases += big_chunk_stream(rng, pid, tier)
        # a wrapped iterator whose exact size hint understates its length, with direct pulls reserving past the claim before
        # (and while) the loops run: the loops go on until the iterator itself ends
        i = 0
        for kind in ("iter", "iterref"):
            for L in (6, 10):
                for k in (2, 3):
                    for loop in ("fold 2", "foreach 2", "enumforeach 3", "fold 1", "values"):
                        for pre in ("chunk %d all" % (k + 1), "chunk %d 1" % (k + 2), "bufnew %d ; bufnext all" % (k + 1)):
                            c = make_source(rng, "C12-liar%d" % i, kind, L, hint="fixed%d" % k)
                            c.threads = [pre.split(" ; ") + [loop], [loop]]
                            c.sched = rand_sched(rng, 2, 14)
                            cases.append(c)
                            i += 1
        cases += [c for c in inpanic_stream(rng, pid) if "P" not in c.script] + many_threads_stream(rng, pid) + closure_pull_stream(rng, pid)
        # the function panics at every position of a one-by-one / chunked loop over a known-size source
        cases += [c for c in closure_panic_stream(rng, pid, kinds=("slice", "vec", "range", "array")) if c.threads[0][0].split()[1] in ("1", "2") and c.src_len() <= 5]
        # zero-sized elements through every loop (chunk size 1 and > 1)
        i = 0
        for kind in ("vec", "array", "slice"):
            for L in (1, 3, 5):
                for pr in ([["foreach 2"]], [["enumforeach 3"]], [["fold 2"]], [["foreach 1"]], [["foreach 2"], ["enumforeach 1"]], [["fold 3"], ["foreach 2"]]):
                    c = Case("C12-zst%d" % i, kind, vals=[0] * L, threads=[list(t) for t in pr], owner="drop", zst=True)
                    if len(pr) > 1:
                        c.sched = rand_sched(rng, len(pr), 10)
                    cases.append(c)
                    i += 1
        return cases
    if pid == "C13":
        cases = []
        for i in range(1200 if not big else 50000):
            c = rand_case(rng, "C13-r%d" % i, dict(kinds=["slice", "vecref", "arrref", "iterref"], adapts=False, skip=True))
            c.adapt = rng.choice(["cloned", "copied"])
            cases.append(c)
        progs = [[["next", "skip"], ["bufnew 2", "bufnext all", "next"]], [["chunk 2 1", "hasmore"], ["foreach 2"]]]
        for c in exhaustive("C13-x2", small_bases(rng, progs, ["slice", "iterref"]), 2, 8 if not big else 11):
            c.adapt = "cloned" if (len(cases) % 2) else "copied"
            cases.append(c)
        # large elements under the adaptors (chunk boundaries must not depend on the element size)
        for c in fat_stream(rng, pid):
            if c.kind == "slice" and c.adapt != "none":
                cases.append(c)
        # the underlying reference-yielding iterator, driven with the same case (lock-step twin)
        twins = []
        for c in cases:
            t = parse_cases(c.text())[0]
            t.id = c.id + ".u"
            t.adapt = "none"
            twins.append(t)
        return cases + twins
    if pid == "C16":
        return [c for c in defects if c.id[0] in "HR" or c.id.startswith("D10")] + boundary_stream(rng, tier) + huge_chunk_stream(rng, pid) + \
            huge_then_skip_stream(rng, pid) + \
            exhaustive("C16-z2", small_bases(rng, [[["chunk 0 all", "next"], ["next", "next"]], [["chunk 0 1", "chunk 0 all"], ["chunk 2 all", "next"]],
                                                   [["next", "chunk 0 all"], ["bufnew 2", "bufnext all"]]],
                                             ["slice", "vec", "range", "array", "iter"], n=4), 2, 8 if not big else 11)
    if pid == "C17":
        return defects + pulls_stream(rng, tier, pid, prof=dict(skip=True), exh=False, n_random=2000 if not big else 80000) + \
            [c for c in boundary_stream(rng, tier) if c.kind == "range"][::3] + huge_chunk_stream(rng, pid) + spare_stream(rng, pid) + rawget_stream(rng, pid)
    if pid == "C18":
        cases = defects[:]
        for i in range(1500 if not big else 60000):
            c = rand_case(rng, "C18-p%d" % i, dict(kinds=["iter", "iterref", "iter", "vec", "slice"], panics=True, threads=(1, 3), query=False))
            # closure panics
            for t in c.threads:
                for j, op in enumerate(t):
                    if op.split()[0] in ("foreach", "enumforeach") and rng.random() < 0.5:
                        t[j] = op + " panic=%d" % rng.randint(0, 4)
            cases.append(c)
        cases += droppanic_stream(rng, tier, pid) + wrapper_droppanic_stream(rng, pid) + inpanic_stream(rng, pid) + hintpanic_stream(rng, pid) + far_waiter_stream(rng, pid) + dropwait_stream(rng, pid)
        return cases
    if pid == "C19":
        # sources and chunks longer than u32::MAX: a clone taken after such a chunk starts where the original stands
        longs = []
        for i, (n, take) in enumerate(((1 << 33, "0"), ((1 << 32) + 5, "1"), (1 << 35, "0"))):
            c = Case("C19-long%d" % i, "range", start=7, stop=7 + (1 << 36), owner="drop")
            c.threads = [["next", "chunk %d %s" % (n, take), "clone 1", "len", "@1 len", "@1 next", "next", "@1 chunk 3 all", "clone 2", "@2 next"]]
            c.tags = {"implonly", "nomodel"}
            longs.append(c)
        # ... and beyond isize::MAX on the longest range there is
        for i, n in enumerate(((1 << 63) + 5, (1 << 63) - 1, MAXW - 9)):
            c = Case("C19-vlong%d" % i, "range", start=0, stop=MAXW, owner="drop")
            c.threads = [["next", "chunk %d 0" % n, "clone 1", "len", "@1 len", "@1 next", "next", "@1 chunk 3 all", "clone 2", "@2 next", "@2 hasmore"]]
            c.tags = {"implonly", "nomodel"}
            longs.append(c)
        return longs + multi_stream(rng, tier) + [c for c in huge_then_skip_stream(rng, pid, clones=True) if c.kind in ("slice", "range", "vecref") and c.adapt == "none"]
    return defects + pulls_stream(rng, tier, pid)


GRID = [0, 1, 2, 7, (1 << 63) - 2, (1 << 63), (1 << 63) + 3, MAXW - 9, MAXW - 2, MAXW - 1, MAXW]


def boundary_stream(rng, tier):
    cases = []
    i = 0
    # ranges on the grid squared
    for a in GRID:
        for b in GRID:
            span = b - a
            if span > 64:
                progs = [["next", "chunk 3 all", "len"], ["chunk 1 all", "skip", "next", "next", "next"]]
                owners = ["drop"]           # the remainder is astronomically long
            else:
                progs = [["next", "next", "next", "next"], ["chunk 3 all", "next", "chunk 2 all", "next"], ["skip", "next", "next", "next"],
                         ["bufnew 2", "bufnext all", "bufnext all", "bufnext all", "bufnext all", "bufnext all", "bufnext all"], ["values", "next", "next"], ["chunk %d all" % MAXW, "next", "len"],
                         ["next", "chunk %d 2" % (MAXW - 1), "hasmore"]]
                owners = ["intoseq all", "drop"]
            for p in progs:
                for o in owners:
                    c = Case("C16-rg%d" % i, "range", start=a, stop=b, threads=[p], owner=o)
                    cases.append(c)
                    i += 1
    # one astronomic one-shot chunk to the tail of an extreme range, then a loop over the last few values: the enumerated
    # indices run up to the largest representable ones
    for (a, b) in ((0, MAXW), (7, MAXW), (0, MAXW - 1), (2, (1 << 63) + 3)):
        span = b - a
        for n in (2, 3, 4):
            for r in (n, 2 * n, 2 * n + 1):
                reads = range(span - r, span, n)
                if any(x + n > MAXW for x in reads):
                    continue      # a delivering pull would take the counter past 2^64: the wrap of finding H1
                for loop in ("enumforeach %d" % n, "foreach %d" % n, "fold %d" % n, "idsvalues"):
                    c = Case("C16-tail%d" % i, "range", start=a, stop=b, threads=[["chunk %d 0" % (span - r), loop]], owner="drop")
                    c.tags = {"implonly", "nomodel"}     # the model would list the 2^64 positions of the unconsumed chunk
                    cases.append(c)
                    i += 1
    # chunk sizes on every kind
    for kind in ALL_KINDS:
        for L in ([0, 1, 5] if kind not in ("array", "arrref") else [0, 1, 5]):
            sizes = [0, 1, max(0, L - 1), L, L + 1, (1 << 63) - 1, MAXW - 3, MAXW]
            for n in sizes:
                for pre in (0, 1):
                    for post in (["next", "next"], ["chunk 2 all"], ["skip", "next"], ["hasmore", "len"]):
                        c = make_source(rng, "C16-ck%d" % i, kind, L, hint="exact")
                        c.threads = [["next"] * pre + ["chunk %d %s" % (n, rng.choice(["all", "1", "0"]))] + post]
                        c.owner = rng.choice(["drop", "intoseq all"])
                        cases.append(c)
                        i += 1
                    if kind not in ("iter", "iterref") or n <= 4096:
                        c = make_source(rng, "C16-bf%d" % i, kind, L, hint="exact")
                        c.threads = [["next"] * pre + ["bufnew %d" % n, "bufnext all", "bufnext all", "next"]]
                        cases.append(c)
                        i += 1
                        c = make_source(rng, "C16-fe%d" % i, kind, L, hint="exact")
                        c.threads = [["next"] * pre + [rng.choice(["foreach %d", "fold %d", "enumforeach %d"]) % n, "next"]]
                        cases.append(c)
                        i += 1
    return cases


def multi_stream(rng, tier):
    cases = []
    n = 1500 if tier == "quick" else 60000
    for i in range(n):
        kind = rng.choice(["slice", "vecref", "arrref", "range"])
        L = rng.choice([0, 1, 2, 3, 5, 8])
        c = make_source(rng, "C19-r%d" % i, kind, L)
        if kind == "range" and L > 0 and rng.random() < 0.15:
            c.start, c.stop = c.stop, c.start      # an inverted range: legal, empty -- and so are its clones
        c.iters = rng.randint(1, 3)
        live = list(range(c.iters))
        nt = rng.randint(1, 3)
        threads = [[] for _ in range(nt)]
        nxt = c.iters
        # ops are generated along a global timeline so that a slot is used only after the clone that fills it
        # (single-threaded creation: clones are issued by thread 0 before the others start using them)
        pre = []
        for _ in range(rng.randint(0, 3)):
            if nxt < 4 and rng.random() < 0.6:
                src = rng.choice(live)
                if rng.random() < 0.7:
                    pre.append("@%d next" % src if src else "next")
                pre.append(("@%d " % src if src else "") + "clone %d" % nxt)
                live.append(nxt)
                nxt += 1
        threads[0] += pre
        for t in range(nt):
            mine = live if t == 0 else list(range(c.iters))
            for _ in range(rng.randint(1, 6)):
                k = rng.choice(mine)
                op = rng.choice(["next", "next", "chunk 2 all", "chunk 3 1", "len", "hasmore", "skip", "values"])
                threads[t].append(("@%d " % k if k else "") + op)
        c.threads = threads
        c.owner = rng.choice(["drop", "intoseq all"])
        c.sched = rand_sched(rng, nt, rng.randint(0, 40))
        cases.append(c)
    return cases
