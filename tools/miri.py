"""Miri as a search for a failing input (thorough tier of C08 / C15 / C17): a sample of the property's cases is run by the harness
under `cargo +nightly miri` (the real crate, interpreted; Stacked Borrows, validity of values, alignment, use after free, double
free, leaks are checked). Undefined behaviour reported for a case is a concrete violation with that case as the replay.
Not a proof of anything; a run without a report says nothing about the cases not sampled."""
import os, random, re, subprocess, time
import runner

TARGET = os.path.join(runner.WORK, "miri-target")


def eligible(c):
    if c.relocate is not None:          # the harness itself breaks the aliasing rules to move the iterator
        return False
    if c.has_op("get"):                 # listed finding D12
        return False
    txt = c.text()
    if re.search(r"\d{7,}", txt):       # astronomic sizes / positions: hours under an interpreter
        return False
    if c.src_len() > 40 or len(c.all_ops()) > 14:
        return False
    return True


def search(pid, cases, seed, n=384, jobs=16, timeout=1500):
    rng = random.Random(seed * 31 + 7)
    pool = [c for c in cases if eligible(c)]
    pick = pool if len(pool) <= n else rng.sample(pool, n)
    res = {"ran": 0, "sampled": len(pick), "ub": [], "unavailable": None, "wall_s": 0.0}
    if not pick:
        return res
    t0 = time.time()
    wd = os.path.join(runner.WORK, pid, "miri")
    os.makedirs(wd, exist_ok=True)
    env = dict(runner.ENV, MIRIFLAGS="-Zmiri-disable-isolation")
    # build once (also builds Miri's sysroot on a fresh machine)
    empty = os.path.join(wd, "empty.txt")
    open(empty, "w").write("")
    base = ["cargo", "+nightly", "miri", "run", "--quiet", "--target-dir", TARGET, "--"]
    with runner.Lock("cargo-miri"):
        p = subprocess.run(base + [empty, os.path.join(wd, "empty.out")], cwd=runner.HARNESS, env=env,
                           stdout=subprocess.PIPE, stderr=subprocess.STDOUT, text=True, timeout=timeout)
    if p.returncode != 0 and "Undefined Behavior" not in p.stdout:
        res["unavailable"] = p.stdout[-400:]
        return res
    chunks = [pick[i::jobs] for i in range(jobs)]
    procs = []
    for j, ch in enumerate(chunks):
        if not ch:
            continue
        f = os.path.join(wd, "cases.%d.txt" % j)
        o = os.path.join(wd, "out.%d.trace" % j)
        open(f, "w").write("".join(c.text() for c in ch))
        if os.path.exists(o):
            os.remove(o)
        procs.append((ch, o, subprocess.Popen(base + [f, o], cwd=runner.HARNESS, env=env, stdout=subprocess.PIPE,
                                              stderr=subprocess.STDOUT, text=True)))
    for (ch, o, pr) in procs:
        try:
            out, _ = pr.communicate(timeout=timeout)
        except subprocess.TimeoutExpired:
            pr.kill()
            out, _ = pr.communicate()
        blocks, order = runner.split_blocks(open(o).read() if os.path.exists(o) else "")
        res["ran"] += len(order)
        if "Undefined Behavior" in out or "error: memory leaked" in out:
            # the interpreter stops at the first error: the case being run is the last one in the out file
            cid = order[-1] if order else ch[0].id
            c = next((x for x in ch if x.id == cid), ch[0])
            m = re.search(r"error: (Undefined Behavior: [^\n]*|memory leaked[^\n]*)", out)
            where = re.findall(r"-->\s*(\S*/src/\S+)", out)
            res["ub"].append((c, blocks.get(cid, []), (m.group(1) if m else "undefined behaviour")[:300] +
                              (" at " + where[0] if where else "")))
    res["wall_s"] = round(time.time() - t0, 1)
    return res
