#!/bin/bash
# confirm_seed.sh <worktree> <n>: confirm a seeded change in a scratch worktree:
#   with the change: crate compiles, full existing suite passes, demo FAILS; without it: demo PASSES.
W="$1"; N="$2"
cd "$W" || exit 2
export CARGO_NET_OFFLINE=true
git checkout -q -- . ; rm -f tests/demo*.rs
git apply out/mut$N.diff || { echo "{\"applies\": false}"; exit 1; }
suite=$(timeout 1500 cargo test --offline --no-fail-fast 2>&1)
suite_fail=$(echo "$suite" | grep -cE "test result: FAILED|error: test failed|^error")
suite_pass=$(echo "$suite" | grep -E "^test result: ok" | sed -E 's/.* ([0-9]+) passed.*/\1/' | paste -sd+ | bc)
cp out/demo$N.rs tests/demo$N.rs
timeout 600 cargo test --offline --test demo$N > /tmp/confirm_$$.with 2>&1; rc_with=$?
git checkout -q -- src
timeout 600 cargo test --offline --test demo$N > /tmp/confirm_$$.without 2>&1; rc_without=$?
rm -f tests/demo$N.rs
echo "{\"applies\": true, \"suite_failures_with_change\": $suite_fail, \"suite_tests_passed_with_change\": ${suite_pass:-0}, \"demo_exit_with_change\": $rc_with, \"demo_exit_without_change\": $rc_without}"
rm -f /tmp/confirm_$$.with /tmp/confirm_$$.without
