#!/bin/bash
# Runs the repository's own test suite with the verification guard OFF and compares the set of
# passing tests with /root/.vp/BASELINE.json (stable_pass). Exit 0 iff every stable test passes.
set -u
cd "${ORX_REPO:-/repo}"
export CARGO_NET_OFFLINE=true
unset RUSTFLAGS
OUT=$(mktemp -d /tmp/orx-baseline.XXXXXX)
if command -v cargo-nextest >/dev/null 2>&1 && [ -f /w/lib/nextest.toml ]; then
  cargo nextest run --workspace --no-fail-fast --tool-config-file pb:/w/lib/nextest.toml --profile pb \
     --test-threads 8 --offline > "$OUT/log" 2>&1
  J="${ORX_REPO:-/repo}/target/nextest/pb/junit.xml"
  python3 - "$J" <<'PY'
import sys, json, xml.etree.ElementTree as ET
base = json.load(open('/root/.vp/BASELINE.json'))
want = set(base['stable_pass'])
root = ET.parse(sys.argv[1]).getroot()
passed = set()
for ts in root.iter('testsuite'):
    suite = ts.get('name')
    for tc in ts.iter('testcase'):
        ok = not any(ch.tag in ('failure', 'error') for ch in tc)
        name = tc.get('name')
        if ok:
            passed.add(f"{suite}::{name}")
            passed.add(f"{tc.get('classname')}::{name}")
missing = sorted(w for w in want if w not in passed)
print(f"baseline stable={len(want)} passing_now={len(want)-len(missing)} missing={len(missing)}")
for m in missing[:20]:
    print("  MISSING", m)
sys.exit(1 if missing else 0)
PY
  rc=$?
else
  cargo test --workspace --no-fail-fast --offline > "$OUT/log" 2>&1
  rc=$?
fi
rm -rf "$OUT"
exit $rc
