#!/usr/bin/env python3
"""ingest_seeds.py <property> <worktree> <round>: copy confirmed seeded changes (out/mutN.diff, demoN.rs, metaN.json,
confirmN.json written by tools/confirm_seed.sh) into seeded/<property>-<k>/ with the next free k."""
import sys, os, json, shutil, glob
V = os.path.dirname(os.path.dirname(os.path.abspath(__file__)))
pid, wt, rnd = sys.argv[1], sys.argv[2], sys.argv[3]
for n in (1, 2, 3):
    d = os.path.join(wt, "out")
    if not os.path.exists(os.path.join(d, "mut%d.diff" % n)):
        continue
    conf = json.load(open(os.path.join(d, "confirm%d.json" % n)))
    ok = conf.get("applies") and conf["suite_failures_with_change"] == 0 and conf["demo_exit_with_change"] != 0 and conf["demo_exit_without_change"] == 0
    if not ok:
        print("NOT CONFIRMED", pid, n, conf)
        continue
    k = 1
    while os.path.exists(os.path.join(V, "seeded", "%s-%d" % (pid, k))):
        k += 1
    sid = "%s-%d" % (pid, k)
    out = os.path.join(V, "seeded", sid)
    os.makedirs(out)
    shutil.copy(os.path.join(d, "mut%d.diff" % n), os.path.join(out, "patch.diff"))
    shutil.copy(os.path.join(d, "demo%d.rs" % n), os.path.join(out, "demo.rs"))
    try:
        am = json.load(open(os.path.join(d, "meta%d.json" % n)))
    except Exception:
        am = {}
    meta = {"id": sid, "property": pid, "summary": am.get("summary", ""), "needs": am.get("needs", ""), "files": am.get("files", []),
            "author": "independent sub-agent given only the property text and a scratch worktree (round %s)" % rnd,
            "author_commands": am.get("commands", ""), "author_results": am.get("results", ""),
            "confirmed_by_me": dict(how="tools/confirm_seed.sh in the scratch worktree: git apply patch; cargo test --offline --no-fail-fast (whole suite); cargo test --test demo (with change); git checkout src; cargo test --test demo (without change)", **conf)}
    json.dump(meta, open(os.path.join(out, "meta.json"), "w"), indent=1)
    print("ingested", sid)
