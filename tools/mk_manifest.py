#!/usr/bin/env python3
"""Regenerates /verif/MANIFEST.json (kept in one place so that all checks stay consistent)."""
import json, os, sys
V = os.path.dirname(os.path.dirname(os.path.abspath(__file__)))

TEXT = {
 "C01": ("Lean theorems: cursor theorem for the known-size kinds over all programs and all schedules (delivered = 0..min(counter,len), each once); ticket-protocol invariants Inv/OInv for the Iterator wrapper over all fused scripts, programs and schedules (per-thread strictly increasing, no position to two threads). Tie: 11k cases/run, traces identical event by event.", "§7 C01"),
 "C02": ("Lean theorems: every item/chunk/visit output of the known-size model carries the source value of its index; OInv.good + accOk for the wrapper (s[idx] = val for every output of every thread under every schedule). Source tie by translation: the Rust functions involved are translated to Lean on every run (tools/rs2lean.py -> Generated/Arith*.lean) and proved, for every machine-word input, to fault nowhere and to compute the model's value with exactly the model's atomic access (GenThms/*.lean): fetch_one of slice/vec/array/range returns (c, element at c) for the counter value c read.", "§7 C02"),
 "C03": ("Lean theorems: chunk contract of pullRange over the whole 64-bit domain (non-empty iff not at end, ≤ n, short only at the end); wrapper: chunks non-empty, faithful, bounded by the ticket, short only after None. Source tie by translation: the Rust functions involved are translated to Lean on every run (tools/rs2lean.py -> Generated/Arith*.lean) and proved, for every machine-word input, to fault nowhere and to compute the model's value with exactly the model's atomic access (GenThms/*.lean): fetch_n and BufferedIter::next of slice/vec/array return the model's chunk for pullRange; buffered chunks are never empty. Streams include dishonest exact size hints and zero-sized element types.", "§7 C03"),
 "C04": ("Lean theorems: known-size histories hand out a gap-free increasing prefix, later accesses get larger positions; wrapper: per-thread increasing, outputs below yielded ≤ reserved ≤ any later ticket, critical section served in ticket order.", "§7 C04"),
 "C05": ("Lean theorems: the end is a fixpoint of the cursor for every continuation; `completed` is never reset and a pull that starts once it is set receives nothing, under every schedule.", "§7 C05"),
 "C06": ("Lean theorems: after the skip store every continuation delivers nothing (known size); wrapper: skip sets completed, afterwards starting pulls receive nothing; safety invariants hold in histories with skips. Source tie by translation: the Rust functions involved are translated to Lean on every run (tools/rs2lean.py -> Generated/Arith*.lean) and proved, for every machine-word input, to fault nowhere and to compute the model's value with exactly the model's atomic access (GenThms/*.lean): skip_to_end of the four kinds is one store/swap of the length (Atom.skip) and destroys exactly [min(c,len), len) on the consuming kinds.", "§7 C06"),
 "C07": ("Lean theorems: mutual exclusion of the critical section and of next() for all fused scripts (panics included), programs with skips, schedules; calls happen in position order. Happens-before: Lean theorem hb_chain (vector-clock ghost state over SC interleavings, C11 release/acquire through `yielded`) instantiated with the orderings extracted from the current source on every run; and lifted to executions with adversarial stale Acquire/Relaxed loads (IW/Weak.lean: mutex_weak, no_race_weak -- a stale value of `yielded` is below the waiting thread's ticket, so it only makes it spin); partial: not a full C11 semantics (SC per location + stale non-RMW loads), liveness under stale loads not formalised, synchronisation through `reserved`/`completed` ignored (conservative).", "§7 C07"),
 "C08": ("Lean theorems: consumed ∪ dropped-by-chunk = handed out; handed out ∪ dropped-by-Drop = 0..len exactly once for every program and schedule (no skip/get/wrap); skip_to_end drops the rest (fix for D5); open finding D12 as a kernel-checked witness. Ownership ledger theorem KS.exactly_once_all_schedules (every program incl. nth consumption, panicking closures, skips; every schedule; both endings) and its lift KSFault.exactly_once_all_schedules_F to a panicking element destructor at any destruction (fault injection `droppanic` in harness and model). Owning wrapper: IWF.wrapper_exactly_once -- for the full thread machine the driver runs (protocol + reused buffers with stale slots + consumption + drops + panics), every iterator, program, schedule and ending: produced = moved out + destroyed as multisets (FullLedger.lean, 1.6 kLoC, coupling invariant TI of the two model layers).", "§7 C08"),
 "C09": ("Lean theorems: known-size wait-freedom (a called op completes with its next own step in every configuration; steps never touch other threads); wrapper: deadlock freedom in every reachable configuration (panics and skips included): some working thread is never waiting, spin iterations are harmless; the ticket holder enters without waiting. Termination under every weakly fair schedule is proved for all programs (single/chunk/buffered pulls, skips, and the looping adaptors) over every wrapped iterator that eventually stops yielding: potential + deadlock freedom + generic fairness lemma.", "§7 C09"),
 "C10": ("Lean theorems: delivered ++ remainder = 0..len for every program and schedule; remainder empty after skip and always in range. Source tie by translation: the Rust functions involved are translated to Lean on every run (tools/rs2lean.py -> Generated/Arith*.lean) and proved, for every machine-word input, to fault nowhere and to compute the model's value with exactly the model's atomic access (GenThms/*.lean): into_seq_iter of slice and range yields [min(c,len), len) resp. the values [start+min(c,len), stop).", "§7 C10"),
 "C11": ("Lean theorems: reported length = what continuations can deliver, never increases, zero is definitive (known size); wrapper: completed ⇒ 0, exact hint ⇒ len − reserved, monotone. Source tie by translation: the Rust functions involved are translated to Lean on every run (tools/rs2lean.py -> Generated/Arith*.lean) and proved, for every machine-word input, to fault nowhere and to compute the model's value with exactly the model's atomic access (GenThms/*.lean): try_get_len of the four kinds is one Acquire load c and returns lenOf len c.", "§7 C11"),
 "C12": ("Lean theorems: fold_combine for any commutative monoid over any partition that is a permutation of the source; loops visit the positions of their pulls with the right index; a loop returns only at the end; all positions visited once.", "§7 C12"),
 "C13": ("Lean theorems: the atomic access, counters, history and hand-out log of every step are independent of the adaptor; closures see the same values/indices; remainder identical modulo clone lines; source never dropped. Source tie by translation: the Rust functions involved are translated to Lean on every run (tools/rs2lean.py -> Generated/Arith*.lean) and proved, for every machine-word input, to fault nowhere and to compute the model's value with exactly the model's atomic access (GenThms/*.lean): every function of Cloned/Copied and of their buffered chunks over the slice iterator equals the underlying function (same access, index, positions, length, end, skip); cloned() clones exactly the delivered element, copied() nothing.", "§7 C13"),
 "C14": ("Lean theorems by decide over bounds extracted from the current source (sufficiency of Send/Sync bounds, supertraits, borrow shape of chunks), rustc accept/reject twins compiled against the current tree; run-time clause (no two owners) by the ownership ledger over the consuming-kind case stream on the real crate, backed by the ledger theorem KS.exactly_once_all_schedules.", "§7 C14"),
 "C15": ("Lean theorems: allocation ledger of vec/array/wrapper life-cycles is balanced for every length and progress point, and under repetition. Tie: counting allocator, live = 0 on every case. No element is leaked for any program, schedule, ending and any panicking destructor (corollary of the ownership ledger); the allocation ledger follows the repaired Drop (fix 6a65933: buffer released on the unwinding path too).", "§7 C15"),
 "C16": ("Lean theorems over the whole 64-bit domain: chunk ranges are the mathematical ones, range values never overflow, inverted ranges are empty, chunk(0) is a no-op, chunk size 0 panics; open finding H1 (counter wrap) as a kernel-checked witness with the partial theorem. Source tie by translation: the Rust functions involved are translated to Lean on every run (tools/rs2lean.py -> Generated/Arith*.lean) and proved, for every machine-word input, to fault nowhere and to compute the model's value with exactly the model's atomic access (GenThms/*.lean): ConIterOfRange::fetch_n/fetch_one/into_seq_iter for every range (empty, inverted, ending at usize::MAX) and chunk size; chunk(0) on the source code is a no-op.", "§7 C16"),
 "C17": ("Lean theorems: every arithmetic expression of the fixed source stays inside usize on the whole domain (so overflow checks cannot fire); tie: debug and release harness binaries produce identical traces on every case, both equal to the model. Source tie by translation: the Rust functions involved are translated to Lean on every run (tools/rs2lean.py -> Generated/Arith*.lean) and proved, for every machine-word input, to fault nowhere and to compute the model's value with exactly the model's atomic access (GenThms/*.lean): source_never_faults -- no pull, skip or length query of a known-size kind can overflow, index out of range or violate a precondition of ptr::add / Taken::new / slice_from_raw_parts_mut, for every length, counter value and chunk size; the only panic is the documented BufferedIter::new(0).", "§7 C17"),
 "C18": ("Lean theorems: safety invariants and no-duplicate hold for panicking wrapped iterators under every schedule; no hang after a panic (deadlock freedom with the unwind guard of fix 3804907, DeadC invariant), witness schedule of the former finding D13 now terminates. A panicking element destructor (droppanic) keeps the exactly-once ledger (KSFault).", "§7 C18"),
 "C19": ("Lean theorems: frame (an access on one slot leaves the others unchanged; outputs depend on the own counter only), every slot is its own cursor under every schedule, clone starts at the loaded counter.", "§7 C19"),
}
NOTE = ("Trusted: Lean 4.33 kernel (axioms ⊆ propext, Classical.choice, Quot.sound; audited per run by #print axioms); the hand-written model "
        "lean/Orx/{KS,KSFault,IW/Core,IW/Full,Sim}.lean, which is tied to the code by the translator tools/rs2lean.py + lean/Orx/RS/Prim.lean (std primitives as modelled) for the arithmetic of the known-size kinds, and otherwise only by the correspondence check (Rust harness drives the real crate rebuilt "
        "from /repo with --cfg orx_concurrent_iter_verif under a deterministic scheduler, the Lean driver replays the same cases, traces must be identical "
        "on the property's projection) on the cases of the run; python monitors find concrete failing inputs, they do not establish the property; std "
        "semantics (Vec, ManuallyDrop, ptr::read/drop_in_place) as modelled; SC interleavings.")

def main():
    checks = []
    for i in range(1, 20):
        pid = "C%02d" % i
        if pid == "C14" and not os.path.exists(os.path.join(V, "tools", "c14.py")):
            continue
        text, ref = TEXT[pid]
        checks.append({
            "property_id": pid,
            "quick_cmd": "./check %s --tier quick" % pid,
            "thorough_cmd": "./check %s --tier thorough" % pid,
            "evidence_file": "/verif/evidence/%s.json" % pid,
            "replay_cmd_template": "./check %s --replay {path}" % pid,
            "engine": "lean-proof+correspondence",
            "level_claimed": {"category": "proof", "text": text, "design_ref": ref},
            "level_note": NOTE,
            "technique": "Lean 4 theorems (induction over schedules / histories, invariants, refinement to a sequential cursor) about an executable model; model tied to the source on every run by (a) a Rust-to-Lean translator for the arithmetic core with equivalence theorems and (b) trace correspondence with the real crate under a deterministic scheduler",
        })
    na = []
    if not any(c["property_id"] == "C14" for c in checks):
        na.append({"property_id": "C14", "reason": "check under construction in this session (extractor + Lean bound logic + rustc probes); will be claimed when tools/c14.py exists"})
    m = {
        "version": 1,
        "setup_cmd": "./setup.sh",
        "hooks": {
            "guard": "orx_concurrent_iter_verif",
            "enable": "RUSTFLAGS=--cfg orx_concurrent_iter_verif (set in /verif/harness/.cargo/config.toml; the harness has a path dependency on /repo)",
            "baseline_off_cmd": "/verif/tools/baseline_off.sh",
            "source_commits": ["e36bb9e", "97cc831"],
            "add_only": False,
        },
        "engines": [
            {"name": "lean-proof+correspondence", "path": "/verif/check", "serves_properties": [c["property_id"] for c in checks],
             "kind_free_text": "Lean 4 model + theorems (lean/), Rust deterministic-scheduler harness over the real crate (harness/), python orchestrator/monitors (check, tools/)"},
        ],
        "checks": checks,
        "not_applicable": na,
        "notes": "add_only=false: the hook commit rewrites one `use` line in src/iter/implementors/iter.rs (splitting AtomicBool out of a nested import so that it can be cfg-switched); everything else is added. Fix commits in /repo: 5ddb4aa 6f79ce2 9f68dad 708ebf7 db8941c 56ba366 6a969f3 97b3907 2327103 3804907 edc5d6d 3d988c2 6a65933 (see known_findings.json).",
    }
    json.dump(m, open(os.path.join(V, "MANIFEST.json"), "w"), indent=1)
    print("checks:", len(checks), "n/a:", [x["property_id"] for x in na])

main()
