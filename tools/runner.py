"""Build and run the two executions of a case file: the Rust harness (real crate) and the Lean driver (model)."""
import os, subprocess, sys, time, fcntl, shutil

VERIF = os.path.dirname(os.path.dirname(os.path.abspath(__file__)))
# ORX_HARNESS_DIR / ORX_WORK / ORX_OUT: used only by tools/seed_matrix.py to try seeded changes in scratch copies
# (a harness copy whose path dependency points at a scratch worktree) without touching /repo or the committed evidence
HARNESS = os.environ.get("ORX_HARNESS_DIR", os.path.join(VERIF, "harness"))
LEAN = os.environ.get("ORX_LEAN_DIR", os.path.join(VERIF, "lean"))
WORK = os.environ.get("ORX_WORK", os.path.join(VERIF, "work"))
OUT = os.environ.get("ORX_OUT", VERIF)
ENV = dict(os.environ, CARGO_NET_OFFLINE="true")
ENV.pop("RUSTFLAGS", None)


def sh(cmd, cwd=None, timeout=None, env=None):
    p = subprocess.run(cmd, cwd=cwd, stdout=subprocess.PIPE, stderr=subprocess.STDOUT, text=True,
                       timeout=timeout, env=env or ENV)
    return p.returncode, p.stdout


class Lock:
    def __init__(self, name):
        os.makedirs(WORK, exist_ok=True)
        self.path = os.path.join(WORK, name + ".lock")

    def __enter__(self):
        self.f = open(self.path, "w")
        fcntl.flock(self.f, fcntl.LOCK_EX)
        return self

    def __exit__(self, *a):
        fcntl.flock(self.f, fcntl.LOCK_UN)
        self.f.close()


def build_harness(profile):
    """rebuilds the harness (and with it the crate, from /repo's current working tree); returns (ok, log)"""
    with Lock("cargo-" + profile):
        cmd = ["cargo", "build", "--offline", "--quiet"] + (["--release"] if profile == "release" else [])
        rc, out = sh(cmd, cwd=HARNESS, timeout=1800)
        return rc == 0, out


def harness_bin(profile):
    return os.path.join(HARNESS, "target", "release" if profile == "release" else "debug", "orx-harness")


def build_lean(targets):
    with Lock("lake"):
        rc, out = sh(["lake", "build"] + targets, cwd=LEAN, timeout=3600)
        return rc == 0, out


def driver_bin():
    return os.path.join(LEAN, ".lake", "build", "bin", "orxdriver")


def split_blocks(text):
    """trace file -> {case id: [lines]} (order preserved in `order`)"""
    blocks, order, cur = {}, [], None
    for line in text.split("\n"):
        if not line:
            continue
        if line.startswith("case "):
            cur = line.split()[1]
            blocks[cur] = []
            order.append(cur)
        elif cur is not None:
            blocks[cur].append(line)
    return blocks, order


def run_harness(profile, cases_path, out_path, ncases, timeout_per_case=30):
    """runs all cases, restarting after aborts; returns {id: lines} with `fin abort` / `fin hang` markers"""
    if os.path.exists(out_path):
        os.remove(out_path)
    start = 0
    restarts = 0
    binp = harness_bin(profile)
    while start < ncases:
        try:
            p = subprocess.run([binp, cases_path, out_path, "--start", str(start)], stdout=subprocess.PIPE,
                               stderr=subprocess.PIPE, text=True, timeout=max(120, timeout_per_case * (ncases - start)))
            rc = p.returncode
        except subprocess.TimeoutExpired:
            rc = -999
        text = open(out_path).read() if os.path.exists(out_path) else ""
        blocks, order = split_blocks(text)
        done = len(order)
        if rc == 0 and done >= ncases:
            break
        # the last block is incomplete (abort / hang / crash)
        if done == 0 or done <= start and rc != 0 and not order:
            # nothing was written for case `start`: record an abort block for it
            with open(out_path, "a") as f:
                f.write("case __unknown_%d\nfin abort\n" % start)
            start += 1
        else:
            last = order[-1]
            if not blocks[last] or not blocks[last][-1].startswith("fin "):
                with open(out_path, "a") as f:
                    f.write("\nfin abort\n" if rc != 3 else "\n")
            start = done
        restarts += 1
        if rc == 2:
            raise RuntimeError("harness rejected the case file: " + p.stderr[-500:])
    text = open(out_path).read() if os.path.exists(out_path) else ""
    blocks, order = split_blocks(text)
    return blocks, restarts


def run_driver(cases_path, out_path):
    rc, out = sh([driver_bin(), cases_path, out_path], timeout=3600)
    if rc != 0:
        raise RuntimeError("driver failed: " + out[-500:])
    blocks, _ = split_blocks(open(out_path).read())
    return blocks
