#!/bin/bash
# try_mutation.sh <patch.diff> <pid> [<pid>...]: apply a seeded change to /repo, run the given checks, undo it.
set -u
PATCH="$1"; shift
cd /repo
if ! git diff --quiet; then echo "/repo has uncommitted changes"; exit 2; fi
git apply "$PATCH" || { echo "patch does not apply"; exit 2; }
cd /verif
# evidence and replays of a mutated tree never land in /verif/evidence
export ORX_OUT=${ORX_MUT_OUT:-/tmp/orx_mut_out}
mkdir -p "$ORX_OUT"
for p in "$@"; do
  out=$(./check "$p" --tier quick 2>&1)
  rc=$?
  echo "== $p rc=$rc :: $(echo "$out" | grep -E '^VIOLATION' | head -1) :: $(echo "$out" | tail -1)"
  rp=$(echo "$out" | grep -E '^VIOLATION' | head -1 | sed -e 's/.*replay=//' -e 's/ .*//')
  [ -n "$rp" ] && [ -f "$rp" ] && echo "   why: $(sed -n 2p "$rp" | cut -c1-220)"
done
git -C /repo checkout -- .
# the generated Lean files follow the source: bring them back to the unchanged tree
(cd /verif && python3 tools/rs2lean.py >/dev/null; python3 tools/extract_orderings.py >/dev/null; python3 tools/extract_bounds.py >/dev/null)
git -C /repo status --short | head -3
