#!/bin/bash
# try_mutation.sh <patch.diff> <pid> [<pid>...]: apply a seeded change to /repo, run the given checks, undo it.
set -u
PATCH="$1"; shift
cd /repo
if ! git diff --quiet; then echo "/repo has uncommitted changes"; exit 2; fi
git apply "$PATCH" || { echo "patch does not apply"; exit 2; }
cd /verif
for p in "$@"; do
  out=$(./check "$p" --tier quick 2>&1)
  rc=$?
  echo "== $p rc=$rc :: $(echo "$out" | grep -E '^VIOLATION' | head -1) :: $(echo "$out" | tail -1)"
done
git -C /repo checkout -- .
git -C /repo status --short | head -3
