"""C14 Type-level safety: thread-safety bounds and borrow lifetimes.

Called by /verif/check as `import c14; sys.exit(c14.main(tier, seed))`.

  a. tools/extract_bounds.py regenerates lean/Orx/Generated/Bounds.lean from the current sources of /repo;
  b. `lake build Orx.Props.C14` re-checks every theorem over that data; `#print axioms` audit of every theorem;
     the module's `accepts` predictor is evaluated for every probe description;
  c. every probe under /verif/probes/src/bin is compiled on its own against the current /repo; the verdict
     (accept / reject, error code and message of a rejection) is compared with probes/expected.json and, for the
     thread-safety probes, with the Lean predictor;
  d. verdict:  bad_* compiles and is not an open known finding of C14  -> VIOLATION replay=<probe source>
               ok_*  is rejected                                        -> VIOLATION replay=<probe source>
               anchor missing / theorem broken / predictor disagrees / probe machinery broken, no probe failing
                                                                        -> VIOLATION replay=/verif/replays/C14-tie.txt no-failing-input-found
               open known finding hit                                   -> KNOWN-FINDING: property=C14 <what>
  e. evidence/C14.json is written on every path.
"""
import os, sys, re, json, time, hashlib, random, subprocess, concurrent.futures

TOOLS = os.path.dirname(os.path.abspath(__file__))
VERIF = os.path.dirname(TOOLS)
if TOOLS not in sys.path:
    sys.path.insert(0, TOOLS)
import runner

PID = "C14"
PROBES = os.path.join(VERIF, "probes")
BIN_DIR = os.path.join(PROBES, "src", "bin")
EXPECTED = os.path.join(PROBES, "expected.json")
LEAN_MOD = os.path.join(runner.LEAN, "Orx", "Props", "C14.lean")
GENERATED = os.path.join(runner.LEAN, "Orx", "Generated", "Bounds.lean")
TIE = os.path.join(runner.OUT, "replays", "C14-tie.txt")
EVIDENCE = os.path.join(runner.OUT, "evidence", "C14.json")
ALLOWED_AXIOMS = {"propext", "Classical.choice", "Quot.sound"}
JOBS = 16

TRUSTED = [
    "rustc 1.95 trait solver and borrow checker: the accept/reject verdict on each probe program IS the observation",
    "Lean 4.33.0 kernel (axioms allowed: propext, Classical.choice, Quot.sound; no sorry/admit/native_decide/bv_decide); every theorem is `decide` over generated data",
    "tools/extract_bounds.py: regex translation of impl headers, where clauses, trait headers and two signatures into Lean data (fails on a missing anchor; cross-checked against rustc through the `accepts` predictor on the probes that carry a model)",
    "hand-written capability table `caps` in lean/Orx/Props/C14.lean: what another thread can do with X / &X for each struct with an unsafe Send/Sync impl (read off the source, not derived)",
    "probes/expected.json: the intended verdict of each minimal program (twins: every bad_* has an ok_* that differs in the one offending ingredient)",
]
ASSUMPTIONS = [
    "the universal quantifier over safe client programs is checked on the finite probe family only; bound sufficiency is proved over the extracted declarations, not over rustc's semantics",
    "lifetime clauses are partial on the Lean side (shape of the declarations); enforcement is observed through rustc on the lifetime probes",
    "a rejection counts only if rustc reports one of the error codes and message fragments listed for the probe (rejected for the intended reason)",
    "the crate is compiled without the verification cfg (no hooks) for the probes: this is the crate as clients see it",
]


# ---- lean ------------------------------------------------------------------------------------------

def strip_lean_comments(txt):
    txt = re.sub(r"/-.*?-/", "", txt, flags=re.S)
    return re.sub(r"--.*", "", txt)


def theorem_at(src_lines, line_no):
    """name of the theorem/def enclosing a 1-based line"""
    for k in range(min(line_no, len(src_lines)) - 1, -1, -1):
        m = re.match(r"^(?:theorem|def|abbrev|instance)\s+([A-Za-z0-9_.']+)", src_lines[k])
        if m:
            return m.group(1)
    return "?"


def lean_side():
    """build + audit + predictions. Returns dict(ok, broken, theorems, axioms, discharged, predictions, log)"""
    res = dict(ok=True, broken=[], theorems=[], axioms={}, obligations=0, discharged=0, predictions={}, log="")
    if not os.path.exists(LEAN_MOD):
        res["ok"] = False
        res["broken"].append("lean/Orx/Props/C14.lean does not exist")
        return res
    src = open(LEAN_MOD).read()
    ns = re.search(r"^namespace\s+(\S+)", src, flags=re.M)
    names = re.findall(r"^theorem\s+([A-Za-z0-9_.']+)", src, flags=re.M)
    full = [(ns.group(1) + "." + n) if ns else n for n in names]
    res["theorems"] = full
    res["obligations"] = len(full)
    for path in (LEAN_MOD, GENERATED):
        if os.path.exists(path):
            txt = strip_lean_comments(open(path).read())
            for pat in (r"\bsorry\b", r"\badmit\b", r"^\s*axiom\s", r"native_decide", r"bv_decide", r"implemented_by",
                        r"\bunsafe\b", r"maxHeartbeats\s+0", r"@\[extern", r"ofReduceBool"):
                if re.search(pat, txt, flags=re.M):
                    res["broken"].append("forbidden construct %s in %s" % (pat, os.path.relpath(path, VERIF)))
    ok, log = runner.build_lean(["Orx.Props.C14"])
    res["log"] = log[-4000:]
    if not ok:
        res["ok"] = False
        lines = src.split("\n")
        hit = []
        for m in re.finditer(r"error: (\S+?\.lean):(\d+):(\d+):\s*(.*)", log):
            where = m.group(1)
            th = theorem_at(lines, int(m.group(2))) if where.endswith("Props/C14.lean") else "?"
            hit.append("%s:%s theorem `%s`: %s" % (where, m.group(2), th, m.group(4)[:160]))
        res["broken"].append("`lake build Orx.Props.C14` fails: " + ("; ".join(hit) if hit else log[-600:]))
        return res
    os.makedirs(runner.WORK, exist_ok=True)
    audit = os.path.join(runner.WORK, "audit_C14.lean")
    with open(audit, "w") as f:
        f.write("import Orx.Props.C14\n")
        for n in full:
            f.write("#print axioms %s\n" % n)
        f.write("#eval IO.println (String.intercalate \"\\n\" Orx.Props.C14.predictionLines)\n")
    rc, out = runner.sh(["lake", "env", "lean", audit], cwd=runner.LEAN, timeout=1200)
    for m in re.finditer(r"'([^']+)' (depends on axioms: \[([^\]]*)\]|does not depend on any axioms)", out):
        axs = set(a.strip() for a in (m.group(3) or "").replace("\n", " ").split(",") if a.strip())
        res["axioms"][m.group(1)] = sorted(axs)
        if axs <= ALLOWED_AXIOMS:
            res["discharged"] += 1
        else:
            res["broken"].append("theorem `%s` uses axioms %s" % (m.group(1), sorted(axs - ALLOWED_AXIOMS)))
    for n in full:
        if n not in res["axioms"]:
            res["broken"].append("theorem `%s`: no `#print axioms` answer" % n)
    for m in re.finditer(r"^PRED (\S+) (\S+) (\S+) (accept|reject)$", out, flags=re.M):
        res["predictions"][(m.group(1), m.group(2), m.group(3))] = m.group(4)
    if rc != 0:
        res["broken"].append("axiom audit `lake env lean work/audit_C14.lean` exits %d: %s" % (rc, out[-400:]))
    if not res["predictions"]:
        res["broken"].append("`Orx.Props.C14.predictionLines` printed nothing")
    if res["broken"]:
        res["ok"] = False
    return res


# ---- probes ----------------------------------------------------------------------------------------

def cargo_env():
    env = dict(runner.ENV)
    env["CARGO_NET_OFFLINE"] = "true"
    env["CARGO_TARGET_DIR"] = os.path.join(PROBES, "target")
    env["CARGO_TERM_COLOR"] = "never"
    env.pop("RUSTFLAGS", None)
    env.pop("CARGO_ENCODED_RUSTFLAGS", None)
    return env


def compile_probe(name, mode):
    """one cargo invocation for one probe. Returns dict(verdict, codes, text)"""
    cmd = ["cargo", mode, "--offline", "--quiet", "--bin", name]
    try:
        p = subprocess.run(cmd, cwd=PROBES, env=cargo_env(), stdout=subprocess.PIPE, stderr=subprocess.STDOUT,
                           text=True, timeout=900)
        rc, out = p.returncode, p.stdout
    except subprocess.TimeoutExpired:
        return dict(verdict="error", codes=[], text="cargo timed out", first="cargo timed out")
    if rc == 0:
        return dict(verdict="accept", codes=[], text="", first="")
    if re.search(r"could not compile `orx-concurrent-iter`", out):
        return dict(verdict="error", codes=[], text=out[-3000:], first="the crate itself does not compile")
    mine = "src/bin/%s.rs" % name
    codes = sorted(set(re.findall(r"^error\[(E\d+)\]", out, flags=re.M)))
    in_probe = mine in out and re.search(r"^error(\[E\d+\])?:", out, flags=re.M) and \
        re.search(r"could not compile `orx-probes` \(bin \"%s\"\)" % re.escape(name), out)
    if not in_probe:
        first = next((l for l in out.split("\n") if l.startswith("error")), out.strip().split("\n")[-1] if out.strip() else "")
        return dict(verdict="error", codes=codes, text=out[-3000:], first=first)
    errs = [l for l in out.split("\n") if re.match(r"^error(\[E\d+\])?:", l) and "could not compile" not in l]
    return dict(verdict="reject", codes=codes, text=out, first=errs[0] if errs else "")


def probes_side(tier, seed, only=None):
    """compile all probes. Returns dict(results {name: ...}, problems [machinery problems], crate_broken)"""
    out = dict(results={}, problems=[], expected={}, n_runs=0, crate_log=None)
    try:
        exp = json.load(open(EXPECTED))["probes"]
    except Exception as e:
        out["problems"].append("probes/expected.json unreadable: %s" % e)
        exp = {}
    out["expected"] = exp
    names = sorted(f[:-3] for f in os.listdir(BIN_DIR) if f.endswith(".rs")) if os.path.isdir(BIN_DIR) else []
    if not names:
        out["problems"].append("no probe sources under probes/src/bin")
    for n in names:
        if n not in exp:
            out["problems"].append("probe %s has no entry in expected.json" % n)
        elif (exp[n].get("expect") == "accept") != n.startswith("ok_") or not (n.startswith("ok_") or n.startswith("bad_")):
            out["problems"].append("probe %s: name and expected verdict `%s` disagree" % (n, exp[n].get("expect")))
    for n in exp:
        if n not in names:
            out["problems"].append("expected.json lists %s but probes/src/bin/%s.rs does not exist" % (n, n))
    if only:
        names = [n for n in names if n in only]
    # the dependency first (one build, and a clear diagnosis if the crate itself is broken)
    p = subprocess.run(["cargo", "check", "--offline", "--quiet", "-p", "orx-concurrent-iter"], cwd=PROBES,
                       env=cargo_env(), stdout=subprocess.PIPE, stderr=subprocess.STDOUT, text=True)
    out["n_runs"] += 1
    if p.returncode != 0:
        out["crate_log"] = p.stdout[-3000:]
        out["problems"].append("the crate under /repo does not compile (cargo check -p orx-concurrent-iter): " +
                               " | ".join(l for l in p.stdout.split("\n") if l.startswith("error"))[:600])
        return out
    mode = "build" if tier == "thorough" else "check"
    order = list(names)
    random.Random(seed).shuffle(order)
    with concurrent.futures.ThreadPoolExecutor(max_workers=JOBS) as ex:
        futs = {ex.submit(compile_probe, n, mode): n for n in order}
        for fu in concurrent.futures.as_completed(futs):
            out["results"][futs[fu]] = fu.result()
            out["n_runs"] += 1
    return out


def two_owners_side(tier, seed):
    """the run-time clause of C14 ("no sequence of safe public calls produces two owners of one element"): the consuming
    kinds are driven by the real crate on the C08 case stream under the deterministic scheduler; the ownership ledger of
    every recorded trace must never show an element moved out twice, or moved out and destroyed.
    Returns dict(problems, cases, nontrivial, violations=[(case, lines, why, triggers)])"""
    import importlib.machinery, importlib.util
    res = dict(problems=[], cases=0, nontrivial=0, violations=[])
    try:
        loader = importlib.machinery.SourceFileLoader("orx_check", os.path.join(VERIF, "check"))
        spec = importlib.util.spec_from_loader("orx_check", loader)
        chk = importlib.util.module_from_spec(spec)
        loader.exec_module(chk)
        import streams
        from monitors import Trace, ledger
        ok, log = runner.build_harness("release")
        if not ok:
            res["problems"].append("the harness (and the crate, hooks on) does not build: " + log[-500:])
            return res
        # (zero-sized elements carry no identity: their ledger is a count, decided by the C08 check)
        cases = [c for c in streams.stream_for("C08", tier, seed) if c.consuming() and c.adapt == "none" and not c.zst]
        seen, uniq = set(), []
        for c in cases:
            if c.id not in seen:
                seen.add(c.id)
                uniq.append(c)
        workdir = os.path.join(runner.WORK, "C14")
        subprocess.run(["rm", "-rf", workdir])
        impl, _model = chk.execute("C14", uniq, workdir, ["release"])
        for c in uniq:
            il = impl["release"].get(c.id)
            if il is None:
                res["problems"].append("case %s produced no trace" % c.id)
                continue
            res["cases"] += 1
            tr = Trace(c, il)
            if tr.aborted or tr.hang:
                continue
            moved, dropped, produced = ledger(tr)
            if moved or dropped:
                res["nontrivial"] += 1
            for v in sorted(set(moved) | set(dropped)):
                m, d = moved.get(v, 0), dropped.get(v, 0)
                if m + d > 1:
                    res["violations"].append((c, il, "two owners of element %d: moved out to a caller %d time(s), destroyed by the iterator %d time(s)" % (v, m, d), chk.triggers(c, il)))
                    break
    except Exception as e:  # the machinery itself
        res["problems"].append("two-owners run failed: %r" % (e,))
    return res


def load_known():
    p = os.path.join(VERIF, "known_findings.json")
    try:
        return [e for e in json.load(open(p))["findings"] if e.get("status") == "open" and e.get("property") == PID]
    except Exception:
        return []


# ---- main ------------------------------------------------------------------------------------------

def main(tier="quick", seed=1):
    t0 = time.time()
    tier = tier if tier in ("quick", "thorough") else "quick"
    only = None
    if "--replay" in sys.argv:
        rp = sys.argv[sys.argv.index("--replay") + 1] if sys.argv.index("--replay") + 1 < len(sys.argv) else ""
        if rp.endswith(".rs"):
            only = {os.path.basename(rp)[:-3]}
    else:
        if os.path.exists(TIE):
            os.remove(TIE)
    ties = []       # (what is broken) -- machinery / proof side, no failing program

    # a. translator
    ex = subprocess.run([sys.executable, os.path.join(TOOLS, "extract_bounds.py")], stdout=subprocess.PIPE,
                        stderr=subprocess.STDOUT, text=True, env=runner.ENV)
    if ex.returncode != 0:
        ties.append("extractor: " + (ex.stdout.strip().split("\n")[-1] if ex.stdout.strip() else "exit %d" % ex.returncode))

    # the surface table (which impls exist: `source_no_owner_is_clone`) and the other translated files the property file imports
    ex2 = subprocess.run([sys.executable, os.path.join(TOOLS, "rs2lean.py")], stdout=subprocess.PIPE,
                         stderr=subprocess.STDOUT, text=True, env=runner.ENV)
    if ex2.returncode != 0:
        ties.append("tools/rs2lean.py: " + (ex2.stdout.strip().split("\n")[-1] if ex2.stdout.strip() else "exit %d" % ex2.returncode))

    # b. + c. concurrently (lake and cargo do not share anything)
    with concurrent.futures.ThreadPoolExecutor(max_workers=3) as pool:
        f_lean = pool.submit(lean_side)
        f_probes = pool.submit(probes_side, tier, seed, only)
        f_two = pool.submit(two_owners_side, tier, seed) if only is None else None
        lean = f_lean.result()
        pr = f_probes.result()
        two = f_two.result() if f_two is not None else dict(problems=[], cases=0, nontrivial=0, violations=[])
    if ex.returncode != 0 and lean["ok"]:
        # the old generated file is still there: the theorems say nothing about the current tree
        lean["stale"] = True
    for b in lean["broken"]:
        ties.append("lean: " + b)
    for b in pr["problems"]:
        ties.append("probes: " + b)
    for b in two["problems"]:
        ties.append("two-owners: " + b)

    # d. compare
    known = load_known()
    exp = pr["expected"]
    violations, knowns, fixed_findings, rows = [], {}, [], []
    compared = 0
    pred_checked = 0
    for name in sorted(pr["results"]):
        r = pr["results"][name]
        e = exp.get(name, {"expect": "accept" if name.startswith("ok_") else "reject"})
        path = os.path.join(BIN_DIR, name + ".rs")
        row = {"probe": name, "expect": e["expect"], "verdict": r["verdict"]}
        if r["codes"]:
            row["errors"] = r["codes"]
        status = "as-expected"
        if r["verdict"] == "error":
            ties.append("probes: %s could not be judged: %s" % (name, r["first"][:300]))
            status = "machinery-error"
        else:
            compared += 1
            if e["expect"] == "reject" and r["verdict"] == "accept":
                k = None
                if e.get("trigger"):
                    k = next((k for k in known if k.get("trigger") == e["trigger"]), None)
                if k is not None:
                    knowns.setdefault(k["id"], (k, []))[1].append(name)
                    status = "known-finding " + k["id"]
                else:
                    why = "compiles although it must be rejected: " + e.get("what", "")
                    if e.get("known_finding"):
                        why += " [finding %s; no open entry with property C14 and trigger `%s` in known_findings.json]" % (
                            e["known_finding"], e.get("trigger"))
                    violations.append((path, name, why))
                    status = "VIOLATION"
            elif e["expect"] == "accept" and r["verdict"] == "reject":
                violations.append((path, name, "a legal program is rejected: %s -- %s" % (e.get("what", ""), r["first"][:300])))
                status = "VIOLATION"
            elif e["expect"] == "reject":
                codes_ok = (not e.get("error_any")) or any(c in e["error_any"] for c in r["codes"])
                text_ok = (not e.get("error_text")) or any(t in r["text"] for t in e["error_text"])
                if not (codes_ok and text_ok):
                    ties.append("probes: %s is rejected, but not for the intended reason (codes %s; wanted one of %s with one of %s): %s" % (
                        name, r["codes"], e.get("error_any"), e.get("error_text"), r["first"][:200]))
                    status = "rejected-for-another-reason"
                elif e.get("known_finding"):
                    fixed_findings.append((e["known_finding"], name))
                    status = "as-expected (finding %s does not reproduce)" % e["known_finding"]
            # Lean predictor against rustc
            m = e.get("model")
            if m and lean["predictions"]:
                key = (m["ctor"], m["elem"], m["iter"])
                pred = lean["predictions"].get(key)
                pred_checked += 1
                row["lean_predicts"] = pred
                if pred is None:
                    ties.append("lean: no prediction for probe %s %s" % (name, key))
                elif pred != r["verdict"] and status != "VIOLATION":
                    ties.append("tie: `accepts` over the extracted bounds predicts %s for %s %s, rustc says %s "
                                "(extractor or capability model out of step with the sources)" % (pred, name, key, r["verdict"]))
                    status = "predictor-disagrees"
        row["status"] = status
        rows.append(row)

    # run-time clause: two owners
    two_known = {}
    for (c, il, why, trig) in two["violations"]:
        k = next((k for k in known if k.get("trigger") in trig), None)
        if k is not None:
            two_known.setdefault(k["id"], (k, []))[1].append((c, why))
        else:
            os.makedirs(os.path.join(runner.OUT, "replays"), exist_ok=True)
            rp = os.path.join(runner.OUT, "replays", "C14-violation.txt")
            if not any(v[0] == rp for v in violations):
                with open(rp, "w") as f:
                    f.write("# property C14\n# %s\n# replay: the case below on the harness (./check C08 --replay %s)\n" % (why, rp))
                    f.write(c.text())
                    f.write("\n# --- trace recorded from the real crate\n" + "\n".join("# " + l for l in il) + "\n")
                violations.append((rp, c.id, why))

    # decide
    out_lines = []
    for kid, (k, hits) in sorted(two_known.items()):
        out_lines.append("KNOWN-FINDING: property=%s %s [%s] e.g. case %s: %s" % (PID, k["what"], kid, hits[0][0].id, hits[0][1]))
    for kid, (k, probes) in sorted(knowns.items()):
        out_lines.append("KNOWN-FINDING: property=%s %s [%s] probes that compile although they must be rejected: %s" % (
            PID, k["what"], kid, ", ".join(sorted(probes))))
    for fid, name in fixed_findings:
        out_lines.append("note: finding %s does not reproduce on this tree: probe %s is now rejected" % (fid, name))
    rc = 0
    n_viol = 0
    if violations:
        rc = 1
        n_viol = len(violations)
        path, name, why = violations[0]
        out_lines.append("VIOLATION property=%s replay=%s" % (PID, path))
        out_lines.append("  %s: %s" % (name, why))
        for path2, name2, why2 in violations[1:]:
            out_lines.append("  also failing: %s (%s)" % (path2, why2[:200]))
        for t in ties:
            out_lines.append("  also broken: " + t[:300])
    elif ties:
        rc = 1
        n_viol = 1
        os.makedirs(os.path.dirname(TIE), exist_ok=True)
        with open(TIE, "w") as f:
            f.write("# property C14: the check's own obligations no longer hold on the current tree; no probe program fails.\n")
            f.write("# replay: ./check C14\n")
            f.write("# A broken `C14_finding_*` theorem means the finding's declaration changed in the sources (possibly a fix):\n")
            f.write("# then turn the finding theorem into its positive statement and update probes/expected.json.\n\n")
            for t in ties:
                f.write(t + "\n")
            if lean.get("log") and not lean["ok"]:
                f.write("\n--- lake build (tail)\n" + lean["log"][-3000:] + "\n")
            if pr.get("crate_log"):
                f.write("\n--- cargo check -p orx-concurrent-iter (tail)\n" + pr["crate_log"] + "\n")
        out_lines.append("VIOLATION property=%s replay=%s no-failing-input-found" % (PID, TIE))
        out_lines.append("  " + ties[0][:400])
    for l in out_lines:
        print(l)

    # e. evidence
    srcs = {}
    for name, r in pr["results"].items():
        if r["verdict"] in ("accept", "reject"):
            try:
                txt = open(os.path.join(BIN_DIR, name + ".rs")).read()
            except OSError:
                continue
            if "orx_concurrent_iter" in txt and re.search(r"con_iter\(|ConIterOf\w+::|\.get\(", txt):
                srcs[hashlib.sha1(txt.encode()).hexdigest()] = name
    pick = [r for r in rows if r["probe"] in ("bad_iter_not_send", "ok_iter_send", "bad_buffered_chunk_across_next",
                                              "ok_buffered_chunk_then_next", "bad_vec_into_con_iter_rc", "bad_ref_outlives_vec",
                                              "bad_atomic_get_twice")] or rows[:6]
    discharged = lean["discharged"] if not lean.get("stale") else 0
    ev = {
        "property_id": PID, "tier": tier, "seed": int(seed), "level": "proof",
        "coverage": {
            "obligations": lean["obligations"], "discharged": discharged,
            "checker_cmd": "python3 tools/extract_bounds.py && cd lean && lake build Orx.Props.C14 && lake env lean ../work/audit_C14.lean "
                           "(#print axioms of every theorem); cd probes && cargo %s --offline --bin <probe> for every probe" % (
                               "build" if tier == "thorough" else "check"),
            "trusted_base": TRUSTED,
            "theorems": lean["theorems"], "axioms": lean["axioms"],
            "finding_theorems": [t for t in lean["theorems"] if ".C14_finding_" in t],
            "programs": len(pr["results"]), "disagreements_checked": compared + pred_checked,
            "probe_verdicts_compared": compared, "lean_predictions_compared": pred_checked,
            "evaluations": pr["n_runs"], "distinct_nontrivial": len(srcs),
            "rule": "the probe family under probes/src/bin is enumerated completely, one cargo invocation per program; distinct = "
                    "different source text (sha1); non-trivial = rustc gave a verdict on the probe itself (not a cargo/dependency "
                    "failure) and the program calls a constructor, adaptor or low-level accessor of the crate",
            "accepted": sum(1 for r in rows if r["verdict"] == "accept"), "rejected": sum(1 for r in rows if r["verdict"] == "reject"),
            "unexpected": [r for r in rows if not r["status"].startswith("as-expected")],
            "known_findings_hit": sorted(knowns), "findings_not_reproduced": sorted(set(f for f, _ in fixed_findings)),
            "two_owner_cases_run": two["cases"], "two_owner_cases_nontrivial": two["nontrivial"],
            "two_owner_hits_known": {k: len(v[1]) for k, v in two_known.items()},
            "tie_breaks": len(ties), "tie_break_reasons": [t[:300] for t in ties[:10]],
            "samples": pick, "all_probes": {r["probe"]: r["verdict"] for r in rows},
            "exhaustive": only is None and not pr["problems"],
        },
        "assumptions": ASSUMPTIONS,
        "wall_s": round(time.time() - t0, 2), "violations": n_viol,
    }
    os.makedirs(os.path.dirname(EVIDENCE), exist_ok=True)
    with open(EVIDENCE, "w") as f:
        json.dump(ev, f, indent=1)
    print("%s tier=%s probes=%d accepted=%d rejected=%d unexpected=%d known=%d theorems=%d/%d predictions=%d ties=%d wall=%.1fs" % (
        PID, tier, len(rows), ev["coverage"]["accepted"], ev["coverage"]["rejected"], len(ev["coverage"]["unexpected"]) - sum(
            len(v[1]) for v in knowns.values()), len(knowns), discharged, lean["obligations"], pred_checked, len(ties), time.time() - t0))
    return rc


if __name__ == "__main__":
    a = sys.argv[1:]
    sys.exit(main(a[0] if a else "quick", int(a[1]) if len(a) > 1 else 1))
