#!/usr/bin/env python3
"""mkprompts.py P...: regenerate /tmp/seedwt/<P>.prompt from the property text + the list of changes already collected"""
import json, sys, glob, re
props = {json.loads(l)['id']: json.loads(l) for l in open('/verif/properties.jsonl')}
TEMPLATE = open('/verif/tools/seed_prompt_template.txt').read()
head_end = TEMPLATE.index('THE PROPERTY')
task_start = TEMPLATE.index('YOUR TASK:')
list_start = TEMPLATE.index('Changes already collected for this property')
USED = ("zero-sized element types; element types without drop glue; `Copy` element types with a hand-written `Clone`; Vec with spare capacity; "
 "huge chunk sizes / counter near usize::MAX; a counter drifting more than 2^20 past the end of a multi-million-element source; ranges near usize::MAX or inverted; arrays with N = 0 and arrays above 4 KiB; "
 "iterators with under-/over-stating exact size hints; non-fused iterators; a panic of the wrapped iterator's next() or size_hint(), of Clone, of a destructor or of the user's closure at any position; "
 "pulls or skip_to_end issued from a thread that is already unwinding; skip_to_end racing with an in-flight pull; partially consumed, leaked (mem::forget) or late-dropped buffered chunks and buffered iterators; "
 "nth/fold/count/last/len/size_hint on chunk iterators and on values()/ids_and_values(); clone() and clone_from() at any point incl. after exhaustion; the public low-level AtomicIter methods (get, fetch_n, early_exit, progress_and_get_begin_idx) called directly; "
 "moving the iterator value to another address between operations; Debug-formatting; timing / spin-count thresholds in wait loops (a thread kept waiting for seconds or for millions of spin rounds); "
 "internal constants / thresholds on chunk sizes, queue distances or source lengths (4096, 2^16, 2^20, u32::MAX); chunks of many thousands of positions; more than 8 threads; references that are not adjacent in memory; empty (size 0) chunk requests; the user's closure pulling from the same iterator; repeated skip_to_end on huge ranges; "
 "two concurrent iterators nested (one wrapping values() of the other); thread-local state; zero-size chunk requests racing with pulls under every interleaving of their atomic accesses; "
 "the size of the element type (size_of::<T>() from 8 bytes to 64 KiB against any byte budget); ill-formed size hints (lower above upper); clones beyond isize::MAX; "
 "the From/Into conversions as the entry point; std's endless-iterator hint (usize::MAX, None); "
 "a wrapped iterator whose *type* is zero-sized; re-entrancy (the wrapped iterator's next() querying or skipping the concurrent iterator around it); new Clone / Drop / Iterator-method impls or new struct fields (the set of impls, overridden methods, derives and fields is compared against a fixed list)")
for p in sys.argv[1:]:
    P = props[p]
    t = TEMPLATE[:head_end].replace('C05', p)
    t += "THE PROPERTY (%s: %s):\n%s\nQuantified over: %s\nWhy the existing tests cannot settle it: %s\nAnchored in: %s\n\n" % (
        p, P['title'], P['statement'], P['quantifier']['text'], P['why_tests_cant'], ", ".join(P['anchors']['files']))
    body = TEMPLATE[task_start:list_start].replace('C05', p)
    body = re.sub(r"The following TRIGGERS have all been used and are now routinely exercised, so a change that needs only one of them is of little value: .*?\. Find a trigger",
                  "The following TRIGGERS have all been used and are now routinely exercised, so a change that needs only one of them is of little value: " + USED + ". Find a trigger", body, flags=re.S)
    body = re.sub(r"\(examples of unexplored directions, not a recipe: .*?\)\.",
                  "(examples of unexplored directions, not a recipe: alignment / layout / niche optimisation of element types, very many threads (more than 4), the user's closure of for_each/fold pulling from the same iterator, the From/Into/IntoConcurrentIter/ConcurrentIterable conversions and Default impls, nested adaptors (cloned() of cloned(), values() wrapped again), into_seq_iter of adaptors, two different concurrent iterators over the same data, behaviour that depends on the CPU count, generic bounds / variance of the public types, element types whose Drop/Clone use thread-locals, behaviour that differs between the first and later uses of a buffered iterator, chunk sizes that are powers of two or exceed some internal constant, sources longer than u32::MAX, subtle changes inside EXISTING function bodies rather than new impls).", body, flags=re.S)
    t += body
    t += "Changes already collected for this property (do something DIFFERENT in mechanism and location):\n"
    for d in sorted(glob.glob('/verif/seeded/%s-*' % p), key=lambda x: int(x.split('-')[-1])):
        m = json.load(open(d + '/meta.json'))
        t += "- " + m['summary'][:170].replace("\n", " ") + "\n"
    t += "\nReport briefly (under 200 words) what you produced."
    open('/tmp/seedwt/%s.prompt' % p, 'w').write(t)
    print(p, len(t))
