#!/usr/bin/env python3
"""Re-renders the seed table of DESIGN.md §10 between the SEED_TABLE markers."""
import os, subprocess, sys
V = os.path.dirname(os.path.dirname(os.path.abspath(__file__)))
p = os.path.join(V, "DESIGN.md")
s = open(p).read()
a, b = "<!-- SEED_TABLE_BEGIN -->", "<!-- SEED_TABLE_END -->"
i, j = s.index(a) + len(a), s.index(b)
table = subprocess.run([sys.executable, os.path.join(V, "tools", "seed_table.py")], stdout=subprocess.PIPE, text=True).stdout
open(p, "w").write(s[:i] + "\n" + table + s[j:])
