#!/usr/bin/env python3
"""seed_matrix.py <seed dir with patch.diff> [pids...]: run checks against a seeded change without touching /repo:
a scratch git worktree of /repo with the patch applied + a copy of the harness whose path dependency points at it."""
import sys, os, subprocess, json, shutil, tempfile
V = os.path.dirname(os.path.dirname(os.path.abspath(__file__)))
KEEP = "--keep" in sys.argv        # leave the scratch directory in place (its path is printed) for a look at the traces
if KEEP:
    sys.argv.remove("--keep")
TIER = "quick"
if "--thorough" in sys.argv:
    sys.argv.remove("--thorough")
    TIER = "thorough"
seed = os.path.abspath(sys.argv[1])
pids = sys.argv[2:] or ["C%02d" % i for i in range(1, 20) if i != 14]   # C14 reads /repo itself: tools/try_mutation.sh
tmp = tempfile.mkdtemp(prefix="orxseed.")
wt = os.path.join(tmp, "repo")
try:
    subprocess.run(["git", "-C", "/repo", "worktree", "add", "-q", "--detach", wt, "HEAD"], check=True)
    subprocess.run(["git", "-C", wt, "apply", os.path.join(seed, "patch.diff")], check=True)
    h = os.path.join(tmp, "harness")
    shutil.copytree(os.path.join(V, "harness"), h, ignore=shutil.ignore_patterns("target"))
    ct = open(os.path.join(h, "Cargo.toml")).read().replace('path = "/repo"', 'path = "%s"' % wt)
    open(os.path.join(h, "Cargo.toml"), "w").write(ct)
    # a private copy of the Lean project: the extractors regenerate Orx/Generated/*.lean from the mutated source there
    lean = os.path.join(tmp, "lean")
    shutil.copytree(os.path.join(V, "lean"), lean, symlinks=True)
    env = dict(os.environ, ORX_LEAN_DIR=lean, ORX_HARNESS_DIR=h, ORX_WORK=os.path.join(tmp, "work"), ORX_OUT=os.path.join(tmp, "out"), ORX_REPO_SRC=wt)
    mp = os.path.join(seed, "matrix.json")
    res = json.load(open(mp)) if os.path.exists(mp) else {}
    for p in pids:
        r = subprocess.run([os.path.join(V, "check"), p, "--tier", TIER], cwd=V, env=env, stdout=subprocess.PIPE, stderr=subprocess.STDOUT, text=True)
        v = [l for l in r.stdout.split("\n") if l.startswith("VIOLATION")]
        kind = "none"
        if v:
            kind = "tie-only" if "no-failing-input-found" in v[0] else "concrete"
        why = ""
        if v:
            rp = v[0].split("replay=")[1].split()[0]
            try:
                why = open(rp).read().split("\n")[1][2:200]
            except Exception:
                pass
        res[p] = {"exit": r.returncode, "detected": kind, "why": why}
        print(p, r.returncode, kind, why[:110], flush=True)
    if TIER == "quick":
        json.dump(res, open(mp, "w"), indent=1)
finally:
    if KEEP:
        print("kept:", tmp, "(remove with: git -C /repo worktree remove --force %s; rm -rf %s)" % (wt, tmp))
    else:
        subprocess.run(["git", "-C", "/repo", "worktree", "remove", "--force", wt])
        shutil.rmtree(tmp, ignore_errors=True)
