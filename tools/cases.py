"""Case model, (de)serialisation and random generation (FORMAT.md §1). One PRNG stream per run."""
import random

MAXW = (1 << 64) - 1

class Case:
    def __init__(self, cid, kind, vals=None, start=0, stop=0, script=None, hint="inexact", adapt="none",
                 threads=None, owner="drop", sched=None, frozen=None, iters=1, mode="release", clonepanic=None, droppanic=None, zst=False, tags=None, pod=False, spare=0, inpanic=None, clonepoint=False, rawskip=False, clonefrom=False, relocate=None, zstiter=False, reenter=None, nested=False, fat=0, viafrom=False, dropwait=None):
        self.id = cid
        self.kind = kind            # slice vecref arrref vec array range iter iterref
        self.vals = list(vals or [])
        self.start, self.stop = start, stop
        self.script = list(script or [])   # entries "S7", "N", "P"
        self.hint = hint
        self.adapt = adapt
        self.threads = [list(t) for t in (threads or [[]])]   # list of list of op strings
        self.owner = owner
        self.sched = list(sched or [])
        self.frozen = list(frozen or [])
        self.iters = iters
        self.mode = mode
        self.clonepanic = clonepanic
        self.droppanic = droppanic      # the k-th recorded destruction of an element panics
        self.zst = zst                  # zero-sized elements (slice / vec / array; payloads all 0)
        self.pod = pod                  # `Copy` elements without drop glue (vec / array): no destruction is observable
        self.spare = spare              # unused capacity of the consumed vector (vec)
        self.clonefrom = clonefrom      # `clone j` = `Clone::clone_from` onto an iterator that is ahead of the source
        self.relocate = relocate        # single-thread cases: the iterator value is moved to another address before thread 0's k-th operation
        self.zstiter = zstiter          # kind iter: the wrapped iterator is a zero-sized *type* (its state lives outside the value)
        self.reenter = reenter          # kinds iter / iterref: the k-th call of the wrapped `next()` queries the concurrent iterator around it
        self.nested = nested            # kind iter: the iterator under test wraps `values()` of an inner concurrent iterator over the probe
        self.fat = fat                  # element size in bytes (128 | 65536): large elements with a destructor / large Copy elements under copied()
        self.viafrom = viafrom          # built with `ConIterOfX::from(source)` instead of `into_con_iter` (slice, vec, array, range, iter)
        self.dropwait = dropwait        # (v, t): the destructor of element v, run by a thread of the case, waits until thread t has finished
        self.rawskip = rawskip          # `skip` = the public `AtomicIter::early_exit` instead of `skip_to_end`
        self.clonepoint = clonepoint    # `Clone::clone` of an element is a scheduling point (impl-only cases)
        self.inpanic = list(inpanic or [])   # threads whose ops run inside a destructor during an unrelated unwinding
        self.tags = set(tags or [])

    # ---- source facts -------------------------------------------------------------------------
    def is_iter(self):
        return self.kind in ("iter", "iterref")

    def consuming(self):
        return self.kind in ("vec", "array", "iter")

    def src_values(self):
        """payloads in source order (for iter: the S entries before the first N/P); memoised (generators may still replace
        `script` / `vals`, so the memo is keyed on them)"""
        if self.kind == "range":
            return None
        key = (self.kind, id(self.script), len(self.script), id(self.vals), len(self.vals))
        memo = getattr(self, "_sv", None)
        if memo is not None and memo[0] == key:
            return memo[1]
        if self.is_iter():
            out = []
            for e in self.script:
                if e.startswith("S"):
                    out.append(int(e[1:]))
                else:
                    break
        else:
            out = list(self.vals)
        self._sv = (key, out, None)
        return out

    def pos_of_val(self, val):
        """first source position holding payload `val` (None if absent)"""
        vals = self.src_values()
        memo = self._sv
        if memo[2] is None:
            d = {}
            for i, v in enumerate(vals):
                d.setdefault(v, i)
            self._sv = memo = (memo[0], memo[1], d)
        return memo[2].get(val)

    def src_len(self):
        if self.kind == "range":
            return max(0, self.stop - self.start)
        return len(self.src_values())

    def val_at(self, i):
        if self.kind == "range":
            return self.start + i
        v = self.src_values()
        return v[i] if 0 <= i < len(v) else None

    def fused(self):
        seen = False
        for e in self.script:
            if e.startswith("S"):
                if seen:
                    return False
            else:
                seen = True
        return True

    def all_ops(self):
        return [op for t in self.threads for op in t]

    def has_op(self, *names):
        return any(op.split()[0].lstrip("@0123456789 ") in names or (op.split()[0].startswith("@") and op.split()[1] in names)
                   for op in self.all_ops())

    # ---- text ---------------------------------------------------------------------------------
    def text(self):
        L = ["case %s" % self.id]
        if self.tags:
            L.append("#tags " + " ".join(sorted(self.tags)))     # a comment for the harness and the driver; read back by parse_cases
        if self.kind == "range":
            src = "src range start=%d stop=%d" % (self.start, self.stop)
        elif self.is_iter():
            src = "src %s script=%s hint=%s" % (self.kind, ",".join(self.script), self.hint)
        else:
            src = "src %s vals=%s" % (self.kind, ",".join(map(str, self.vals)))
        if self.iters != 1:
            src += " iters=%d" % self.iters
        L.append(src)
        if self.zst:
            L.append("zst")
        if self.pod:
            L.append("pod")
        if self.spare:
            L.append("spare %d" % self.spare)
        if self.inpanic:
            L.append("inpanic %s" % " ".join(map(str, self.inpanic)))
        if self.clonepoint:
            L.append("clonepoint")
        if self.rawskip:
            L.append("rawskip")
        if self.dropwait is not None:
            L.append("dropwait %d %d" % tuple(self.dropwait))
        if self.viafrom:
            L.append("viafrom")
        if self.fat:
            L.append("fat %d" % self.fat)
        if self.nested:
            L.append("nested")
        if self.reenter is not None:
            L.append("reenter %s" % str(self.reenter).replace(":", " "))
        if self.zstiter:
            L.append("zstiter")
        if self.relocate is not None:
            L.append("relocate %d" % self.relocate)
        if self.clonefrom:
            L.append("clonefrom")
        if self.adapt != "none":
            L.append("adapt %s" % self.adapt)
        L.append("mode %s" % self.mode)
        if self.clonepanic is not None:
            L.append("clonepanic %d" % self.clonepanic)
        if self.droppanic is not None:
            L.append("droppanic %d" % self.droppanic)
        for i, t in enumerate(self.threads):
            L.append("thread %d: %s" % (i, " ; ".join(t)))
        L.append("owner %s" % self.owner)
        L.append("sched " + " ".join(map(str, self.sched)))
        if self.frozen:
            L.append("frozen " + " ".join(map(str, self.frozen)))
        L.append("end")
        return "\n".join(L) + "\n"


def parse_cases(text):
    out = []
    cur = None
    for raw in text.split("\n"):
        line = raw.strip()
        if line.startswith("#tags ") and cur is not None:
            cur.tags = set(line.split()[1:])
            continue
        if not line or line.startswith("#"):
            continue
        toks = line.split()
        if toks[0] == "case":
            cur = Case(toks[1], "slice", threads=[])
        elif toks[0] == "end":
            if not cur.threads:
                cur.threads = [[]]
            out.append(cur)
            cur = None
        elif cur is None:
            continue
        elif toks[0] == "src":
            cur.kind = toks[1]
            kv = dict(t.split("=", 1) for t in toks[2:] if "=" in t)
            if "vals" in kv:
                cur.vals = [int(x) for x in kv["vals"].split(",") if x != ""]
            if "start" in kv:
                cur.start = int(kv["start"])
            if "stop" in kv:
                cur.stop = int(kv["stop"])
            if "script" in kv:
                cur.script = [x for x in kv["script"].split(",") if x != ""]
            if "hint" in kv:
                cur.hint = kv["hint"]
            if "iters" in kv:
                cur.iters = int(kv["iters"])
        elif toks[0] == "adapt":
            cur.adapt = toks[1]
        elif toks[0] == "mode":
            cur.mode = toks[1]
        elif toks[0] == "clonepanic":
            cur.clonepanic = int(toks[1])
        elif toks[0] == "droppanic":
            cur.droppanic = int(toks[1])
        elif toks[0] == "zst":
            cur.zst = True
        elif toks[0] == "pod":
            cur.pod = True
        elif toks[0] == "spare":
            cur.spare = int(toks[1])
        elif toks[0] == "inpanic":
            cur.inpanic = [int(x) for x in toks[1:]]
        elif toks[0] == "clonepoint":
            cur.clonepoint = True
        elif toks[0] == "rawskip":
            cur.rawskip = True
        elif toks[0] == "dropwait":
            cur.dropwait = (int(toks[1]), int(toks[2]))
        elif toks[0] == "viafrom":
            cur.viafrom = True
        elif toks[0] == "fat":
            cur.fat = int(toks[1])
        elif toks[0] == "nested":
            cur.nested = True
        elif toks[0] == "reenter":
            cur.reenter = int(toks[1]) if len(toks) == 2 else "%s:%s" % (toks[1], toks[2])
        elif toks[0] == "zstiter":
            cur.zstiter = True
        elif toks[0] == "relocate":
            cur.relocate = int(toks[1])
        elif toks[0] == "clonefrom":
            cur.clonefrom = True
        elif toks[0] == "thread":
            head, _, prog = line.partition(":")
            t = int(head.split()[1])
            ops = [o.strip() for o in prog.split(";") if o.strip()]
            while len(cur.threads) <= t:
                cur.threads.append([])
            cur.threads[t] = ops
        elif toks[0] == "owner":
            cur.owner = " ".join(toks[1:])
        elif toks[0] == "sched":
            cur.sched = [int(x) for x in toks[1:]]
        elif toks[0] == "frozen":
            cur.frozen = [int(x) for x in toks[1:]]
    return out


# ------------------------------------------------------------------------------------------------
# generation helpers

def distinct_vals(rng, n):
    """n distinct payloads, never equal to their index"""
    pool = rng.sample(range(100, 1000), n)
    return pool


KNOWN_KINDS = ["slice", "vecref", "arrref", "vec", "array", "range"]
ALL_KINDS = KNOWN_KINDS + ["iter", "iterref"]


def make_source(rng, cid, kind, n, adapt="none", hint=None, tail=None):
    if kind in ("array", "arrref") and not (kind == "array" and n == 288):
        n = min(n, 8)
    if kind == "range":
        start = rng.choice([0, 1, 5, 1000, 1 << 63, MAXW - n, MAXW - n - 1, MAXW - n - rng.randint(0, 40)])
        return Case(cid, kind, start=start, stop=start + n)
    if kind in ("iter", "iterref"):
        vals = distinct_vals(rng, n)
        script = ["S%d" % v for v in vals]
        if tail:
            script += tail
        return Case(cid, kind, script=script, hint=hint or rng.choice(["exact", "exact", "inexact", "inexact", "unbounded", "unbounded", "maxnone"]), adapt=adapt)
    return Case(cid, kind, vals=distinct_vals(rng, n), adapt=adapt)


def rand_sched(rng, nthreads, length, style=None):
    style = style or rng.choice(["rr", "random", "bursty", "solo"])
    if style == "rr" or nthreads == 1:
        return []
    if style == "random":
        return [rng.randrange(nthreads) for _ in range(length)]
    if style == "bursty":
        out = []
        while len(out) < length:
            t = rng.randrange(nthreads)
            out += [t] * rng.randint(1, 7)
        return out[:length]
    # solo: one thread runs a long prefix, then the others
    t = rng.randrange(nthreads)
    return [t] * rng.randint(1, max(1, length))


def take_params(tok, a):
    """(discarded by the consumer itself, leaving the chunk iterator) for a consumption token `all` | `<k>` | `nth:<k>`"""
    if tok in ("all", "fold"):
        return 0, a
    if tok == "count":
        return a, a
    if tok.startswith("nth:"):
        k = int(tok[4:])
        return min(k, a), min(k + 1, a)
    return 0, min(int(tok), a)


def take_plan(tok, a):
    """(offsets of the chunk handed to the caller, in order; how far the chunk iterator has advanced afterwards) for a
    consumption token; `<k>+nth:<j>`: `k` calls of `next()`, then one `nth(j)`"""
    if tok.endswith("+forget"):
        kk = min(int(tok[:-7]), a)
        return list(range(kk)), kk
    if tok.endswith("+last"):
        kk = min(int(tok[:-5]), a)
        return list(range(kk)) + ([a - 1] if kk < a else []), a
    if "+nth:" in tok:
        k, j = tok.split("+nth:")
        kk = min(int(k), a)
        j = int(j)
        offs = list(range(kk)) + ([kk + j] if kk + j < a else [])
        return offs, min(kk + j + 1, a)
    sk, j = take_params(tok, a)
    return list(range(sk, j)), j


def rand_take(rng, n):
    r = rng.random()
    if r < 0.15:
        return "nth:%d" % rng.randint(0, n + 1)
    if r < 0.27:
        return rng.choice(["fold", "count"])
    return rng.choice(["all", "all", "0", "1", str(rng.randint(0, n + 1))])


def pull_op(rng, n_hint, allow_zero=False):
    r = rng.random()
    sizes = [1, 2, 3, max(1, n_hint - 1), max(1, n_hint), n_hint + 1, n_hint + 3]
    if allow_zero:
        sizes.append(0)
    if r < 0.35:
        return "next"
    if r < 0.45:
        return "nextv"
    n = rng.choice(sizes)
    k = rand_take(rng, n)
    return "chunk %d %s" % (n, k)
