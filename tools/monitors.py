"""Property monitors over traces (FORMAT.md §3). They are run on the traces recorded from the REAL crate
(and, as a self-check, on the model's traces). A monitor returns a list of violation strings (empty = pass).
They decide nothing about the model: the theorems do that. They turn a broken tie into a concrete replay."""

from spec import check_sequential
from cases import take_params, take_plan

PULL_OPS = ("next", "nextv", "chunk", "bufnext", "foreach", "enumforeach", "fold", "values", "idsvalues", "vnth", "ivnth")
LOOP_OPS = ("foreach", "enumforeach", "fold", "values", "idsvalues")


class OpInst:
    __slots__ = ("tid", "op", "toks", "slot", "call", "ret", "rtoks", "panic", "events", "visits", "drops", "clones", "n")

    def __init__(self, tid, toks, call):
        self.tid = tid
        self.slot = 0
        if toks and toks[0].startswith("@"):
            self.slot = int(toks[0][1:])
            toks = toks[1:]
        self.toks = toks
        self.op = toks[0]
        self.call = call
        self.ret = None        # line index of ret/panic
        self.rtoks = None      # tokens after "ret"
        self.panic = None
        self.events = []       # (line idx, tokens) atomic / src events
        self.visits = []       # (idx or None, val)
        self.drops = []
        self.clones = []
        self.n = None          # chunk size in effect


class Trace:
    """parsed trace of one case"""

    def __init__(self, case, lines):
        self.case = case
        self.lines = lines
        self.fin = {}
        self.ops = []            # OpInst in call order
        self.own = []            # owner-phase token lists
        self.aborted = False
        self.hang = False
        cur = {}                 # tid -> current OpInst
        bufn = {}                # tid -> size of the thread's buffered iterator
        for i, line in enumerate(lines):
            toks = line.split()
            if not toks:
                continue
            if toks[0] == "fin":
                if len(toks) > 1 and toks[1] == "abort":
                    self.aborted = True
                elif len(toks) > 1 and toks[1] == "hang":
                    self.hang = True
                else:
                    for t in toks[1:]:
                        k, _, v = t.partition("=")
                        self.fin[k] = int(v)
                continue
            who = toks[0]
            if who == "own":
                self.own.append((i, toks[1:]))
                continue
            tid = int(who[1:])
            kind = toks[1]
            if kind == "call":
                oi = OpInst(tid, toks[2:], i)
                if oi.op == "bufnew":
                    bufn[tid] = int(oi.toks[1])
                if oi.op == "chunk":
                    oi.n = int(oi.toks[1])
                elif oi.op == "bufnext":
                    oi.n = bufn.get(tid)
                elif oi.op in ("foreach", "enumforeach", "fold"):
                    oi.n = int(oi.toks[1])
                elif oi.op in ("next", "nextv", "values", "idsvalues"):
                    oi.n = 1
                cur[tid] = oi
                self.ops.append(oi)
                continue
            oi = cur.get(tid)
            if oi is None:
                continue
            if kind in ("at", "src"):
                oi.events.append((i, toks[1:]))
            elif kind == "visit":
                oi.visits.append((None if toks[2] == "-" else int(toks[2]), int(toks[3]), i))
            elif kind == "drop":
                oi.drops.append((int(toks[2]), i))
            elif kind == "clone":
                oi.clones.append((int(toks[2]), i))
            elif kind == "ret":
                oi.ret = i
                oi.rtoks = toks[2:]
            elif kind == "panic":
                oi.ret = i
                oi.panic = toks[2]

    # ------------------------------------------------------------------------------------------
    def stuck(self):
        return self.fin.get("stuck", 0) == 1

    def pulls(self):
        return [o for o in self.ops if o.op in PULL_OPS]

    def deliveries(self, oi):
        """positions/values this op instance handed to its caller or took out of the source:
        list of (pos or None, val or None, consumed: bool)"""
        out = []
        r = oi.rtoks
        if oi.op in ("vnth", "ivnth"):
            # `values().nth(k)`: every single pull the default `nth` made took an element (the first k are discarded by the
            # caller's `nth`, the last one is returned): the positions are the counter values the pulls read
            c = self.case
            if not c.is_iter():
                for (_, ev) in oi.events:
                    if ev[0] == "at" and ev[2] == "faa" and int(ev[4]) < c.src_len():
                        out.append((int(ev[4]), c.val_at(int(ev[4])), True))
            else:
                for (_, ev) in oi.events:
                    if ev[0] == "src" and ev[1] == "exit" and ev[2] == "some":
                        out.append((None, int(ev[3]), True))
        elif oi.op in ("next",) and r and r[0] == "item":
            out.append((int(r[1]), int(r[2]), True))
        elif oi.op == "nextv" and r and r[0] == "value":
            out.append((None, int(r[1]), True))
        elif oi.op in ("chunk", "bufnext") and r and r[0] == "chunk":
            b, a, l = int(r[1]), int(r[2]), int(r[3])
            vals = [int(x) for x in r[4:]]
            offs, _ = take_plan(oi.toks[-1], a) if a <= 200000 else ([], 0)
            if a > 200000:
                sk, _ = take_params(oi.toks[-1], a)
                offs = list(range(sk, sk + len(vals)))
            # values beyond the expected ones (a broken consumer) are attributed to the offsets that follow
            while len(offs) < len(vals):
                offs.append((offs[-1] + 1) if offs else 0)
            at = {o: vals[i] for i, o in enumerate(offs[:len(vals)])}
            n = max([a] + [o + 1 for o in at])
            ks = range(n)
            if n > 200000:
                # an astronomic chunk (extreme ranges): its consumed part, the positions next to it and its last positions
                head = max(at, default=0) + 64
                ks = list(range(min(n, head))) + list(range(max(head, n - 64), n))
            for k in ks:
                got = k in at
                out.append((b + k, at[k] if got else None, got))
        elif oi.op in LOOP_OPS:
            for (idx, val, _) in oi.visits:
                out.append((idx, val, True))
        return out


# sources longer than this (extreme ranges) are not enumerated position by position
BIG_SRC = 2000000


def pos_of(case, idx, val):
    """position of a delivery: its reported index, else looked up by (distinct) payload"""
    if idx is not None:
        return idx
    if case.zst:
        return None          # zero-sized elements carry no identity
    if case.kind == "range":
        return val - case.start
    case.src_values()
    return case.pos_of_val(val)


# ---- shared checks -------------------------------------------------------------------------------

def check_no_dup(tr):
    """no source position is handed out twice (C01/C06/C18 clause)"""
    bad = []
    seen = {}
    for oi in tr.ops:
        if oi.slot != 0:
            continue
        for (idx, val, _) in tr.deliveries(oi):
            p = pos_of(tr.case, idx, val)
            if p is None:
                continue
            if p in seen:
                bad.append("position %d delivered twice (line %d and line %d)" % (p, seen[p], oi.ret if oi.ret is not None else oi.call))
            seen[p] = oi.ret if oi.ret is not None else oi.call
    return bad


def check_fidelity(tr):
    """every (index, value) pair is the source's (C02)"""
    bad = []
    c = tr.case
    n = c.src_len()
    for oi in tr.ops:
        for (idx, val, consumed) in tr.deliveries(oi):
            if idx is None or val is None:
                if idx is None and val is not None and c.kind != "range" and (c.src_values() is not None) and c.pos_of_val(val) is None:
                    bad.append("value %d is not an element of the source (line %s)" % (val, oi.ret))
                continue
            if idx >= n:
                bad.append("index %d beyond the source length %d (line %s)" % (idx, n, oi.ret))
            elif c.val_at(idx) != val:
                bad.append("index %d delivered with value %d, source has %d (line %s)" % (idx, val, c.val_at(idx), oi.ret))
    return bad


def check_value_dup(tr):
    """no element (identified by its payload, for sources with distinct payloads) is handed to callers twice"""
    c = tr.case
    if c.zst or c.kind == "range" or c.iters != 1:
        return []
    vals = c.src_values()
    if vals is None or len(set(vals)) != len(vals):
        return []
    seen = {}
    bad = []
    for oi in tr.ops:
        if oi.slot != 0:
            continue
        for (_, val, got) in tr.deliveries(oi):
            if got and val is not None:
                if val in seen:
                    bad.append("the element with payload %d was handed out twice (line %s and line %s)" % (val, seen[val], oi.ret))
                seen[val] = oi.ret
    return bad


def delivered_positions(tr, slot=0):
    out = []
    for oi in tr.ops:
        if oi.slot != slot:
            continue
        for (idx, val, _) in tr.deliveries(oi):
            p = pos_of(tr.case, idx, val)
            if p is not None:
                out.append(p)
    return out


def saw_end(oi):
    if oi.op in LOOP_OPS:
        return oi.rtoks is not None and oi.rtoks[0] in ("done", "fold")
    return oi.rtoks is not None and oi.rtoks[0] == "end"


def quiet_case(tr):
    """no skip, no panic, nothing frozen/stuck/aborted"""
    c = tr.case
    return not (c.has_op("skip") or c.frozen or tr.stuck() or tr.aborted or tr.hang or any(o.panic for o in tr.ops))


def check_unscripted_panic(tr):
    """an operation panicked although the case scripts no panic (wrapped iterator, clone, closure, chunk size 0)"""
    bad = []
    for oi in tr.ops:
        if oi.panic == "drop" and tr.case.droppanic is not None:
            continue
        if oi.panic and oi.panic not in ("probe", "clone", "closure"):
            zero = (oi.op in ("bufnew", "foreach", "enumforeach", "fold") and oi.toks[1] == "0")
            if not (oi.panic == "chunksize" and zero):
                bad.append("`%s` called at line %d panicked (%s) although nothing in the case panics" % (" ".join(oi.toks), oi.call, oi.panic))
    for (i, toks) in tr.own:
        if toks[0] == "panic" and toks[1] not in ("probe", "clone") and not (toks[1] == "drop" and tr.case.droppanic is not None):
            bad.append("the owner phase panicked (%s)" % toks[1])
    return bad


def check_stuck(tr):
    """operations must return: nothing panicked, nothing is frozen, yet the threads wait forever"""
    c = tr.case
    if (tr.stuck() or tr.hang) and not c.frozen and not any(o.panic for o in tr.ops):
        waiting = [o for o in tr.ops if o.ret is None]
        return ["`%s` called at line %d never returns (every runnable thread spins)" % (" ".join(o.toks), o.call) for o in waiting[:2]] or ["stuck"]
    return []


def check_ks_events(tr):
    """known-size kinds: every atomic access reads the value the previous accesses of that slot left (a clone
    starts at the value loaded from its original), and every operation's result is what a cursor at the value it
    read must return. This is linearizability of each slot, checked event by event."""
    c = tr.case
    if c.is_iter():
        return []
    bad = []
    n = c.src_len()
    W = 1 << 64
    ctr = {0: 0}
    for k in range(c.iters):
        ctr[k] = 0
    def slot_of(loc):
        return 0 if loc == "ctr" else int(loc[3:])
    for oi in tr.ops:
        pass
    # pass 1: counters in trace order
    pending_clone = {}
    ops_by_line = {}
    for oi in tr.ops:
        for (line, ev) in oi.events:
            ops_by_line[line] = oi
    for i, line in enumerate(tr.lines):
        t = line.split()
        if len(t) < 3 or t[1] != "at":
            continue
        k = slot_of(t[2])
        if k not in ctr:
            bad.append("access to an iterator slot that was never created (line %d)" % i)
            continue
        if t[3] == "faa":
            r, a = int(t[5]), int(t[6])
            if r != ctr[k]:
                bad.append("slot %d: fetch_add at line %d read %d, the accesses before it leave %d" % (k, i, r, ctr[k]))
            ctr[k] = (r + a) % W
        elif t[3] == "st":
            v = int(t[5])
            if v != n:
                bad.append("slot %d: store of %d at line %d (skip_to_end must store the length %d)" % (k, v, i, n))
            ctr[k] = v
        elif t[3] == "swp":
            r, v = int(t[5]), int(t[6])
            if r != ctr[k]:
                bad.append("slot %d: swap at line %d read %d, the accesses before it leave %d" % (k, i, r, ctr[k]))
            if v != n:
                bad.append("slot %d: swap to %d at line %d (skip_to_end must store the length %d)" % (k, v, i, n))
            ctr[k] = v
        elif t[3] == "ld":
            v = int(t[5])
            if v != ctr[k]:
                bad.append("slot %d: load at line %d read %d, the accesses before it leave %d" % (k, i, v, ctr[k]))
            oi = ops_by_line.get(i)
            if oi is not None and oi.op == "clone":
                ctr[int(oi.toks[1])] = v
    # pass 2: results against the value each operation read
    for oi in tr.ops:
        if oi.panic or oi.ret is None:
            continue
        ats = [ev for (_, ev) in oi.events if ev[0] == "at"]
        if oi.op in ("next", "nextv") and len(ats) == 1 and ats[0][2] == "faa":
            r = int(ats[0][4])
            want = (["item", str(r), str(c.val_at(r))] if oi.op == "next" else ["value", str(c.val_at(r))]) if r < n else ["end"]
            if oi.rtoks != want:
                bad.append("`%s` read counter %d and returned `%s`, expected `%s` (line %d)" % (oi.op, r, " ".join(oi.rtoks), " ".join(want), oi.ret))
        elif oi.op in ("chunk", "bufnext") and len(ats) == 1 and ats[0][2] == "faa" and oi.n is not None:
            r = int(ats[0][4])
            b = min(r, n)
            e = min(b + oi.n, n)
            if oi.rtoks[0] == "end":
                if e > b:
                    bad.append("chunk pull read counter %d with %d elements left and reported the end (line %d)" % (r, n - b, oi.ret))
            else:
                gb, ga = int(oi.rtoks[1]), int(oi.rtoks[2])
                if (gb, ga) != (b, e - b):
                    bad.append("chunk pull read counter %d: returned begin %d / %d elements, expected begin %d / %d (line %d)" % (r, gb, ga, b, e - b, oi.ret))
        elif oi.op == "len" and len(ats) == 1:
            r = int(ats[0][4])
            want = ["len", str(max(0, n - r))]
            if oi.rtoks != want:
                bad.append("try_get_len read counter %d and returned `%s`, expected `%s` (line %d)" % (r, " ".join(oi.rtoks), " ".join(want), oi.ret))
        elif oi.op == "hasmore" and len(ats) == 1:
            r = int(ats[0][4])
            want = ["more", "no"] if r >= n else ["more", "yes", str(n - r)]
            if oi.rtoks != want:
                bad.append("has_more read counter %d and returned `%s`, expected `%s` (line %d)" % (r, " ".join(oi.rtoks), " ".join(want), oi.ret))
    return bad


# ---- C01 -----------------------------------------------------------------------------------------

def check_C01(tr):
    bad = check_no_dup(tr) + check_unscripted_panic(tr) + check_stuck(tr)
    c = tr.case
    if quiet_case(tr) and c.iters == 1 and (not c.is_iter() or c.fused()) and not c.has_op("get", "clone") and c.src_len() <= BIG_SRC:
        # "until each has observed the end": every thread's last pull saw the end
        last = {}
        for oi in tr.pulls():
            last[oi.tid] = oi
        if last and all(saw_end(o) for o in last.values()) and len(last) == sum(1 for t in c.threads if any(op.split()[0] in PULL_OPS for op in t)):
            got = sorted(delivered_positions(tr))
            want = list(range(c.src_len()))
            if got != want:
                bad.append("delivered positions %s, expected every position of 0..%d exactly once" % (got, c.src_len()))
    return bad


def check_C02(tr):
    return check_fidelity(tr) + check_unscripted_panic(tr) + check_ks_events(tr)


# ---- C03 -----------------------------------------------------------------------------------------

def check_C03(tr):
    bad = []
    c = tr.case
    L = c.src_len()
    bad += check_unscripted_panic(tr)
    if (tr.stuck() or tr.hang) and not c.frozen and not any(o.panic for o in tr.ops):
        for oi in tr.ops:
            if oi.op in ("chunk", "bufnext") and oi.ret is None:
                bad.append("chunk pull called at line %d neither reports the end nor returns a chunk (it waits forever)" % oi.call)
    for oi in tr.ops:
        if oi.op not in ("chunk", "bufnext") or not oi.rtoks or oi.rtoks[0] != "chunk":
            continue
        b, a, l = int(oi.rtoks[1]), int(oi.rtoks[2]), int(oi.rtoks[3])
        vals = [int(x) for x in oi.rtoks[4:]]
        n = oi.n
        if n is not None and n >= 1:
            if a < 1:
                bad.append("empty chunk returned (line %d)" % oi.ret)
            if a > n:
                bad.append("chunk of %d elements for chunk size %d (line %d)" % (a, n, oi.ret))
            if a < n and (not c.is_iter() or c.fused()) and b + a != L:
                bad.append("short chunk [%d,%d) does not end at the source end %d (line %d)" % (b, b + a, L, oi.ret))
        want = oi.toks[-1]
        offs, k = take_plan(want, a)
        if k + l != a:
            bad.append("announced length %d but %d consumed and %d left (line %d)" % (a, k, l, oi.ret))
        if len(vals) != len(offs):
            bad.append("asked to consume %s of announced %d, got %d elements (line %d)" % (want, a, len(vals), oi.ret))
        for j, v in zip(offs, vals):
            if b + j < L and c.val_at(b + j) != v:
                bad.append("chunk element %d at position %d is %d, source has %s (line %d)" % (j, b + j, v, c.val_at(b + j), oi.ret))
            if b + j >= L:
                bad.append("chunk position %d beyond the source (line %d)" % (b + j, oi.ret))
    return bad


# ---- C04 -----------------------------------------------------------------------------------------

def check_C04(tr):
    bad = []
    c = tr.case
    bad += check_sequential(tr) + check_ks_events(tr) + check_stuck(tr)
    # "yields exactly what the wrapped sequential iterator would yield": nothing from behind the iterator's first None
    bad += [b for b in check_fidelity(tr) if "beyond the source" in b or "not an element" in b]
    if c.has_op("skip", "get") or (c.is_iter() and not c.fused()):
        return bad
    pulls = [o for o in tr.pulls() if o.slot == 0]
    # per-thread increasing
    lastmax = {}
    for oi in pulls:
        ps = [pos_of(c, i, v) for (i, v, _) in tr.deliveries(oi)]
        ps = [p for p in ps if p is not None]
        if not ps:
            continue
        if oi.tid in lastmax and min(ps) <= lastmax[oi.tid]:
            bad.append("thread %d received position %d after %d (line %s)" % (oi.tid, min(ps), lastmax[oi.tid], oi.ret))
        if ps != sorted(ps):
            bad.append("positions inside one pull out of order (line %s)" % oi.ret)
        lastmax[oi.tid] = max(ps)
    # real-time order between single (non-loop) pulls
    simple = [o for o in pulls if o.op not in LOOP_OPS and o.ret is not None]
    spans = []
    for oi in simple:
        ps = [pos_of(c, i, v) for (i, v, _) in tr.deliveries(oi)]
        ps = [p for p in ps if p is not None]
        if ps:
            spans.append((oi.call, oi.ret, min(ps), max(ps)))
    for (ca, ra, lo_a, hi_a) in spans:
        for (cb, rb, lo_b, hi_b) in spans:
            if ra < cb and not hi_a < lo_b:
                bad.append("pull returning at line %d got positions up to %d, a pull starting later (line %d) got %d" % (ra, hi_a, cb, lo_b))
    # quiescent prefix: whenever no pull is in flight, the delivered positions are a gap-free prefix
    inflight = 0
    delivered = set()
    events = []
    for oi in pulls:
        events.append((oi.call, 0, oi))
        if oi.op in LOOP_OPS:
            for (idx, val, line) in oi.visits:
                events.append((line, 1, (idx, val)))
        if oi.ret is not None:
            events.append((oi.ret, 2, oi))
    events.sort(key=lambda e: (e[0], e[1]))
    for (line, kind, x) in events:
        if kind == 0:
            inflight += 1
        elif kind == 1:
            p = pos_of(c, x[0], x[1])
            if p is not None:
                delivered.add(p)
        else:
            inflight -= 1
            if x.op not in LOOP_OPS:
                for (i, v, _) in tr.deliveries(x):
                    p = pos_of(c, i, v)
                    if p is not None:
                        delivered.add(p)
            if inflight == 0 and not x.panic:
                if delivered and sorted(delivered) != list(range(len(delivered))):
                    bad.append("no pull in flight after line %d but delivered positions %s are not a prefix" % (line, sorted(delivered)))
    return bad


# ---- C05 / C06 -----------------------------------------------------------------------------------

def check_after(tr, start_line, what):
    """every pull called after `start_line` reports the end; length queries report nothing positive"""
    bad = []
    for oi in tr.ops:
        if oi.slot != 0 or oi.call <= start_line or oi.ret is None or oi.panic:
            continue
        if oi.op in PULL_OPS:
            d = tr.deliveries(oi)
            if d or not saw_end(oi):
                bad.append("%s at line %d, but the pull called at line %d delivered %s" % (what, start_line, oi.call, [x[:2] for x in d][:3] or oi.rtoks))
        elif oi.op == "len" and oi.rtoks[1] not in ("none", "0"):
            bad.append("%s at line %d, but try_get_len at line %d reports %s" % (what, start_line, oi.call, oi.rtoks[1]))
        elif oi.op == "hasmore" and oi.rtoks[1] == "yes":
            bad.append("%s at line %d, but has_more at line %d reports yes" % (what, start_line, oi.call))
    return bad


def check_C05(tr):
    c = tr.case
    first = None
    for oi in tr.pulls():
        if oi.slot == 0 and oi.ret is not None and saw_end(oi) and not (oi.op == "chunk" and oi.n == 0):
            if first is None or oi.ret < first:
                first = oi.ret
    if first is None:
        return []
    return check_after(tr, first, "end reported")


def check_C06(tr):
    bad = []
    if not tr.case.has_op("skip"):
        return bad
    for oi in tr.ops:
        if oi.op == "skip" and oi.slot == 0 and oi.ret is not None:
            bad += check_after(tr, oi.ret, "skip_to_end returned")
            for q in tr.ops:
                if q.op == "hasmore" and q.slot == 0 and q.call > oi.ret and q.rtoks and q.rtoks[1] != "no":
                    bad.append("skip_to_end returned at line %d, has_more at line %d reports %s" % (oi.ret, q.call, q.rtoks[1]))
            break
    bad += check_no_dup(tr)
    bad += check_fidelity(tr)
    # "elements delivered before it stay valid": on a consuming kind the skip destroys only what nobody received
    if tr.case.consuming() and not tr.case.has_op("get"):
        bad += [b for b in check_C08(tr) if "moved out" in b]
    return bad


# ---- C07 -----------------------------------------------------------------------------------------

ACQ = ("acquire", "acqrel", "seqcst")
REL = ("release", "acqrel", "seqcst")


def check_C07(tr):
    """mutual exclusion of the wrapped next() and happens-before between consecutive executions,
    computed from the orderings in the trace (vector clocks, C11 release/acquire; SeqCst as AcqRel)"""
    bad = []
    nT = len(tr.case.threads)
    clock = [[0] * nT for _ in range(nT)]
    locclk = {}
    inside = None
    last_access = None      # clock of the last src access (enter or exit)
    last_tid = None

    def join(a, b):
        return [max(x, y) for x, y in zip(a, b)]

    def leq(a, b):
        return all(x <= y for x, y in zip(a, b))

    for i, line in enumerate(tr.lines):
        toks = line.split()
        if not toks or not toks[0].startswith("T"):
            continue
        t = int(toks[0][1:])
        if toks[1] == "at":
            loc, kind, ordn = toks[2], toks[3], toks[4]
            clock[t][t] += 1
            if kind == "ld":
                if ordn in ACQ and loc in locclk:
                    clock[t] = join(clock[t], locclk[loc])
            elif kind == "st":
                if ordn in REL:
                    locclk[loc] = list(clock[t])
                else:
                    locclk.pop(loc, None)     # a relaxed store ends the release sequence
            elif kind in ("faa", "swp"):
                old = locclk.get(loc)
                if ordn in ACQ and old is not None:
                    clock[t] = join(clock[t], old)
                if ordn in REL:
                    locclk[loc] = join(clock[t], old) if old is not None else list(clock[t])
                # an RMW without release continues the release sequence: keep `old`
        elif toks[1] == "src":
            clock[t][t] += 1
            if toks[2] == "hint":
                if inside is not None and inside != t:
                    bad.append("thread %d reads the wrapped iterator (size_hint) at line %d while thread %d is inside next()" % (t, i, inside))
                if last_access is not None and last_tid != t and not leq(last_access, clock[t]):
                    bad.append("data race: size_hint by thread %d at line %d does not happen-after the previous use by thread %d" % (t, i, last_tid))
                continue
            if toks[2] == "enter":
                if inside is not None:
                    bad.append("thread %d enters the wrapped next() at line %d while thread %d is inside" % (t, i, inside))
                if last_access is not None and last_tid != t and not leq(last_access, clock[t]):
                    bad.append("data race: next() entered by thread %d at line %d does not happen-after the previous use by thread %d" % (t, i, last_tid))
                inside = t
            else:
                if inside == t:
                    inside = None
            last_access = list(clock[t])
            last_tid = t
    return bad


# ---- C08 / C15 -----------------------------------------------------------------------------------

def ledger(tr):
    """per payload: (moved to a caller, dropped by the machinery, produced)"""
    c = tr.case
    moved, dropped = {}, {}
    produced = None
    if c.kind == "iter":
        produced = []
    for i, line in enumerate(tr.lines):
        toks = line.split()
        if len(toks) < 2:
            continue
        body = toks[1:]
        if body[0] == "drop":
            v = int(body[1])
            dropped[v] = dropped.get(v, 0) + 1
        elif body[0] == "src" and body[1] == "exit" and body[2] == "some" and produced is not None:
            produced.append(int(body[3]))
            if toks[0] == "own":
                # into_seq_iter of the wrapper hands the wrapped iterator back: what the owner pulls from it is the
                # owner's, whether or not the owner phase ends normally
                moved[int(body[3])] = moved.get(int(body[3]), 0) + 1
        elif body[0] == "visit":
            v = int(body[2])
            moved[v] = moved.get(v, 0) + 1
        elif body[0] == "taken":
            # received by a caller from a chunk / remainder whose destruction then panicked
            for x in body[1:]:
                moved[int(x)] = moved.get(int(x), 0) + 1
        elif body[0] == "ret":
            r = body[1:]
            if r[0] == "item":
                moved[int(r[2])] = moved.get(int(r[2]), 0) + 1
            elif r[0] in ("value", "got") and r[1] != "none":
                moved[int(r[1])] = moved.get(int(r[1]), 0) + 1
            elif r[0] == "chunk":
                for x in r[4:]:
                    moved[int(x)] = moved.get(int(x), 0) + 1
            elif r[0] == "seq" and produced is None:
                for x in r[1:]:
                    moved[int(x)] = moved.get(int(x), 0) + 1
    return moved, dropped, produced


def check_C08(tr):
    c = tr.case
    if not c.consuming() or c.adapt != "none" or tr.aborted or tr.hang:
        return []
    if c.frozen or tr.stuck():
        return []        # aborted threads unwind silently; their elements are not accounted
    if c.pod:
        return []        # no destructor to observe
    bad = []
    moved, dropped, produced = ledger(tr)
    if c.zst:
        # zero-sized elements have no identity: the ledger is a count
        m, d = sum(moved.values()), sum(dropped.values())
        # a wrapped iterator: the elements to account for are those it produced (what it never yielded is its own business)
        total = len(produced) if produced is not None else c.src_len()
        if m + d != total:
            bad.append("%d zero-sized elements: %d moved out, %d dropped by the iterator" % (total, m, d))
        return bad
    universe = produced if produced is not None else c.src_values()
    for v in universe:
        m, d = moved.get(v, 0), dropped.get(v, 0)
        if m + d != 1:
            bad.append("element %d: moved out %d time(s), dropped by the iterator %d time(s)" % (v, m, d))
    for v in set(list(moved) + list(dropped)):
        if v not in universe:
            bad.append("element %d moved/dropped but never produced" % v)
    return bad


def check_C15(tr):
    if tr.aborted or tr.hang:
        return []
    # an element that is neither handed out nor dropped is leaked (with whatever it owns)
    bad = [b for b in check_C08(tr) if "0 time(s), dropped by the iterator 0 time(s)" in b] if not tr.case.has_op("get") else []
    if tr.fin.get("live", 0) != 0 or tr.fin.get("blocks", 0) != 0:
        bad.append("%d bytes in %d blocks still allocated after the iterator and everything obtained from it were dropped" % (tr.fin.get("live", 0), tr.fin.get("blocks", 0)))
    return bad


# ---- C09 -----------------------------------------------------------------------------------------

def check_C09(tr):
    bad = check_unscripted_panic(tr)
    c = tr.case
    if tr.hang:
        bad.append("no scheduler progress for 10 s (a thread loops without reaching a scheduling point)")
    has_panic = any(o.panic for o in tr.ops)
    if tr.stuck() and not (c.is_iter() and c.frozen):
        bad.append("all runnable threads spin forever (stuck)" + (" after a thread's operation panicked" if has_panic else " although nothing panicked"))
    if not c.is_iter():
        # wait-freedom: a pull is its call and exactly one atomic access; never a second access
        for oi in tr.ops:
            if oi.op in ("next", "nextv", "chunk", "bufnext", "skip", "len", "hasmore") and oi.ret is not None:
                na = len([e for e in oi.events if e[1][0] == "at"])
                if na != 1:
                    bad.append("%s at line %d performed %d atomic accesses on a known-size source" % (oi.op, oi.call, na))
        # a frozen thread never prevents the others from finishing
        done = {}
        for oi in tr.ops:
            if oi.ret is not None:
                done[oi.tid] = done.get(oi.tid, 0) + 1
        for t, prog in enumerate(c.threads):
            if t in c.frozen:
                continue
            dead = any(o.panic for o in tr.ops if o.tid == t)
            if not dead and done.get(t, 0) != len(prog):
                bad.append("thread %d completed %d of %d operations" % (t, done.get(t, 0), len(prog)))
    return bad


# ---- C10 / C11 -----------------------------------------------------------------------------------

def check_C10(tr):
    c = tr.case
    if not c.owner.startswith("intoseq") or tr.aborted or c.frozen or tr.stuck() or c.has_op("get", "clone"):
        return []
    if c.is_iter() and not c.fused():
        return []
    if any(o.panic for o in tr.ops):
        return []
    seq = None
    for (_, toks) in tr.own:
        if toks[0] == "ret" and toks[1] == "seq":
            seq = [int(x) for x in toks[2:]]
    if seq is None:
        return ["into_seq_iter produced no result"]
    bad = check_value_dup(tr) if not c.has_op("get") else []
    n = c.src_len()
    if n > BIG_SRC:
        return bad       # an astronomic range: its remainder cannot be listed
    dp = set(delivered_positions(tr))
    rest = [p for p in range(n) if p not in dp]
    want = [c.val_at(p) for p in rest]
    k = c.owner.split()[1]
    if c.has_op("skip"):
        full = want
        ok = any(seq == full[j:][:len(seq)] for j in range(len(full) + 1)) if k != "all" else any(seq == full[j:] for j in range(len(full) + 1))
        if not ok:
            bad.append("after skip_to_end into_seq_iter yields %s, not a suffix of the undelivered %s" % (seq, full))
    else:
        if k == "all":
            if seq != want:
                bad.append("into_seq_iter yields %s, undelivered remainder is %s" % (seq, want))
        else:
            kk = min(int(k), len(want))
            if seq != want[:kk]:
                bad.append("into_seq_iter starts with %s, undelivered remainder starts with %s" % (seq, want[:kk]))
    return bad


def check_C11(tr):
    bad = []
    c = tr.case
    n = c.src_len()
    # (a) reported lengths never increase (ordered by the query's load)
    reports = []
    for oi in tr.ops:
        if oi.slot != 0 or oi.op not in ("len", "hasmore") or oi.ret is None:
            continue
        if oi.op == "len":
            v = None if oi.rtoks[1] == "none" else int(oi.rtoks[1])
        else:
            v = {"no": 0, "maybe": None}.get(oi.rtoks[1], None) if oi.rtoks[1] != "yes" else int(oi.rtoks[2])
        line = oi.events[-1][0] if oi.events else oi.call
        reports.append((line, v, oi))
    reports.sort(key=lambda r: r[0])
    for (_, va, A) in reports:
        for (_, vb, B) in reports:
            if va is not None and vb is not None and A.ret < B.call and vb > va:
                bad.append("reported length grows from %d (query returned at line %d) to %d (query called at line %d)" % (va, A.ret, vb, B.call))
    # (b) zero / No is definitive -- unless the wrapped iterator lies about its exact size (`hint=fixed<k>`): the
    # crate reports what the iterator claimed, and the property is about honest sources
    liar = c.is_iter() and c.hint.startswith("fixed")
    for (line, v, oi) in reports:
        if v == 0 and not liar:
            for p in tr.pulls():
                if p.slot == 0 and p.call > oi.ret and tr.deliveries(p):
                    bad.append("length 0 / No reported at line %d, but the pull called at line %d delivered" % (oi.ret, p.call))
                    break
    # (e) `Maybe` / `None` only for sources of unknown size: a wrapped iterator that reported an exact size is of known size
    if c.is_iter() and (c.hint == "exact" or c.hint.startswith("fixed")):
        for (line, v, oi) in reports:
            if v is None:
                bad.append("the source reported an exact size, but the query at line %d answers `%s`" % (oi.ret, " ".join(oi.rtoks)))
                break
    # (d) always No / 0 after a single or one-shot chunk pull has reported the end
    for p in tr.pulls():
        if p.slot == 0 and p.op in ("next", "nextv", "chunk") and p.ret is not None and saw_end(p) and not (p.op == "chunk" and p.n == 0):
            for (line, v, oi) in reports:
                if oi.call > p.ret and v != 0:
                    bad.append("`%s` reported the end at line %d, but the query called at line %d answers %s" % (" ".join(p.toks), p.ret, oi.call, " ".join(oi.rtoks)))
                    break
    # (c) truthful at quiescent points (known size, no skip before)
    if not c.is_iter() or (c.hint == "exact" and c.fused()):
        pulls = [p for p in tr.pulls() if p.slot == 0]
        for (line, v, oi) in reports:
            inflight = [p for p in pulls if p.call < oi.ret and (p.ret is None or p.ret > oi.call)]
            if inflight:
                continue
            skips = [s for s in tr.ops if s.op == "skip" and s.slot == 0]
            if any(s.call < oi.ret and (s.ret is None or s.ret > oi.call) for s in skips):
                continue
            skipped = any(s.ret is not None and s.ret < oi.call for s in skips)
            before = set()
            for p in pulls:
                if p.ret is not None and p.ret < oi.call:
                    for (i, val, _) in tr.deliveries(p):
                        q = pos_of(c, i, val)
                        if q is not None:
                            before.add(q)
            later = 0
            for p in pulls:
                if p.call > oi.ret:
                    later += len(tr.deliveries(p))
            if skipped:
                if v not in (0,):
                    bad.append("after skip_to_end the reported length is %s (line %d)" % (v, oi.ret))
            elif v is not None and v != n - len(before) and not any(o.panic for o in tr.ops):
                bad.append("quiescent try_get_len/has_more reports %d, %d of %d were delivered (line %d)" % (v, len(before), n, oi.ret))
            if oi.op == "hasmore" and not c.is_iter() and oi.rtoks[1] == "maybe":
                bad.append("has_more is Maybe on a known-size source (line %d)" % oi.ret)
    return bad


# ---- C12 -----------------------------------------------------------------------------------------

def check_C12(tr):
    bad = []
    c = tr.case
    loops = [o for o in tr.ops if o.op in ("foreach", "enumforeach", "fold")]
    if not loops:
        return bad
    bad += check_fidelity(tr)
    bad += check_no_dup(tr)
    bad += check_unscripted_panic(tr)
    bad += check_stuck(tr)
    # one by one (chunk size 1) a loop holds nothing but the element its function is working on: whatever it has taken from a
    # known-size iterator it has passed to the function -- also when the function panics on it (for larger chunk sizes the
    # rest of the chunk in hand is lost with the panic, by design)
    if not c.is_iter() and c.adapt == "none" and not tr.aborted and not tr.hang:
        for lo in loops:
            if lo.n == 1 and lo.slot == 0 and lo.ret is not None and lo.op in ("foreach", "enumforeach"):
                took = sum(1 for (_, ev) in lo.events if ev[0] == "at" and ev[2] == "faa" and int(ev[4]) < c.src_len())
                if took > len(lo.visits):
                    bad.append("%s 1 called at line %d took %d elements from the iterator but passed only %d to the function" % (lo.op, lo.call, took, len(lo.visits)))
    if quiet_case(tr) and (not c.is_iter() or c.fused()) and all(o.ret is not None and not o.panic for o in loops) and c.src_len() <= BIG_SRC:
        # every thread that pulls ends with a loop => everything is visited exactly once overall
        got = sorted(delivered_positions(tr))
        if c.zst:
            # zero-sized elements carry no identity: the number of closure calls / deliveries is what can be checked
            n = sum(len(tr.deliveries(o)) for o in tr.ops if o.slot == 0)
            if n != c.src_len():
                bad.append("%d zero-sized elements, but closures/pulls saw %d" % (c.src_len(), n))
        elif got != list(range(c.src_len())):
            bad.append("closures/pulls saw positions %s, expected each of 0..%d once" % (got, c.src_len()))
        folds = [o for o in loops if o.op == "fold"]
        if folds and len(folds) == len([o for o in tr.pulls()]):
            total = sum(int(o.rtoks[1]) for o in folds) % (1 << 64)
            want = sum(c.val_at(i) for i in range(c.src_len())) % (1 << 64)
            if total != want:
                bad.append("combined fold result %d, sequential fold %d" % (total, want))
        # the loop returns with the iterator exhausted: a later pull reports the end
        for lo in loops:
            for p in tr.pulls():
                if p.call > lo.ret and p.slot == 0 and tr.deliveries(p):
                    bad.append("for_each/fold returned at line %d but the pull at line %d still delivered" % (lo.ret, p.call))
    return bad


# ---- C16 / C18 -----------------------------------------------------------------------------------

def check_C16(tr):
    bad = []
    c = tr.case
    for oi in tr.ops:
        if oi.panic and oi.panic not in ("probe", "closure", "clone") and not (oi.panic == "chunksize" and oi.n == 0 or (oi.op == "bufnew" and oi.toks[1] == "0")):
            bad.append("%s at line %d panicked (%s)" % (" ".join(oi.toks), oi.call, oi.panic))
        if oi.op in ("bufnew", "foreach", "enumforeach", "fold") and oi.toks[1] == "0" and oi.panic != "chunksize":
            bad.append("%s with chunk size 0 did not panic as documented (line %d)" % (oi.op, oi.call))
        if oi.op == "chunk" and oi.n == 0 and oi.rtoks and oi.rtoks[0] != "end":
            bad.append("next_chunk(0) delivered something (line %d)" % oi.call)
    if tr.aborted:
        bad.append("the process aborted")
    bad += check_fidelity(tr) + check_no_dup(tr) + check_C03(tr) + check_sequential(tr)
    return bad


def check_C18(tr):
    bad = []
    if not any(o.panic for o in tr.ops) and not any(" panic " in l for l in tr.lines):
        return bad
    if tr.stuck() and not (tr.case.is_iter() and tr.case.frozen):
        bad.append("after the panic the remaining threads wait forever (stuck)")
    if tr.hang:
        bad.append("hang")
    bad += check_no_dup(tr)
    if not tr.stuck():
        bad += check_C08(tr)
    return bad


def check_dropwait(tr):
    """a destructor that waits for another thread's program to end is eventually released (the harness logs `dropwait-starved` when
    it gave up after 400 scheduling points)"""
    return ["a destructor run by the machinery waited for a thread that was itself waiting for the turn: %s (line %d)" % (" ".join(l.split()[1:]), i)
            for i, l in enumerate(tr.lines) if " dropwait-starved " in l]


def check_hint(tr):
    """the `size_hint` of a chunk's value iterator is exactly its `len()` -- `(len, Some(len))`, std's documented requirement on
    an `ExactSizeIterator` -- at every point the harness looks (the harness logs a `hint-mismatch` line otherwise)"""
    return ["chunk iterator: %s (line %d)" % (" ".join(l.split()[1:]), i) for i, l in enumerate(tr.lines) if " hint-mismatch " in l]


def check_view_hint(tr):
    """what `values()` / `ids_and_values()` announce through `size_hint` holds for what the view then yields, whoever else pulls
    meanwhile (the harness logs a `vhint-broken` line otherwise; std's default `(0, None)` is never wrong)"""
    return ["sequential view: %s (line %d)" % (" ".join(l.split()[1:]), i) for i, l in enumerate(tr.lines) if " vhint-broken " in l]


def check_wrapper_nth(tr):
    """single-threaded cases with `values().nth(k)` / `ids_and_values().nth(k)`: std's default `nth` is k+1 calls of the
    wrapper's `next` -- k single pulls discarded, the next one returned, stopping at the first end; a sequential cursor
    says what every operation of the case must return"""
    c = tr.case
    if not c.has_op("vnth", "ivnth") or len([t for t in c.threads if t]) != 1 or c.is_iter() and not c.fused():
        return []
    if c.has_op("skip", "get", "clone", "foreach", "enumforeach", "fold", "values", "idsvalues", "bufnext", "bufnew"):
        return []
    L = c.src_len()
    bad = []
    ctr = 0
    for oi in tr.ops:
        if oi.slot != 0 or oi.ret is None or oi.panic:
            return bad
        if oi.op in ("next", "nextv"):
            want = ("some", ctr) if ctr < L else ("end",)
            ctr += 1
        elif oi.op in ("vnth", "ivnth"):
            k = int(oi.toks[1])
            want = ("end",)
            for i in range(k + 1):
                if ctr < L:
                    if i == k:
                        want = ("some", ctr)
                    ctr += 1
                else:
                    ctr += 1
                    break
        elif oi.op == "chunk":
            ctr += oi.n
            continue
        elif oi.op in ("len", "hasmore"):
            continue
        else:
            return bad
        r = oi.rtoks
        if want[0] == "end":
            if r[0] != "end":
                bad.append("`%s` (line %d) returned `%s`, a sequential cursor over the source is at its end" % (" ".join(oi.toks), oi.call, " ".join(r)))
        else:
            p = want[1]
            if r[0] == "end":
                bad.append("`%s` (line %d) reported the end, a sequential cursor over the source returns position %d" % (" ".join(oi.toks), oi.call, p))
            elif r[0] == "item" and (int(r[1]) != p or int(r[2]) != c.val_at(p)):
                bad.append("`%s` (line %d) returned index %s value %s, a sequential cursor returns index %d value %d" % (" ".join(oi.toks), oi.call, r[1], r[2], p, c.val_at(p)))
            elif r[0] == "value" and int(r[1]) != c.val_at(p):
                bad.append("`%s` (line %d) returned value %s, a sequential cursor returns %d (position %d)" % (" ".join(oi.toks), oi.call, r[1], c.val_at(p), p))
    return bad


def check_C19(tr):
    bad = check_ks_events(tr) + check_sequential(tr) + check_fidelity(tr) + check_unscripted_panic(tr)
    # an iterator that has been skipped to its end stays there, and so does every clone taken from it afterwards ("a clone
    # starts at the original's current position"), per iterator slot
    ended = {}
    for oi in sorted([o for o in tr.ops if o.ret is not None], key=lambda o: o.call):
        if oi.op == "skip":
            ended.setdefault(oi.slot, oi.ret)
        elif oi.op == "clone" and oi.slot in ended and oi.call > ended[oi.slot]:
            ended.setdefault(int(oi.toks[1]), oi.ret)
    for p in tr.ops:
        if p.op in PULL_OPS and p.slot in ended and p.call > ended[p.slot] and tr.deliveries(p):
            bad.append("iterator %d was skipped to its end (or cloned from a skipped one) at line %d, but the pull at line %d delivered %s" % (
                p.slot, ended[p.slot], p.call, [(i, v) for (i, v, _) in tr.deliveries(p)][:3]))
    return bad


def _with_nth(f):
    return lambda tr: f(tr) + check_wrapper_nth(tr) + check_view_hint(tr)


MONITORS = {
    "C19": check_C19,
    "C01": _with_nth(check_C01), "C02": _with_nth(check_C02), "C03": (lambda tr: check_C03(tr) + check_hint(tr)), "C04": _with_nth(check_C04), "C05": check_C05,
    "C06": check_C06, "C07": check_C07, "C08": check_C08, "C09": check_C09, "C10": check_C10,
    "C11": (lambda tr: check_C11(tr) + check_view_hint(tr)), "C12": check_C12, "C15": check_C15, "C16": check_C16, "C18": (lambda tr: check_C18(tr) + check_dropwait(tr)),
    # std's contract of `ExactSizeIterator` (the chunk value iterators implement it): `size_hint` is exact
    "C17": check_hint,
}
