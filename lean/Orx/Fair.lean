/-! Spike: generic "weak fairness + potential ⇒ termination" lemma for C09. -/
namespace Orx.Fair

structure Sys (Cfg : Type) where
  step : Nat → Cfg → Cfg
  inv  : Cfg → Prop
  busy : Cfg → Nat → Prop
  spin : Cfg → Nat → Prop
  mu   : Cfg → Nat
  T    : List Nat
  inv_step  : ∀ c t, inv c → inv (step t c)
  idle_step : ∀ c t, inv c → ¬ busy c t → step t c = c
  spin_mu   : ∀ c t, inv c → busy c t → spin c t → mu (step t c) = mu c
  prog_mu   : ∀ c t, inv c → busy c t → ¬ spin c t → mu (step t c) < mu c
  spin_keeps : ∀ c t u, inv c → busy c u → spin c u → u ≠ t → busy c t → ¬ spin c t →
                 busy (step u c) t ∧ ¬ spin (step u c) t
  exists_prog : ∀ c, inv c → (∃ t ∈ T, busy c t) → ∃ t ∈ T, busy c t ∧ ¬ spin c t

variable {Cfg : Type} (S : Sys Cfg)

/-- apply the `d` scheduled steps `σ k, …, σ (k+d-1)` -/
def seg (σ : Nat → Nat) : Nat → Nat → Cfg → Cfg
  | _, 0, c => c
  | k, d+1, c => seg σ (k+1) d (S.step (σ k) c)

theorem seg_add (σ : Nat → Nat) (k d1 d2 : Nat) (c : Cfg) :
    seg S σ k (d1 + d2) c = seg S σ (k + d1) d2 (seg S σ k d1 c) := by
  induction d1 generalizing k c with
  | zero => simp [seg]
  | succ d ih =>
    have : d + 1 + d2 = (d + d2) + 1 := by omega
    rw [this]; simp only [seg]
    rw [ih]; congr 1; omega

theorem seg_inv (σ : Nat → Nat) (k d : Nat) (c : Cfg) (h : S.inv c) : S.inv (seg S σ k d c) := by
  induction d generalizing k c with
  | zero => simpa [seg]
  | succ d ih => simp only [seg]; exact ih _ _ (S.inv_step _ _ h)

def WeaklyFair (σ : Nat → Nat) : Prop := ∀ t ∈ S.T, ∀ k, ∃ d, σ (k + d) = t

/-- until the progressing thread's turn comes, the potential has dropped -/
theorem drop_before_turn (σ : Nat → Nat) (t0 : Nat) :
    ∀ d0 k c, S.inv c → S.busy c t0 → ¬ S.spin c t0 → σ (k + d0) = t0 →
      ∃ d, S.mu (seg S σ k d c) < S.mu c := by
  intro d0
  induction d0 with
  | zero =>
    intro k c hi hb hs hσ
    refine ⟨1, ?_⟩
    simp only [seg]
    have : σ k = t0 := by simpa using hσ
    rw [this]; exact S.prog_mu c t0 hi hb hs
  | succ d0 ih =>
    intro k c hi hb hs hσ
    by_cases hu : σ k = t0
    · exact ⟨1, by simp only [seg]; rw [hu]; exact S.prog_mu c t0 hi hb hs⟩
    · have hσ' : σ (k + 1 + d0) = t0 := by rw [← hσ]; congr 1; omega
      by_cases hbu : S.busy c (σ k)
      · by_cases hsu : S.spin c (σ k)
        · have hk := S.spin_keeps c t0 (σ k) hi hbu hsu hu hb hs
          obtain ⟨d, hd⟩ := ih (k + 1) (S.step (σ k) c) (S.inv_step _ _ hi) hk.1 hk.2 hσ'
          refine ⟨d + 1, ?_⟩
          simp only [seg]
          rw [← S.spin_mu c (σ k) hi hbu hsu]; exact hd
        · exact ⟨1, by simp only [seg]; exact S.prog_mu c (σ k) hi hbu hsu⟩
      · have hid := S.idle_step c (σ k) hi hbu
        obtain ⟨d, hd⟩ := ih (k + 1) c hi hb hs hσ'
        refine ⟨d + 1, ?_⟩
        simp only [seg]; rw [hid]; exact hd

theorem fair_termination (σ : Nat → Nat) (hf : WeaklyFair S σ) :
    ∀ n k c, S.inv c → S.mu c ≤ n → ∃ d, ∀ t ∈ S.T, ¬ S.busy (seg S σ k d c) t := by
  intro n
  induction n with
  | zero =>
    intro k c hi hmu
    refine ⟨0, ?_⟩
    intro t ht hb
    obtain ⟨t0, ht0, hb0, hs0⟩ := S.exists_prog c hi ⟨t, ht, hb⟩
    have := S.prog_mu c t0 hi hb0 hs0
    omega
  | succ n ih =>
    intro k c hi hmu
    by_cases hex : ∃ t ∈ S.T, S.busy c t
    · obtain ⟨t0, ht0, hb0, hs0⟩ := S.exists_prog c hi hex
      obtain ⟨d0, hd0⟩ := hf t0 ht0 k
      obtain ⟨d1, hd1⟩ := drop_before_turn S σ t0 d0 k c hi hb0 hs0 hd0
      obtain ⟨d2, hd2⟩ := ih (k + d1) (seg S σ k d1 c) (seg_inv S σ k d1 c hi) (by omega)
      exact ⟨d1 + d2, by rw [seg_add]; exact hd2⟩
    · exact ⟨0, fun t ht hb => hex ⟨t, ht, hb⟩⟩

end Orx.Fair
