/-! # Vocabulary shared by all models: ops, outputs, events, trace lines (see /verif/FORMAT.md).
Core Lean only; no imports. -/
namespace Orx

/-- 2^64: `usize` is modelled as `Nat` with explicit wrap-around at `W`. -/
def W : Nat := 18446744073709551616

/-- `usize::MAX` -/
def MAXW : Nat := 18446744073709551615

theorem W_pos : 0 < W := by decide
theorem MAXW_succ : MAXW + 1 = W := by decide

/-- `usize::saturating_add` -/
def satAdd (a b : Nat) : Nat := if a + b < W then a + b else MAXW

/-- `usize::wrapping_add` (what `fetch_add` does, in every build profile) -/
def wrapAdd (a b : Nat) : Nat := (a + b) % W

inductive Mode where
  | debug | release
  deriving Repr, DecidableEq, Inhabited

/-- memory orderings as named in the trace -/
inductive Ord where
  | relaxed | acquire | release | acqrel | seqcst
  deriving Repr, DecidableEq, Inhabited

def Ord.str : Ord → String
  | .relaxed => "relaxed" | .acquire => "acquire" | .release => "release"
  | .acqrel => "acqrel" | .seqcst => "seqcst"

def Ord.parse : String → Option Ord
  | "relaxed" => some .relaxed | "acquire" => some .acquire | "release" => some .release
  | "acqrel" => some .acqrel | "seqcst" => some .seqcst | _ => none

/-- does an access with this ordering have acquire semantics (when it reads)? -/
def Ord.isAcq : Ord → Bool
  | .acquire | .acqrel | .seqcst => true
  | _ => false

/-- does an access with this ordering have release semantics (when it writes)? -/
def Ord.isRel : Ord → Bool
  | .release | .acqrel | .seqcst => true
  | _ => false

/-- atomic locations -/
inductive Loc where
  | ctr (slot : Nat)
  | R | Y | C
  deriving Repr, DecidableEq, Inhabited

def Loc.str : Loc → String
  | .ctr 0 => "ctr"
  | .ctr k => s!"ctr{k}"
  | .R => "R" | .Y => "Y" | .C => "C"

def Loc.parse (s : String) : Option Loc :=
  if s = "R" then some .R else if s = "Y" then some .Y else if s = "C" then some .C
  else if s = "ctr" then some (.ctr 0)
  else if s.startsWith "ctr" then (s.drop 3).toNat?.map .ctr
  else none

/-- how the caller consumes a pulled chunk: everything (`all`), the first `k` elements through `next()`
(`first k`), or one call of `Iterator::nth(k)` (`nth k`: discards `k` elements, returns the next) -/
inductive Take where
  | all | first (k : Nat) | nth (k : Nat)
  | fold           -- everything, through `Iterator::fold`
  | cnt            -- everything discarded, through `Iterator::count`
  deriving Repr, DecidableEq, Inhabited

def Take.str : Take → String
  | .all => "all"
  | .first k => toString k
  | .nth k => s!"nth:{k}"
  | .fold => "fold"
  | .cnt => "count"

/-- how many of `a` available elements leave the chunk iterator -/
def Take.count (k : Take) (a : Nat) : Nat :=
  match k with
  | .all => a
  | .first k => min k a
  | .nth k => min (k + 1) a
  | .fold => a
  | .cnt => a

/-- how many of those are discarded by the consumer itself (`nth`) rather than handed to the caller -/
def Take.skipped (k : Take) (a : Nat) : Nat :=
  match k with
  | .nth k => min k a
  | .cnt => a
  | _ => 0

theorem Take.skipped_le_count (k : Take) (a : Nat) : k.skipped a ≤ k.count a := by
  cases k <;> simp [Take.skipped, Take.count] <;> omega

theorem Take.count_le (k : Take) (a : Nat) : k.count a ≤ a := by
  cases k <;> simp [Take.count] <;> omega

/-- high-level operations of a thread program (FORMAT.md §1) -/
inductive Op where
  | next | nextv
  | chunk (n : Nat) (k : Take)
  | bufnew (n : Nat)
  | bufnext (k : Take)
  | bufdrop
  | foreach (n : Nat) (panicAt : Option Nat)
  | enumforeach (n : Nat) (panicAt : Option Nat)
  | fold (n : Nat)
  | values | idsvalues
  | skip | len | hasmore
  | get (i : Nat)
  | clone (j : Nat)
  deriving Repr, DecidableEq, Inhabited

structure SOp where
  slot : Nat := 0
  op : Op
  deriving Repr, DecidableEq, Inhabited

def optK : Option Nat → String
  | none => "all"
  | some k => toString k

def panicStr : Option Nat → String
  | none => ""
  | some j => s!" panic={j}"

def Op.str : Op → String
  | .next => "next" | .nextv => "nextv"
  | .chunk n k => s!"chunk {n} {k.str}"
  | .bufnew n => s!"bufnew {n}"
  | .bufnext k => s!"bufnext {k.str}"
  | .bufdrop => "bufdrop"
  | .foreach n p => s!"foreach {n}{panicStr p}"
  | .enumforeach n p => s!"enumforeach {n}{panicStr p}"
  | .fold n => s!"fold {n}"
  | .values => "values" | .idsvalues => "idsvalues"
  | .skip => "skip" | .len => "len" | .hasmore => "hasmore"
  | .get i => s!"get {i}"
  | .clone j => s!"clone {j}"

def SOp.str (o : SOp) : String :=
  if o.slot = 0 then o.op.str else s!"@{o.slot} {o.op.str}"

inductive HasMore where
  | yes (n : Nat) | maybe | no
  deriving Repr, DecidableEq, Inhabited

/-- what an op returns (the `ret` line) -/
inductive Out where
  | fin                                         -- `ret end`
  | item (idx val : Nat)
  | value (val : Nat)
  | chunk (b a l : Nat) (vals : List Nat)       -- begin, announced length, length after consumption, consumed
  | unit | done
  | fold (sum : Nat)
  | len (o : Option Nat)
  | more (h : HasMore)
  | got (o : Option Nat)
  | seq (vals : List Nat)
  deriving Repr, DecidableEq, Inhabited

def natsStr (l : List Nat) : String := l.foldl (fun s v => s ++ " " ++ toString v) ""

def Out.str : Out → String
  | .fin => "end"
  | .item i v => s!"item {i} {v}"
  | .value v => s!"value {v}"
  | .chunk b a l vs => s!"chunk {b} {a} {l}{natsStr vs}"
  | .unit => "unit" | .done => "done"
  | .fold s => s!"fold {s}"
  | .len none => "len none"
  | .len (some n) => s!"len {n}"
  | .more (.yes n) => s!"more yes {n}"
  | .more .maybe => "more maybe"
  | .more .no => "more no"
  | .got none => "got none"
  | .got (some v) => s!"got {v}"
  | .seq vs => "seq" ++ natsStr vs

/-- result of one call of the wrapped iterator's `next()` -/
inductive SrcRes where
  | some (v : Nat) | none | panic
  deriving Repr, DecidableEq, Inhabited

/-- observable events -/
inductive Ev where
  | call (op : SOp)
  | faa (loc : Loc) (ord : Ord) (read arg : Nat)
  | ld (loc : Loc) (ord : Ord) (v : Nat)
  | st (loc : Loc) (ord : Ord) (v : Nat)
  | swp (loc : Loc) (ord : Ord) (read new : Nat)
  | srcEnter
  | srcExit (r : SrcRes)
  | visit (idx : Option Nat) (v : Nat)
  | drop (v : Nat) | dropc (v : Nat) | clone (v : Nat)
  | ret (o : Out)
  | panic (cls : String)
  | taken (vs : List Nat)   -- what a caller had received from a chunk / remainder whose drop then panicked
  deriving Repr, DecidableEq, Inhabited

def Ev.str : Ev → String
  | .call op => s!"call {op.str}"
  | .faa l o r a => s!"at {l.str} faa {o.str} {r} {a}"
  | .ld l o v => s!"at {l.str} ld {o.str} {v}"
  | .st l o v => s!"at {l.str} st {o.str} {v}"
  | .swp l o r n => s!"at {l.str} swp {o.str} {r} {n}"
  | .srcEnter => "src enter"
  | .srcExit (.some v) => s!"src exit some {v}"
  | .srcExit .none => "src exit none"
  | .srcExit .panic => "src exit panic"
  | .visit none v => s!"visit - {v}"
  | .visit (some i) v => s!"visit {i} {v}"
  | .drop v => s!"drop {v}"
  | .dropc v => s!"dropc {v}"
  | .clone v => s!"clone {v}"
  | .ret o => s!"ret {o.str}"
  | .panic c => s!"panic {c}"
  | .taken vs => "taken" ++ String.join (vs.map fun v => s!" {v}")

/-- a trace line: who (`none` = the owner / main thread) and what -/
structure Line where
  who : Option Nat
  ev : Ev
  deriving Repr, DecidableEq, Inhabited

def Line.str (l : Line) : String :=
  match l.who with
  | none => s!"own {l.ev.str}"
  | some t => s!"T{t} {l.ev.str}"

inductive Adapt where
  | none | cloned | copied
  deriving Repr, DecidableEq, Inhabited

inductive Hint where
  | exact | inexact | unbounded
  | fixed (k : Nat)      -- claims exactly `k` elements whatever the script holds
  deriving Repr, DecidableEq, Inhabited

inductive OwnerOp where
  | intoseq (k : Option Nat)
  | drop
  deriving Repr, DecidableEq, Inhabited

end Orx
