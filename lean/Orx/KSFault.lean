import Orx.KSLedger
/-! # Known-size consuming kinds: a destructor that panics (fault injection `droppanic k` of FORMAT.md)

The `k`-th destruction of an element performed by the machinery panics. `std` semantics as modelled:
`ptr::drop_in_place` of a slice (used by `Taken::drop`, `early_exit`, `ConIterOfVec::drop`) and the drop of a
`Vec` / `vec::IntoIter` go on destroying the other elements when one destructor panics and re-raise the panic at the
end; the elements `Iterator::nth` discards are destroyed one by one, so a panic there unwinds out of `nth`, the
element `nth` would have handed out is never handed out and the chunk iterator destroys it with the rest.

The fault is a *post-processing of a step*: `fault` looks at what the step destroyed and moved out; if the `k`-th
destruction falls into this step, the step ends with `panic drop`, the thread is dead, and the positions the step
would have moved out after the panicking one are destroyed instead. `stepF`/`ownerF`/`runF` are what the driver
runs; without a fault they are `step`/`owner`/`run`. The theorems of this file lift the cursor theorem and the
ownership ledger to `runF`: a panicking destructor changes neither what is handed out nor the fact that every
position is moved out or destroyed exactly once. -/
namespace Orx.KS

def isDropEv : Ev → Bool
  | .drop _ => true
  | _ => false

def isRetEv : Ev → Bool
  | .ret _ => true
  | _ => false

def isPanicEv : Ev → Bool
  | .panic _ => true
  | _ => false

/-- does the `k`-th destruction of the case fall among the destructions `c0 → res` added, and is the step not
already ending in a panic (a second panic while unwinding would abort: the harness never raises it)? -/
def fires (s : KSrc) (k : Nat) (c0 : Cfg) (res : Cfg × List Ev) : Bool :=
  s.owning && decide (c0.dr.length ≤ k) && decide (k < res.1.dr.length) && !(res.2.any isPanicEv)

/-- position `p` lies behind the panicking position `pm` -/
def behind (pm p : Nat) : Bool := decide (pm < p)

/-- insertion sort (structural, so that concrete runs reduce in the kernel) -/
def ins (a : Nat) : List Nat → List Nat
  | [] => [a]
  | b :: l => if a ≤ b then a :: b :: l else b :: ins a l

def isort : List Nat → List Nat
  | [] => []
  | a :: l => ins a (isort l)

theorem count_ins (a p : Nat) (l : List Nat) : (ins a l).count p = (a :: l).count p := by
  induction l with
  | nil => simp [ins]
  | cons b l ih =>
    simp only [ins]
    split
    · rfl
    · simp only [List.count_cons] at ih ⊢; omega

theorem count_isort (p : Nat) (l : List Nat) : (isort l).count p = l.count p := by
  induction l with
  | nil => simp [isort]
  | cons a l ih => simp only [isort, count_ins, List.count_cons, ih]

/-- the destructions of the faulted step, in order: up to the panicking position as before; then, in position
order, everything the step had taken out of the storage behind it (destroyed by the unwinding chunk iterator) -/
def faultDrops (newDr newMv : List Nat) (pm : Nat) : List Nat :=
  newDr.filter (fun p => !behind pm p) ++ isort (newMv.filter (behind pm) ++ newDr.filter (behind pm))

def fault (s : KSrc) (k : Nat) (t : Option Nat) (c0 : Cfg) (res : Cfg × List Ev) : Cfg × List Ev :=
  if fires s k c0 res then
    let c := res.1
    let base := c0.dr.length
    let newDr := c.dr.drop base
    let newMv := c.mv.drop c0.mv.length
    let pm := newDr.getD (k - base) 0
    let drs := faultDrops newDr newMv pm
    let c1 : Cfg := { c with mv := c.mv.take c0.mv.length ++ newMv.filter (fun p => !behind pm p), dr := c.dr.take base ++ drs }
    let c2 := match t with
      | some t => setTh c1 t { (c1.th t) with pc := .dead }
      | none => c1
    let kept := newMv.filter (fun p => !behind pm p)
    (c2, res.2.filter (fun e => !isDropEv e && !isRetEv e) ++ drs.map (fun p => Ev.drop (s.valAt p)) ++
      (if kept.isEmpty then [] else [Ev.taken (kept.map s.valAt)]) ++ [.panic "drop"])
  else res

/-- one step of thread `t` under the case's destructor fault -/
def stepF (s : KSrc) (t : Nat) (c : Cfg) : Cfg × List Ev :=
  match s.dpanic with
  | none => step s t c
  | some k => fault s k (some t) c (step s t c)

def ownerF (s : KSrc) (c : Cfg) (op : OwnerOp) : Cfg × List Ev :=
  match s.dpanic with
  | none => owner s c op
  | some k => fault s k none c (owner s c op)

def runF (s : KSrc) : List Nat → Cfg → Cfg
  | [], c => c
  | t :: ts, c => runF s ts (stepF s t c).1

theorem stepF_eq_step (s : KSrc) (h : s.dpanic = none) (t : Nat) (c : Cfg) : stepF s t c = step s t c := by
  simp [stepF, h]

theorem runF_eq_run (s : KSrc) (h : s.dpanic = none) (σ : List Nat) (c : Cfg) : runF s σ c = run s σ c := by
  induction σ generalizing c with
  | nil => rfl
  | cons t ts ih => simp [runF, run, stepF_eq_step s h, ih]

/-! ## What the fault leaves alone -/

theorem fault_hist (s : KSrc) (k : Nat) (t : Option Nat) (c0 : Cfg) (res : Cfg × List Ev) :
    (fault s k t c0 res).1.hist = res.1.hist := by
  unfold fault; split
  · cases t <;> rfl
  · rfl

theorem fault_del (s : KSrc) (k : Nat) (t : Option Nat) (c0 : Cfg) (res : Cfg × List Ev) :
    (fault s k t c0 res).1.del = res.1.del := by
  unfold fault; split
  · cases t <;> rfl
  · rfl

theorem fault_ctr (s : KSrc) (k : Nat) (t : Option Nat) (c0 : Cfg) (res : Cfg × List Ev) :
    (fault s k t c0 res).1.ctr = res.1.ctr := by
  unfold fault; split
  · cases t <;> rfl
  · rfl

theorem fault_th_other (s : KSrc) (k : Nat) (t u : Nat) (c0 : Cfg) (res : Cfg × List Ev) (hu : u ≠ t) :
    (fault s k (some t) c0 res).1.th u = res.1.th u := by
  unfold fault; split
  · simp [setTh, hu]
  · rfl

theorem fault_th_none (s : KSrc) (k : Nat) (c0 : Cfg) (res : Cfg × List Ev) :
    (fault s k none c0 res).1.th = res.1.th := by
  unfold fault; split <;> rfl

/-- the faulted thread: dead, or untouched -/
theorem fault_th_self (s : KSrc) (k : Nat) (t : Nat) (c0 : Cfg) (res : Cfg × List Ev) :
    (fault s k (some t) c0 res).1.th t = res.1.th t ∨
    (fault s k (some t) c0 res).1.th t = { (res.1.th t) with pc := .dead } := by
  unfold fault; split
  · right; simp [setTh]
  · left; rfl

/-! ## The ledger is untouched as a multiset -/

theorem count_filter_part (l : List Nat) (q : Nat → Bool) (p : Nat) :
    (l.filter q).count p + (l.filter (fun x => !q x)).count p = l.count p := by
  induction l with
  | nil => simp
  | cons a as ih =>
    cases h : q a <;> simp [h, List.count_cons] <;> omega

theorem faultDrops_count (newDr newMv : List Nat) (pm p : Nat) :
    (faultDrops newDr newMv pm).count p = newDr.count p + (newMv.filter (behind pm)).count p := by
  unfold faultDrops
  rw [List.count_append, count_isort, List.count_append]
  have := count_filter_part newDr (behind pm) p
  omega

theorem fault_led (s : KSrc) (k : Nat) (t : Option Nat) (c0 : Cfg) (res : Cfg × List Ev) (p : Nat) :
    led (fault s k t c0 res).1 p = led res.1 p := by
  unfold fault; split
  · have h1 : ∀ (l : List Nat) (n : Nat), (l.take n).count p + (l.drop n).count p = l.count p := by
      intro l n; rw [← List.count_append, List.take_append_drop]
    have hm := h1 res.1.mv c0.mv.length
    have hd := h1 res.1.dr c0.dr.length
    have hf := count_filter_part (res.1.mv.drop c0.mv.length)
      (behind ((res.1.dr.drop c0.dr.length).getD (k - c0.dr.length) 0)) p
    have hc := faultDrops_count (res.1.dr.drop c0.dr.length) (res.1.mv.drop c0.mv.length)
      ((res.1.dr.drop c0.dr.length).getD (k - c0.dr.length) 0) p
    cases t <;> simp only [led, setTh_mv, setTh_dr, List.count_append] <;> omega
  · rfl

/-! ## Lifting the run-level theorems -/

theorem stepF_ok (s : KSrc) (t : Nat) {c : Cfg} (h : HistOk s.len c) (hnc : NC c) :
    HistOk s.len (stepF s t c).1 ∧ NC (stepF s t c).1 := by
  have hs := step_ok s t h hnc
  unfold stepF
  cases hd : s.dpanic with
  | none => exact hs
  | some k =>
    simp only []
    refine ⟨⟨?_, ?_⟩, ?_⟩
    · intro j; rw [fault_ctr, fault_hist]; exact hs.1.ctr j
    · intro j; rw [fault_del, fault_hist]; exact hs.1.del j
    · intro u
      by_cases hu : u = t
      · subst hu
        rcases fault_th_self s k u c (step s u c) with h' | h' <;> rw [h']
        · exact hs.2 u
        · exact ⟨(hs.2 u).1, by simp⟩
      · rw [fault_th_other s k t u c _ hu]; exact hs.2 u

theorem stepF_S0 (s : KSrc) (t : Nat) {c : Cfg} (h : S0 c) : S0 (stepF s t c).1 := by
  have hs := step_S0 s t h
  unfold stepF
  cases hd : s.dpanic with
  | none => exact hs
  | some k =>
    simp only []
    intro u
    by_cases hu : u = t
    · subst hu
      rcases fault_th_self s k u c (step s u c) with h' | h' <;> rw [h']
      · exact hs u
      · obtain ⟨a, _, b⟩ := hs u
        exact ⟨a, by simp, b⟩
    · rw [fault_th_other s k t u c _ hu]; exact hs u

theorem stepF_led (s : KSrc) (hown : s.owning = true) (t : Nat) {c : Cfg}
    (hh : HistOk s.len c) (h0 : S0 c) (hl : Led s c) : Led s (stepF s t c).1 := by
  have hs := step_led s hown t hh h0 hl
  unfold stepF
  cases hd : s.dpanic with
  | none => exact hs
  | some k =>
    simp only []
    intro p
    rw [fault_led, fault_hist]
    exact hs p

theorem runF_ok (s : KSrc) (σ : List Nat) {c : Cfg} (h : HistOk s.len c) (hnc : NC c) :
    HistOk s.len (runF s σ c) ∧ NC (runF s σ c) := by
  induction σ generalizing c with
  | nil => exact ⟨h, hnc⟩
  | cons t ts ih =>
    have := stepF_ok s t h hnc
    exact ih this.1 this.2

theorem runF_led (s : KSrc) (hown : s.owning = true) (σ : List Nat) {c : Cfg}
    (hh : HistOk s.len c) (hnc : NC c) (h0 : S0 c) (hl : Led s c) :
    Led s (runF s σ c) ∧ HistOk s.len (runF s σ c) := by
  induction σ generalizing c with
  | nil => exact ⟨hl, hh⟩
  | cons t ts ih =>
    have hk := stepF_ok s t hh hnc
    exact ih hk.1 hk.2 (stepF_S0 s t h0) (stepF_led s hown t hh h0 hl)

/-- **Cursor theorem under a panicking destructor.** What is handed out is untouched by the fault: for every
source, programs, schedule and `droppanic` index, the hand-out log of a slot is the gap-free prefix. -/
theorem cursor_all_schedules_F (s : KSrc) (progs : Nat → List SOp) (hp : ∀ t, ∀ o ∈ progs t, NoCloneOp o)
    (σ : List Nat) (k : Nat) :
    let c := runF s σ (init s progs)
    NoSkip (atomsOf c.hist k) → NoWrap s.len (atomsOf c.hist k) 0 →
      delOf c.del k = List.range (pos s.len (c.ctr k)) := by
  intro c hns hw
  have h := (runF_ok s σ (init_ok s progs hp).1 (init_ok s progs hp).2).1
  have h1 := h.del k
  have h2 := h.ctr k
  rw [h1, h2]
  exact delivered_fresh s.len _ hns hw

/-- **Ownership ledger under a panicking destructor, every schedule.** Whichever destruction panics (`s.dpanic`
arbitrary), in whichever step of whichever thread or in the owner's `Drop` / `into_seq_iter`: after the owner
phase every position `0..len` has been moved out or destroyed exactly once, and nothing else has. -/
theorem exactly_once_all_schedules_F (s : KSrc) (hown : s.owning = true) (progs : Nat → List SOp)
    (hp : ∀ t, ∀ o ∈ progs t, OwnProg o) (σ : List Nat) (op : OwnerOp) (p : Nat)
    (hw : NoWrap s.len (atomsOf (runF s σ (init s progs)).hist 0) 0) :
    ((ownerF s (runF s σ (init s progs)) op).1.mv ++ (ownerF s (runF s σ (init s progs)) op).1.dr).count p
      = if p < s.len then 1 else 0 := by
  have hi := init_ok s progs (fun t o ho => (hp t o ho).2.2)
  have hl := init_led s progs hp
  have hr := runF_led s hown σ hi.1 hi.2 hl.1 hl.2
  have base := exactly_once_of s hown _ _ hr.1 (hr.2.ctr 0) hw op p
  unfold ownerF
  cases hd : s.dpanic with
  | none => exact base
  | some k =>
    simp only []
    have := fault_led s k none (runF s σ (init s progs)) (owner s (runF s σ (init s progs)) op) p
    simp only [led] at this
    simp only [List.count_append] at base ⊢
    omega

/-- a fired fault ends the step with `panic drop` and kills the thread -/
theorem fault_fired_dead (s : KSrc) (k t : Nat) (c0 : Cfg) (res : Cfg × List Ev) (h : fires s k c0 res = true) :
    ((fault s k (some t) c0 res).1.th t).pc = .dead ∧ (fault s k (some t) c0 res).2.getLast? = some (.panic "drop") := by
  unfold fault
  simp [h, setTh]

end Orx.KS
