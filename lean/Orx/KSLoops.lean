import Orx.KS
import Orx.GenThms.Loops
/-! # The model's loop steps are the nodes of the loop trees

`GenThms/Loops.lean` proves that the default loops translated from the source are the trees `specLoop` / `specFold`.
This file ties those trees to the model the property theorems are about: one step of a thread of `KS.step` whose pc is
`.loop o visits sum` — one atomic `fetch_add` followed by the closure calls on what it handed out — is one `faa` node of the
tree followed by the `visit` nodes up to the next `faa` (or the return, or the panicking call): same closure calls (same
positions, same indices, in the same order), same count of calls, same way of going on. -/
namespace Orx.KS
open Orx Orx.RSL Orx.GenThms.Loops

/-- the closure call recorded by an event -/
def visitOf : Ev → Option (Option Nat × Nat)
  | .visit i v => some (i, v)
  | _ => none

/-- follow a tree through the closure calls up to the next node that is not one: `pa` is the number of the call (counted
from `v`) that panics. Returns the calls made (index, position), the new count of calls and the tree that remains. -/
def walk {α : Type} (pa : Option Nat) : LProg α → Nat → List (Option Nat × Nat) × Nat × LProg α
  | .visit i p k, v =>
    if pa = some v then ([(i, p)], v + 1, k true)
    else ((i, p) :: (walk pa (k false) (v + 1)).1, (walk pa (k false) (v + 1)).2.1, (walk pa (k false) (v + 1)).2.2)
  | t, v => ([], v, t)

/-- how a step of the model's loop ends -/
inductive LoopEnd where
  | goOn | panicked
  deriving DecidableEq, Repr

theorem cloneEvs_no_visit (s : KSrc) (ps : List Nat) : (cloneEvs s ps).filterMap visitOf = [] := by
  unfold cloneEvs
  cases s.adapt <;> simp [visitOf, List.filterMap_map, Function.comp_def]

/-- **the closure calls of one loop step = the visit nodes of the tree**, for every list of pulled positions, every count of
earlier calls and every panicking call number -/
theorem visitAll_walk {α : Type} (s : KSrc) (w : Bool) (pa : Option Nat) (K : LProg α)
    (hK : ∀ v, walk pa K v = ([], v, K)) :
    ∀ (ps : List Nat) (v sm : Nat) (acc : List Ev),
      (visitAll s w pa ps v sm acc).1.filterMap visitOf =
        acc.filterMap visitOf ++ (walk pa (visitSeq w ps K) v).1.map (fun ip => (ip.1, s.valAt ip.2)) ∧
      (visitAll s w pa ps v sm acc).2.1 = (walk pa (visitSeq w ps K) v).2.1 ∧
      (((visitAll s w pa ps v sm acc).2.2.2 = none ∧ (walk pa (visitSeq w ps K) v).2.2 = K) ∨
       ((visitAll s w pa ps v sm acc).2.2.2 ≠ none ∧ (walk pa (visitSeq w ps K) v).2.2 = .panic "closure"))
  | [], v, sm, acc => by simp [visitAll, visitSeq, hK]
  | p :: ps, v, sm, acc => by
    have ih := visitAll_walk s w pa K hK ps (v + 1) (add64 sm (s.valAt p))
      (acc ++ cloneEvs s [p] ++ [Ev.visit (if w then some p else none) (s.valAt p)])
    simp only [visitAll, visitSeq, walk]
    by_cases hp : pa = some v
    · simp [hp, List.filterMap_append, cloneEvs_no_visit, visitOf]
    · simp only [hp, ↓reduceIte, Bool.false_eq_true]
      obtain ⟨h1, h2, h3⟩ := ih
      refine ⟨?_, h2, h3⟩
      rw [h1]
      simp [List.filterMap_append, cloneEvs_no_visit, visitOf]

theorem walk_specLoop {ρ : Type} (len n : Nat) (w : Bool) (pa : Option Nat) (fuel v : Nat) :
    walk pa (specLoop (ρ := ρ) len n w fuel) v = ([], v, specLoop len n w fuel) := by
  cases fuel <;> rfl

/-- **one step of the model's `for_each` / `enumerate_for_each` loop is one node of the source's loop tree.** A thread at pc
`.loop o visits sum` steps: it performs `fetch_add(n)` reading `cv`. The tree `specLoop … (fuel + 1)` — which
`for_each_is_model_loop` / `for_each_with_ids_is_model_loop` prove to be the translated `default_fns::for_each` — is a `faa`
node; below its child for `cv`:
* `cv ≥ len`: the tree returns, the thread is back at `.idle` (the call returned);
* otherwise the closure calls logged by the step are exactly the tree's visit nodes (positions, indices, order), the call
  counter advances alike, and either no call panicked — the thread stays in the loop and the tree goes on with
  `specLoop … fuel` — or the thread is `dead` and the tree is the panic leaf. -/
theorem loop_step_is_tree_node (s : KSrc) (t : Nat) (c : Cfg) (o : SOp) (visits sum n : Nat) (w : Bool) (pa : Option Nat)
    (hpc : (c.th t).pc = .loop o visits sum) (hlp : loopParams o.op = some (n, w, pa, false)) (fuel : Nat) :
    let cv := c.ctr o.slot
    let c' := (step s t c).1
    let evs := (step s t c).2
    if cv < s.len then
      let r := walk pa (visitSeq w (pulled s.len n cv) (specLoop (ρ := Unit) s.len n w fuel)) visits
      evs.filterMap visitOf = r.1.map (fun ip => (ip.1, s.valAt ip.2)) ∧
      ((∃ sum', (c'.th t).pc = .loop o r.2.1 sum' ∧ r.2.2 = specLoop s.len n w fuel) ∨
       ((c'.th t).pc = .dead ∧ r.2.2 = .panic "closure"))
    else (c'.th t).pc = .idle ∧ evs.filterMap visitOf = [] := by
  intro cv c' evs
  have hsa : stepAtom (c.th t) = some (o.slot, if n = 1 then Atom.one else Atom.many n) := by
    simp [stepAtom, hpc, hlp]
  have hstep : step s t c = stepRest s t c (applyAtom s.len c t o.slot (if n = 1 then Atom.one else Atom.many n)) := by
    simp [step, hsa]
  by_cases hcv : cv < s.len
  · simp only [hcv, ↓reduceIte]
    have hva := visitAll_walk (α := Flow Unit Unit) s w pa (specLoop s.len n w fuel) (walk_specLoop s.len n w pa fuel)
      (pulled s.len n cv) visits sum []
    have hcv' : c.ctr o.slot < s.len := hcv
    unfold pulled at hva ⊢
    rcases hr : visitAll s w pa (rangeList (if n = 1 then cv else (pullRange s.len cv n).1)
      (if n = 1 then cv + 1 else (pullRange s.len cv n).2)) visits sum [] with ⟨ev0, v0, s0, p0⟩
    rw [hr] at hva
    obtain ⟨h1, h2, h3⟩ := hva
    simp only [List.filterMap_nil, List.nil_append] at h1 h2 h3
    have hr' : visitAll s w pa (rangeList (if n = 1 then c.ctr o.slot else (pullRange s.len (c.ctr o.slot) n).1)
      (if n = 1 then c.ctr o.slot + 1 else (pullRange s.len (c.ctr o.slot) n).2)) visits sum [] = (ev0, v0, s0, p0) := hr
    have hdrop : ∀ l, (dropEvs s l).filterMap visitOf = [] := by
      intro l; unfold dropEvs; split <;> simp [visitOf, List.filterMap_map, Function.comp_def]
    have hf : ∀ l o' a b, visitOf (Ev.faa l o' a b) = none := fun _ _ _ _ => rfl
    have hpn : ∀ m, visitOf (Ev.panic m) = none := fun _ => rfl
    rcases h3 with ⟨hn, hk⟩ | ⟨hn, hk⟩
    · subst hn
      refine ⟨?_, Or.inl ⟨s0, ?_, hk⟩⟩
      · show (step s t c).2.filterMap visitOf = _
        rw [hstep]
        simp [stepRest, hpc, hlp, hcv', hr', List.filterMap_append, List.filterMap_cons, hf, h1]
      · show ((step s t c).1.th t).pc = _
        rw [hstep]
        by_cases ho : s.owning <;> simp [stepRest, hpc, hlp, hcv', hr', ho, setTh, ← h2]
    · cases p0 with
      | none => exact absurd rfl hn
      | some rl =>
        refine ⟨?_, Or.inr ⟨?_, hk⟩⟩
        · show (step s t c).2.filterMap visitOf = _
          rw [hstep]
          simp [stepRest, hpc, hlp, hcv', hr', List.filterMap_append, List.filterMap_cons, hf, hpn, h1, hdrop]
        · show ((step s t c).1.th t).pc = _
          rw [hstep]
          by_cases ho : s.owning <;> simp [stepRest, hpc, hlp, hcv', hr', ho, setTh]
  · simp only [hcv, ↓reduceIte]
    have hcv' : ¬ c.ctr o.slot < s.len := hcv
    constructor
    · show ((step s t c).1.th t).pc = _
      rw [hstep]; simp [stepRest, hpc, hlp, hcv', setTh]
    · show (step s t c).2.filterMap visitOf = _
      rw [hstep]; simp [stepRest, hpc, hlp, hcv', visitOf]


/-! ## `fold` -/

/-- the fold closure of the model: the accumulator is the wrapping sum of the payloads -/
def sumG (s : KSrc) : Nat → Nat → Nat := fun acc p => add64 acc (s.valAt p)

theorem visitAll_walk_fold {α : Type} (s : KSrc) (pa : Option Nat) (K : Nat → LProg α)
    (hK : ∀ a v, walk pa (K a) v = ([], v, K a)) :
    ∀ (ps : List Nat) (v sm : Nat) (acc : List Ev),
      (visitAll s false pa ps v sm acc).1.filterMap visitOf =
        acc.filterMap visitOf ++ (walk pa (visitFold (sumG s) ps sm K) v).1.map (fun ip => (ip.1, s.valAt ip.2)) ∧
      (visitAll s false pa ps v sm acc).2.1 = (walk pa (visitFold (sumG s) ps sm K) v).2.1 ∧
      (((visitAll s false pa ps v sm acc).2.2.2 = none ∧
          (walk pa (visitFold (sumG s) ps sm K) v).2.2 = K (visitAll s false pa ps v sm acc).2.2.1) ∨
       ((visitAll s false pa ps v sm acc).2.2.2 ≠ none ∧ (walk pa (visitFold (sumG s) ps sm K) v).2.2 = .panic "closure"))
  | [], v, sm, acc => by simp [visitAll, visitFold, hK]
  | p :: ps, v, sm, acc => by
    have ih := visitAll_walk_fold s pa K hK ps (v + 1) (add64 sm (s.valAt p))
      (acc ++ cloneEvs s [p] ++ [Ev.visit none (s.valAt p)])
    simp only [visitAll, visitFold, walk, sumG]
    by_cases hp : pa = some v
    · simp [hp, List.filterMap_append, cloneEvs_no_visit, visitOf]
    · simp only [hp, ↓reduceIte, Bool.false_eq_true]
      obtain ⟨h1, h2, h3⟩ := ih
      refine ⟨?_, h2, h3⟩
      rw [h1]
      simp [List.filterMap_append, cloneEvs_no_visit, visitOf]

theorem walk_specFold {ρ : Type} (len n : Nat) (g : Nat → Nat → Nat) (pa : Option Nat) (fuel a v : Nat) :
    walk pa (specFold (ρ := ρ) len n g fuel a) v = ([], v, specFold len n g fuel a) := by
  cases fuel <;> rfl

/-- **one step of the model's `fold` loop is one node of the source's fold tree** (`fold_is_model_loop`): same closure calls,
and the accumulator the model carries to its next step (the wrapping sum of the payloads seen so far) is the accumulator
the tree goes on with; when the pull finds the end the thread is back at `.idle` -/
theorem fold_step_is_tree_node (s : KSrc) (t : Nat) (c : Cfg) (o : SOp) (visits sum n : Nat) (pa : Option Nat)
    (hpc : (c.th t).pc = .loop o visits sum) (hlp : loopParams o.op = some (n, false, pa, true)) (fuel : Nat) :
    let cv := c.ctr o.slot
    let c' := (step s t c).1
    let evs := (step s t c).2
    if cv < s.len then
      let r := walk pa (visitFold (sumG s) (pulled s.len n cv) sum (specFold (ρ := Unit) s.len n (sumG s) fuel)) visits
      evs.filterMap visitOf = r.1.map (fun ip => (ip.1, s.valAt ip.2)) ∧
      ((∃ sum', (c'.th t).pc = .loop o r.2.1 sum' ∧ r.2.2 = specFold s.len n (sumG s) fuel sum') ∨
       ((c'.th t).pc = .dead ∧ r.2.2 = .panic "closure"))
    else (c'.th t).pc = .idle ∧ evs.filterMap visitOf = [] := by
  intro cv c' evs
  have hsa : stepAtom (c.th t) = some (o.slot, if n = 1 then Atom.one else Atom.many n) := by
    simp [stepAtom, hpc, hlp]
  have hstep : step s t c = stepRest s t c (applyAtom s.len c t o.slot (if n = 1 then Atom.one else Atom.many n)) := by
    simp [step, hsa]
  by_cases hcv : cv < s.len
  · simp only [hcv, ↓reduceIte]
    have hva := visitAll_walk_fold (α := Flow Unit Nat) s pa (specFold s.len n (sumG s) fuel)
      (fun a v => walk_specFold s.len n (sumG s) pa fuel a v) (pulled s.len n cv) visits sum []
    have hcv' : c.ctr o.slot < s.len := hcv
    unfold pulled at hva ⊢
    rcases hr : visitAll s false pa (rangeList (if n = 1 then cv else (pullRange s.len cv n).1)
      (if n = 1 then cv + 1 else (pullRange s.len cv n).2)) visits sum [] with ⟨ev0, v0, s0, p0⟩
    rw [hr] at hva
    obtain ⟨h1, h2, h3⟩ := hva
    simp only [List.filterMap_nil, List.nil_append] at h1 h2 h3
    have hr' : visitAll s false pa (rangeList (if n = 1 then c.ctr o.slot else (pullRange s.len (c.ctr o.slot) n).1)
      (if n = 1 then c.ctr o.slot + 1 else (pullRange s.len (c.ctr o.slot) n).2)) visits sum [] = (ev0, v0, s0, p0) := hr
    have hdrop : ∀ l, (dropEvs s l).filterMap visitOf = [] := by
      intro l; unfold dropEvs; split <;> simp [visitOf, List.filterMap_map, Function.comp_def]
    have hf : ∀ l o' a b, visitOf (Ev.faa l o' a b) = none := fun _ _ _ _ => rfl
    have hpn : ∀ m, visitOf (Ev.panic m) = none := fun _ => rfl
    rcases h3 with ⟨hn, hk⟩ | ⟨hn, hk⟩
    · subst hn
      refine ⟨?_, Or.inl ⟨s0, ?_, hk⟩⟩
      · show (step s t c).2.filterMap visitOf = _
        rw [hstep]
        simp [stepRest, hpc, hlp, hcv', hr', List.filterMap_append, List.filterMap_cons, hf, h1]
      · show ((step s t c).1.th t).pc = _
        rw [hstep]
        by_cases ho : s.owning <;> simp [stepRest, hpc, hlp, hcv', hr', ho, setTh, ← h2]
    · cases p0 with
      | none => exact absurd rfl hn
      | some rl =>
        refine ⟨?_, Or.inr ⟨?_, hk⟩⟩
        · show (step s t c).2.filterMap visitOf = _
          rw [hstep]
          simp [stepRest, hpc, hlp, hcv', hr', List.filterMap_append, List.filterMap_cons, hf, hpn, h1, hdrop]
        · show ((step s t c).1.th t).pc = _
          rw [hstep]
          by_cases ho : s.owning <;> simp [stepRest, hpc, hlp, hcv', hr', ho, setTh]
  · simp only [hcv, ↓reduceIte]
    have hcv' : ¬ c.ctr o.slot < s.len := hcv
    constructor
    · show ((step s t c).1.th t).pc = _
      rw [hstep]; simp [stepRest, hpc, hlp, hcv', setTh]
    · show (step s t c).2.filterMap visitOf = _
      rw [hstep]; simp [stepRest, hpc, hlp, hcv', visitOf]

end Orx.KS
