import Orx.KSFault
import Orx.IW.Full
/-! # Case files, the deterministic scheduler of FORMAT.md §2, trace rendering.
This is the executable glue of the driver; the scheduling rule is the same as the harness's. -/
namespace Orx

inductive Src where
  | ks (s : KSrc)
  | iw (s : IWF.ISrc)
  deriving Inhabited

structure Case where
  id : String := ""
  src : Src := .ks {}
  mode : Mode := .release
  progs : List (List SOp) := []
  owner : OwnerOp := .drop
  sched : List Nat := []
  frozen : List Nat := []
  deriving Inhabited

/-! ## Parsing -/

def parseNats (s : String) : List Nat :=
  if s = "" then [] else (s.splitOn ",").filterMap String.toNat?

def parseK (s : String) : Option (Option Nat) :=
  if s = "all" then some none else s.toNat?.map some

def parseTake (s : String) : Option Take :=
  if s = "all" then some .all
  else if s = "fold" then some .fold
  else if s = "count" then some .cnt
  else if s.startsWith "nth:" then (s.drop 4).toNat?.map .nth
  else s.toNat?.map .first

def parsePanic (toks : List String) : Option Nat :=
  match toks with
  | [p] => if p.startsWith "panic=" then (p.drop 6).toNat? else none
  | _ => none

def parseOp (toks : List String) : Option Op :=
  match toks with
  | ["next"] => some .next
  | ["nextv"] => some .nextv
  | ["chunk", n, k] => do some (.chunk (← n.toNat?) (← parseTake k))
  | ["bufnew", n] => do some (.bufnew (← n.toNat?))
  | ["bufnext", k] => do some (.bufnext (← parseTake k))
  | ["bufdrop"] => some .bufdrop
  | "foreach" :: n :: rest => do some (.foreach (← n.toNat?) (parsePanic rest))
  | "enumforeach" :: n :: rest => do some (.enumforeach (← n.toNat?) (parsePanic rest))
  | ["fold", n] => do some (.fold (← n.toNat?))
  | ["values"] => some .values
  | ["idsvalues"] => some .idsvalues
  | ["skip"] => some .skip
  | ["len"] => some .len
  | ["hasmore"] => some .hasmore
  | ["get", i] => do some (.get (← i.toNat?))
  | ["clone", j] => do some (.clone (← j.toNat?))
  | _ => none

def parseSOp (s : String) : Option SOp :=
  let toks := (s.splitOn " ").filter (· ≠ "")
  match toks with
  | [] => none
  | t :: rest =>
    if t.startsWith "@" then do
      let k ← (t.drop 1).toNat?
      let op ← parseOp rest
      some { slot := k, op := op }
    else do
      let op ← parseOp toks
      some { slot := 0, op := op }

def parseProg (s : String) : List SOp :=
  (s.splitOn ";").filterMap parseSOp

def parseScriptEntry (s : String) : Option SrcRes :=
  if s = "N" then some .none
  else if s = "P" then some .panic
  else if s.startsWith "S" then (s.drop 1).toNat?.map .some
  else none

def kv (toks : List String) (key : String) : Option String :=
  toks.findSome? fun t =>
    if t.startsWith (key ++ "=") then some (t.drop (key.length + 1)).toString else none

def parseSrc (toks : List String) : Option Src :=
  match toks with
  | kind :: rest =>
    let slots := ((kv rest "iters").bind String.toNat?).getD 1
    match kind with
    | "slice" | "vecref" | "arrref" =>
      some (.ks { kind := .slice, vals := parseNats ((kv rest "vals").getD ""), slots := slots })
    | "vec" => some (.ks { kind := .vec, vals := parseNats ((kv rest "vals").getD "") })
    | "array" => some (.ks { kind := .array, vals := parseNats ((kv rest "vals").getD "") })
    | "range" => do
      let a ← (kv rest "start").bind String.toNat?
      let b ← (kv rest "stop").bind String.toNat?
      some (.ks { kind := .range, start := a, stop := b, slots := slots })
    | "iter" | "iterref" =>
      let scr := ((kv rest "script").getD "")
      let entries := if scr = "" then [] else (scr.splitOn ",").filterMap parseScriptEntry
      let hint := match kv rest "hint" with
        | some "exact" => Hint.exact
        | some "unbounded" => Hint.unbounded
        | some h =>
          if h.startsWith "fixed" then
            match (h.drop 5).toNat? with
            | some k => Hint.fixed k
            | none => Hint.inexact
          else Hint.inexact
        | _ => Hint.inexact
      some (.iw { script := entries, hint := hint, byRef := kind = "iterref" })
    | _ => none
  | _ => none

def Src.setAdapt (s : Src) (a : Adapt) : Src :=
  match s with
  | .ks k => .ks { k with adapt := a }
  | .iw i => .iw { i with adapt := a }

def setProg (ps : List (List SOp)) (t : Nat) (p : List SOp) : List (List SOp) :=
  let ps := if ps.length ≤ t then ps ++ List.replicate (t + 1 - ps.length) [] else ps
  ps.set t p

/-- parse all cases of a file -/
def parseCases (text : String) : List Case := Id.run do
  let mut out : List Case := []
  let mut cur : Option Case := none
  for raw in text.splitOn "\n" do
    let line := raw.trimAscii.toString
    if line = "" || line.startsWith "#" then continue
    let toks := (line.splitOn " ").filter (· ≠ "")
    match toks with
    | ["case", id] => cur := some { id := id }
    | ["end"] =>
      match cur with
      | some c => out := c :: out; cur := none
      | none => pure ()
    | key :: rest =>
      match cur with
      | none => pure ()
      | some c =>
        if key = "src" then
          cur := some { c with src := (parseSrc rest).getD c.src }
        else if key = "adapt" then
          let a := match rest with | ["cloned"] => Adapt.cloned | ["copied"] => Adapt.copied | _ => Adapt.none
          cur := some { c with src := c.src.setAdapt a }
        else if key = "droppanic" then
          let k := rest.head?.bind String.toNat?
          cur := some { c with src := match c.src with
            | .ks ks => .ks { ks with dpanic := k }
            | o => o }
        else if key = "mode" then
          cur := some { c with mode := if rest = ["debug"] then .debug else .release }
        else if key = "thread" then
          -- "thread <t>: ops"
          let after := (line.drop 6).toString
          match after.splitOn ":" with
          | tstr :: progParts =>
            let t := (tstr.trimAscii.toString.toNat?).getD 0
            let prog := parseProg (":".intercalate progParts)
            cur := some { c with progs := setProg c.progs t prog }
          | _ => pure ()
        else if key = "owner" then
          let o := match rest with
            | ["intoseq", k] => OwnerOp.intoseq ((parseK k).getD none)
            | _ => OwnerOp.drop
          cur := some { c with owner := o }
        else if key = "sched" then
          cur := some { c with sched := rest.filterMap String.toNat? }
        else if key = "frozen" then
          cur := some { c with frozen := rest.filterMap String.toNat? }
        else pure ()
    | _ => pure ()
  return out.reverse

/-! ## Scheduler -/

/-- a model the scheduler can drive -/
structure Machine (σ : Type) where
  nThreads : Nat
  finished : σ → Nat → Bool
  step : Nat → σ → σ × List Ev

structure SchedState (σ : Type) where
  st : σ
  sched : List Nat
  rr : Nat := 0
  streak : Nat := 0
  last : List ((Nat × Loc) × Nat) := []
  lines : Array Line := #[]
  steps : Nat := 0
  stuck : Bool := false

def lookupLast (l : List ((Nat × Loc) × Nat)) (k : Nat × Loc) : Option Nat :=
  (l.find? fun e => e.1 = k).map (·.2)

def setLast (l : List ((Nat × Loc) × Nat)) (k : Nat × Loc) (v : Nat) : List ((Nat × Loc) × Nat) :=
  (k, v) :: l.filter fun e => e.1 ≠ k

/-- next thread by the explicit prefix; returns remaining prefix -/
def pickPrefix {σ} (m : Machine σ) (st : σ) : List Nat → Option (Nat × List Nat)
  | [] => none
  | t :: rest =>
    if t < m.nThreads && !m.finished st t then some (t, rest) else pickPrefix m st rest

def pickFallback {σ} (m : Machine σ) (st : σ) (frozen : List Nat) (rr : Nat) : Option Nat :=
  let elig := (List.range m.nThreads).filter fun t => !m.finished st t && !frozen.contains t
  match elig.find? (· ≥ rr) with
  | some t => some t
  | none => elig.head?

def runSched {σ} (m : Machine σ) (frozen : List Nat) : Nat → SchedState σ → SchedState σ
  | 0, s => s
  | fuel + 1, s =>
    if s.stuck then s else
    let choice : Option (Nat × List Nat × Bool) :=
      match pickPrefix m s.st s.sched with
      | some (t, rest) => some (t, rest, false)
      | none =>
        match pickFallback m s.st frozen s.rr with
        | some t => some (t, [], true)
        | none => none
    match choice with
    | none => s
    | some (t, rest, fb) =>
      let (st', evs) := m.step t s.st
      let lines := evs.foldl (fun a e => a.push { who := some t, ev := e }) s.lines
      let (streak, last) : Nat × List ((Nat × Loc) × Nat) :=
        match evs with
        | [.ld loc _ v] =>
          if lookupLast s.last (t, loc) = some v then ((if fb then s.streak + 1 else s.streak), s.last)
          else (0, setLast s.last (t, loc) v)
        | _ => (0, [])
      let stuck := streak > 4 * m.nThreads + 8
      runSched m frozen fuel
        { s with st := st', sched := rest, rr := (if fb then t + 1 else s.rr), streak := streak, last := last,
                 lines := lines, steps := s.steps + 1, stuck := stuck }

def ksMachine (src : KSrc) (n : Nat) : Machine KS.Cfg :=
  { nThreads := n
    finished := fun c t => KS.finished (c.th t)
    step := fun t c => KS.stepF src t c }

def iwMachine (src : IWF.ISrc) (n : Nat) : Machine IWF.FCfg :=
  { nThreads := n
    finished := fun c t => IWF.finished (c.d t)
    step := fun t c => IWF.step src t c }

def progFn (ps : List (List SOp)) : Nat → List SOp := fun t => ps.getD t []

/-- run a case on the model: all trace lines (without the `case` line), stuck flag, steps -/
def runCase (c : Case) (fuel : Nat := 200000) : Array String × Bool × Nat :=
  let n := c.progs.length
  match c.src with
  | .ks src =>
    let m := ksMachine src n
    let s := runSched m c.frozen fuel { st := KS.init src (progFn c.progs), sched := c.sched }
    let (_, oevs) := KS.ownerF src s.st c.owner
    let lines := oevs.foldl (fun a e => a.push { who := none, ev := e }) s.lines
    (lines.map Line.str, s.stuck, s.steps)
  | .iw src =>
    let m := iwMachine src n
    let s := runSched m c.frozen fuel { st := IWF.init (progFn c.progs), sched := c.sched }
    let (_, oevs) := IWF.owner src n s.st c.owner
    let lines := oevs.foldl (fun a e => a.push { who := none, ev := e }) s.lines
    (lines.map Line.str, s.stuck, s.steps)

def renderCase (c : Case) : String :=
  let (lines, stuck, steps) := runCase c
  let body := lines.foldl (fun acc l => acc ++ l ++ "\n") ""
  s!"case {c.id}\n{body}fin live=0 blocks=0 stuck={if stuck then 1 else 0} steps={steps}\n"

end Orx
