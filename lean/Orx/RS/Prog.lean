import Orx.RS.Prim
/-! # Program trees: the translation target for the *blocking* functions of the wrapper (`tools/rs2lean.py`, `Generated/ProtoIter.lean`)

The functions of the ticket protocol (`progress_and_get_begin_idx`, `get`, `fetch_one`, `fetch_n` of
`src/iter/implementors/iter.rs`) run concurrently with other threads between any two of their atomic accesses, so a
state monad over the shared memory (`Prim.lean`'s `M`) cannot give their meaning. Here a function denotes a **tree**:
every node is one atomic access (or the entry / the exit of the wrapped iterator's `next()`), its children are indexed by
the value the access may return — the environment (the other threads) chooses it. One root-to-leaf path is one possible
execution of the thread; the shared-memory model `IW/Core.lean` is tied to these trees by `GenThms/Proto.lean`: its pcs are
the nodes, its transitions the child relation.

`PF ρ α` adds Rust's non-local control flow (`return`, `break`) to trees; `m_loop` gives a `loop {}` a fuel (number of
iterations) after which the tree ends in `spin` — the theorems quantify over every fuel. Unwinding (`panic`) is a leaf;
`m_guarded` is the scope of a drop guard: every unwinding leaf below it first runs the guard's destructor.

Hand-written and part of the trusted base, like `Prim.lean`. -/
namespace Orx.RSP
open Orx
open Orx.RS (AtomicH CounterSelf AtomicBoolH Next NextChunk Ord3)

inductive Prog (α : Type) : Type where
  | ret (a : α)
  | faa (l : Loc) (o : Ord) (n : Nat) (k : Nat → Prog α)   -- `fetch_add(n, o)`: the child is chosen by the value read
  | ldN (l : Loc) (o : Ord) (k : Nat → Prog α)             -- `load(o)` of a `usize` atomic
  | ldB (l : Loc) (o : Ord) (k : Bool → Prog α)            -- `load(o)` of an `AtomicBool`
  | stB (l : Loc) (o : Ord) (v : Bool) (k : Prog α)        -- `store(v, o)` into an `AtomicBool`
  | enter (k : Prog α)                                     -- entry of the wrapped iterator's `next()`
  | exit (k : SrcRes → Prog α)                             -- its exit: an element, `None`, or a panic
  | panic (msg : String)                                   -- unwinding has left the function
  | spin                                                   -- the fuel of a `loop {}` is used up

namespace Prog

def bind {α β : Type} : Prog α → (α → Prog β) → Prog β
  | .ret a, f => f a
  | .faa l o n k, f => .faa l o n (fun v => (k v).bind f)
  | .ldN l o k, f => .ldN l o (fun v => (k v).bind f)
  | .ldB l o k, f => .ldB l o (fun v => (k v).bind f)
  | .stB l o v k, f => .stB l o v (k.bind f)
  | .enter k, f => .enter (k.bind f)
  | .exit k, f => .exit (fun r => (k r).bind f)
  | .panic m, _ => .panic m
  | .spin, _ => .spin

/-- the scope of a drop guard: an unwinding leaf first runs `g` (the guard's destructor), then goes on unwinding -/
def guarded {α : Type} (g : Prog Unit) : Prog α → Prog α
  | .ret a => .ret a
  | .faa l o n k => .faa l o n (fun v => guarded g (k v))
  | .ldN l o k => .ldN l o (fun v => guarded g (k v))
  | .ldB l o k => .ldB l o (fun v => guarded g (k v))
  | .stB l o v k => .stB l o v (guarded g k)
  | .enter k => .enter (guarded g k)
  | .exit k => .exit (fun r => guarded g (k r))
  | .panic m => g.bind (fun _ => .panic m)
  | .spin => .spin

end Prog

/-- how a block ends: normally with a value, by `return r`, or by `break` -/
inductive Flow (ρ α : Type) where
  | norm (a : α)
  | retn (r : ρ)
  | brk

abbrev PF (ρ α : Type) : Type := Prog (Flow ρ α)

def PF.bind {ρ α β : Type} (m : PF ρ α) (f : α → PF ρ β) : PF ρ β :=
  Prog.bind m (fun x => match x with
    | .norm a => f a
    | .retn r => .ret (.retn r)
    | .brk => .ret .brk)

instance {ρ : Type} : Monad (PF ρ) where
  pure a := Prog.ret (.norm a)
  bind := PF.bind

/-- a function body: `return r` and falling off the end with `r` are the same; the result is usable in any caller -/
def m_fn {ρ ρ' : Type} (body : PF ρ ρ) : PF ρ' ρ :=
  Prog.bind body (fun x => match x with
    | .norm a => .ret (.norm a)
    | .retn r => .ret (.norm r)
    | .brk => .panic "break outside of a loop")

def m_return {ρ α : Type} (r : ρ) : PF ρ α := Prog.ret (.retn r)
def m_break {ρ α : Type} : PF ρ α := Prog.ret .brk

/-- `loop { body }` with `fuel` iterations -/
def m_loop {ρ : Type} : Nat → PF ρ Unit → PF ρ Unit
  | 0, _ => Prog.spin
  | k + 1, body => Prog.bind body (fun x => match x with
    | .norm _ => m_loop k body
    | .retn r => .ret (.retn r)
    | .brk => .ret (.norm ()))

/-- `break` out of a loop that threads mutable state: the state at the `break` is the loop's result -/
def m_break_st {σ ρ α : Type} (st : σ) : PF (Sum σ ρ) α := Prog.ret (.retn (Sum.inl st))

/-- `loop { body }` over mutable locals `st` (the variables the body assigns), with `fuel` iterations: the body runs with
the function's `return r` encoded as `retn (inr r)` and `break` as `retn (inl state)`; falling off the end of the body
continues with the new state -/
def m_loop_st {σ ρ : Type} : Nat → σ → (σ → PF (Sum σ ρ) σ) → PF ρ σ
  | 0, _, _ => Prog.spin
  | k + 1, st, body => Prog.bind (body st) (fun x => match x with
    | .norm st' => m_loop_st k st' body
    | .retn (Sum.inl st') => .ret (.norm st')
    | .retn (Sum.inr r) => .ret (.retn r)
    | .brk => .panic "break")

/-- the statements between the creation of a drop guard and its `disarm()` -/
def m_guarded {ρ α : Type} (onUnwind : PF ρ Unit) (body : PF ρ α) : PF ρ α :=
  Prog.guarded (Prog.bind onUnwind (fun _ => .ret ())) body

/-- after a `loop {}` without `break` -/
def m_unreachable {ρ α : Type} : PF ρ α := Prog.panic "unreachable"

def m_unsupported {ρ α : Type} (what : String) : PF ρ α := Prog.panic ("unsupported: " ++ what)

/-! ## objects -/

/-- the wrapped iterator behind the `UnsafeCell` -/
structure WrappedH where
  deriving Repr, Inhabited

/-- `ConIterOfIter`: the wrapped iterator, the three atomics, the exact length claimed at construction -/
structure IterSelf where
  iter : WrappedH := {}
  initial_len : Option Nat := none
  reserved_counter : CounterSelf := { current := { loc := .R } }
  yielded_counter : CounterSelf := { current := { loc := .Y } }
  completed : AtomicBoolH := {}
  deriving Repr

/-- `CompleteOnUnwind<'a>` -/
structure CompleteOnUnwind where
  completed : AtomicBoolH
  armed : Bool
  deriving Repr

/-- `BufferIter<T, Iter>`: the reusable chunk buffer `Vec<Option<T>>` -/
structure BufIterSelf where
  values : List (Option Nat)
  deriving Repr

/-- `BufferedIter<'a, T>` of buffered/iter.rs: the chunk's value iterator over the buffer's slots -/
structure BufferedIter where
  values : List (Option Nat)
  initial_len : Nat
  current_idx : Nat
  deriving Repr

/-- `BufferedIter<'a, T, BufferIter<T, Iter>>` of buffered/buffered_iter.rs: the chunk puller with its buffer -/
structure BufferedIterSelfP where
  buffered_iter : BufIterSelf
  atomic_iter : IterSelf := {}
  deriving Repr

/-- `Cloned<'a, T, ConIterOfIter<..>>` / `Copied<..>`: the wrapped wrapper -/
structure AdaptSelfP where
  iter : IterSelf := {}
  deriving Repr

/-- `ClonedBufferedChunk` / `CopiedBufferedChunk` over `BufferIter` -/
structure AdaptBufSelfP where
  chunk : BufIterSelf
  deriving Repr

/-- `BufferedIter<'a, T, ClonedBufferedChunk<..>>`: the chunk puller of an adaptor over the wrapper -/
structure BufferedIterSelfPA where
  buffered_iter : AdaptBufSelfP
  atomic_iter : AdaptSelfP := {}
  deriving Repr

/-! ## `usize`, `Option`, `Vec` -/

variable {ρ : Type}

def op_lt (a b : Nat) : PF ρ Bool := pure (decide (a < b))
def op_le (a b : Nat) : PF ρ Bool := pure (decide (a ≤ b))
def op_gt (a b : Nat) : PF ρ Bool := pure (decide (a > b))
def op_ge (a b : Nat) : PF ρ Bool := pure (decide (a ≥ b))
def op_eq (a b : Nat) : PF ρ Bool := pure (decide (a = b))
def op_ne (a b : Nat) : PF ρ Bool := pure (decide (a ≠ b))
def op_not (a : Bool) : PF ρ Bool := pure (!a)
/-- `a + b` on `usize`: overflow panics (debug) -/
def op_add (a b : Nat) : PF ρ Nat := if a + b < W then pure (a + b) else Prog.panic "overflow"
/-- `a - b` on `usize`: underflow panics (debug) -/
def op_sub (a b : Nat) : PF ρ Nat := if b ≤ a then pure (a - b) else Prog.panic "overflow"
def m_saturating_add (a b : Nat) : PF ρ Nat := pure (satAdd a b)
def m_cmp (a b : Nat) : PF ρ Ord3 := pure (if a < b then .less else if a = b then .equal else .greater)
def m_assert_eq (a b : Nat) : PF ρ Unit := if a = b then pure () else Prog.panic "assert_eq"

def m_is_some {α : Type} (o : Option α) : PF ρ Bool := pure o.isSome
def m_expect {α : Type} (o : Option α) (msg : String) : PF ρ α :=
  match o with
  | some a => pure a
  | none => Prog.panic msg
def m_and_then {α β : Type} (o : Option α) (f : α → PF ρ (Option β)) : PF ρ (Option β) :=
  match o with
  | none => pure none
  | some a => f a

/-- a lazy `Iterator`: `len` positions; `step i` computes the item of position `i`, `None` ends the iteration
(`take_while`). Adaptors compose the `step`s; nothing runs before a consumer (`collect`) asks. -/
structure LIt (ρ α : Type) where
  len : Nat
  step : Nat → PF ρ (Option α)

/-- `lo..hi` -/
def m_range (lo hi : Nat) : PF ρ (LIt ρ Nat) := pure ⟨hi - lo, fun i => pure (some (lo + i))⟩

class MMap (ρ : Type) (C : Type) (A : outParam Type) (B : Type) (R : outParam Type) where
  m_map : C → (A → PF ρ B) → PF ρ R
export MMap (m_map)

instance {α β : Type} : MMap ρ (Option α) α β (Option β) where
  m_map o f := match o with
    | none => pure none
    | some a => do let b ← f a; pure (some b)

/-- `Iterator::map`: lazy -/
instance {α β : Type} : MMap ρ (LIt ρ α) α β (LIt ρ β) where
  m_map it f := pure ⟨it.len, fun i => do
    match ← it.step i with
    | none => pure none
    | some a => do let b ← f a; pure (some b)⟩

/-- `Iterator::take_while`: lazy; the first item failing the predicate ends the iteration -/
def m_take_while {α : Type} (it : LIt ρ α) (p : α → PF ρ Bool) : PF ρ (LIt ρ α) :=
  pure ⟨it.len, fun i => do
    match ← it.step i with
    | none => pure none
    | some a => do
      let b ← p a
      if b then pure (some a) else pure none⟩

def collectAux {α : Type} (step : Nat → PF ρ (Option α)) : Nat → Nat → List α → PF ρ (List α)
  | 0, _, acc => pure acc
  | k + 1, i, acc => do
    match ← step i with
    | none => pure acc
    | some a => collectAux step k (i + 1) (acc ++ [a])

/-- `collect::<Vec<_>>()`: pulls until the first `None` or the end of the positions -/
def m_collect {α : Type} (it : LIt ρ α) : PF ρ (List α) := collectAux it.step it.len 0 []

/-- `v[i]`: panics when out of range -/
def m_index {α : Type} (l : List α) (i : Nat) : PF ρ α :=
  match l[i]? with
  | some a => pure a
  | none => Prog.panic "index"
/-- `v[i] = x`: panics when out of range (the old value is dropped) -/
def m_set_index {α : Type} (l : List α) (i : Nat) (x : α) : PF ρ (List α) :=
  if i < l.length then pure (l.set i x) else Prog.panic "index"
/-- the value a branching expression left in its result variable -/
def m_the {α : Type} (o : Option α) : PF ρ α :=
  match o with
  | some a => pure a
  | none => Prog.panic "unreachable"
def m_join {α : Type} (o : Option (Option α)) : PF ρ (Option α) := pure o.join
def m_len {α : Type} (l : List α) : PF ρ Nat := pure l.length
def m_into_iter {α : Type} (l : List α) : PF ρ (List α) := pure l

/-- `Option::cloned` / `Iterator::cloned` (and `copied`): the same positions (a clone is not an access to shared state; that a
panicking `Clone` unwinds only its own call is the subject of C18's streams) -/
class MCloned (C : Type) where
  m_cloned : C → PF ρ C
  m_copied : C → PF ρ C
export MCloned (m_cloned m_copied)
instance : MCloned (ρ := ρ) (Option Nat) := ⟨pure, pure⟩
instance : MCloned (ρ := ρ) (List Nat) := ⟨pure, pure⟩
instance : MCloned (ρ := ρ) BufferedIter := ⟨pure, pure⟩

/-- `Iterator::next` of the wrapped iterator: two scheduling points (entry, exit); a panic unwinds -/
def m_next (_h : WrappedH) : PF ρ (Option Nat) :=
  Prog.enter (Prog.exit fun r => match r with
    | .some v => Prog.ret (.norm (some v))
    | .none => Prog.ret (.norm none)
    | .panic => Prog.panic "next")

/-! ## atomics -/

def m_fetch_add (h : AtomicH) (n : Nat) (o : Ord) : PF ρ Nat := Prog.faa h.loc o n (fun v => Prog.ret (.norm v))

class MLoad (ρ : Type) (H : Type) (V : outParam Type) where
  m_load : H → Ord → PF ρ V
export MLoad (m_load)
instance : MLoad ρ AtomicH Nat := ⟨fun h o => Prog.ldN h.loc o (fun v => Prog.ret (.norm v))⟩
instance : MLoad ρ AtomicBoolH Bool := ⟨fun h o => Prog.ldB h.loc o (fun v => Prog.ret (.norm v))⟩

def m_store (h : AtomicBoolH) (v : Bool) (o : Ord) : PF ρ Unit := Prog.stB h.loc o v (Prog.ret (.norm ()))

end Orx.RSP
