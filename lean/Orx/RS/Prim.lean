import Orx.Basic
/-! # Primitives for the Rust functions translated by `tools/rs2lean.py` (`Generated/Arith.lean`)

`M` is a state-and-failure monad: the state is the iterator's position counter (a machine word), the log of atomic
accesses performed so far (with orderings, in `Ev` form so that it can be compared with the model's events) and the
element spans destroyed in place; a failure is a fault the real code would raise in a debug build or that would be
undefined behaviour: arithmetic overflow, an out-of-range index, a violated precondition of an `unsafe` std function,
a failed assertion. The theorems about the generated functions (`GenThms.lean`) say: for all machine-word inputs the
function does **not** fault, performs exactly the expected atomic accesses, and returns the model's value.

Every `m_*`/`op_*`/`ptr_*` name is the translation target of the Rust method / operator / path of the same name; what
each one assumes about `std` is stated next to it. This file is hand-written and part of the trusted base. -/
namespace Orx.RS

inductive Fault where
  | overflow        -- `+`, `-`, `*` on `usize` out of range (debug: panic; release: wraps — the builds would differ)
  | index           -- slice index out of range (panic in every build)
  | precondition    -- a documented precondition of an `unsafe` std function is violated (UB)
  | assertion       -- `assert!` / `debug_assert!` failed
  | unsupported     -- the translator met a construct outside its subset
  deriving DecidableEq, Repr, Inhabited

structure St where
  ctr : Nat := 0                       -- the position counter
  evs : List Ev := []                  -- atomic accesses performed, in order
  drops : List (Nat × Nat) := []       -- spans `[lo, hi)` of elements destroyed in place, in order
  clones : List Nat := []              -- positions whose element was cloned eagerly (`Option::cloned`), in order
  yld : Nat := 0                       -- wrapper only: the `yielded` counter (location `Y`; `ctr` is then `R`)
  completed : Bool := false            -- wrapper only: the `completed` flag (location `C`)
  deriving Repr, Inhabited

inductive Res (α : Type) where
  | ok (a : α) (s : St)
  | fail (f : Fault)
  deriving Repr

def M (α : Type) : Type := St → Res α

@[inline] def M.pure {α} (a : α) : M α := fun s => .ok a s
@[inline] def M.bind {α β} (m : M α) (f : α → M β) : M β := fun s =>
  match m s with
  | .ok a s' => f a s'
  | .fail e => .fail e

instance : Monad M where
  pure := M.pure
  bind := M.bind

def M.failWith {α} (f : Fault) : M α := fun _ => .fail f

@[simp] theorem pure_run {α} (a : α) (s : St) : (pure a : M α) s = .ok a s := rfl
@[simp] theorem bind_run {α β} (m : M α) (f : α → M β) (s : St) :
    (m >>= f) s = match m s with | .ok a s' => f a s' | .fail e => .fail e := rfl
@[simp] theorem fail_run {α} (f : Fault) (s : St) : (M.failWith f : M α) s = .fail f := rfl

/-! ## objects -/

structure AtomicH where
  loc : Loc := .ctr 0
  deriving Repr, Inhabited

structure CounterSelf where
  current : AtomicH := {}
  deriving Repr, Inhabited

/-- an `AtomicBool` (the wrapper's `completed` flag) -/
structure AtomicBoolH where
  loc : Loc := .C
  deriving Repr, Inhabited

/-- `UnsafeCell<Iter>`: the cell that holds the wrapped iterator -/
structure WrappedCell where
  deriving Repr
/-- the wrapped iterator itself, as a value (what `UnsafeCell::into_inner` returns) -/
structure WrappedIter where
  deriving Repr, DecidableEq

/-- `ConIterOfIter`: the cell of its wrapped iterator, the three atomics and the exact length claimed at construction -/
structure IterSelf where
  iter : WrappedCell := {}
  initial_len : Option Nat
  reserved_counter : CounterSelf := { current := { loc := .R } }
  yielded_counter : CounterSelf := { current := { loc := .Y } }
  completed : AtomicBoolH := {}
  deriving Repr

structure SliceObj where
  len : Nat
  deriving Repr

structure VecObj where
  len : Nat
  deriving Repr

structure ArrObj where
  len : Nat
  deriving Repr

structure RangeObj where
  start : Nat
  end_ : Nat
  deriving Repr

structure SliceSelf where
  slice : SliceObj
  counter : CounterSelf := {}
  deriving Repr

structure VecSelf where
  vec : VecObj
  vec_len : Nat
  counter : CounterSelf := {}
  deriving Repr

structure ArrSelf where
  array : ArrObj
  counter : CounterSelf := {}
  deriving Repr

structure RangeSelf where
  range : RangeObj
  counter : CounterSelf := {}
  deriving Repr

structure BufSelf where
  chunk_size : Nat
  deriving Repr

structure BufferedIterSelf (A : Type) where
  buffered_iter : BufSelf
  atomic_iter : A

/-- `Cloned<'a, T, A>` / `Copied<'a, T, A>`: the wrapped reference-yielding iterator -/
structure AdaptSelf (A : Type) where
  iter : A

/-- `ClonedBufferedChunk` / `CopiedBufferedChunk`: the wrapped chunk puller -/
structure AdaptBufSelf where
  chunk : BufSelf

structure BufferedIterSelfA (A : Type) where
  buffered_iter : AdaptBufSelf
  atomic_iter : A

/-- an iterator over consecutive positions (slice, vec, array) or values (range) `[lo, hi)` -/
structure Span where
  lo : Nat
  hi : Nat
  deriving Repr, DecidableEq

/-- a raw pointer into an allocation of `cap` elements, `off` elements from its start -/
structure Ptr where
  cap : Nat
  off : Nat
  deriving Repr, DecidableEq

structure NextChunk (V : Type) where
  begin_idx : Nat
  values : V
  deriving Repr, DecidableEq

structure Next (T : Type) where
  idx : Nat
  value : T
  deriving Repr, DecidableEq

inductive Ord3 where
  | less | equal | greater
  deriving Repr, DecidableEq

/-! ## freshly constructed iterators (constructors, `Clone`): the storage and the initial value of the new counter -/

structure CounterNew where
  current : Nat
  deriving Repr, DecidableEq
structure SliceNew where
  slice : SliceObj
  counter : CounterNew
  deriving Repr
structure RangeNew where
  range : RangeObj
  counter : CounterNew
  deriving Repr
structure VecNew where
  vec : VecObj
  vec_len : Nat
  counter : CounterNew
  deriving Repr
structure ArrNew where
  array : ArrObj
  counter : CounterNew
  deriving Repr

/-- the sequential iterator handed to `ConIterOfIter::new`: what `size_hint()` returns for it -/
structure WrappedIt where
  hint : Nat × Option Nat
  deriving Repr
/-- a freshly constructed `ConIterOfIter` -/
structure IterNew where
  iter : WrappedIt
  initial_len : Option Nat
  reserved_counter : CounterNew
  yielded_counter : CounterNew
  completed : Bool
  deriving Repr

/-! ## `usize` arithmetic -/

def m_unsupported {α} (_what : String) : M α := M.failWith .unsupported

/-- `UnsafeCell::into_inner` (by value: the cell is consumed): no atomic access, no call of the wrapped iterator -/
def m_into_inner (_c : WrappedCell) : M WrappedIter := pure {}

/-- `a + b` on `usize`: overflow is a fault (a debug build panics, a release build wraps) -/
def op_add (a b : Nat) : M Nat := if a + b < W then pure (a + b) else M.failWith .overflow
/-- `a - b` on `usize` -/
def op_sub (a b : Nat) : M Nat := if b ≤ a then pure (a - b) else M.failWith .overflow
def op_mul (a b : Nat) : M Nat := if a * b < W then pure (a * b) else M.failWith .overflow
def op_lt (a b : Nat) : M Bool := pure (decide (a < b))
def op_le (a b : Nat) : M Bool := pure (decide (a ≤ b))
def op_gt (a b : Nat) : M Bool := pure (decide (a > b))
def op_ge (a b : Nat) : M Bool := pure (decide (a ≥ b))
def op_eq (a b : Nat) : M Bool := pure (decide (a = b))
def op_ne (a b : Nat) : M Bool := pure (decide (a ≠ b))
def op_and (a b : Bool) : M Bool := pure (a && b)
def op_or (a b : Bool) : M Bool := pure (a || b)
def op_not (a : Bool) : M Bool := pure (!a)

def m_saturating_add (a b : Nat) : M Nat := pure (satAdd a b)
def m_saturating_sub (a b : Nat) : M Nat := pure (a - b)
def m_min (a b : Nat) : M Nat := pure (min a b)
def m_max (a b : Nat) : M Nat := pure (max a b)
def m_cmp (a b : Nat) : M Ord3 := pure (if a < b then .less else if a = b then .equal else .greater)
/-- `Into<usize>` / `From<usize>` for `Idx = usize`, `usize -> AtomicUsize`, `ManuallyDrop<X> -> UnsafeCell<ManuallyDrop<X>>`:
the value itself -/
def m_into {α : Type} (a : α) : M α := pure a
def m_from (a : Nat) : M Nat := pure a

def m_assert (c : Bool) : M Unit := if c then pure () else M.failWith .assertion
def m_debug_assert (c : Bool) : M Unit := if c then pure () else M.failWith .assertion
def m_assert_eq (a b : Nat) : M Unit := if a = b then pure () else M.failWith .assertion

/-! ## `Option` -/

def m_unwrap_or {α} (o : Option α) (d : α) : M α := pure (o.getD d)
def m_is_some {α} (o : Option α) : M Bool := pure o.isSome

class MMap (C : Type) (A : outParam Type) (B : Type) (R : outParam Type) where
  m_map : C → (A → M B) → M R
export MMap (m_map)

instance {α β} : MMap (Option α) α β (Option β) where
  m_map o f := match o with
    | none => pure none
    | some a => do let b ← f a; pure (some b)

/-- `(lo..hi).map(Idx::from)`: mapping a range of `usize` through `Idx::from` keeps the values (for `Idx = usize`) -/
instance : MMap Span Nat Nat Span where
  m_map r _ := pure r

def m_and_then {α β} (o : Option α) (f : α → M (Option β)) : M (Option β) :=
  match o with
  | none => pure none
  | some a => f a

/-! ## slices, vectors, arrays, ranges -/

class MLen (C : Type) where
  m_len : C → M Nat
export MLen (m_len)
instance : MLen SliceObj := ⟨fun s => pure s.len⟩
instance : MLen VecObj := ⟨fun s => pure s.len⟩
instance : MLen ArrObj := ⟨fun s => pure s.len⟩
instance : MLen Span := ⟨fun s => pure (s.hi - s.lo)⟩

/-- `slice.get(i)`: the element at position `i` (represented by its position), if in range -/
def m_get (s : SliceObj) (i : Nat) : M (Option Nat) := pure (if i < s.len then some i else none)

/-- `&slice[lo..hi]`: panics unless `lo ≤ hi ≤ len` -/
def m_index_range (s : SliceObj) (lo hi : Nat) : M Span :=
  if lo ≤ hi ∧ hi ≤ s.len then pure ⟨lo, hi⟩ else M.failWith .index

class MIter (C : Type) where
  m_iter : C → M Span
export MIter (m_iter)
instance : MIter Span := ⟨fun s => pure s⟩
instance : MIter SliceObj := ⟨fun s => pure ⟨0, s.len⟩⟩

/-- `Iterator::skip(n)` on a positional iterator -/
def m_skip (s : Span) (n : Nat) : M Span := pure ⟨min (s.lo + n) s.hi, s.hi⟩

/-- `lo..hi` -/
def m_range (lo hi : Nat) : M Span := pure ⟨lo, hi⟩

class MAsMutPtr (C : Type) where
  m_as_mut_ptr : C → M Ptr
export MAsMutPtr (m_as_mut_ptr)
instance : MAsMutPtr VecObj := ⟨fun v => pure ⟨v.len, 0⟩⟩
instance : MAsMutPtr ArrObj := ⟨fun v => pure ⟨v.len, 0⟩⟩

/-- `ptr.add(i)`: the result must stay within the allocation (one past the end allowed) -/
def m_add (p : Ptr) (i : Nat) : M Ptr :=
  if p.off + i ≤ p.cap then pure ⟨p.cap, p.off + i⟩ else M.failWith .precondition

/-- `Taken::new(ptr, len)` (taken.rs): `ptr..ptr+len` must be valid elements of the allocation -/
def Taken_new (p : Ptr) (len : Nat) : M Span :=
  if p.off + len ≤ p.cap then pure ⟨p.off, p.off + len⟩ else M.failWith .precondition

/-- `ptr::slice_from_raw_parts_mut(ptr, len)` followed by use: the span must lie in the allocation -/
def ptr_slice_from_raw_parts_mut (p : Ptr) (len : Nat) : M Span :=
  if p.off + len ≤ p.cap then pure ⟨p.off, p.off + len⟩ else M.failWith .precondition

/-- `ptr::drop_in_place(slice)`: destroys the elements of the span -/
def ptr_drop_in_place (s : Span) : M Unit := fun st => .ok () { st with drops := st.drops ++ [(s.lo, s.hi)] }

class MTakeOne (C : Type) where
  m_take_one : C → Nat → M Nat
export MTakeOne (m_take_one)
/-- `take_one(i)` of vec.rs / array.rs reads the element at `ptr.add(i)`: `i` must be below the length -/
instance : MTakeOne VecSelf := ⟨fun v i => if i < v.vec.len then pure i else M.failWith .precondition⟩
instance : MTakeOne ArrSelf := ⟨fun v i => if i < v.array.len then pure i else M.failWith .precondition⟩

/-! ## `cloned()` / `copied()` of std

On an `Option<&T>` the clone happens at once (logged by position); on an iterator (`slice::Iter`, a chunk) the adaptor
is lazy: the elements are the same positions, cloned when the consumer pulls them. -/

class MCloned (C : Type) where
  m_cloned : C → M C
export MCloned (m_cloned)
instance : MCloned (Option Nat) := ⟨fun o => match o with
  | none => pure none
  | some p => fun st => .ok (some p) { st with clones := st.clones ++ [p] }⟩
instance : MCloned Span := ⟨fun s => pure s⟩

class MCopied (C : Type) where
  m_copied : C → M C
export MCopied (m_copied)
instance : MCopied (Option Nat) := ⟨fun o => pure o⟩
instance : MCopied Span := ⟨fun s => pure s⟩

/-! ## atomics (the one position counter of the iterator) -/

/-- the word behind a `usize` atomic: `Y` is the wrapper's `yielded` counter, every other location the position counter -/
def St.get (st : St) (l : Loc) : Nat := match l with | .Y => st.yld | _ => st.ctr
def St.set (st : St) (l : Loc) (v : Nat) : St := match l with | .Y => { st with yld := v } | _ => { st with ctr := v }

@[simp] theorem St.get_ctr (st : St) (k : Nat) : st.get (.ctr k) = st.ctr := rfl
@[simp] theorem St.set_ctr (st : St) (k v : Nat) : st.set (.ctr k) v = { st with ctr := v } := rfl
@[simp] theorem St.get_R (st : St) : st.get .R = st.ctr := rfl
@[simp] theorem St.set_R (st : St) (v : Nat) : st.set .R v = { st with ctr := v } := rfl
@[simp] theorem St.get_Y (st : St) : st.get .Y = st.yld := rfl
@[simp] theorem St.set_Y (st : St) (v : Nat) : st.set .Y v = { st with yld := v } := rfl

def m_fetch_add (h : AtomicH) (n : Nat) (o : Ord) : M Nat := fun st =>
  .ok (st.get h.loc) { (st.set h.loc (wrapAdd (st.get h.loc) n)) with evs := st.evs ++ [.faa h.loc o (st.get h.loc) n] }
def m_swap (h : AtomicH) (v : Nat) (o : Ord) : M Nat := fun st =>
  .ok (st.get h.loc) { (st.set h.loc v) with evs := st.evs ++ [.swp h.loc o (st.get h.loc) v] }

class MLoad (H : Type) (V : outParam Type) where
  m_load : H → Ord → M V
export MLoad (m_load)
class MStore (H : Type) (V : outParam Type) where
  m_store : H → V → Ord → M Unit
export MStore (m_store)

instance : MLoad AtomicH Nat := ⟨fun h o st => .ok (st.get h.loc) { st with evs := st.evs ++ [.ld h.loc o (st.get h.loc)] }⟩
instance : MStore AtomicH Nat := ⟨fun h v o st => .ok () { (st.set h.loc v) with evs := st.evs ++ [.st h.loc o v] }⟩
instance : MLoad AtomicBoolH Bool :=
  ⟨fun h o st => .ok st.completed { st with evs := st.evs ++ [.ld h.loc o (if st.completed then 1 else 0)] }⟩
instance : MStore AtomicBoolH Bool :=
  ⟨fun h v o st => .ok () { st with completed := v, evs := st.evs ++ [.st h.loc o (if v then 1 else 0)] }⟩

/-- the variants of `HasMore` (src/has_more.rs) -/
def HasMore_Maybe : HasMore := .maybe
def HasMore_No : HasMore := .no
def HasMore_Yes (n : Nat) : M HasMore := pure (.yes n)

def ManuallyDrop_new {α : Type} (a : α) : M α := pure a
/-- `Iterator::size_hint` of the iterator about to be wrapped -/
def m_size_hint (w : WrappedIt) : M (Nat × Option Nat) := pure w.hint

class MAsSlice (C : Type) where
  m_as_slice : C → M SliceObj
export MAsSlice (m_as_slice)
/-- `Vec::as_slice` / `<[T; N]>::as_slice`: the same elements, in place -/
instance : MAsSlice VecObj := ⟨fun v => pure ⟨v.len⟩⟩
instance : MAsSlice ArrObj := ⟨fun v => pure ⟨v.len⟩⟩

/-- `Range<usize>::clone` -/
def m_clone (r : RangeObj) : M RangeObj := pure r

/-- every `BufferedChunk::chunk_size` returns the stored chunk size (each is also translated: `Buf*.chunk_size`) -/
def BufAny.chunk_size (b : BufSelf) : M Nat := pure b.chunk_size

end Orx.RS
