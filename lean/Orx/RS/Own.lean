import Orx.RS.Prim
/-! # Ownership prelude: the translation target for the *owner-side* code of the consuming kinds
(`tools/rs2lean.py`, third pass, `Generated/Own.lean`)

`Drop for ConIterOfVec / ConIterOfArray`, `into_seq_iter`, `split_off_right`, `take_one`, `take_slice`, `early_exit` and the
chunk iterator `Taken` (`new`, `next`, `size_hint`, `drop`) move elements out of a storage through raw pointers, destroy
them in place, take a `Vec` out of a `ManuallyDrop` and put it back, split it, and rely on locals being dropped at the end
of their scope — also when a destructor panics. The arithmetic monad of `Prim.lean` sees none of this. Here the state is

* `vac`  — positions whose element has been **moved out of the original storage** (`ptr::read`, `Vec::split_off`);
* `dr`   — positions whose element has been **destroyed**;
* `heap` — allocations and releases of heap blocks, by role;
* `cell` — what the `UnsafeCell<ManuallyDrop<..>>` of the iterator holds (`none` while the vector is taken out);
* `owned`— the owned locals with a destructor that are alive (Rust drops them at scope end *and while unwinding*);
* `dpanic` — fault injection: the `k`-th destruction from now on panics.

A step that touches an element checks the ownership discipline and **faults** when it is violated: reading a vacated or
destroyed slot, destroying an element twice, destroying a vacated slot in place. "The function never faults" is therefore a
memory-safety statement about the translated source, for all lengths / counters / injected panics.

Unwinding is a result of its own (`Res.unwind`): `bind` propagates it, `m_fn` — a function boundary — first drops the
function's live owned locals (what rustc's landing pads do), `ptr_drop_in_place` and the drop of a `Vec` keep destroying
the remaining elements before they re-raise (what std does).

Hand-written and part of the trusted base, like `Prim.lean`. -/
namespace Orx.RSO
open Orx
open Orx.RS (Fault AtomicH CounterSelf Ord3 Next NextChunk)

inductive AEv where
  | alloc (role : Nat)
  | free (role : Nat)
  deriving DecidableEq, Repr

/-- an owned `Vec<T>` (or `vec::IntoIter<T>`) holding the elements of the source positions `[base, base + len)` in a heap
block of `cap` elements (`cap = 0`: no block), `role` says which block (0: the consumed vector's buffer, 1: a remainder) -/
structure VecVal where
  base : Nat
  len : Nat
  cap : Nat
  role : Nat
  deriving DecidableEq, Repr

structure OSt where
  ctr : Nat := 0
  evs : List Ev := []
  vac : List Nat := []
  dr : List Nat := []
  heap : List AEv := []
  cell : Option VecVal := none
  scratch : Option Nat := none            -- the `MaybeUninit<T>` local of `take_one`
  owned : List (Nat × VecVal) := []       -- live owned locals, innermost first (id given by the translator)
  dpanic : Option Nat := none
  deriving Repr

inductive Flow (ρ α : Type) where
  | norm (a : α)
  | retn (r : ρ)
  | brk

inductive Res (α : Type) where
  | ok (a : α) (s : OSt)
  | unwind (s : OSt)
  | fail (f : Fault)

def PF (ρ α : Type) : Type := OSt → Res (Flow ρ α)

def PF.bind {ρ α β : Type} (m : PF ρ α) (f : α → PF ρ β) : PF ρ β := fun s =>
  match m s with
  | .ok (.norm a) s' => f a s'
  | .ok (.retn r) s' => .ok (.retn r) s'
  | .ok .brk s' => .ok .brk s'
  | .unwind s' => .unwind s'
  | .fail e => .fail e

instance {ρ : Type} : Monad (PF ρ) where
  pure a := fun s => .ok (.norm a) s
  bind := PF.bind

variable {ρ : Type}

def failWith {α : Type} (f : Fault) : PF ρ α := fun _ => .fail f

@[simp] theorem pure_run {α : Type} (a : α) (s : OSt) : (pure a : PF ρ α) s = .ok (.norm a) s := rfl
@[simp] theorem bind_run {α β : Type} (m : PF ρ α) (f : α → PF ρ β) (s : OSt) :
    (m >>= f) s = match m s with
      | .ok (.norm a) s' => f a s'
      | .ok (.retn r) s' => .ok (.retn r) s'
      | .ok .brk s' => .ok .brk s'
      | .unwind s' => .unwind s'
      | .fail e => .fail e := rfl

/-! ## destruction -/

/-- one destruction: the fault-injection counter ticks; returns whether this destruction panics -/
def tick (d : Option Nat) : Option Nat × Bool :=
  match d with
  | none => (none, false)
  | some 0 => (none, true)
  | some (k + 1) => (some k, false)

/-- destroy the elements at positions `ps`, in order. `inPlace`: through a pointer into the original storage (a vacated
slot must not be destroyed). A panicking destructor does not stop the others (`drop_in_place` of a slice, `Drop for Vec`,
`Drop for IntoIter`); the result says whether one panicked. A second destruction of an element is a fault. -/
def destroy (inPlace : Bool) : List Nat → OSt → Bool → Option (OSt × Bool)
  | [], s, p => some (s, p)
  | x :: xs, s, p =>
    if x ∈ s.dr ∨ (inPlace = true ∧ x ∈ s.vac) then none
    else
      let (d, pk) := tick s.dpanic
      destroy inPlace xs { s with dr := s.dr ++ [x], dpanic := d } (p || pk)

def rangeList (b e : Nat) : List Nat := (List.range (e - b)).map (· + b)

/-- dropping an owned `Vec` / `IntoIter`: its elements are destroyed, then its block is released — also when one of the
destructors panicked (std: `RawVec` is dropped by a guard) -/
def dropVec (v : VecVal) (s : OSt) : Option (OSt × Bool) :=
  match destroy false (rangeList v.base (v.base + v.len)) s false with
  | none => none
  | some (s', p) => some ({ s' with heap := s'.heap ++ (if 0 < v.cap then [.free v.role] else []) }, p)

/-- drop the live owned locals above height `h`, innermost (the head) first (a landing pad) -/
def cleanup : Nat → Nat → OSt → Option OSt
  | 0, _, s => some s
  | fuel + 1, h, s =>
    if s.owned.length ≤ h then some s
    else match s.owned with
      | [] => some s
      | (_, v) :: rest =>
        match dropVec v { s with owned := rest } with
        | none => none
        | some (s', _) => cleanup fuel h s'      -- a second panic while unwinding would abort; not modelled

/-- a function body: `return r` and falling off the end are the same; an unwinding body first drops the function's live
owned locals -/
def m_fn {ρ' : Type} (body : PF ρ ρ) : PF ρ' ρ := fun s =>
  match body s with
  | .ok (.norm a) s' => .ok (.norm a) s'
  | .ok (.retn r) s' => .ok (.norm r) s'
  | .ok .brk _ => .fail .unsupported
  | .unwind s' =>
    match cleanup (s'.owned.length + 1) s.owned.length s' with
    | some s'' => .unwind s''
    | none => .fail .precondition
  | .fail e => .fail e

def m_return {α : Type} (r : ρ) : PF ρ α := fun s => .ok (.retn r) s
def m_unsupported {α : Type} (_what : String) : PF ρ α := failWith .unsupported
def m_the {α : Type} (o : Option α) : PF ρ α := fun s =>
  match o with
  | some a => .ok (.norm a) s
  | none => .fail .unsupported

/-! ## owned locals (emitted by the translator around `let` bindings of type `Vec<T>`) -/

def setFirst (id : Nat) (v : VecVal) : List (Nat × VecVal) → List (Nat × VecVal)
  | [] => []
  | e :: es => if e.1 = id then (id, v) :: es else e :: setFirst id v es

def m_owned_push (id : Nat) (v : VecVal) : PF ρ Unit := fun s => .ok (.norm ()) { s with owned := (id, v) :: s.owned }
/-- the local was mutated (`set_len`, `split_off`) -/
def m_owned_set (id : Nat) (v : VecVal) : PF ρ Unit := fun s => .ok (.norm ()) { s with owned := setFirst id v s.owned }
/-- the local was moved (returned, passed by value): no destructor runs for it here -/
def m_owned_forget (id : Nat) : PF ρ Unit := fun s =>
  .ok (.norm ()) { s with owned := s.owned.eraseP fun e => e.1 = id }
/-- end of the local's scope -/
def m_owned_drop (id : Nat) : PF ρ Unit := fun s =>
  match s.owned.find? (fun e => e.1 = id) with
  | none => .fail .unsupported
  | some (_, v) =>
    match dropVec v { s with owned := s.owned.eraseP fun e => e.1 = id } with
    | none => .fail .precondition
    | some (s', false) => .ok (.norm ()) s'
    | some (s', true) => .unwind s'

/-! ## objects -/

/-- the `UnsafeCell<ManuallyDrop<Vec<T>>>` / `UnsafeCell<ManuallyDrop<[T; N]>>` field of the iterator -/
structure CellH where
  deriving Repr, Inhabited

structure VecSelf where
  vec : CellH := {}
  vec_len : Nat
  counter : CounterSelf := {}
  deriving Repr

structure ArrSelf where
  array : CellH := {}
  counter : CounterSelf := {}
  deriving Repr

/-- a raw pointer into the original storage: `off` elements from its start, `cap` elements long -/
structure Ptr where
  cap : Nat
  off : Nat
  deriving Repr, DecidableEq

/-- `Taken<T>` (taken.rs) -/
structure Taken where
  ptr : Ptr
  len : Nat
  idx : Nat
  deriving Repr, DecidableEq

/-- a raw slice `*mut [T]` -/
structure RawSlice where
  lo : Nat
  hi : Nat
  deriving Repr, DecidableEq

/-! ## `usize`, `Option` -/

def op_add (a b : Nat) : PF ρ Nat := fun s => if a + b < W then .ok (.norm (a + b)) s else .fail .overflow
def op_sub (a b : Nat) : PF ρ Nat := fun s => if b ≤ a then .ok (.norm (a - b)) s else .fail .overflow
def op_lt (a b : Nat) : PF ρ Bool := pure (decide (a < b))
def op_le (a b : Nat) : PF ρ Bool := pure (decide (a ≤ b))
def op_gt (a b : Nat) : PF ρ Bool := pure (decide (a > b))
def op_ge (a b : Nat) : PF ρ Bool := pure (decide (a ≥ b))
def op_eq (a b : Nat) : PF ρ Bool := pure (decide (a = b))
def op_ne (a b : Nat) : PF ρ Bool := pure (decide (a ≠ b))
def op_not (a : Bool) : PF ρ Bool := pure (!a)
def m_saturating_add (a b : Nat) : PF ρ Nat := pure (satAdd a b)
def m_min (a b : Nat) : PF ρ Nat := pure (min a b)
def m_max (a b : Nat) : PF ρ Nat := pure (max a b)
def m_cmp (a b : Nat) : PF ρ Ord3 := pure (if a < b then .less else if a = b then .equal else .greater)
def m_assert (c : Bool) : PF ρ Unit := fun s => if c = true then .ok (.norm ()) s else .fail .assertion
def m_debug_assert (c : Bool) : PF ρ Unit := fun s => if c = true then .ok (.norm ()) s else .fail .assertion
def m_unwrap_or {α : Type} (o : Option α) (d : α) : PF ρ α := pure (o.getD d)

class MMap (ρ : Type) (C : Type) (A : outParam Type) (B : Type) (R : outParam Type) where
  m_map : C → (A → PF ρ B) → PF ρ R
export MMap (m_map)

instance {α β : Type} : MMap ρ (Option α) α β (Option β) where
  m_map o f := match o with
    | none => pure none
    | some a => do let b ← f a; pure (some b)

/-- `lo..hi` -/
def m_range (lo hi : Nat) : PF ρ RawSlice := pure ⟨lo, hi⟩

def mapAux {β : Type} (f : Nat → PF ρ β) : List Nat → List β → PF ρ (List β)
  | [], acc => pure acc
  | i :: is, acc => do
    let b ← f i
    mapAux f is (acc ++ [b])

/-- `(lo..hi).map(f)` followed by `collect`: the closure runs once per index, in order (the laziness of `map` is not
observable here: nothing happens between the two calls) -/
instance {β : Type} : MMap ρ RawSlice Nat β (List β) where
  m_map r f := mapAux f (rangeList r.lo r.hi) []

/-- `collect::<Vec<T>>()` of elements moved out one by one: a new vector owning them (a heap block iff non-empty). The
elements must be consecutive source positions (everything else is outside the model: fault) -/
def m_collect (l : List Nat) : PF ρ VecVal := fun s =>
  match l with
  | [] => .ok (.norm ⟨0, 0, 0, 1⟩) s
  | a :: _ =>
    if l = rangeList a (a + l.length) then
      .ok (.norm ⟨a, l.length, l.length, 1⟩) { s with heap := s.heap ++ [.alloc 1] }
    else .fail .unsupported

/-! ## the storage cell, vectors, raw pointers -/

def m_get_mut (h : CellH) : PF ρ CellH := pure h

/-- `ManuallyDrop::take(slot)`: the vector is copied out; the slot must hold one (taking twice duplicates ownership) -/
def ManuallyDrop_take (_h : CellH) : PF ρ VecVal := fun s =>
  match s.cell with
  | some v => .ok (.norm v) { s with cell := none }
  | none => .fail .precondition
def ManuallyDrop_new (v : VecVal) : PF ρ VecVal := pure v
/-- `*slot = ManuallyDrop::new(v)` (the overwritten `ManuallyDrop` has no destructor) -/
def m_write_cell (_h : CellH) (v : VecVal) : PF ρ Unit := fun s => .ok (.norm ()) { s with cell := some v }

class MLen (ρ : Type) (C : Type) where
  m_len : C → PF ρ Nat
export MLen (m_len)
instance : MLen ρ VecVal := ⟨fun v => pure v.len⟩
/-- `len()` of the vector / array behind the cell (a taken-out vector must not be looked at) -/
instance : MLen ρ CellH := ⟨fun _ s => match s.cell with
  | some v => .ok (.norm v.len) s
  | none => .fail .precondition⟩

class MAsMutPtr (ρ : Type) (C : Type) where
  m_as_mut_ptr : C → PF ρ Ptr
export MAsMutPtr (m_as_mut_ptr)
/-- only the original storage (base 0) is ever addressed through raw pointers -/
instance : MAsMutPtr ρ VecVal := ⟨fun v s => if v.base = 0 then .ok (.norm ⟨v.cap, 0⟩) s else .fail .unsupported⟩
instance : MAsMutPtr ρ CellH := ⟨fun _ s => match s.cell with
  | some v => if v.base = 0 then .ok (.norm ⟨v.cap, 0⟩) s else .fail .unsupported
  | none => .fail .precondition⟩

/-- `Vec::set_len(n)`: `n ≤ capacity`; the elements behind `n` are forgotten by the vector (not destroyed) -/
def m_set_len (v : VecVal) (n : Nat) : PF ρ (Unit × VecVal) := fun s =>
  if n ≤ v.cap then .ok (.norm ((), { v with len := n })) s else .fail .precondition

/-- `Vec::split_off(at)`: panics if `at > len`; the right part is copied into a new vector (`with_capacity(len - at)`:
a block iff non-empty), the elements leave the original storage
(they must still be there: copying a vacated or destroyed slot would duplicate an owner) -/
def m_split_off (v : VecVal) (at_ : Nat) : PF ρ (VecVal × VecVal) := fun s =>
  if at_ ≤ v.len ∧ ∀ p ∈ rangeList (v.base + at_) (v.base + v.len), p ∉ s.vac ∧ p ∉ s.dr then
    .ok (.norm (⟨v.base + at_, v.len - at_, v.len - at_, 1⟩, { v with len := at_ }))
      { s with vac := s.vac ++ rangeList (v.base + at_) (v.base + v.len),
               heap := s.heap ++ (if at_ < v.len then [.alloc 1] else []) }
  else .fail .index

def m_into_iter (v : VecVal) : PF ρ VecVal := pure v

/-- what the caller of `into_seq_iter` does with the returned `vec::IntoIter` (std, not crate code): it takes the first
`k` elements (all of them for `none`) and drops the iterator, which destroys the others and releases the block -/
def seqCount (v : VecVal) (k : Option Nat) : Nat :=
  match k with
  | none => v.len
  | some k => min k v.len

def seqConsume (v : VecVal) (k : Option Nat) : PF ρ (List Nat) := fun s =>
  let j := seqCount v k
  match dropVec { v with base := v.base + j, len := v.len - j } s with
  | none => .fail .precondition
  | some (s', false) => .ok (.norm (rangeList v.base (v.base + j))) s'
  | some (s', true) => .unwind s'

/-- `ptr.add(i)`: the result must stay within the allocation (one past the end allowed) -/
def m_add (p : Ptr) (i : Nat) : PF ρ Ptr := fun s =>
  if p.off + i ≤ p.cap then .ok (.norm ⟨p.cap, p.off + i⟩) s else .fail .precondition

/-- `ptr.read()`: moves the element out of its slot: the slot must be in range and hold an element -/
def m_read (p : Ptr) : PF ρ Nat := fun s =>
  if p.off < p.cap ∧ p.off ∉ s.vac ∧ p.off ∉ s.dr then .ok (.norm p.off) { s with vac := s.vac ++ [p.off] }
  else .fail .precondition

def ptr_slice_from_raw_parts_mut (p : Ptr) (len : Nat) : PF ρ RawSlice := fun s =>
  if p.off + len ≤ p.cap then .ok (.norm ⟨p.off, p.off + len⟩) s else .fail .precondition

/-- `ptr::drop_in_place(slice)`: every element is destroyed, a panic of one of them is re-raised afterwards -/
def ptr_drop_in_place (r : RawSlice) : PF ρ Unit := fun s =>
  match destroy true (rangeList r.lo r.hi) s false with
  | none => .fail .precondition
  | some (s', false) => .ok (.norm ()) s'
  | some (s', true) => .unwind s'

/-! ### the `MaybeUninit` dance of `take_one` -/

structure MaybeUninitH where
  deriving Repr
structure DstPtr where
  deriving Repr
def MaybeUninit_uninit (_ : Unit) : PF ρ MaybeUninitH := fun s => .ok (.norm {}) { s with scratch := none }
instance : MAsMutPtr ρ MaybeUninitH := ⟨fun _ => pure ⟨0, 0⟩⟩
/-- `dst.write(x)` into the `MaybeUninit` local -/
def m_write (_p : Ptr) (x : Nat) : PF ρ Unit := fun s => .ok (.norm ()) { s with scratch := some x }
/-- `assume_init()`: the value must have been written -/
def m_assume_init (_h : MaybeUninitH) : PF ρ Nat := fun s =>
  match s.scratch with
  | some x => .ok (.norm x) { s with scratch := none }
  | none => .fail .precondition

/-- `mem::forget(x)`: `x` is moved and no destructor runs for it (the translator does not emit `x`'s drop then) -/
def mem_forget {α : Type} (_x : α) : PF ρ Unit := pure ()

/-! ## atomics -/

def m_fetch_add (h : AtomicH) (n : Nat) (o : Ord) : PF ρ Nat := fun st =>
  .ok (.norm st.ctr) { st with ctr := wrapAdd st.ctr n, evs := st.evs ++ [.faa h.loc o st.ctr n] }
def m_swap (h : AtomicH) (v : Nat) (o : Ord) : PF ρ Nat := fun st =>
  .ok (.norm st.ctr) { st with ctr := v, evs := st.evs ++ [.swp h.loc o st.ctr v] }
def m_load (h : AtomicH) (o : Ord) : PF ρ Nat := fun st =>
  .ok (.norm st.ctr) { st with evs := st.evs ++ [.ld h.loc o st.ctr] }

end Orx.RSO
