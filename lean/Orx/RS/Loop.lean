import Orx.RS.Prim
import Orx.KS
/-! # Loop prelude: the translation target for the default loops (`src/iter/default_fns/{for_each,fold}.rs`)
(`tools/rs2lean.py`, fourth pass, `Generated/Loops.lean`)

`for_each`, `enumerate_for_each` and `fold` are generic over the concurrent iterator: they use it only through
`next()`, `next_id_and_value()`, `buffered_iter(n)` and the buffered iterator's `next()`. For the four known-size kinds each
of these is **one atomic `fetch_add` on the position counter followed by local arithmetic** — proved for every machine-word
input about the translated source in `GenThms/{Slice,Vec,Arr,Range}.lean` (`K_fetch_one`, `K_buffered_next`). The primitives
below are exactly those statements turned into tree nodes: a `faa` node whose child is chosen by the value the access read —
chosen by the other threads —, continued by the value the model's `Atom` computes from it.

A loop then denotes a tree: `faa` nodes (pulls) and `visit` nodes (calls of the user's closure; the child says whether the
call returns or panics). One root-to-leaf path is one possible execution of the calling thread under some interleaving.

Hand-written and part of the trusted base, like `Prim.lean` and `Prog.lean`. -/
namespace Orx.RSL
open Orx
open Orx.RS (NextChunk Next Span)

inductive LProg (α : Type) : Type where
  | ret (a : α)
  | faa (o : Ord) (n : Nat) (k : Nat → LProg α)                 -- `fetch_add(n, o)` on the position counter
  | visit (i : Option Nat) (p : Nat) (k : Bool → LProg α)        -- the closure is called with (the index `i` and) the element at position `p`; `true`: it panics
  | panic (msg : String)
  | spin

namespace LProg
def bind {α β : Type} : LProg α → (α → LProg β) → LProg β
  | .ret a, f => f a
  | .faa o n k, f => .faa o n (fun v => (k v).bind f)
  | .visit i p k, f => .visit i p (fun b => (k b).bind f)
  | .panic m, _ => .panic m
  | .spin, _ => .spin
end LProg

inductive Flow (ρ α : Type) where
  | norm (a : α)
  | retn (r : ρ)
  | brk

abbrev PF (ρ α : Type) : Type := LProg (Flow ρ α)

def PF.bind {ρ α β : Type} (m : PF ρ α) (f : α → PF ρ β) : PF ρ β :=
  LProg.bind m (fun x => match x with
    | .norm a => f a
    | .retn r => .ret (.retn r)
    | .brk => .ret .brk)

instance {ρ : Type} : Monad (PF ρ) where
  pure a := LProg.ret (.norm a)
  bind := PF.bind

def m_fn {ρ ρ' : Type} (body : PF ρ ρ) : PF ρ' ρ :=
  LProg.bind body (fun x => match x with
    | .norm a => .ret (.norm a)
    | .retn r => .ret (.norm r)
    | .brk => .panic "break outside of a loop")

def m_return {ρ α : Type} (r : ρ) : PF ρ α := LProg.ret (.retn r)
def m_break {ρ α : Type} : PF ρ α := LProg.ret .brk

/-- `loop { body }` with `fuel` iterations -/
def m_loop {ρ : Type} : Nat → PF ρ Unit → PF ρ Unit
  | 0, _ => LProg.spin
  | k + 1, body => LProg.bind body (fun x => match x with
    | .norm _ => m_loop k body
    | .retn r => .ret (.retn r)
    | .brk => .ret (.norm ()))

def m_break_st {σ ρ α : Type} (st : σ) : PF (Sum σ ρ) α := LProg.ret (.retn (Sum.inl st))

/-- `loop { body }` over mutable locals `st` -/
def m_loop_st {σ ρ : Type} : Nat → σ → (σ → PF (Sum σ ρ) σ) → PF ρ σ
  | 0, _, _ => LProg.spin
  | k + 1, st, body => LProg.bind (body st) (fun x => match x with
    | .norm st' => m_loop_st k st' body
    | .retn (Sum.inl st') => .ret (.norm st')
    | .retn (Sum.inr r) => .ret (.retn r)
    | .brk => .panic "break")

def m_unreachable {ρ α : Type} : PF ρ α := LProg.panic "unreachable"
def m_unsupported {ρ α : Type} (what : String) : PF ρ α := LProg.panic ("unsupported: " ++ what)
def m_the {ρ α : Type} (o : Option α) : PF ρ α :=
  match o with
  | some a => pure a
  | none => LProg.panic "unreachable"

variable {ρ : Type}

/-! ## objects -/

/-- `&I`, the shared concurrent iterator of a known-size kind: all a loop can see of it is its length -/
structure ItH where
  len : Nat
  deriving Repr

/-- `BufferedIter<'_, I::Item, I::BufferedIter>` obtained from `iter.buffered_iter(n)` -/
structure BufH where
  n : Nat
  it : ItH
  deriving Repr

/-- `Fun: FnMut(I::Item)` -/
structure Closure1 where
  deriving Repr
/-- `Fun: FnMut(usize, I::Item)` -/
structure ClosureIdx where
  deriving Repr
/-- `Fold: FnMut(B, I::Item) -> B`: what it computes from the accumulator and the element at a position -/
structure ClosureFold where
  g : Nat → Nat → Nat

/-- `ConIterValues<'a, C>` / `ConIterIdsAndValues<'a, C>`: the iterator adaptors behind `values()` / `ids_and_values()` -/
structure ValuesH where
  con_iter : ItH
  deriving Repr

def op_gt (a b : Nat) : PF ρ Bool := pure (decide (a > b))
def op_add (a b : Nat) : PF ρ Nat := if a + b < W then pure (a + b) else LProg.panic "overflow"
/-- `assert!(c, ..)` -/
def m_assert (c : Bool) : PF ρ Unit := if c then pure () else LProg.panic "assert"

/-! ## the iterator as the loops see it (each primitive = a theorem of `GenThms` about the translated source) -/

/-- `ConcurrentIter::next` (`next_id_and_value().map(|x| x.value)`, `fetch_one`): `fetch_add(1)`; the element at the value
read, if below the length -/
def ItH.next (it : ItH) : PF ρ (Option Nat) :=
  LProg.faa .acqrel 1 (fun c => LProg.ret (.norm (if c < it.len then some c else none)))

/-- `next_id_and_value` -/
def m_next_id_and_value (it : ItH) : PF ρ (Option (Next Nat)) :=
  LProg.faa .acqrel 1 (fun c => LProg.ret (.norm (if c < it.len then some ⟨c, c⟩ else none)))

/-- `iter.buffered_iter(chunk_size)` (`BufferedIter::new` asserts `chunk_size > 0`) -/
def m_buffered_iter (it : ItH) (n : Nat) : PF ρ BufH := if 0 < n then pure ⟨n, it⟩ else LProg.panic "assert"

/-- `BufferedIter::next`: `fetch_add(chunk_size)`; the chunk `[c, min(c + n, len))` if the value read is below the length -/
def BufH.next (b : BufH) : PF ρ (Option (NextChunk Span)) :=
  LProg.faa .acqrel b.n (fun c => LProg.ret (.norm (if c < b.it.len then some ⟨c, ⟨c, (KS.pullRange b.it.len c b.n).2⟩⟩ else none)))

class MNext (ρ : Type) (C : Type) (R : outParam Type) where
  m_next : C → PF ρ R
export MNext (m_next)
instance : MNext ρ ItH (Option Nat) := ⟨ItH.next⟩
instance : MNext ρ BufH (Option (NextChunk Span)) := ⟨BufH.next⟩

/-- `Option::map` -/
def m_map {α β : Type} (o : Option α) (f : α → PF ρ β) : PF ρ (Option β) :=
  match o with
  | none => pure none
  | some a => do
    let b ← f a
    pure (some b)

/-! ## calling the user's closure -/

def m_call1 (_f : Closure1) (p : Nat) : PF ρ Unit :=
  LProg.visit none p (fun pk => if pk then LProg.panic "closure" else LProg.ret (.norm ()))

class MCall2 (ρ : Type) (F : Type) (R : outParam Type) where
  m_call2 : F → Nat → Nat → PF ρ R
export MCall2 (m_call2)
instance : MCall2 ρ ClosureIdx Unit :=
  ⟨fun _ i p => LProg.visit (some i) p (fun pk => if pk then LProg.panic "closure" else LProg.ret (.norm ()))⟩
instance : MCall2 ρ ClosureFold Nat :=
  ⟨fun f acc p => LProg.visit none p (fun pk => if pk then LProg.panic "closure" else LProg.ret (.norm (f.g acc p)))⟩

/-! ## std iterators over a chunk's values -/

def spanList (s : Span) : List Nat := KS.rangeList s.lo s.hi

def forEachAux (f : Nat → PF ρ Unit) : List Nat → PF ρ Unit
  | [] => pure ()
  | p :: ps => do
    f p
    forEachAux f ps

/-- `Iterator::for_each(&mut f)` on a chunk's values: `f` on every element, in order -/
def m_for_each (s : Span) (f : Closure1) : PF ρ Unit := forEachAux (m_call1 f) (spanList s)

/-- `Iterator::enumerate` -/
def m_enumerate (s : Span) : PF ρ (List (Nat × Nat)) := pure ((spanList s).zipIdx.map fun (p, i) => (i, p))

class MForIn (ρ : Type) (C : Type) (A : outParam Type) where
  m_for_in : C → (A → PF ρ Unit) → PF ρ Unit
  m_for_in_st : {σ : Type} → C → σ → (σ → A → PF ρ σ) → PF ρ σ
export MForIn (m_for_in m_for_in_st)

def forInAux {A : Type} (f : A → PF ρ Unit) : List A → PF ρ Unit
  | [] => pure ()
  | a :: as => do
    f a
    forInAux f as

def forInStAux {A σ : Type} (f : σ → A → PF ρ σ) : List A → σ → PF ρ σ
  | [], st => pure st
  | a :: as, st => do
    let st' ← f st a
    forInStAux f as st'

/-- `for x in list { body }` (no `break` / `return` in the body) -/
instance {A : Type} : MForIn ρ (List A) A := ⟨fun l f => forInAux f l, fun l st f => forInStAux f l st⟩
instance : MForIn ρ Span Nat := ⟨fun s f => forInAux f (spanList s), fun s st f => forInStAux f (spanList s) st⟩

end Orx.RSL
