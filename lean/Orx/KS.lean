import Orx.Basic
/-! # Known-size kinds (slice, vec, array, range and cloned/copied over them)

Every public operation performs exactly one atomic access on the position counter (fact F-A of
DESIGN.md), so the model is: a pure *atomic action* on the counter (`Atom`), and a thread machine that
performs one `call` step and then one atomic step per pull. The definitions mirror
`src/iter/implementors/{slice,vec,array,range}.rs` and `src/iter/buffered/*.rs`. -/
namespace Orx

inductive KKind where
  | slice | vec | array | range
  deriving Repr, DecidableEq, Inhabited

structure KSrc where
  kind : KKind := .slice
  vals : List Nat := []       -- payloads (slice / vec / array)
  start : Nat := 0            -- range bounds (words)
  stop : Nat := 0
  adapt : Adapt := .none
  slots : Nat := 1
  dpanic : Option Nat := none   -- fault injection: the `k`-th destruction of an element panics (KSFault.lean)
  deriving Repr, Inhabited

namespace KSrc

/-- `initial_len()`; for a range `end.saturating_sub(start)` -/
def len (s : KSrc) : Nat :=
  match s.kind with
  | .range => s.stop - s.start
  | _ => s.vals.length

/-- payload at position `i` (meaningful for `i < len`) -/
def valAt (s : KSrc) (i : Nat) : Nat :=
  match s.kind with
  | .range => s.start + i
  | _ => s.vals.getD i 0

/-- consuming kinds own their elements -/
def owning (s : KSrc) : Bool :=
  match s.kind with
  | .vec | .array => true
  | _ => false

end KSrc

namespace KS

/-- Positions `[b, e)` handed out by a chunk pull of size `n` when the counter reads `c`
(`fetch_n` of slice.rs / vec.rs / array.rs / range.rs, and the buffered `pull`s):
`b = progress_and_get_begin_idx(n).unwrap_or(len)`, `e = (b saturating+ n).min(len).max(b)`. -/
def pullRange (len c n : Nat) : Nat × Nat :=
  let b := if c < len then c else len
  let e := max (min (satAdd b n) len) b
  (b, e)

/-- The one atomic access of an operation. -/
inductive Atom where
  | one                -- `fetch_one`: `fetch_add(1)`
  | many (n : Nat)     -- `fetch_n(n)` / buffered pull: `fetch_add(n)`
  | skip               -- `early_exit`: `store(len)`
  | query              -- `try_get_len` / `into_seq_iter` / drop / clone: a load
  deriving Repr, DecidableEq

/-- counter after the access -/
def Atom.next (len c : Nat) : Atom → Nat
  | .one => wrapAdd c 1
  | .many n => wrapAdd c n
  | .skip => len
  | .query => c

/-- positions `[b,e)` delivered by the access -/
def Atom.range (len c : Nat) : Atom → Nat × Nat
  | .one => if c < len then (c, c + 1) else (len, len)
  | .many n => pullRange len c n
  | _ => (min c len, min c len)

/-- `try_get_len` from a loaded counter value -/
def lenOf (len c : Nat) : Nat := if c < len then len - c else 0

def hasMoreOf (n : Nat) : HasMore := if n = 0 then .no else .yes n

/-- thread program counter -/
inductive Pc where
  | idle                                   -- at an op boundary
  | atom (op : SOp)                        -- called; the next step is the op's atomic access
  | loop (op : SOp) (visits sum : Nat)     -- inside for_each / fold / values: next step is one pull
  | dead                                   -- ended by a panic
  deriving Repr, DecidableEq, Inhabited

structure Thread where
  pc : Pc := .idle
  todo : List SOp := []
  buf : Option (Nat × Nat) := none         -- buffered iterator: (slot, chunk size)
  deriving Repr, Inhabited

structure Cfg where
  ctr : Nat → Nat := fun _ => 0            -- counter per iterator slot
  th : Nat → Thread := fun _ => {}
  mv : List Nat := []                      -- positions moved out to callers (in order)
  dr : List Nat := []                      -- positions dropped by the machinery (in order)
  hist : List (Nat × Nat × Atom × Nat) := []  -- ghost: (tid, slot, atom, counter read), in order
  del : List (Nat × Nat) := []             -- ghost: (slot, position) handed out by pulls, in order

def setTh (c : Cfg) (t : Nat) (x : Thread) : Cfg :=
  { c with th := fun u => if u = t then x else c.th u }

def setCtr (c : Cfg) (k v : Nat) : Cfg :=
  { c with ctr := fun j => if j = k then v else c.ctr j }

def finished (x : Thread) : Bool :=
  match x.pc with
  | .idle => x.todo.isEmpty
  | .dead => true
  | _ => false

/-- events for delivering positions `ps` to the caller (cloned adaptor: one `clone` per element) -/
def cloneEvs (s : KSrc) (ps : List Nat) : List Ev :=
  match s.adapt with
  | .cloned => ps.map fun p => .clone (s.valAt p)
  | _ => []

/-- events for the machinery dropping positions `ps` (consuming kinds only) -/
def dropEvs (s : KSrc) (ps : List Nat) : List Ev :=
  if s.owning then ps.map fun p => .drop (s.valAt p) else []

def rangeList (b e : Nat) : List Nat := (List.range (e - b)).map (· + b)

/-- how many of `a` available elements leave the chunk iterator for a consumer `k` -/
def takeCount (k : Take) (a : Nat) : Nat := k.count a

/-- the owner's `into_seq_iter().take(k)` -/
def takeCountO (k : Option Nat) (a : Nat) : Nat :=
  match k with
  | none => a
  | some k => min k a

/-- events for the elements `Iterator::nth` discards: a consuming kind's elements are destroyed; the cloned
adaptor clones each one and destroys the clone (`core::iter::Cloned` has no `nth` of its own) -/
def skipEvs (s : KSrc) (ps : List Nat) : List Ev :=
  if s.owning then ps.map fun p => .drop (s.valAt p)
  else match s.adapt with
    | .cloned => ps.flatMap fun p => [.clone (s.valAt p), .dropc (s.valAt p)]
    | _ => []

def add64 (a b : Nat) : Nat := (a + b) % W

/-- Result of the visiting closure over positions `ps` starting at invocation count `visits`:
events, new visit count, new sum, and whether it panicked (and after how many of `ps`). -/
def visitAll (s : KSrc) (withIdx : Bool) (panicAt : Option Nat) :
    List Nat → Nat → Nat → List Ev → (List Ev × Nat × Nat × Option Nat)
  | [], visits, sum, acc => (acc, visits, sum, none)
  | p :: ps, visits, sum, acc =>
    let v := s.valAt p
    let acc := acc ++ (cloneEvs s [p]) ++ [Ev.visit (if withIdx then some p else none) v]
    if panicAt = some visits then (acc, visits + 1, add64 sum v, some (ps.length))
    else visitAll s withIdx panicAt ps (visits + 1) (add64 sum v) acc

def loopParams : Op → Option (Nat × Bool × Option Nat × Bool)   -- chunk size, with index, panicAt, isFold
  | .foreach n p => some (n, false, p, false)
  | .enumforeach n p => some (n, true, p, false)
  | .fold n => some (n, false, none, true)
  | .values => some (1, false, none, false)
  | .idsvalues => some (1, true, none, false)
  | _ => none

/-- perform the atomic access `a` of thread `t` on the counter of slot `k` (with the ghost records) -/
def applyAtom (len : Nat) (c : Cfg) (t k : Nat) (a : Atom) : Cfg :=
  let cv := c.ctr k
  { c with ctr := fun j => if j = k then a.next len cv else c.ctr j
           hist := c.hist ++ [(t, k, a, cv)]
           del := c.del ++ (rangeList (a.range len cv).1 (a.range len cv).2).map fun p => (k, p) }

/-- which atomic access (slot, atom) the next step of a thread in state `x` performs, if any -/
def stepAtom (x : Thread) : Option (Nat × Atom) :=
  match x.pc with
  | .atom o =>
    match o.op with
    | .next | .nextv => some (o.slot, .one)
    | .chunk n _ => some (o.slot, .many n)
    | .bufnext _ =>
      match x.buf with
      | some (bk, n) => some (bk, .many n)
      | none => none
    | .skip => some (o.slot, .skip)
    | .len | .hasmore | .clone _ => some (o.slot, .query)
    | _ => none
  | .loop o _ _ =>
    match loopParams o.op with
    | some (n, _, _, _) => some (o.slot, if n = 1 then .one else .many n)
    | none => none
  | _ => none

/-- Everything of a step except the atomic access itself: `c0` is the configuration before the step
(for reading the counter value the access saw), `c` the configuration after `applyAtom`. -/
def stepRest (s : KSrc) (t : Nat) (c0 c : Cfg) : Cfg × List Ev :=
  let x := c0.th t
  let len := s.len
  match x.pc with
  | .dead => (c, [])
  | .idle =>
    match x.todo with
    | [] => (c, [])
    | o :: rest =>
      let x := { x with todo := rest }
      let callEv := Ev.call o
      match o.op with
      | .bufnew n =>
        if n = 0 then (setTh c t { x with pc := .dead }, [callEv, .panic "chunksize"])
        else (setTh c t { x with buf := some (o.slot, n) }, [callEv, .ret .unit])
      | .bufdrop => (setTh c t { x with buf := none }, [callEv, .ret .unit])
      | .get i =>
        -- `AtomicIter::get`: no atomic access; on consuming kinds it moves the element out (again)
        if i < len then
          let c := if s.owning then { c with mv := c.mv ++ [i] } else c
          (setTh c t x, [callEv] ++ cloneEvs s [i] ++ [.ret (.got (some (s.valAt i)))])
        else (setTh c t x, [callEv, .ret (.got none)])
      | .bufnext _ =>
        match x.buf with
        | none => (setTh c t { x with pc := .dead }, [callEv, .panic "nobuf"])
        | some _ => (setTh c t { x with pc := .atom o }, [callEv])
      | op =>
        match loopParams op with
        | some (n, _, _, _) =>
          if n = 0 then (setTh c t { x with pc := .dead }, [callEv, .panic "chunksize"])
          else (setTh c t { x with pc := .loop o 0 0 }, [callEv])
        | none => (setTh c t { x with pc := .atom o }, [callEv])
  | .atom o =>
    let k := o.slot
    let cv := c0.ctr k
    let done := fun (c : Cfg) (evs : List Ev) => (setTh c t { x with pc := .idle }, evs)
    match o.op with
    | .next | .nextv =>
      let ev := Ev.faa (.ctr k) .acqrel cv 1
      if cv < len then
        let c := if s.owning then { c with mv := c.mv ++ [cv] } else c
        let out := if o.op = .next then Out.item cv (s.valAt cv) else Out.value (s.valAt cv)
        done c ([ev] ++ cloneEvs s [cv] ++ [.ret out])
      else done c [ev, .ret .fin]
    | .chunk n kk =>
      let ev := Ev.faa (.ctr k) .acqrel cv n
      let b := (pullRange len cv n).1
      let e := (pullRange len cv n).2
      if b = e then done c [ev, .ret .fin]
      else
        let a := e - b
        let j := takeCount kk a
        let sk := kk.skipped a
        let skipped := rangeList b (b + sk)
        let taken := rangeList (b + sk) (b + j)
        let rest := rangeList (b + j) e
        let c := if s.owning then { c with mv := c.mv ++ taken, dr := c.dr ++ skipped ++ rest } else c
        done c ([ev] ++ skipEvs s skipped ++ cloneEvs s taken ++ dropEvs s rest ++ [.ret (.chunk b a (a - j) (taken.map s.valAt))])
    | .bufnext kk =>
      match x.buf with
      | none => done c []
      | some (bk, n) =>
        let cv := c0.ctr bk
        let ev := Ev.faa (.ctr bk) .acqrel cv n
        if cv < len then
          let b := (pullRange len cv n).1
          let e := (pullRange len cv n).2
          let a := e - b
          let j := takeCount kk a
          let sk := kk.skipped a
          let skipped := rangeList b (b + sk)
          let taken := rangeList (b + sk) (b + j)
          let rest := rangeList (b + j) e
          let c := if s.owning then { c with mv := c.mv ++ taken, dr := c.dr ++ skipped ++ rest } else c
          done c ([ev] ++ skipEvs s skipped ++ cloneEvs s taken ++ dropEvs s rest ++ [.ret (.chunk b a (a - j) (taken.map s.valAt))])
        else done c [ev, .ret .fin]
    | .skip =>
      if s.owning then
        -- vec / array: `swap(len)`; the positions from the previous counter value on are dropped here
        let skipped := rangeList (min cv len) len
        done { c with dr := c.dr ++ skipped } ([.swp (.ctr k) .acqrel cv len] ++ dropEvs s skipped ++ [.ret .unit])
      else done c [.st (.ctr k) .seqcst len, .ret .unit]
    | .len =>
      done c [.ld (.ctr k) .acquire cv, .ret (.len (some (lenOf len cv)))]
    | .hasmore =>
      done c [.ld (.ctr k) .acquire cv, .ret (.more (hasMoreOf (lenOf len cv)))]
    | .clone j =>
      done (setCtr c j cv) [.ld (.ctr k) .seqcst cv, .ret .unit]
    | _ => done c []
  | .loop o visits sum =>
    let k := o.slot
    let cv := c0.ctr k
    match loopParams o.op with
    | none => (setTh c t { x with pc := .idle }, [])
    | some (n, withIdx, panicAt, isFold) =>
      let ev := Ev.faa (.ctr k) .acqrel cv n
      if cv < len then
        let b := if n = 1 then cv else (pullRange len cv n).1
        let e := if n = 1 then cv + 1 else (pullRange len cv n).2
        let ps := rangeList b e
        let (evs, visits', sum', panicked) := visitAll s withIdx panicAt ps visits sum []
        match panicked with
        | none =>
          let c := if s.owning then { c with mv := c.mv ++ ps } else c
          (setTh c t { x with pc := .loop o visits' sum' }, [ev] ++ evs)
        | some restLen =>
          -- the closure panicked: the elements visited so far are the caller's, the rest of the
          -- chunk is dropped by the unwinding chunk iterator
          let nv := ps.length - restLen
          let taken := ps.take nv
          let rest := ps.drop nv
          let c := if s.owning then { c with mv := c.mv ++ taken, dr := c.dr ++ rest } else c
          (setTh c t { x with pc := .dead }, [ev] ++ evs ++ dropEvs s rest ++ [.panic "closure"])
      else
        let out := if isFold then Out.fold sum else Out.done
        (setTh c t { x with pc := .idle }, [ev, .ret out])

/-- One step of thread `t`: new configuration and the events it logs. -/
def step (s : KSrc) (t : Nat) (c : Cfg) : Cfg × List Ev :=
  match stepAtom (c.th t) with
  | some (k, a) => stepRest s t c (applyAtom s.len c t k a)
  | none => stepRest s t c c

/-- Owner phase on slot 0 (main thread, after all threads are done): events logged with prefix `own`. -/
def owner (s : KSrc) (c : Cfg) (op : OwnerOp) : Cfg × List Ev :=
  let len := s.len
  let cv := c.ctr 0
  let ld := Ev.ld (.ctr 0) .acquire cv
  let cur := min cv len
  match op with
  | .drop =>
    match s.kind with
    | .vec | .array =>
      let tail := rangeList cur len
      ({ c with dr := c.dr ++ tail }, [ld] ++ dropEvs s tail ++ [.ret .unit])
    | _ => (c, [.ret .unit])
  | .intoseq kk =>
    let rem := rangeList cur len
    let j := takeCountO kk rem.length
    let taken := rem.take j
    let rest := rem.drop j
    let pre := match s.kind with
      | .vec => [ld, ld]       -- into_seq_iter loads, then `Drop` of `self` loads again
      | _ => [ld]
    let c := if s.owning then { c with mv := c.mv ++ taken, dr := c.dr ++ rest } else c
    (c, pre ++ cloneEvs s taken ++ dropEvs s rest ++ [.ret (.seq (taken.map s.valAt))])

def init (_s : KSrc) (progs : Nat → List SOp) : Cfg :=
  { th := fun t => { todo := progs t } }

end KS
end Orx
