import Orx.IW.Inv
namespace Orx.IW

theorem ret_pc (x : Thread) (r : Req) (o : POut) : (ret x r o).pc = .resv r ∨ (ret x r o).pc = .idle := by
  unfold ret; split <;> simp

theorem ret_todo (x : Thread) (r : Req) (o : POut) : (ret x r o).todo = x.todo := by
  unfold ret; split <;> simp

/-- a thread that returns from a request holds no ticket; if it loops it is about to reserve again -/
theorem ret_self {s : Script} {c : Cfg} {t : Nat} (x : Thread) (r : Req) (o : POut) (R' Y' P' : Nat)
    (htodo : ∀ r' ∈ x.todo, ReqOk r') (hr : r.isLoop = true → 1 ≤ r.len) :
    SelfOk s c t (ret x r o) R' Y' P' := by
  have hpc := ret_pc x r o
  refine ⟨by simpa [ret_todo] using htodo, ?_, ?_, ?_, ?_, ?_⟩
  · intro r' he
    rcases hpc with h | h
    · rw [h] at he
      have : r' = r := by simpa using he.symm
      subst this
      apply hr
      unfold ret at h
      split at h
      · rename_i hc; exact hc.1
      · simp at h
    · rw [h] at he; simp at he
  · intro b n hb; rcases hpc with h | h <;> simp [h, Pc.ticket] at hb
  · intro r' b acc he; rcases hpc with h | h <;> simp [h] at he
  · intro r' b acc he; rcases hpc with h | h <;> simp [h] at he
  · intro r' b he; rcases hpc with h | h <;> simp [h] at he

theorem ret_inCS (x : Thread) (r : Req) (o : POut) : (ret x r o).pc.inCS = false := by
  rcases ret_pc x r o with h | h <;> simp [h, Pc.inCS]

theorem step_inv {s : Script} (hf : Fused s) {c : Cfg} (h : Inv s c) (hW : c.R < W) (t : Nat) : Inv s (step s t c) := by
  unfold step
  generalize hx : c.th t = x
  obtain ⟨pc, todo, outs⟩ := x
  have htodo0 : ∀ r' ∈ todo, ReqOk r' := fun r' hr' => h.todoOk t r' (by simp [hx, hr'])
  have hidle0 : (pc.inCS = false) → ∀ (x' : Thread), x'.pc.inCS = false → (∀ u, u ≠ t → (c.th u).pc.inCS = false) →
      NoNoneBefore s c.P → c.P = c.Y := by
    intro hpc _ _ hall hnn
    apply h.pidle _ hnn
    intro u
    by_cases hu : u = t
    · subst hu; simp [hx, hpc]
    · exact hall u hu
  cases pc with
  | idle =>
    cases todo with
    | nil => simpa using h
    | cons r rest =>
      have hr : ReqOk r := htodo0 r (by simp)
      have hrest : ∀ r' ∈ rest, ReqOk r' := fun r' hr' => htodo0 r' (by simp [hr'])
      cases r with
      | skip =>
        simp only
        rw [← cfg_eta c]
        refine inv_update h t _ c.R c.Y c.C c.P h.yr (Nat.le_refl _) ⟨hrest, by simp, ?_, by simp, by simp, by simp⟩ (oth_same h t) (hidle0 (by simp [Pc.inCS]) _)
        intro b n hb; simp [Pc.ticket] at hb
      | single l =>
        simp only
        rw [← cfg_eta c]
        refine inv_update h t _ c.R c.Y c.C c.P h.yr (Nat.le_refl _) ⟨hrest, by simp [Req.len], ?_, by simp, by simp, by simp⟩ (oth_same h t) (hidle0 (by simp [Pc.inCS]) _)
        intro b n hb; simp [Pc.ticket] at hb
      | chunk n =>
        simp only
        have : 1 ≤ n := by
          rcases hr with h' | h'
          · simp at h'
          · simpa [Req.len] using h'
        rw [← cfg_eta c]
        refine inv_update h t _ c.R c.Y c.C c.P h.yr (Nat.le_refl _) ⟨hrest, by simpa [Req.len] using this, ?_, by simp, by simp, by simp⟩ (oth_same h t) (hidle0 (by simp [Pc.inCS]) _)
        intro b n hb; simp [Pc.ticket] at hb
      | buffered n l =>
        simp only
        have : 1 ≤ n := by
          rcases hr with h' | h'
          · simp at h'
          · simpa [Req.len] using h'
        rw [← cfg_eta c]
        refine inv_update h t _ c.R c.Y c.C c.P h.yr (Nat.le_refl _) ⟨hrest, by simpa [Req.len] using this, ?_, by simp, by simp, by simp⟩ (oth_same h t) (hidle0 (by simp [Pc.inCS]) _)
        intro b n hb; simp [Pc.ticket] at hb
  | skp =>
    simp only
    refine inv_update h t _ c.R c.Y true c.P h.yr (Nat.le_refl _) (ret_self _ _ _ _ _ _ htodo0 (by simp [Req.isLoop])) (oth_same h t) ?_
    intro _ hall hnn
    exact hidle0 (by simp [Pc.inCS]) (ret ⟨.skp, todo, outs⟩ .skip .unit) (ret_inCS _ _ _) hall hnn
  | resv r =>
    simp only
    have hr : 1 ≤ r.len := h.resvOk t r (by simp [hx])
    refine inv_update h t _ (c.R + r.len) c.Y c.C c.P (by have := h.yr; omega) (by omega) ⟨htodo0, by simp, ?_, by simp, by simp, by simp⟩ (oth_same h t) (hidle0 (by simp [Pc.inCS]) _)
    intro b n hb
    simp [Pc.ticket] at hb
    obtain ⟨rfl, rfl⟩ := hb
    have := h.yr
    refine ⟨hr, this, by omega, by simp [Pc.inCS], by simp [Pc.acc], by simp [Pc.acc], by simp [Pc.inCS], ?_⟩
    intro u b' n' hu hb'
    have := h.tk u b' n' hb'
    omega
  | pre r b =>
    have hme : (c.th t).pc.ticket = some (b, r.len) := by simp [hx, Pc.ticket]
    have htk := h.tk t b r.len hme
    have hdisj : ∀ u b' n', u ≠ t → (c.th u).pc.ticket = some (b', n') → b + r.len ≤ b' ∨ b' + n' ≤ b :=
      fun u b' n' hu hb' => h.disj t u b r.len b' n' (Ne.symm hu) hme hb'
    simp only
    split
    · rw [← cfg_eta c]
      exact inv_update h t _ c.R c.Y c.C c.P h.yr (Nat.le_refl _) (ret_self _ _ _ _ _ _ htodo0 (fun _ => htk.1)) (oth_same h t)
        (fun _ hall hnn => hidle0 (by simp [Pc.inCS]) (ret ⟨.pre r b, todo, outs⟩ r .fin) (ret_inCS _ _ _) hall hnn)
    · rw [← cfg_eta c]
      refine inv_update h t _ c.R c.Y c.C c.P h.yr (Nat.le_refl _) ⟨htodo0, by simp, ?_, by simp, by simp, by simp⟩ (oth_same h t) (hidle0 (by simp [Pc.inCS]) _)
      intro b0 n0 hb0
      simp [Pc.ticket] at hb0
      obtain ⟨rfl, rfl⟩ := hb0
      exact ⟨htk.1, htk.2.1, htk.2.2, by simp [Pc.inCS], by simp [Pc.acc], by simp [Pc.acc], by simp [Pc.inCS], hdisj⟩
  | wait r b =>
    have hme : (c.th t).pc.ticket = some (b, r.len) := by simp [hx, Pc.ticket]
    have htk := h.tk t b r.len hme
    have hdisj : ∀ u b' n', u ≠ t → (c.th u).pc.ticket = some (b', n') → b + r.len ≤ b' ∨ b' + n' ≤ b :=
      fun u b' n' hu hb' => h.disj t u b r.len b' n' (Ne.symm hu) hme hb'
    have hit : iters r b = r.len := iters_eq r b (by omega)
    simp only
    split
    · rename_i hbY
      rw [hit, if_neg (by omega)]
      rw [← cfg_eta c]
      refine inv_update h t _ c.R c.Y c.C c.P h.yr (Nat.le_refl _) ⟨htodo0, by simp, ?_, (by intro r' b' acc' he; simp at he; obtain ⟨rfl, rfl, rfl⟩ := he; have := htk.1; simp; omega), by simp, by simp⟩ (oth_same h t) (by simp [Pc.inCS])
      intro b0 n0 hb0
      simp [Pc.ticket] at hb0
      obtain ⟨rfl, rfl⟩ := hb0
      refine ⟨htk.1, htk.2.1, htk.2.2, fun _ => hbY, by simp [Pc.acc], by simp [Pc.acc], ?_, hdisj⟩
      intro _ hnn
      have hno := others_not_inCS h t b r.len hme hbY
      have := h.pidle (by
        intro u
        by_cases hu : u = t
        · subst hu; simp [hx, Pc.inCS]
        · exact hno u hu) hnn
      simp [Pc.acc]; omega
    · split
      · rw [← cfg_eta c]
        exact inv_update h t _ c.R c.Y c.C c.P h.yr (Nat.le_refl _) (ret_self _ _ _ _ _ _ htodo0 (fun _ => htk.1)) (oth_same h t)
          (fun _ hall hnn => hidle0 (by simp [Pc.inCS]) (ret ⟨.wait r b, todo, outs⟩ r .fin) (ret_inCS _ _ _) hall hnn)
      · rw [← cfg_eta c]
        refine inv_update h t _ c.R c.Y c.C c.P h.yr (Nat.le_refl _) ⟨htodo0, by simp, ?_, by simp, by simp, by simp⟩ (oth_same h t) (hidle0 (by simp [Pc.inCS]) _)
        intro b0 n0 hb0
        simp [Pc.ticket] at hb0
        obtain ⟨rfl, rfl⟩ := hb0
        exact ⟨htk.1, htk.2.1, htk.2.2, by simp [Pc.inCS], by simp [Pc.acc], by simp [Pc.acc], by simp [Pc.inCS], hdisj⟩
  | chk r b =>
    have hme : (c.th t).pc.ticket = some (b, r.len) := by simp [hx, Pc.ticket]
    have htk := h.tk t b r.len hme
    have hdisj : ∀ u b' n', u ≠ t → (c.th u).pc.ticket = some (b', n') → b + r.len ≤ b' ∨ b' + n' ≤ b :=
      fun u b' n' hu hb' => h.disj t u b r.len b' n' (Ne.symm hu) hme hb'
    simp only
    split
    · rw [← cfg_eta c]
      exact inv_update h t _ c.R c.Y c.C c.P h.yr (Nat.le_refl _) (ret_self _ _ _ _ _ _ htodo0 (fun _ => htk.1)) (oth_same h t)
        (fun _ hall hnn => hidle0 (by simp [Pc.inCS]) (ret ⟨.chk r b, todo, outs⟩ r .fin) (ret_inCS _ _ _) hall hnn)
    · rw [← cfg_eta c]
      refine inv_update h t _ c.R c.Y c.C c.P h.yr (Nat.le_refl _) ⟨htodo0, by simp, ?_, by simp, by simp, by simp⟩ (oth_same h t) (hidle0 (by simp [Pc.inCS]) _)
      intro b0 n0 hb0
      simp [Pc.ticket] at hb0
      obtain ⟨rfl, rfl⟩ := hb0
      exact ⟨htk.1, htk.2.1, htk.2.2, by simp [Pc.inCS], by simp [Pc.acc], by simp [Pc.acc], by simp [Pc.inCS], hdisj⟩
  | cs r b acc =>
    have hme : (c.th t).pc.ticket = some (b, r.len) := by simp [hx, Pc.ticket]
    have hcs : (c.th t).pc.inCS = true := by simp [hx, Pc.inCS]
    have htk := h.tk t b r.len hme
    have hbY := h.csY t b r.len hcs hme
    have hacc := h.accOk t b r.len hme
    simp [hx, Pc.acc] at hacc
    have hdisj : ∀ u b' n', u ≠ t → (c.th u).pc.ticket = some (b', n') → b + r.len ≤ b' ∨ b' + n' ≤ b :=
      fun u b' n' hu hb' => h.disj t u b r.len b' n' (Ne.symm hu) hme hb'
    have hlt := h.csLt t r b acc (by simp [hx])
    have hpcs := h.pcs t b r.len hcs hme
    simp [hx, Pc.acc] at hpcs
    simp only
    rw [← cfg_eta c]
    refine inv_update h t _ c.R c.Y c.C c.P h.yr (Nat.le_refl _) ⟨htodo0, by simp, ?_, (by intro r' b' acc' he; simp at he; obtain ⟨rfl, rfl, rfl⟩ := he; exact hlt), by simp, by simp⟩ (oth_same h t) (by simp [Pc.inCS])
    intro b0 n0 hb0
    simp [Pc.ticket] at hb0
    obtain ⟨rfl, rfl⟩ := hb0
    exact ⟨htk.1, htk.2.1, htk.2.2, fun _ => hbY, by simpa [Pc.acc] using hacc.1, by simpa [Pc.acc] using hacc.2, fun _ hnn => by simpa [Pc.acc] using hpcs hnn, hdisj⟩
  | ins r b acc =>
    have hme : (c.th t).pc.ticket = some (b, r.len) := by simp [hx, Pc.ticket]
    have hcs : (c.th t).pc.inCS = true := by simp [hx, Pc.inCS]
    have htk := h.tk t b r.len hme
    have hbY := h.csY t b r.len hcs hme
    have hacc := h.accOk t b r.len hme
    simp [hx, Pc.acc] at hacc
    have hdisj : ∀ u b' n', u ≠ t → (c.th u).pc.ticket = some (b', n') → b + r.len ≤ b' ∨ b' + n' ≤ b :=
      fun u b' n' hu hb' => h.disj t u b r.len b' n' (Ne.symm hu) hme hb'
    have hno := others_not_inCS h t b r.len hme hbY
    have hoth : ∀ u b' n', u ≠ t → (c.th u).pc.ticket = some (b', n') → c.Y ≤ b' ∧
        ((c.th u).pc.inCS = true → b' = c.Y ∧ c.P + 1 = c.P) := by
      intro u b' n' hu hb'
      refine ⟨(h.tk u b' n' hb').2.1, fun hc => ?_⟩
      simp [hno u hu] at hc
    have hit : iters r b = r.len := iters_eq r b (by omega)
    simp only
    rw [hit]
    cases hsp : s c.P with
    | some v =>
      have hnn := fused_some hf hsp
      have hP : c.P = b + acc.length := by simpa [hx, Pc.acc] using h.pcs t b r.len hcs hme hnn
      have hlen1 : (acc ++ [v]).length = acc.length + 1 := by simp
      have hlen2 := hacc.2
      have hlen3 : acc.length < r.len := h.csLt t r b acc (by simp [hx])
      have hacc' : ∀ k (hk : k < (acc ++ [v]).length), s (b + k) = .some ((acc ++ [v])[k]) := by
        intro k hk
        by_cases hk' : k < acc.length
        · rw [List.getElem_append_left hk']; exact hacc.1 k hk'
        · have hke : k = acc.length := by simp at hk; omega
          subst hke
          simp [← hP, hsp]
      simp only
      split
      · rename_i hfull
        refine inv_update h t _ c.R c.Y c.C (c.P + 1) h.yr (Nat.le_refl _) ⟨htodo0, by simp, ?_, by simp, (by intro r' b' acc' he _; simp at he; obtain ⟨rfl, rfl, rfl⟩ := he; assumption), by simp⟩ hoth (by simp [Pc.inCS])
        intro b0 n0 hb0
        simp [Pc.ticket] at hb0
        obtain ⟨rfl, rfl⟩ := hb0
        refine ⟨htk.1, htk.2.1, htk.2.2, fun _ => hbY, by simpa [Pc.acc] using hacc', by simp only [Pc.acc]; omega, ?_, hdisj⟩
        intro _ _; simp [Pc.acc]; omega
      · rename_i hnf
        refine inv_update h t _ c.R c.Y c.C (c.P + 1) h.yr (Nat.le_refl _) ⟨htodo0, by simp, ?_, (by intro r' b' acc' he; simp at he; obtain ⟨rfl, rfl, rfl⟩ := he; omega), by simp, by simp⟩ hoth (by simp [Pc.inCS])
        intro b0 n0 hb0
        simp [Pc.ticket] at hb0
        obtain ⟨rfl, rfl⟩ := hb0
        refine ⟨htk.1, htk.2.1, htk.2.2, fun _ => hbY, by simpa [Pc.acc] using hacc', by simp only [Pc.acc]; omega, ?_, hdisj⟩
        intro _ _; simp [Pc.acc]; omega
    | none =>
      have hnotnn : ¬ NoNoneBefore s (c.P + 1) := by
        intro hnn; have := hnn c.P (by omega); simp [hsp, IsSome] at this
      simp only
      split
      · refine inv_update h t _ c.R c.Y c.C (c.P + 1) h.yr (Nat.le_refl _) ⟨htodo0, by simp, ?_, by simp, by simp, (by intro r' b' _; exact hnotnn)⟩ hoth (by simp [Pc.inCS])
        intro b0 n0 hb0
        simp [Pc.ticket] at hb0
        obtain ⟨rfl, rfl⟩ := hb0
        exact ⟨htk.1, htk.2.1, htk.2.2, fun _ => hbY, by simp [Pc.acc], by simp [Pc.acc], fun _ hnn => absurd hnn hnotnn, hdisj⟩
      · split
        · refine inv_update h t _ c.R c.Y c.C (c.P + 1) h.yr (Nat.le_refl _) ⟨htodo0, by simp, ?_, by simp, by simp, (by intro r' b' _; exact hnotnn)⟩ hoth (by simp [Pc.inCS])
          intro b0 n0 hb0
          simp [Pc.ticket] at hb0
          obtain ⟨rfl, rfl⟩ := hb0
          exact ⟨htk.1, htk.2.1, htk.2.2, fun _ => hbY, by simp [Pc.acc], by simp [Pc.acc], fun _ hnn => absurd hnn hnotnn, hdisj⟩
        · refine inv_update h t _ c.R c.Y c.C (c.P + 1) h.yr (Nat.le_refl _) ⟨htodo0, by simp, ?_, by simp, (by intro r' b' acc' _ hnn; exact absurd hnn hnotnn), by simp⟩ hoth (by simp [Pc.inCS])
          intro b0 n0 hb0
          simp [Pc.ticket] at hb0
          obtain ⟨rfl, rfl⟩ := hb0
          exact ⟨htk.1, htk.2.1, htk.2.2, fun _ => hbY, by simpa [Pc.acc] using hacc.1, by simpa [Pc.acc] using hacc.2, fun _ hnn => absurd hnn hnotnn, hdisj⟩
    | panic =>
      have hnotnn : ¬ NoNoneBefore s (c.P + 1) := by
        intro hnn; have := hnn c.P (by omega); simp [hsp, IsSome] at this
      simp only
      refine inv_update h t _ c.R c.Y c.C (c.P + 1) h.yr (Nat.le_refl _) ⟨htodo0, by simp, ?_, by simp, by simp, by simp⟩ hoth (by simp [Pc.inCS])
      intro b0 n0 hb0
      simp [Pc.ticket] at hb0
      obtain ⟨rfl, rfl⟩ := hb0
      exact ⟨htk.1, htk.2.1, htk.2.2, fun _ => hbY, by simp [Pc.acc], by simp [Pc.acc], fun _ hnn => absurd hnn hnotnn, hdisj⟩
  | setC r b =>
    have hme : (c.th t).pc.ticket = some (b, r.len) := by simp [hx, Pc.ticket]
    have hcs : (c.th t).pc.inCS = true := by simp [hx, Pc.inCS]
    have htk := h.tk t b r.len hme
    have hbY := h.csY t b r.len hcs hme
    have hdisj : ∀ u b' n', u ≠ t → (c.th u).pc.ticket = some (b', n') → b + r.len ≤ b' ∨ b' + n' ≤ b :=
      fun u b' n' hu hb' => h.disj t u b r.len b' n' (Ne.symm hu) hme hb'
    have hpcs := h.pcs t b r.len hcs hme
    simp [hx, Pc.acc] at hpcs
    simp only
    split
    · -- single: completed := true; return fin without publishing
      refine inv_update h t _ c.R c.Y true c.P h.yr (Nat.le_refl _) (ret_self _ _ _ _ _ _ htodo0 (fun _ => htk.1)) (oth_same h t) ?_
      intro _ _ hnn
      have := hpcs hnn; omega
    · refine inv_update h t _ c.R c.Y true c.P h.yr (Nat.le_refl _) ⟨htodo0, by simp, ?_, by simp, (by intro r' b' acc' _ hnn; exact absurd hnn (h.setCNone t r b (by simp [hx]))), by simp⟩ (oth_same h t) (by simp [Pc.inCS])
      intro b0 n0 hb0
      simp [Pc.ticket] at hb0
      obtain ⟨rfl, rfl⟩ := hb0
      refine ⟨htk.1, htk.2.1, htk.2.2, fun _ => hbY, by simp [Pc.acc], by simp [Pc.acc], ?_, hdisj⟩
      intro _ hnn; simpa [Pc.acc] using hpcs hnn
  | pub r b acc =>
    have hme : (c.th t).pc.ticket = some (b, r.len) := by simp [hx, Pc.ticket]
    have hcs : (c.th t).pc.inCS = true := by simp [hx, Pc.inCS]
    have htk := h.tk t b r.len hme
    have hbY := h.csY t b r.len hcs hme
    have hno := others_not_inCS h t b r.len hme hbY
    have hoth : ∀ u b' n', u ≠ t → (c.th u).pc.ticket = some (b', n') → c.Y + r.len ≤ b' ∧
        ((c.th u).pc.inCS = true → b' = c.Y + r.len ∧ c.P = c.P) := by
      intro u b' n' hu hb'
      have h1 := h.disj t u b r.len b' n' (Ne.symm hu) hme hb'
      have h2 := h.tk u b' n' hb'
      refine ⟨by omega, fun hc => ?_⟩
      simp [hno u hu] at hc
    have hret : ∀ o, Inv s (setTh { c with R := c.R, Y := c.Y + r.len, C := c.C, P := c.P } t (ret ⟨Pc.pub r b acc, todo, outs⟩ r o)) := by
      intro o
      refine inv_update h t _ c.R (c.Y + r.len) c.C c.P (by omega) (Nat.le_refl _) (ret_self _ _ _ _ _ _ htodo0 (fun _ => htk.1)) hoth ?_
      intro _ _ hnn
      have h1 := h.pcs t b r.len hcs hme hnn
      simp [hx, Pc.acc] at h1
      have h2 := h.pubFull t r b acc (by simp [hx]) hnn
      omega
    simp only
    split
    · exact hret _
    · split <;> exact hret _
  | unw b n =>
    have hme : (c.th t).pc.ticket = some (b, n) := by simp [hx, Pc.ticket]
    have hcs : (c.th t).pc.inCS = true := by simp [hx, Pc.inCS]
    have htk := h.tk t b n hme
    have hbY := h.csY t b n hcs hme
    have hdisj : ∀ u b' n', u ≠ t → (c.th u).pc.ticket = some (b', n') → b + n ≤ b' ∨ b' + n' ≤ b :=
      fun u b' n' hu hb' => h.disj t u b n b' n' (Ne.symm hu) hme hb'
    have hpcs := h.pcs t b n hcs hme
    simp [hx, Pc.acc] at hpcs
    simp only
    refine inv_update h t _ c.R c.Y true c.P h.yr (Nat.le_refl _) ⟨htodo0, by simp, ?_, by simp, by simp, by simp⟩ (oth_same h t) (by simp [Pc.inCS])
    intro b0 n0 hb0
    simp [Pc.ticket] at hb0
    obtain ⟨rfl, rfl⟩ := hb0
    exact ⟨htk.1, htk.2.1, htk.2.2, fun _ => hbY, by simp [Pc.acc], by simp [Pc.acc], fun _ hnn => by simpa [Pc.acc] using hpcs hnn, hdisj⟩
  | dead b n => simpa using h

end Orx.IW
