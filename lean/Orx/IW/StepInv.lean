import Orx.IW.Inv
namespace Orx.IW

theorem ret_pc (x : Thread) (r : Req) (o : POut) : (ret x r o).pc = .resv r ∨ (ret x r o).pc = .idle := by
  unfold ret; split <;> simp

theorem ret_todo (x : Thread) (r : Req) (o : POut) : (ret x r o).todo = x.todo := by
  unfold ret; split <;> simp

theorem ret_recording (x : Thread) (r : Req) (o : POut) : (ret x r o).pc.recording = false := by
  rcases ret_pc x r o with h | h <;> simp [h, Pc.recording]

/-- a thread that returns from a request holds no ticket; if it loops it is about to reserve again -/
theorem ret_self {s : Script} {c : Cfg} {t : Nat} (x : Thread) (r : Req) (o : POut) (R' Y' P' : Nat)
    (htodo : ∀ r' ∈ x.todo, ReqOk r') (hr : r.isLoop = true → 1 ≤ r.len) :
    SelfOk s c t (ret x r o) R' Y' P' := by
  have hpc := ret_pc x r o
  refine ⟨by simpa [ret_todo] using htodo, ?_, ?_, ?_, ?_, ?_, ?_, ?_⟩
  · intro r' he
    rcases hpc with h | h
    · rw [h] at he
      have : r' = r := by simpa using he.symm
      subst this
      apply hr
      unfold ret at h
      split at h
      · rename_i hc; exact hc.1
      · simp at h
    · rw [h] at he; simp at he
  · intro b n hb; rcases hpc with h | h <;> simp [h, Pc.ticket] at hb
  · intro r' b acc he; rcases hpc with h | h <;> simp [h] at he
  · intro r' b acc he; rcases hpc with h | h <;> simp [h] at he
  · intro r' b acc he; rcases hpc with h | h <;> simp [h] at he
  · intro r' b acc he; rcases hpc with h | h <;> simp [h] at he
  · intro r' b he; rcases hpc with h | h <;> simp [h] at he

theorem ret_inCS (x : Thread) (r : Req) (o : POut) : (ret x r o).pc.inCS = false := by
  rcases ret_pc x r o with h | h <;> simp [h, Pc.inCS]

/-- `noneC` carries over a step of a thread that was not recording and that changes neither `C` nor `P` -/
theorem none_same {s : Script} {c : Cfg} (h : Inv s c) (t : Nat) (hnr : (c.th t).pc.recording = false) (x' : Thread) :
    ¬ NoNoneBefore s c.P → c.C = true ∨ x'.pc.recording = true ∨ ∃ u, u ≠ t ∧ (c.th u).pc.recording = true := by
  intro hnn
  rcases h.noneC hnn with h1 | ⟨u, hu⟩
  · exact Or.inl h1
  · refine Or.inr (Or.inr ⟨u, ?_, hu⟩)
    intro hut; subst hut; rw [hnr] at hu; exact absurd hu (by simp)

theorem step_inv {s : Script} {c : Cfg} (h : Inv s c) (hW : c.R < W) (t : Nat) : Inv s (step s t c) := by
  unfold step
  generalize hx : c.th t = x
  obtain ⟨pc, todo, outs⟩ := x
  have htodo0 : ∀ r' ∈ todo, ReqOk r' := fun r' hr' => h.todoOk t r' (by simp [hx, hr'])
  have hidle0 : (pc.inCS = false) → ∀ (x' : Thread), x'.pc.inCS = false → (∀ u, u ≠ t → (c.th u).pc.inCS = false) →
      NoNoneBefore s c.P → c.P = c.Y := by
    intro hpc _ _ hall hnn
    apply h.pidle _ hnn
    intro u
    by_cases hu : u = t
    · subst hu; simp [hx, hpc]
    · exact hall u hu
  have hns : (pc.recording = false) → ∀ x' : Thread, ¬ NoNoneBefore s c.P → c.C = true ∨ x'.pc.recording = true ∨ ∃ u, u ≠ t ∧ (c.th u).pc.recording = true :=
    fun hr x' => none_same h t (by simp [hx, hr]) x'
  have hentS : ∀ u r b, u ≠ t → (c.th u).pc = .ent r b → b = c.Y := fun u r b _ hp => h.entY u r b hp
  cases pc with
  | idle =>
    cases todo with
    | nil => simpa using h
    | cons r rest =>
      have hr : ReqOk r := htodo0 r (by simp)
      have hrest : ∀ r' ∈ rest, ReqOk r' := fun r' hr' => htodo0 r' (by simp [hr'])
      cases r with
      | skip =>
        simp only
        rw [← cfg_eta c]
        refine inv_update h t _ c.R c.Y c.C c.P h.yr (Nat.le_refl _) ⟨hrest, by simp, ?_, by simp, by simp, by simp, by simp, by simp⟩ (oth_same h t) (hidle0 (by simp [Pc.inCS]) _) (hns rfl _) hentS
        intro b n hb; simp [Pc.ticket] at hb
      | single l =>
        simp only
        rw [← cfg_eta c]
        refine inv_update h t _ c.R c.Y c.C c.P h.yr (Nat.le_refl _) ⟨hrest, by simp [Req.len], ?_, by simp, by simp, by simp, by simp, by simp⟩ (oth_same h t) (hidle0 (by simp [Pc.inCS]) _) (hns rfl _) hentS
        intro b n hb; simp [Pc.ticket] at hb
      | chunk n =>
        simp only
        have : 1 ≤ n := by
          rcases hr with h' | h'
          · simp at h'
          · simpa [Req.len] using h'
        rw [← cfg_eta c]
        refine inv_update h t _ c.R c.Y c.C c.P h.yr (Nat.le_refl _) ⟨hrest, by simpa [Req.len] using this, ?_, by simp, by simp, by simp, by simp, by simp⟩ (oth_same h t) (hidle0 (by simp [Pc.inCS]) _) (hns rfl _) hentS
        intro b n hb; simp [Pc.ticket] at hb
      | buffered n l =>
        simp only
        have : 1 ≤ n := by
          rcases hr with h' | h'
          · simp at h'
          · simpa [Req.len] using h'
        rw [← cfg_eta c]
        refine inv_update h t _ c.R c.Y c.C c.P h.yr (Nat.le_refl _) ⟨hrest, by simpa [Req.len] using this, ?_, by simp, by simp, by simp, by simp, by simp⟩ (oth_same h t) (hidle0 (by simp [Pc.inCS]) _) (hns rfl _) hentS
        intro b n hb; simp [Pc.ticket] at hb
  | skp =>
    simp only
    refine inv_update h t _ c.R c.Y true c.P h.yr (Nat.le_refl _) (ret_self _ _ _ _ _ _ htodo0 (by simp [Req.isLoop])) (oth_same h t) ?_ (fun _ => Or.inl rfl) hentS
    intro _ hall hnn
    exact hidle0 (by simp [Pc.inCS]) (ret ⟨.skp, todo, outs⟩ .skip .unit) (ret_inCS _ _ _) hall hnn
  | resv r =>
    simp only
    have hr : 1 ≤ r.len := h.resvOk t r (by simp [hx])
    refine inv_update h t _ (c.R + r.len) c.Y c.C c.P (by have := h.yr; omega) (by omega) ⟨htodo0, by simp, ?_, by simp, by simp, by simp, by simp, by simp⟩ (oth_same h t) (hidle0 (by simp [Pc.inCS]) _) (hns rfl _) hentS
    intro b n hb
    simp [Pc.ticket] at hb
    obtain ⟨rfl, rfl⟩ := hb
    have := h.yr
    refine ⟨hr, this, by omega, by simp [Pc.inCS], by simp [Pc.acc], by simp [Pc.acc], by simp [Pc.inCS], ?_⟩
    intro u b' n' hu hb'
    have := h.tk u b' n' hb'
    omega
  | pre r b =>
    have hme : (c.th t).pc.ticket = some (b, r.len) := by simp [hx, Pc.ticket]
    have htk := h.tk t b r.len hme
    have hdisj : ∀ u b' n', u ≠ t → (c.th u).pc.ticket = some (b', n') → b + r.len ≤ b' ∨ b' + n' ≤ b :=
      fun u b' n' hu hb' => h.disj t u b r.len b' n' (Ne.symm hu) hme hb'
    simp only
    split
    · rw [← cfg_eta c]
      exact inv_update h t _ c.R c.Y c.C c.P h.yr (Nat.le_refl _) (ret_self _ _ _ _ _ _ htodo0 (fun _ => htk.1)) (oth_same h t)
        (fun _ hall hnn => hidle0 (by simp [Pc.inCS]) (ret ⟨.pre r b, todo, outs⟩ r .fin) (ret_inCS _ _ _) hall hnn) (hns rfl _) hentS
    · rw [← cfg_eta c]
      refine inv_update h t _ c.R c.Y c.C c.P h.yr (Nat.le_refl _) ⟨htodo0, by simp, ?_, by simp, by simp, by simp, by simp, by simp⟩ (oth_same h t) (hidle0 (by simp [Pc.inCS]) _) (hns rfl _) hentS
      intro b0 n0 hb0
      simp [Pc.ticket] at hb0
      obtain ⟨rfl, rfl⟩ := hb0
      exact ⟨htk.1, htk.2.1, htk.2.2, by simp [Pc.inCS], by simp [Pc.acc], by simp [Pc.acc], by simp [Pc.inCS], hdisj⟩
  | wait r b =>
    have hme : (c.th t).pc.ticket = some (b, r.len) := by simp [hx, Pc.ticket]
    have htk := h.tk t b r.len hme
    have hdisj : ∀ u b' n', u ≠ t → (c.th u).pc.ticket = some (b', n') → b + r.len ≤ b' ∨ b' + n' ≤ b :=
      fun u b' n' hu hb' => h.disj t u b r.len b' n' (Ne.symm hu) hme hb'
    have keep : ∀ pc', pc'.ticket = some (b, r.len) → pc'.inCS = false → pc'.acc = [] →
        (∀ r' b' acc', pc' ≠ .cs r' b' acc' ∧ pc' ≠ .ins r' b' acc' ∧ pc' ≠ .pub r' b' acc' ∧ pc' ≠ .setC r' b' acc') → (∀ r', pc' ≠ .resv r') →
        (∀ r' b', pc' = .ent r' b' → b' = c.Y) →
        Inv s (setTh { c with R := c.R, Y := c.Y, C := c.C, P := c.P } t ⟨pc', todo, outs⟩) := by
      intro pc' h1 h2 h3 h4 h5 h6
      refine inv_update h t _ c.R c.Y c.C c.P h.yr (Nat.le_refl _) ⟨htodo0, fun r' he => absurd he (h5 r'), ?_, ?_, ?_, ?_, ?_, h6⟩ (oth_same h t) (hidle0 (by simp [Pc.inCS]) _) (hns rfl _) hentS
      · intro b0 n0 hb0
        simp only at hb0; rw [h1] at hb0
        simp at hb0; obtain ⟨rfl, rfl⟩ := hb0
        exact ⟨htk.1, htk.2.1, htk.2.2, by simp [h2], by simp [h3], by simp [h3], by simp [h2], hdisj⟩
      · intro r' b' acc' he; rcases he with he | he | he
        · exact absurd he (h4 r' b' acc').1
        · exact absurd he (h4 r' b' acc').2.1
        · exact absurd he (h4 r' b' acc').2.2.2
      · intro r' b' acc' he; exact absurd he (h4 r' b' acc').2.2.1
      · intro r' b' acc' he; exact absurd he (h4 r' b' acc').2.2.2
      · intro r' b' acc' he; rcases he with he | he
        · exact absurd he (h4 r' b' acc').1
        · exact absurd he (h4 r' b' acc').2.1
    simp only
    split
    · rename_i hbY
      rw [← cfg_eta c]; exact keep (.ent r b) (by simp [Pc.ticket]) (by simp [Pc.inCS]) (by simp [Pc.acc]) (by simp) (by simp) (by intro r' b' he; simp at he; omega)
    · split
      · rw [← cfg_eta c]
        exact inv_update h t _ c.R c.Y c.C c.P h.yr (Nat.le_refl _) (ret_self _ _ _ _ _ _ htodo0 (fun _ => htk.1)) (oth_same h t)
          (fun _ hall hnn => hidle0 (by simp [Pc.inCS]) (ret ⟨.wait r b, todo, outs⟩ r .fin) (ret_inCS _ _ _) hall hnn) (hns rfl _) hentS
      · rw [← cfg_eta c]; exact keep (.chk r b) (by simp [Pc.ticket]) (by simp [Pc.inCS]) (by simp [Pc.acc]) (by simp) (by simp) (by simp)
  | chk r b =>
    have hme : (c.th t).pc.ticket = some (b, r.len) := by simp [hx, Pc.ticket]
    have htk := h.tk t b r.len hme
    have hdisj : ∀ u b' n', u ≠ t → (c.th u).pc.ticket = some (b', n') → b + r.len ≤ b' ∨ b' + n' ≤ b :=
      fun u b' n' hu hb' => h.disj t u b r.len b' n' (Ne.symm hu) hme hb'
    simp only
    split
    · rw [← cfg_eta c]
      exact inv_update h t _ c.R c.Y c.C c.P h.yr (Nat.le_refl _) (ret_self _ _ _ _ _ _ htodo0 (fun _ => htk.1)) (oth_same h t)
        (fun _ hall hnn => hidle0 (by simp [Pc.inCS]) (ret ⟨.chk r b, todo, outs⟩ r .fin) (ret_inCS _ _ _) hall hnn) (hns rfl _) hentS
    · rw [← cfg_eta c]
      refine inv_update h t _ c.R c.Y c.C c.P h.yr (Nat.le_refl _) ⟨htodo0, by simp, ?_, by simp, by simp, by simp, by simp, by simp⟩ (oth_same h t) (hidle0 (by simp [Pc.inCS]) _) (hns rfl _) hentS
      intro b0 n0 hb0
      simp [Pc.ticket] at hb0
      obtain ⟨rfl, rfl⟩ := hb0
      exact ⟨htk.1, htk.2.1, htk.2.2, by simp [Pc.inCS], by simp [Pc.acc], by simp [Pc.acc], by simp [Pc.inCS], hdisj⟩
  | ent r b =>
    have hme : (c.th t).pc.ticket = some (b, r.len) := by simp [hx, Pc.ticket]
    have htk := h.tk t b r.len hme
    have hdisj : ∀ u b' n', u ≠ t → (c.th u).pc.ticket = some (b', n') → b + r.len ≤ b' ∨ b' + n' ≤ b :=
      fun u b' n' hu hb' => h.disj t u b r.len b' n' (Ne.symm hu) hme hb'
    have hit : iters r b = r.len := iters_eq r b (by omega)
    simp only
    split
    · rw [← cfg_eta c]
      exact inv_update h t _ c.R c.Y c.C c.P h.yr (Nat.le_refl _) (ret_self _ _ _ _ _ _ htodo0 (fun _ => htk.1)) (oth_same h t)
        (fun _ hall hnn => hidle0 (by simp [Pc.inCS]) (ret ⟨.ent r b, todo, outs⟩ r .fin) (ret_inCS _ _ _) hall hnn) (hns rfl _) hentS
    · rename_i hC
      rw [hit, if_neg (by omega)]
      have hbY : b = c.Y := h.entY t r b (by simp [hx])
      have hno := others_not_inCS h t b r.len hme hbY
      have hall : ∀ u, (c.th u).pc.inCS = false := by
        intro u
        by_cases hu : u = t
        · subst hu; simp [hx, Pc.inCS]
        · exact hno u hu
      -- `completed` is unset and nobody is recording (they would be inside): every call so far returned an element
      have hnn : NoNoneBefore s c.P := by
        by_cases hq : NoNoneBefore s c.P
        · exact hq
        · rcases h.noneC hq with h1 | ⟨u, hu⟩
          · simp [h1] at hC
          · have : (c.th u).pc.inCS = true := by
              generalize (c.th u).pc = q at hu; cases q <;> simp [Pc.recording, Pc.inCS] at hu ⊢
            rw [hall u] at this; exact absurd this (by simp)
      rw [← cfg_eta c]
      refine inv_update h t _ c.R c.Y c.C c.P h.yr (Nat.le_refl _) ⟨htodo0, by simp, ?_, (by intro r' b' acc' he; simp at he; obtain ⟨rfl, rfl, rfl⟩ := he; have := htk.1; simp; omega), by simp, by simp, (fun _ _ _ _ => hnn), by simp⟩ (oth_same h t) (by simp [Pc.inCS]) (fun hq => absurd hnn hq) hentS
      intro b0 n0 hb0
      simp [Pc.ticket] at hb0
      obtain ⟨rfl, rfl⟩ := hb0
      refine ⟨htk.1, htk.2.1, htk.2.2, fun _ => hbY, by simp [Pc.acc], by simp [Pc.acc], ?_, hdisj⟩
      intro _ _
      have := h.pidle hall hnn
      simp [Pc.acc]; omega
  | cs r b acc =>
    have hme : (c.th t).pc.ticket = some (b, r.len) := by simp [hx, Pc.ticket]
    have hcs : (c.th t).pc.inCS = true := by simp [hx, Pc.inCS]
    have htk := h.tk t b r.len hme
    have hbY := h.csY t b r.len hcs hme
    have hacc := h.accOk t b r.len hme
    simp [hx, Pc.acc] at hacc
    have hdisj : ∀ u b' n', u ≠ t → (c.th u).pc.ticket = some (b', n') → b + r.len ≤ b' ∨ b' + n' ≤ b :=
      fun u b' n' hu hb' => h.disj t u b r.len b' n' (Ne.symm hu) hme hb'
    have hlt := h.csLt t r b acc (by simp [hx])
    have hpcs := h.pcs t b r.len hcs hme
    simp [hx, Pc.acc] at hpcs
    have hcall := h.callOk t r b acc (by simp [hx])
    simp only
    rw [← cfg_eta c]
    refine inv_update h t _ c.R c.Y c.C c.P h.yr (Nat.le_refl _) ⟨htodo0, by simp, ?_, (by intro r' b' acc' he; simp at he; obtain ⟨rfl, rfl, rfl⟩ := he; exact hlt), by simp, by simp, (fun _ _ _ _ => hcall), by simp⟩ (oth_same h t) (by simp [Pc.inCS]) (fun hq => absurd hcall hq) hentS
    intro b0 n0 hb0
    simp [Pc.ticket] at hb0
    obtain ⟨rfl, rfl⟩ := hb0
    exact ⟨htk.1, htk.2.1, htk.2.2, fun _ => hbY, by simpa [Pc.acc] using hacc.1, by simpa [Pc.acc] using hacc.2, fun _ hnn => by simpa [Pc.acc] using hpcs hnn, hdisj⟩
  | ins r b acc =>
    have hme : (c.th t).pc.ticket = some (b, r.len) := by simp [hx, Pc.ticket]
    have hcs : (c.th t).pc.inCS = true := by simp [hx, Pc.inCS]
    have htk := h.tk t b r.len hme
    have hbY := h.csY t b r.len hcs hme
    have hacc := h.accOk t b r.len hme
    simp [hx, Pc.acc] at hacc
    have hdisj : ∀ u b' n', u ≠ t → (c.th u).pc.ticket = some (b', n') → b + r.len ≤ b' ∨ b' + n' ≤ b :=
      fun u b' n' hu hb' => h.disj t u b r.len b' n' (Ne.symm hu) hme hb'
    have hno := others_not_inCS h t b r.len hme hbY
    have hoth : ∀ u b' n', u ≠ t → (c.th u).pc.ticket = some (b', n') → c.Y ≤ b' ∧
        ((c.th u).pc.inCS = true → b' = c.Y ∧ c.P + 1 = c.P) := by
      intro u b' n' hu hb'
      refine ⟨(h.tk u b' n' hb').2.1, fun hc => ?_⟩
      simp [hno u hu] at hc
    have hit : iters r b = r.len := iters_eq r b (by omega)
    have hnn : NoNoneBefore s c.P := h.callOk t r b acc (by simp [hx])
    have hP : c.P = b + acc.length := by simpa [hx, Pc.acc] using h.pcs t b r.len hcs hme hnn
    have hlen3 : acc.length < r.len := h.csLt t r b acc (by simp [hx])
    simp only
    rw [hit]
    cases hsp : s c.P with
    | some v =>
      have hnn1 : NoNoneBefore s (c.P + 1) := by
        intro i hi
        by_cases hip : i = c.P
        · subst hip; simp [hsp, IsSome]
        · exact hnn i (by omega)
      have hlen1 : (acc ++ [v]).length = acc.length + 1 := by simp
      have hacc' : ∀ k (hk : k < (acc ++ [v]).length), s (b + k) = .some ((acc ++ [v])[k]) := by
        intro k hk
        by_cases hk' : k < acc.length
        · rw [List.getElem_append_left hk']; exact hacc.1 k hk'
        · have hke : k = acc.length := by simp at hk; omega
          subst hke
          simp [← hP, hsp]
      simp only
      split
      · rename_i hfull
        rw [if_neg (by omega)]
        refine inv_update h t _ c.R c.Y c.C (c.P + 1) h.yr (Nat.le_refl _) ⟨htodo0, by simp, ?_, by simp, (by intro r' b' acc' he _; simp at he; obtain ⟨rfl, rfl, rfl⟩ := he; assumption), by simp, by simp, by simp⟩ hoth (by simp [Pc.inCS]) (fun hq => absurd hnn1 hq) hentS
        intro b0 n0 hb0
        simp [Pc.ticket] at hb0
        obtain ⟨rfl, rfl⟩ := hb0
        refine ⟨htk.1, htk.2.1, htk.2.2, fun _ => hbY, by simpa [Pc.acc] using hacc', by simp only [Pc.acc]; omega, ?_, hdisj⟩
        intro _ _; simp [Pc.acc]; omega
      · rename_i hnf
        refine inv_update h t _ c.R c.Y c.C (c.P + 1) h.yr (Nat.le_refl _) ⟨htodo0, by simp, ?_, (by intro r' b' acc' he; simp at he; obtain ⟨rfl, rfl, rfl⟩ := he; omega), by simp, by simp, (fun _ _ _ _ => hnn1), by simp⟩ hoth (by simp [Pc.inCS]) (fun hq => absurd hnn1 hq) hentS
        intro b0 n0 hb0
        simp [Pc.ticket] at hb0
        obtain ⟨rfl, rfl⟩ := hb0
        refine ⟨htk.1, htk.2.1, htk.2.2, fun _ => hbY, by simpa [Pc.acc] using hacc', by simp only [Pc.acc]; omega, ?_, hdisj⟩
        intro _ _; simp [Pc.acc]; omega
    | none =>
      have hnotnn : ¬ NoNoneBefore s (c.P + 1) := by
        intro hq; have := hq c.P (by omega); simp [hsp, IsSome] at this
      simp only
      refine inv_update h t _ c.R c.Y c.C (c.P + 1) h.yr (Nat.le_refl _) ⟨htodo0, by simp, ?_, (by intro r' b' acc' he; simp at he; obtain ⟨rfl, rfl, rfl⟩ := he; exact hlen3), by simp, (by intro r' b' acc' _; exact hnotnn), by simp, by simp⟩ hoth (by simp [Pc.inCS]) (fun _ => Or.inr (Or.inl (by simp [Pc.recording]))) hentS
      intro b0 n0 hb0
      simp [Pc.ticket] at hb0
      obtain ⟨rfl, rfl⟩ := hb0
      exact ⟨htk.1, htk.2.1, htk.2.2, fun _ => hbY, by simpa [Pc.acc] using hacc.1, by simpa [Pc.acc] using hacc.2, fun _ hq => absurd hq hnotnn, hdisj⟩
    | panic =>
      have hnotnn : ¬ NoNoneBefore s (c.P + 1) := by
        intro hq; have := hq c.P (by omega); simp [hsp, IsSome] at this
      simp only
      refine inv_update h t _ c.R c.Y c.C (c.P + 1) h.yr (Nat.le_refl _) ⟨htodo0, by simp, ?_, by simp, by simp, by simp, by simp, by simp⟩ hoth (by simp [Pc.inCS]) (fun _ => Or.inr (Or.inl (by simp [Pc.recording]))) hentS
      intro b0 n0 hb0
      simp [Pc.ticket] at hb0
      obtain ⟨rfl, rfl⟩ := hb0
      exact ⟨htk.1, htk.2.1, htk.2.2, fun _ => hbY, by simp [Pc.acc], by simp [Pc.acc], fun _ hq => absurd hq hnotnn, hdisj⟩
  | setC r b acc =>
    have hme : (c.th t).pc.ticket = some (b, r.len) := by simp [hx, Pc.ticket]
    have hcs : (c.th t).pc.inCS = true := by simp [hx, Pc.inCS]
    have htk := h.tk t b r.len hme
    have hbY := h.csY t b r.len hcs hme
    have hacc := h.accOk t b r.len hme
    simp [hx, Pc.acc] at hacc
    have hdisj : ∀ u b' n', u ≠ t → (c.th u).pc.ticket = some (b', n') → b + r.len ≤ b' ∨ b' + n' ≤ b :=
      fun u b' n' hu hb' => h.disj t u b r.len b' n' (Ne.symm hu) hme hb'
    have hnone := h.setCNone t r b acc (by simp [hx])
    simp only
    split
    · -- single: completed := true; return fin without publishing
      refine inv_update h t _ c.R c.Y true c.P h.yr (Nat.le_refl _) (ret_self _ _ _ _ _ _ htodo0 (fun _ => htk.1)) (oth_same h t) ?_ (fun _ => Or.inl rfl) hentS
      intro _ _ hnn
      exact absurd hnn hnone
    · refine inv_update h t _ c.R c.Y true c.P h.yr (Nat.le_refl _) ⟨htodo0, by simp, ?_, by simp, (by intro r' b' acc' _ hnn; exact absurd hnn hnone), by simp, by simp, by simp⟩ (oth_same h t) (by simp [Pc.inCS]) (fun _ => Or.inl rfl) hentS
      intro b0 n0 hb0
      simp [Pc.ticket] at hb0
      obtain ⟨rfl, rfl⟩ := hb0
      exact ⟨htk.1, htk.2.1, htk.2.2, fun _ => hbY, by simpa [Pc.acc] using hacc.1, by simpa [Pc.acc] using hacc.2, fun _ hnn => absurd hnn hnone, hdisj⟩
  | pub r b acc =>
    have hme : (c.th t).pc.ticket = some (b, r.len) := by simp [hx, Pc.ticket]
    have hcs : (c.th t).pc.inCS = true := by simp [hx, Pc.inCS]
    have htk := h.tk t b r.len hme
    have hbY := h.csY t b r.len hcs hme
    have hno := others_not_inCS h t b r.len hme hbY
    have hoth : ∀ u b' n', u ≠ t → (c.th u).pc.ticket = some (b', n') → c.Y + r.len ≤ b' ∧
        ((c.th u).pc.inCS = true → b' = c.Y + r.len ∧ c.P = c.P) := by
      intro u b' n' hu hb'
      have h1 := h.disj t u b r.len b' n' (Ne.symm hu) hme hb'
      have h2 := h.tk u b' n' hb'
      refine ⟨by omega, fun hc => ?_⟩
      simp [hno u hu] at hc
    -- nobody else has seen its turn come: it would hold a ticket starting at Y as well
    have hent' : ∀ u r' b', u ≠ t → (c.th u).pc = .ent r' b' → b' = c.Y + r.len := by
      intro u r' b' hu hp
      have hb' := h.entY u r' b' hp
      have h1 := h.disj t u b r.len b' r'.len (Ne.symm hu) hme (by simp [hp, Pc.ticket])
      have h2 := h.tk u b' r'.len (by simp [hp, Pc.ticket])
      omega
    have hret : ∀ o, Inv s (setTh { c with R := c.R, Y := c.Y + r.len, C := c.C, P := c.P } t (ret ⟨Pc.pub r b acc, todo, outs⟩ r o)) := by
      intro o
      refine inv_update h t _ c.R (c.Y + r.len) c.C c.P (by omega) (Nat.le_refl _) (ret_self _ _ _ _ _ _ htodo0 (fun _ => htk.1)) hoth ?_ (hns rfl _) hent'
      intro _ _ hnn
      have h1 := h.pcs t b r.len hcs hme hnn
      simp [hx, Pc.acc] at h1
      have h2 := h.pubFull t r b acc (by simp [hx]) hnn
      omega
    simp only
    split
    · exact hret _
    · split <;> exact hret _
  | unw b n =>
    have hme : (c.th t).pc.ticket = some (b, n) := by simp [hx, Pc.ticket]
    have hcs : (c.th t).pc.inCS = true := by simp [hx, Pc.inCS]
    have htk := h.tk t b n hme
    have hbY := h.csY t b n hcs hme
    have hdisj : ∀ u b' n', u ≠ t → (c.th u).pc.ticket = some (b', n') → b + n ≤ b' ∨ b' + n' ≤ b :=
      fun u b' n' hu hb' => h.disj t u b n b' n' (Ne.symm hu) hme hb'
    have hpcs := h.pcs t b n hcs hme
    simp [hx, Pc.acc] at hpcs
    simp only
    refine inv_update h t _ c.R c.Y true c.P h.yr (Nat.le_refl _) ⟨htodo0, by simp, ?_, by simp, by simp, by simp, by simp, by simp⟩ (oth_same h t) (by simp [Pc.inCS]) (fun _ => Or.inl rfl) hentS
    intro b0 n0 hb0
    simp [Pc.ticket] at hb0
    obtain ⟨rfl, rfl⟩ := hb0
    exact ⟨htk.1, htk.2.1, htk.2.2, fun _ => hbY, by simp [Pc.acc], by simp [Pc.acc], fun _ hnn => by simpa [Pc.acc] using hpcs hnn, hdisj⟩
  | dead b n => simpa using h

end Orx.IW
