import Orx.IW.Core
/-! # Wrapper over an arbitrary `Iterator`: full thread machine

`Core.step` is the ticket protocol; this file adds what surrounds it in the real code and in the
harness: the op programs (`call` steps, queries, loops), the reused buffer of `BufferIter`
(`Vec<Option<T>>`), chunk consumption, the drops performed by the machinery, closures and panics.
The protocol state evolves **only** through `Core.stepW` (see `step_core`). -/
namespace Orx.IWF
open Orx.IW

structure ISrc where
  script : List SrcRes := []
  hint : Hint := .inexact
  adapt : Adapt := .none
  byRef : Bool := false        -- `iterref`: items are references into a harness-owned Vec
  deriving Repr, Inhabited

namespace ISrc

def fn (s : ISrc) : Script := fun i => s.script.getD i .none

/-- number of `Some` entries before the first `None`/panic: the exact size hint at construction -/
def exactLen (s : ISrc) : Nat := (s.script.takeWhile fun r => match r with | .some _ => true | _ => false).length

/-- `initial_len` of `ConIterOfIter::new` -/
def initialLen (s : ISrc) : Option Nat :=
  match s.hint with
  | .exact => some s.exactLen
  | .fixed k => some k
  | _ => none

/-- items are owned values whose drop is observable -/
def owning (s : ISrc) : Bool := !s.byRef

end ISrc

/-- protocol request of an op (`none`: the op does not pull) -/
def reqOf : Op → Option Req
  | .next | .nextv => some (.single false)
  | .chunk n _ => if n = 0 then none else some (.chunk n)
  | .bufnext _ => none          -- depends on the thread's buffer; see `reqsOf`
  | .foreach n _ | .enumforeach n _ | .fold n =>
    if n = 0 then none else if n = 1 then some (.single true) else some (.buffered n true)
  | .values | .idsvalues => some (.single true)
  | .skip => some .skip
  | _ => none

/-- the protocol requests a program will issue, in order (`bufnext` uses the size of the latest `bufnew`) -/
def reqsOf : List SOp → Option Nat → List Req
  | [], _ => []
  | o :: rest, buf =>
    match o.op with
    | .bufnew n => if n = 0 then [] else reqsOf rest (some n)
    | .bufdrop => reqsOf rest none
    | .bufnext _ =>
      match buf with
      | some n => .buffered n false :: reqsOf rest buf
      | none => []
    | .foreach 0 _ | .enumforeach 0 _ | .fold 0 => []
    | .get _ | .clone _ => []
    | op =>
      match reqOf op with
      | some r => r :: reqsOf rest buf
      | none => reqsOf rest buf

structure DThread where
  todo : List SOp := []
  cur : Option Op := none
  q : Nat := 0                                  -- sub-step of a query op
  buf : Option (List (Option Nat)) := none      -- the thread's `BufferIter::values`
  lbuf : Option (List (Option Nat)) := none     -- buffer owned by a running `for_each`/`fold`
  visits : Nat := 0
  sum : Nat := 0
  dead : Bool := false
  deriving Repr, Inhabited

structure FCfg where
  core : Cfg := {}
  d : Nat → DThread := fun _ => {}
  mv : List Nat := []      -- payloads handed to callers
  dr : List Nat := []      -- payloads dropped by the machinery

def setD (c : FCfg) (t : Nat) (x : DThread) : FCfg :=
  { c with d := fun u => if u = t then x else c.d u }

def finished (x : DThread) : Bool := x.dead || (x.cur.isNone && x.todo.isEmpty)

def somes (l : List (Option Nat)) : List Nat := l.filterMap id

def dropEvs (s : ISrc) (vs : List Nat) : List Ev := if s.owning then vs.map Ev.drop else []

def cloneEvs (s : ISrc) (vs : List Nat) : List Ev :=
  match s.adapt with
  | .cloned => vs.map Ev.clone
  | _ => []

def takeCount (k : Take) (a : Nat) : Nat := k.count a

def takeCountO (k : Option Nat) (a : Nat) : Nat :=
  match k with
  | none => a
  | some k => min k a

/-- elements discarded by `Iterator::nth` on a chunk iterator -/
def skipEvs (s : ISrc) (vs : List Nat) : List Ev :=
  if s.owning then vs.map Ev.drop
  else match s.adapt with
    | .cloned => vs.flatMap fun v => [Ev.clone v, Ev.dropc v]
    | _ => []

def add64 (a b : Nat) : Nat := (a + b) % W

def loopParams : Op → Option (Nat × Bool × Option Nat × Bool)
  | .foreach n p => some (n, false, p, false)
  | .enumforeach n p => some (n, true, p, false)
  | .fold n => some (n, false, none, true)
  | .values => some (1, false, none, false)
  | .idsvalues => some (1, true, none, false)
  | _ => none

/-- closure over `(idx, val)` pairs: events, visit count, sum, number left unvisited when it panicked -/
def visitAll (s : ISrc) (withIdx : Bool) (panicAt : Option Nat) :
    List (Nat × Nat) → Nat → Nat → List Ev → (List Ev × Nat × Nat × Option Nat)
  | [], visits, sum, acc => (acc, visits, sum, none)
  | (i, v) :: ps, visits, sum, acc =>
    let acc := acc ++ cloneEvs s [v] ++ [Ev.visit (if withIdx then some i else none) v]
    if panicAt = some visits then (acc, visits + 1, add64 sum v, some ps.length)
    else visitAll s withIdx panicAt ps (visits + 1) (add64 sum v) acc

def setSlot (l : List (Option Nat)) (i : Nat) (v : Option Nat) : List (Option Nat) := l.set i v

/-- `try_get_len` once both loads are done -/
def lenOut (init : Option Nat) (completed : Bool) (r : Nat) : Option Nat :=
  if completed then some 0 else init.map fun l => if r < l then l - r else 0

def moreOf : Option Nat → HasMore
  | none => .maybe
  | some 0 => .no
  | some n => .yes n

/-- a thread at an op boundary takes its next op (`call` step); the flag says whether the protocol machine steps too -/
def callStep (s : ISrc) (t : Nat) (c : FCfg) (x : DThread) (o : SOp) (rest : List SOp) : FCfg × List Ev × Bool :=
  let x := { x with todo := rest, q := 0 }
  let callEv := Ev.call o
  let die := fun (cls : String) => (setD c t { x with dead := true }, [callEv, Ev.panic cls], false)
  match o.op with
  | .bufnew n =>
    if n = 0 then die "chunksize"
    else
      let old := match x.buf with | some b => somes b | none => []
      (setD { c with dr := c.dr ++ (if s.owning then old else []) } t { x with buf := some (List.replicate n none) },
        [callEv] ++ dropEvs s old ++ [.ret .unit], false)
  | .bufdrop =>
    let old := match x.buf with | some b => somes b | none => []
    (setD { c with dr := c.dr ++ (if s.owning then old else []) } t { x with buf := none },
      [callEv] ++ dropEvs s old ++ [.ret .unit], false)
  | .chunk 0 _ => (setD c t x, [callEv, .ret .fin], false)
  | .len | .hasmore => (setD c t { x with cur := some o.op }, [callEv], false)
  | .get _ | .clone _ => die "unsupported"
  | .bufnext _ =>
    match x.buf with
    | none => die "nobuf"
    | some _ => (setD c t { x with cur := some o.op }, [callEv], true)
  | op =>
    match loopParams op with
    | some (n, _, _, _) =>
      if n = 0 then die "chunksize"
      else
        let x := { x with cur := some op, visits := 0, sum := 0,
                          lbuf := if n = 1 then none else some (List.replicate n none) }
        (setD c t x, [callEv], true)
    | none => (setD c t { x with cur := some op }, [callEv], true)

/-- `try_get_len` / `has_more`: up to two loads, no protocol step -/
def queryStep (s : ISrc) (t : Nat) (c : FCfg) (x : DThread) (op : Op) : FCfg × List Ev × Bool :=
  let fin := fun (o : Option Nat) =>
    if op = .len then Ev.ret (.len o) else Ev.ret (.more (moreOf o))
  if x.q = 0 then
    let ev := Ev.ld .C .seqcst (if c.core.C then 1 else 0)
    if c.core.C then (setD c t { x with cur := none }, [ev, fin (some 0)], false)
    else match s.initialLen with
      | none => (setD c t { x with cur := none }, [ev, fin none], false)
      | some _ => (setD c t { x with q := 1 }, [ev], false)
  else
    let ev := Ev.ld .R .acquire c.core.R
    (setD c t { x with cur := none, q := 0 }, [ev, fin (lenOut s.initialLen false c.core.R)], false)

/-- effects, outside the protocol state, of the wrapped `next()` returning (pc `ins`) and of the unwind guard (pc `unw`):
a buffered pull writes the element into its buffer slot (destroying a stale one), a panic destroys a partly collected
`fetch_n` vector / a loop-owned buffer. Last component: the op ended by a panic. -/
def insFx (s : ISrc) (c : FCfg) (x : DThread) (pcOld : Pc) (isLoopOp : Bool) (evs : List Ev) : FCfg × DThread × List Ev × Bool :=
  match pcOld with
  | .ins r _ acc =>
    match s.fn c.core.P with
    | .some v =>
      match r with
      | .buffered _ _ =>
        let i := acc.length
        let b := if isLoopOp then x.lbuf else x.buf
        match b with
        | some l =>
          let old := match l.getD i none with | some o => [o] | none => []
          let l' := setSlot l i (some v)
          let x := if isLoopOp then { x with lbuf := some l' } else { x with buf := some l' }
          ({ c with dr := c.dr ++ (if s.owning then old else []) }, x, evs ++ dropEvs s old, false)
        | none => (c, x, evs, false)
      | _ => (c, x, evs, false)
    | .none => (c, x, evs, false)
    | .panic =>
      -- unwinding starts: a partly collected `fetch_n` Vec drops its elements first (innermost frame);
      -- then the unwind guard's store is the thread's next scheduling point
      let dropped : List Nat :=
        match r with
        | .chunk _ => acc
        | _ => []
      ({ c with dr := c.dr ++ (if s.owning then dropped else []) }, x, evs ++ dropEvs s dropped, false)
  | .unw _ _ =>
    -- the guard has stored `completed`; unwinding continues: a loop-owned buffer is dropped, the op ends
    let dropped : List Nat :=
      if isLoopOp then (match x.lbuf with | some l => somes l | none => []) else []
    ({ c with dr := c.dr ++ (if s.owning then dropped else []) },
      { x with dead := true, lbuf := none }, evs ++ dropEvs s dropped ++ [Ev.panic "probe"], true)
  | _ => (c, x, evs, false)

/-- a request of the protocol machine returned `o` to the op `op`: what the caller / the closure does with it -/
def retFx (s : ISrc) (t : Nat) (c : FCfg) (x : DThread) (op : Op) (o : POut) (evs : List Ev) : FCfg × List Ev × Bool :=
  match op with
  | .next | .nextv =>
    match o with
    | .item b v =>
      let out := if op = .next then Out.item b v else Out.value v
      (setD { c with mv := c.mv ++ [v] } t { x with cur := none }, evs ++ cloneEvs s [v] ++ [.ret out], true)
    | _ => (setD c t { x with cur := none }, evs ++ [.ret .fin], true)
  | .chunk _ kk =>
    match o with
    | .chunk b vals =>
      let a := vals.length
      let j := takeCount kk a
      let sk := kk.skipped a
      let skipped := vals.take sk
      let taken := (vals.take j).drop sk
      let rest := vals.drop j
      (setD { c with mv := c.mv ++ taken, dr := c.dr ++ (if s.owning then skipped ++ rest else []) } t { x with cur := none },
        evs ++ skipEvs s skipped ++ cloneEvs s taken ++ dropEvs s rest ++ [.ret (.chunk b a (a - j) taken)], true)
    | _ => (setD c t { x with cur := none }, evs ++ [.ret .fin], true)
  | .bufnext kk =>
    match o with
    | .chunk b vals =>
      let a := vals.length
      let j := takeCount kk a
      let sk := kk.skipped a
      let skipped := vals.take sk
      let taken := (vals.take j).drop sk
      -- consumed slots become `None`; the others stay in the buffer
      let buf' := x.buf.map fun l => (List.replicate j none) ++ l.drop j
      (setD { c with mv := c.mv ++ taken, dr := c.dr ++ (if s.owning then skipped else []) } t { x with cur := none, buf := buf' },
        evs ++ skipEvs s skipped ++ cloneEvs s taken ++ [.ret (.chunk b a (a - j) taken)], true)
    | _ => (setD c t { x with cur := none }, evs ++ [.ret .fin], true)
  | .skip => (setD c t { x with cur := none }, evs ++ [.ret .unit], true)
  | _ =>
    match loopParams op with
    | none => (setD c t { x with cur := none }, evs, true)
    | some (_, withIdx, panicAt, isFold) =>
      let pairs : List (Nat × Nat) :=
        match o with
        | .item b v => [(b, v)]
        | .chunk b vals => (List.range vals.length).zip vals |>.map fun (i, v) => (b + i, v)
        | _ => []
      match o with
      | .fin =>
        let out := if isFold then Out.fold x.sum else Out.done
        (setD c t { x with cur := none, lbuf := none }, evs ++ [.ret out], true)
      | _ =>
        let (vevs, visits', sum', panicked) := visitAll s withIdx panicAt pairs x.visits x.sum []
        match panicked with
        | none =>
          let lbuf' := x.lbuf.map fun l => (List.replicate pairs.length none) ++ l.drop pairs.length
          (setD { c with mv := c.mv ++ pairs.map (·.2) } t { x with visits := visits', sum := sum', lbuf := lbuf' },
            evs ++ vevs, true)
        | some restLen =>
          let nv := pairs.length - restLen
          let taken := (pairs.take nv).map (·.2)
          let rest := (pairs.drop nv).map (·.2)
          (setD { c with mv := c.mv ++ taken, dr := c.dr ++ (if s.owning then rest else []) } t
              { x with dead := true, lbuf := none },
            evs ++ vevs ++ dropEvs s rest ++ [.panic "closure"], true)

/-- the protocol event of the step, as a list -/
def emitEvs (s : ISrc) (t : Nat) (core : Cfg) : List Ev :=
  match emit s.fn t core with
  | some e => [e]
  | none => []

/-- One step of thread `t`, protocol state excluded: the deco state, the events, and whether the protocol
machine makes its step (`core'` is that next protocol state, for reading only). -/
def stepAux (s : ISrc) (t : Nat) (c : FCfg) (core' : Cfg) : FCfg × List Ev × Bool :=
  let x := c.d t
  if x.dead then (c, [], false) else
  match x.cur with
  | none =>
    match x.todo with
    | [] => (c, [], false)
    | o :: rest => callStep s t c x o rest
  | some op =>
    match op with
    | .len | .hasmore => queryStep s t c x op
    | _ =>
      -- a protocol step
      let pcOld := (c.core.th t).pc
      let evs : List Ev := emitEvs s t c.core
      let nOuts := (c.core.th t).outs.length
      let newOut : Option POut := ((core'.th t).outs.drop nOuts).head?
      let r := insFx s c x pcOld (loopParams op).isSome evs
      if r.2.2.2 then (setD r.1 t r.2.1, r.2.2.1, true) else
      match newOut with
      | none => (setD r.1 t r.2.1, r.2.2.1, true)
      | some o => retFx s t r.1 r.2.1 op o r.2.2.1

/-- One step of thread `t`: new configuration and the events it logs. -/
def step (s : ISrc) (t : Nat) (c : FCfg) : FCfg × List Ev :=
  let core' := stepW s.fn t c.core
  let r := stepAux s t c core'
  ({ r.1 with core := if r.2.2 then core' else c.core }, r.2.1)

/-- the protocol state changes only through `stepW` (or not at all) -/
theorem step_core (s : ISrc) (t : Nat) (c : FCfg) :
    (step s t c).1.core = c.core ∨ (step s t c).1.core = stepW s.fn t c.core := by
  unfold step
  by_cases h : (stepAux s t c (stepW s.fn t c.core)).2.2 <;> simp [h]

/-- the elements still sitting in a thread's buffered iterator -/
def bufSomes (x : DThread) : List Nat :=
  match x.buf with
  | some l => somes l
  | none => []

/-- Owner phase (main thread, after all threads ended). -/
def owner (s : ISrc) (nThreads : Nat) (c : FCfg) (op : OwnerOp) : FCfg × List Ev :=
  -- 1. the threads' buffered iterators are dropped, in thread order
  let bufDrops : List Nat := (List.range nThreads).flatMap fun t => bufSomes (c.d t)
  let c := { c with dr := c.dr ++ (if s.owning then bufDrops else []) }
  let evs := dropEvs s bufDrops
  match op with
  | .drop => (c, evs ++ [.ret .unit])
  | .intoseq kk =>
    -- `into_inner()`: the caller keeps calling the wrapped iterator
    let rec go (fuel : Nat) (p : Nat) (got : List Nat) (acc : List Ev) : List Nat × List Ev × Nat :=
      match fuel with
      | 0 => (got, acc, p)
      | fuel + 1 =>
        if kk = some got.length then (got, acc, p)
        else
          match s.fn p with
          | .some v => go fuel (p + 1) (got ++ [v]) (acc ++ [.srcEnter, .srcExit (.some v)] ++ cloneEvs s [v])
          | .none => (got, acc ++ [.srcEnter, .srcExit .none], p + 1)
          | .panic => (got, acc ++ [.srcEnter, .srcExit .panic, .panic "probe"], p + 1)
    let (got, sevs, p) := go (s.script.length + 2) c.core.P [] []
    let panicked := sevs.getLast? = some (Ev.panic "probe")
    ({ c with core := { c.core with P := p }, mv := c.mv ++ got },
      evs ++ sevs ++ (if panicked then [] else [.ret (.seq got)]))

def init (progs : Nat → List SOp) : FCfg :=
  { core := Orx.IW.init fun t => reqsOf (progs t) none
    d := fun t => { todo := progs t } }

end Orx.IWF
