import Orx.IW.Core
/-! # The safety invariant of the ticket protocol and its preservation by every step.

`Inv s c` holds in every reachable configuration, for every fused wrapped iterator `s`, every family of
per-thread request lists with chunk sizes ≥ 1 and every schedule (`inv_run`). Everything about
exclusivity, index fidelity and freshness of positions follows from it. Counters are unbounded here;
`Orx.IW.stepW_eq` ties the machine-word version to it while no counter reaches `2^64`. -/
namespace Orx.IW

/-- ticket currently held by a thread, if any: (begin, len) -/
def Pc.ticket : Pc → Option (Nat × Nat)
  | .idle | .skp | .resv _ => none
  | .pre r b | .wait r b | .chk r b | .ent r b => some (b, r.len)
  | .cs r b _ | .ins r b _ | .pub r b _ | .setC r b _ => some (b, r.len)
  | .unw b n | .dead b n => some (b, n)

/-- inside the critical section (between winning the ticket and publishing / giving up) -/
def Pc.inCS : Pc → Bool
  | .cs .. | .ins .. | .setC .. | .pub .. | .unw .. | .dead .. => true
  | _ => false

/-- executing the wrapped iterator's `next()` right now -/
def Pc.inNext : Pc → Bool
  | .ins .. => true
  | _ => false

def Pc.acc : Pc → List Nat
  | .cs _ _ a | .ins _ _ a | .pub _ _ a | .setC _ _ a => a
  | _ => []

def ReqOk (r : Req) : Prop := r = .skip ∨ 1 ≤ r.len

def IsSome : SrcRes → Prop
  | .some _ => True
  | _ => False

/-- every call before the `p`-th returned an element -/
def NoNoneBefore (s : Script) (p : Nat) : Prop := ∀ i, i < p → IsSome (s i)

/-- once the wrapped iterator stopped yielding it never yields again (NOT needed by the invariants: the protocol
never polls the iterator again after a `None`; kept to relate positions and elements of fused iterators) -/
def Fused (s : Script) : Prop := ∀ i j, i ≤ j → IsSome (s j) → IsSome (s i)

/-- a thread that has seen the wrapped iterator fail to yield and is about to record it in `completed` -/
def Pc.recording : Pc → Bool
  | .setC .. | .unw .. => true
  | _ => false

structure Inv (s : Script) (c : Cfg) : Prop where
  todoOk : ∀ t, ∀ r ∈ (c.th t).todo, ReqOk r
  resvOk : ∀ t r, (c.th t).pc = .resv r → 1 ≤ r.len
  yr : c.Y ≤ c.R
  tk : ∀ t b n, (c.th t).pc.ticket = some (b, n) → 1 ≤ n ∧ c.Y ≤ b ∧ b + n ≤ c.R
  disj : ∀ t u b n b' n', t ≠ u → (c.th t).pc.ticket = some (b, n) → (c.th u).pc.ticket = some (b', n') →
            b + n ≤ b' ∨ b' + n' ≤ b
  csY : ∀ t b n, (c.th t).pc.inCS = true → (c.th t).pc.ticket = some (b, n) → b = c.Y
  accOk : ∀ t b n, (c.th t).pc.ticket = some (b, n) →
            (∀ k (h : k < (c.th t).pc.acc.length), s (b + k) = .some ((c.th t).pc.acc[k])) ∧ (c.th t).pc.acc.length ≤ n
  pcs : ∀ t b n, (c.th t).pc.inCS = true → (c.th t).pc.ticket = some (b, n) → NoNoneBefore s c.P →
            c.P = b + (c.th t).pc.acc.length
  pidle : (∀ t, (c.th t).pc.inCS = false) → NoNoneBefore s c.P → c.P = c.Y
  csLt : ∀ t r b acc, ((c.th t).pc = .cs r b acc ∨ (c.th t).pc = .ins r b acc ∨ (c.th t).pc = .setC r b acc) → acc.length < r.len
  pubFull : ∀ t r b acc, (c.th t).pc = .pub r b acc → NoNoneBefore s c.P → acc.length = r.len
  setCNone : ∀ t r b acc, (c.th t).pc = .setC r b acc → ¬ NoNoneBefore s c.P
  /-- the wrapped iterator is only ever called while all its previous calls returned elements … -/
  callOk : ∀ t r b acc, ((c.th t).pc = .cs r b acc ∨ (c.th t).pc = .ins r b acc) → NoNoneBefore s c.P
  /-- … because a `None` (or a panic) is recorded in `completed` before the critical section is left -/
  noneC : ¬ NoNoneBefore s c.P → c.C = true ∨ ∃ t, (c.th t).pc.recording = true
  /-- a thread that has seen its turn come holds the ticket `yielded` points at -/
  entY : ∀ t r b, (c.th t).pc = .ent r b → b = c.Y

/-- C07 (mutual exclusion): two distinct threads are never both inside the critical section -/
theorem mutex {s c} (h : Inv s c) (t u : Nat) (htu : t ≠ u)
    (ht : (c.th t).pc.inCS = true) (hu : (c.th u).pc.inCS = true) : False := by
  cases hpt : (c.th t).pc.ticket with
  | none => cases hp : (c.th t).pc <;> simp_all [Pc.inCS, Pc.ticket]
  | some p =>
    cases hpu : (c.th u).pc.ticket with
    | none => cases hp : (c.th u).pc <;> simp_all [Pc.inCS, Pc.ticket]
    | some q =>
      obtain ⟨b, n⟩ := p
      obtain ⟨b', n'⟩ := q
      have h1 := h.csY t b n ht hpt
      have h2 := h.csY u b' n' hu hpu
      have h3 := h.tk t b n hpt
      have h4 := h.tk u b' n' hpu
      have h5 := h.disj t u b n b' n' htu hpt hpu
      omega

@[simp] theorem setTh_th_same (c : Cfg) (t : Nat) (x : Thread) : (setTh c t x).th t = x := by simp [setTh]
@[simp] theorem setTh_th_other (c : Cfg) (t u : Nat) (x : Thread) (h : u ≠ t) : (setTh c t x).th u = c.th u := by simp [setTh, h]
@[simp] theorem setTh_R (c : Cfg) (t : Nat) (x : Thread) : (setTh c t x).R = c.R := rfl
@[simp] theorem setTh_Y (c : Cfg) (t : Nat) (x : Thread) : (setTh c t x).Y = c.Y := rfl
@[simp] theorem setTh_C (c : Cfg) (t : Nat) (x : Thread) : (setTh c t x).C = c.C := rfl
@[simp] theorem setTh_P (c : Cfg) (t : Nat) (x : Thread) : (setTh c t x).P = c.P := rfl

theorem inCS_ticket {pc : Pc} (h : pc.inCS = true) : ∃ b n, pc.ticket = some (b, n) := by
  cases pc <;> simp_all [Pc.inCS, Pc.ticket]

/-- what the moving thread must establish about itself -/
structure SelfOk (s : Script) (c : Cfg) (t : Nat) (x' : Thread) (R' Y' P' : Nat) : Prop where
  todo : ∀ r ∈ x'.todo, ReqOk r
  resv : ∀ r, x'.pc = .resv r → 1 ≤ r.len
  tk : ∀ b n, x'.pc.ticket = some (b, n) → 1 ≤ n ∧ Y' ≤ b ∧ b + n ≤ R' ∧
        (x'.pc.inCS = true → b = Y') ∧
        (∀ k (hk : k < x'.pc.acc.length), s (b + k) = .some (x'.pc.acc[k])) ∧ x'.pc.acc.length ≤ n ∧
        (x'.pc.inCS = true → NoNoneBefore s P' → P' = b + x'.pc.acc.length) ∧
        (∀ u b' n', u ≠ t → (c.th u).pc.ticket = some (b', n') → b + n ≤ b' ∨ b' + n' ≤ b)
  csLt : ∀ r b acc, (x'.pc = .cs r b acc ∨ x'.pc = .ins r b acc ∨ x'.pc = .setC r b acc) → acc.length < r.len
  pubFull : ∀ r b acc, x'.pc = .pub r b acc → NoNoneBefore s P' → acc.length = r.len
  setCNone : ∀ r b acc, x'.pc = .setC r b acc → ¬ NoNoneBefore s P'
  callOk : ∀ r b acc, (x'.pc = .cs r b acc ∨ x'.pc = .ins r b acc) → NoNoneBefore s P'
  entY : ∀ r b, x'.pc = .ent r b → b = Y'

theorem inv_update {s : Script} {c : Cfg} (h : Inv s c) (t : Nat) (x' : Thread) (R' Y' : Nat) (C' : Bool) (P' : Nat)
    (hyr : Y' ≤ R') (hR : c.R ≤ R')
    (hself : SelfOk s c t x' R' Y' P')
    (hoth : ∀ u b' n', u ≠ t → (c.th u).pc.ticket = some (b', n') → Y' ≤ b' ∧
              ((c.th u).pc.inCS = true → b' = Y' ∧ P' = c.P))
    (hidle : x'.pc.inCS = false → (∀ u, u ≠ t → (c.th u).pc.inCS = false) → NoNoneBefore s P' → P' = Y')
    (hnone : ¬ NoNoneBefore s P' → C' = true ∨ x'.pc.recording = true ∨ ∃ u, u ≠ t ∧ (c.th u).pc.recording = true)
    (hent : ∀ u r b, u ≠ t → (c.th u).pc = .ent r b → b = Y') :
    Inv s (setTh { c with R := R', Y := Y', C := C', P := P' } t x') := by
  constructor
  · intro u
    by_cases hu : u = t
    · subst hu; simpa using hself.todo
    · simpa [hu] using h.todoOk u
  · intro u r
    by_cases hu : u = t
    · subst hu; simpa using hself.resv r
    · simpa [hu] using h.resvOk u r
  · simpa using hyr
  · intro u b n
    by_cases hu : u = t
    · subst hu; simp; intro hb; have := hself.tk b n hb; omega
    · simp [hu]; intro hb
      have h1 := h.tk u b n hb
      have h2 := hoth u b n hu hb
      omega
  · intro u v b n b' n' huv
    by_cases hu : u = t <;> by_cases hv : v = t
    · omega
    · subst hu; simp [hv]; intro hb hb'
      exact (hself.tk b n hb).2.2.2.2.2.2.2 v b' n' hv hb'
    · subst hv; simp [hu]; intro hb hb'
      have := (hself.tk b' n' hb').2.2.2.2.2.2.2 u b n hu hb
      omega
    · simp [hu, hv]; exact h.disj u v b n b' n' huv
  · intro u b n
    by_cases hu : u = t
    · subst hu; simp; intro hcs hb; exact (hself.tk b n hb).2.2.2.1 hcs
    · simp [hu]; intro hcs hb; exact ((hoth u b n hu hb).2 hcs).1
  · intro u b n
    by_cases hu : u = t
    · subst hu; simp; intro hb
      have := hself.tk b n hb
      exact ⟨this.2.2.2.2.1, this.2.2.2.2.2.1⟩
    · simp [hu]; exact h.accOk u b n
  · intro u b n
    by_cases hu : u = t
    · subst hu; simp; intro hcs hb; exact (hself.tk b n hb).2.2.2.2.2.2.1 hcs
    · simp [hu]; intro hcs hb hnn
      have hP := ((hoth u b n hu hb).2 hcs).2
      rw [hP] at hnn ⊢
      exact h.pcs u b n hcs hb hnn
  · intro hall hnn
    simp at hnn ⊢
    apply hidle
    · simpa using hall t
    · intro u hu; simpa [hu] using hall u
    · exact hnn
  · intro u r b acc
    by_cases hu : u = t
    · subst hu; simp; exact hself.csLt r b acc
    · simp [hu]; exact h.csLt u r b acc
  · intro u r b acc
    by_cases hu : u = t
    · subst hu; simp; exact hself.pubFull r b acc
    · simp [hu]; intro hpc hnn
      have hP := ((hoth u b r.len hu (by simp [hpc, Pc.ticket])).2 (by simp [hpc, Pc.inCS])).2
      rw [hP] at hnn
      exact h.pubFull u r b acc hpc hnn
  · intro u r b acc
    by_cases hu : u = t
    · subst hu; simp; exact hself.setCNone r b acc
    · simp [hu]; intro hpc hnn
      have hP := ((hoth u b r.len hu (by simp [hpc, Pc.ticket])).2 (by simp [hpc, Pc.inCS])).2
      rw [hP] at hnn
      exact h.setCNone u r b acc hpc hnn
  · intro u r b acc
    by_cases hu : u = t
    · subst hu; simp; exact hself.callOk r b acc
    · simp [hu]; intro hpc
      have hin : (c.th u).pc.inCS = true := by rcases hpc with h1 | h1 <;> simp [h1, Pc.inCS]
      have htk : (c.th u).pc.ticket = some (b, r.len) := by rcases hpc with h1 | h1 <;> simp [h1, Pc.ticket]
      have hP := ((hoth u b r.len hu htk).2 hin).2
      rw [hP]
      exact h.callOk u r b acc hpc
  · intro hnn
    simp at hnn ⊢
    rcases hnone hnn with h1 | h1 | ⟨u, hu, h1⟩
    · exact Or.inl h1
    · exact Or.inr ⟨t, by simpa using h1⟩
    · exact Or.inr ⟨u, by simpa [hu] using h1⟩
  · intro u r b
    by_cases hu : u = t
    · subst hu; simp; exact hself.entY r b
    · simp [hu]; exact hent u r b hu

theorem cfg_eta (c : Cfg) : ({ c with R := c.R, Y := c.Y, C := c.C, P := c.P } : Cfg) = c := rfl

theorem oth_same {s : Script} {c : Cfg} (h : Inv s c) (t : Nat) :
    ∀ u b' n', u ≠ t → (c.th u).pc.ticket = some (b', n') → c.Y ≤ b' ∧
      ((c.th u).pc.inCS = true → b' = c.Y ∧ c.P = c.P) := by
  intro u b' n' _ hb
  exact ⟨(h.tk u b' n' hb).2.1, fun hcs => ⟨h.csY u b' n' hcs hb, rfl⟩⟩

/-- if `t` holds a ticket at Y, no other thread is in the critical section -/
theorem others_not_inCS {s : Script} {c : Cfg} (h : Inv s c) (t : Nat) (b n : Nat)
    (ht : (c.th t).pc.ticket = some (b, n)) (hb : b = c.Y) : ∀ u, u ≠ t → (c.th u).pc.inCS = false := by
  intro u hu
  cases hcs : (c.th u).pc.inCS with
  | false => rfl
  | true =>
    obtain ⟨b', n', hb'⟩ := inCS_ticket hcs
    have h1 := h.csY u b' n' hcs hb'
    have h2 := h.tk t b n ht
    have h3 := h.tk u b' n' hb'
    have h4 := h.disj t u b n b' n' (Ne.symm hu) ht hb'
    omega

theorem iters_eq (r : Req) (b : Nat) (h : b + r.len < W) : iters r b = r.len := by
  unfold iters satAdd
  split
  · simp [h]
  · rfl

theorem fused_some {s : Script} (hf : Fused s) {p v} (h : s p = .some v) : NoNoneBefore s p := by
  intro i hi
  exact hf i p (Nat.le_of_lt hi) (by simp [h, IsSome])

end Orx.IW
