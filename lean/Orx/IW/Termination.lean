import Orx.Fair
import Orx.IW.Progress
import Orx.IW.NoLoss
/-! # Termination of the ticket protocol under weak fairness (C09)

A potential `mu` (remaining own steps of every thread; a waiting thread weighs the same at both loads of its
spin loop) strictly decreases with every step of a thread that is not spinning, and is unchanged by spin
iterations. Together with deadlock freedom (`Progress.deadlock_free`) and the generic lemma
`Orx.Fair.fair_termination` this gives: under every weakly fair schedule all threads finish. -/
namespace Orx.IW

def reqCost (r : Req) : Nat := 2 * r.len + 20

/-- a looping request (`for_each`, `fold`, `values`) that has obtained at least one element goes again: the weight of
the next round is charged as soon as the element is there -/
def reissue (r : Req) (acc : List Nat) : Nat := if r.isLoop = true ∧ acc ≠ [] then 2 * r.len + 18 else 0

def pcCost (c : Cfg) : Pc → Nat
  | .idle => 0
  | .skp => 1
  | .resv r => 2 * r.len + 18
  | .pre r _ => 2 * r.len + 17
  | .wait r b => if c.C then 2 else if c.Y < b then 2 * r.len + 16 else 2 * r.len + 15
  | .chk r _ => if c.C then 1 else 2 * r.len + 16
  | .ent r _ => if c.C then 1 else 2 * r.len + 14
  | .cs r _ acc => 2 * (r.len - acc.length) + 10
  | .ins r _ acc => 2 * (r.len - acc.length) + 9
  | .setC r _ acc => 2 + reissue r acc
  | .pub r _ acc => 1 + reissue r acc
  | .unw .. => 1
  | .dead .. => 0

def todoCost (l : List Req) : Nat := (l.map reqCost).sum

def thCost (c : Cfg) (t : Nat) : Nat := pcCost c (c.th t).pc + todoCost (c.th t).todo

/-- the potential: the threads' weights plus `K` for every call of the wrapped iterator that can still succeed
(`L` is the index of the call that returns the first `None`) -/
def mu (T K L : Nat) (c : Cfg) : Nat := ((List.range T).map (thCost c)).sum + K * (L + 1 - c.P)

theorem sum_le_of_pointwise (T : Nat) (f g : Nat → Nat) (h : ∀ u, u < T → f u ≤ g u) :
    ((List.range T).map f).sum ≤ ((List.range T).map g).sum := by
  induction T with
  | zero => simp
  | succ T ih =>
    simp only [List.range_succ, List.map_append, List.sum_append, List.map_cons, List.map_nil, List.sum_cons, List.sum_nil]
    have := ih (fun u hu => h u (by omega))
    have := h T (by omega)
    omega

theorem sum_lt_of_one (T : Nat) (f g : Nat → Nat) (t : Nat) (ht : t < T) (hlt : f t < g t)
    (h : ∀ u, u < T → u ≠ t → f u ≤ g u) :
    ((List.range T).map f).sum < ((List.range T).map g).sum := by
  induction T with
  | zero => omega
  | succ T ih =>
    simp only [List.range_succ, List.map_append, List.sum_append, List.map_cons, List.map_nil, List.sum_cons, List.sum_nil]
    by_cases htT : t = T
    · subst htT
      have := sum_le_of_pointwise t f g (fun u hu => h u (by omega) (by omega))
      omega
    · have := ih (by omega) (fun u hu hne => h u (by omega) hne)
      have := h T (by omega) (fun hc => htT hc.symm)
      omega

theorem sum_eq_of_pointwise (T : Nat) (f g : Nat → Nat) (h : ∀ u, u < T → f u = g u) :
    ((List.range T).map f).sum = ((List.range T).map g).sum := by
  have h1 := sum_le_of_pointwise T f g (fun u hu => Nat.le_of_eq (h u hu))
  have h2 := sum_le_of_pointwise T g f (fun u hu => Nat.le_of_eq (h u hu).symm)
  omega

/-- the weight of a thread that did not move does not grow when `completed` gets set or `yielded` advances -/
theorem pcCost_mono (c c' : Cfg) (pc : Pc) (hC : c.C = true → c'.C = true) (hY : c.Y ≤ c'.Y) :
    pcCost c' pc ≤ pcCost c pc := by
  cases pc <;> simp only [pcCost] <;> (try omega)
  all_goals
    cases hc : c.C <;> cases hc' : c'.C <;> simp_all <;> (try split) <;> (try split) <;> omega

end Orx.IW

namespace Orx.IW

/-- the request a thread is working on -/
def Pc.req : Pc → Option Req
  | .resv r | .pre r _ | .wait r _ | .chk r _ | .ent r _ | .cs r _ _ | .ins r _ _ | .setC r _ _ | .pub r _ _ => some r
  | _ => none

/-- all chunk sizes are at most `M` -/
def ML (M : Nat) (c : Cfg) : Prop :=
  ∀ t, (∀ r ∈ (c.th t).todo, r.len ≤ M) ∧ (∀ r, (c.th t).pc.req = some r → r.len ≤ M)

theorem step_Y_mono (s : Script) (t : Nat) (c : Cfg) : c.Y ≤ (step s t c).Y := by
  unfold step
  repeat' (first | split | simp [setTh])

theorem step_P_mono (s : Script) (t : Nat) (c : Cfg) : c.P ≤ (step s t c).P := by
  unfold step
  repeat' (first | split | simp [setTh])

/-- only the exit of the wrapped `next()` advances the call counter -/
theorem step_P_same (s : Script) (t : Nat) (c : Cfg) (h : ∀ r b acc, (c.th t).pc ≠ .ins r b acc) : (step s t c).P = c.P := by
  unfold step
  generalize hx : c.th t = x at h
  obtain ⟨pc, todo, outs⟩ := x
  cases pc with
  | ins r b acc => exact absurd rfl (h r b acc)
  | _ => simp only <;> (try (repeat' (first | split | simp [setTh])))

/-- other threads never get heavier -/
theorem other_cost_le (s : Script) (t u : Nat) (c : Cfg) (hu : u ≠ t) : thCost (step s t c) u ≤ thCost c u := by
  unfold thCost
  rw [step_th_other s t u c hu]
  have := pcCost_mono c (step s t c) (c.th u).pc (step_C_mono s t c) (step_Y_mono s t c)
  omega

/-- a spin iteration leaves the spinner's weight unchanged … -/
theorem spin_cost_eq (s : Script) (t : Nat) (c : Cfg) (h : Spinning c t) : thCost (step s t c) t = thCost c t := by
  obtain ⟨hC, r, b, hpc, hlt⟩ := h
  have h1 : ¬ b = c.Y := by omega
  have h2 : ¬ b < c.Y := by omega
  rcases hpc with hpc | hpc <;> unfold thCost step <;> simp [hpc, h1, h2, hC, setTh, pcCost, hlt]

/-- weight of a thread that returns from a request -/
theorem ret_cost (c : Cfg) (x : Thread) (r : Req) (o : POut) :
    pcCost c (ret x r o).pc + todoCost (ret x r o).todo =
      (if r.isLoop = true ∧ o ≠ .fin then 2 * r.len + 18 else 0) + todoCost x.todo := by
  unfold ret; split <;> simp [pcCost]

/-- … a step that is not the exit of `next()` makes a busy, non-spinning thread strictly lighter … -/
theorem prog_cost_lt {s : Script} {c : Cfg} (hi : Inv s c) (t : Nat) (hb : Busy c t) (hs : ¬ Spinning c t)
    (hni : ∀ r b acc, (c.th t).pc ≠ .ins r b acc) :
    thCost (step s t c) t < thCost c t := by
  obtain ⟨hbusy, hnd⟩ := hb
  unfold thCost step
  generalize hx : c.th t = x at hbusy hnd hs hni
  obtain ⟨pc, todo, outs⟩ := x
  have hretfin : ∀ (c' : Cfg) (x : Thread) r, pcCost c' (ret x r .fin).pc + todoCost (ret x r .fin).todo = todoCost x.todo := by
    intro c' x r; rw [ret_cost]; simp
  cases pc with
  | idle =>
    cases todo with
    | nil => simp at hbusy
    | cons r rest =>
      cases r <;> simp [setTh, pcCost, todoCost, reqCost, Req.len] <;> omega
  | skp => simp only [setTh_th_same]; rw [ret_cost]; simp [pcCost, Req.isLoop]
  | resv r => simp [setTh, pcCost]
  | pre r b =>
    simp only
    split
    · simp only [setTh_th_same]; rw [hretfin]; simp [pcCost]
    · rename_i hC
      simp [setTh, pcCost, hC]; split <;> omega
  | wait r b =>
    have hme : (c.th t).pc.ticket = some (b, r.len) := by simp [hx, Pc.ticket]
    have htk := hi.tk t b r.len hme
    have hns : c.C = true ∨ ¬ c.Y < b := by
      by_cases hC : c.C = true
      · exact Or.inl hC
      · right; intro hlt; exact hs ⟨by simpa using hC, r, b, Or.inl (by simp [hx]), hlt⟩
    simp only
    split
    · rename_i hbY; simp [setTh, pcCost, hbY]; split <;> omega
    · split
      · simp only [setTh_th_same]; rw [hretfin]; simp [pcCost]; split <;> (try split) <;> omega
      · rename_i h1 h2
        rcases hns with hC | hY
        · simp [setTh, pcCost, hC]
        · omega
  | chk r b =>
    simp only
    split
    · rename_i hC; simp only [setTh_th_same]; rw [hretfin]; simp [pcCost, hC]
    · rename_i hC
      have hY : ¬ c.Y < b := by
        intro hlt; exact hs ⟨by simpa using hC, r, b, Or.inr (by simp [hx]), hlt⟩
      simp [setTh, pcCost, hC, hY]
  | ent r b =>
    simp only
    split
    · rename_i hC; simp only [setTh_th_same]; rw [hretfin]; simp [pcCost, hC]
    · rename_i hC
      split <;> simp [setTh, pcCost, hC, reissue] <;> omega
  | cs r b acc => simp [setTh, pcCost]
  | ins r b acc => exact absurd rfl (hni r b acc)
  | setC r b acc =>
    simp only; split
    · simp only [setTh_th_same]; rw [hretfin]; simp [pcCost]; omega
    · simp [setTh, pcCost]
  | pub r b acc =>
    simp only
    cases acc with
    | nil => simp only [setTh_th_same]; rw [hretfin]; simp [pcCost]; omega
    | cons v rest =>
      simp only; split <;> (simp only [setTh_th_same]; rw [ret_cost]; simp [pcCost, reissue])
  | unw b n => simp [setTh, pcCost]
  | dead b n => exact absurd rfl (hnd b n)

/-- … and the exit of `next()` makes it heavier by at most `2 * len + 11` (the next round of a looping request). -/
theorem ins_cost_le {s : Script} {c : Cfg} (hi : Inv s c) (t : Nat) (r : Req) (b : Nat) (acc : List Nat)
    (hpc : (c.th t).pc = .ins r b acc) : thCost (step s t c) t ≤ thCost c t + 2 * r.len + 11 := by
  have hlt := hi.csLt t r b acc (Or.inr (Or.inl hpc))
  unfold thCost step
  simp only [hpc]
  cases s c.P with
  | some v =>
    simp only
    split
    · split <;> simp [setTh, pcCost, reissue] <;> (try split) <;> omega
    · simp [setTh, pcCost]; omega
  | none => simp [setTh, pcCost, reissue]; split <;> omega
  | panic => simp [setTh, pcCost]; omega

end Orx.IW

namespace Orx.IW

def lenSum (l : List Req) : Nat := (l.map Req.len).sum

/-- positions a thread will still reserve for sure: its pending requests, the request it is about to reserve, and the
next round of a looping request that has already obtained an element -/
def pend (x : Thread) : Nat :=
  lenSum x.todo + (match x.pc with
    | .resv r => r.len
    | .cs r _ acc | .ins r _ acc | .setC r _ acc | .pub r _ acc => if r.isLoop = true ∧ acc ≠ [] then r.len else 0
    | _ => 0)

def pending (T : Nat) (c : Cfg) : Nat := ((List.range T).map fun t => pend (c.th t)).sum

/-- everything the termination argument carries along; `L` is the index of the call that returns the first `None`,
`M` bounds the chunk sizes, `B < 2^64` bounds all reservations -/
structure TInv (s : Script) (T M L B : Nat) (c : Cfg) : Prop where
  inv : Inv s c
  cover : Cover c
  deadC : DeadC c
  ml : ML M c
  out : ∀ t, T ≤ t → (c.th t).pc = .idle ∧ (c.th t).todo = []
  pbound : c.P ≤ L + 1
  budget : c.R + pending T c + M * (L + 1 - c.P) ≤ B

theorem ret_req (x : Thread) (r : Req) (o : POut) : (ret x r o).pc.req = none ∨ (ret x r o).pc.req = some r := by
  rcases ret_pc x r o with h | h <;> simp [h, Pc.req]

theorem step_ml (s : Script) (M : Nat) {c : Cfg} (h : ML M c) (t : Nat) : ML M (step s t c) := by
  intro u
  by_cases hu : u = t
  · subst hu
    have h0 := h u
    unfold step
    generalize hx : c.th u = x at h0
    obtain ⟨pc, todo, outs⟩ := x
    have hr : ∀ r, pc.req = some r → r.len ≤ M := fun r hh => h0.2 r (by simpa using hh)
    have htd : ∀ r ∈ todo, r.len ≤ M := by simpa using h0.1
    have hret : ∀ (x : Thread) r o, x.todo = todo → r.len ≤ M →
        (∀ r' ∈ (ret x r o).todo, r'.len ≤ M) ∧ (∀ r', (ret x r o).pc.req = some r' → r'.len ≤ M) := by
      intro x r o h1 h2
      refine ⟨by simpa [ret_todo, h1] using htd, ?_⟩
      intro r' hr'
      rcases ret_req x r o with h3 | h3 <;> rw [h3] at hr' <;> simp at hr'
      subst hr'; exact h2
    have keep : ∀ pc' : Pc, (∀ r', pc'.req = some r' → r'.len ≤ M) →
        (∀ r ∈ (⟨pc', todo, outs⟩ : Thread).todo, r.len ≤ M) ∧ (∀ r, (⟨pc', todo, outs⟩ : Thread).pc.req = some r → r.len ≤ M) :=
      fun pc' h1 => ⟨htd, h1⟩
    cases pc with
    | idle =>
      cases todo with
      | nil => simpa [hx] using h0
      | cons r rest =>
        have h1 : r.len ≤ M := htd r (by simp)
        have h2 : ∀ r' ∈ rest, r'.len ≤ M := fun r' hr' => htd r' (by simp [hr'])
        cases r <;> simp [setTh, Pc.req] <;> first | exact h2 | exact ⟨h2, h1⟩ | exact ⟨h2, by simpa using h1⟩
    | skp => simp only [setTh_th_same]; exact hret _ _ _ rfl (by simp [Req.len])
    | resv r => simp only [setTh_th_same]; exact keep _ (by intro r' h'; simp [Pc.req] at h'; subst h'; exact hr r rfl)
    | pre r b =>
      simp only; split
      · simp only [setTh_th_same]; exact hret _ _ _ rfl (hr r rfl)
      · simp only [setTh_th_same]; exact keep _ (by intro r' h'; simp [Pc.req] at h'; subst h'; exact hr r rfl)
    | wait r b =>
      simp only; split
      · simp only [setTh_th_same]; exact keep _ (by intro r' h'; simp [Pc.req] at h'; subst h'; exact hr r rfl)
      · split
        · simp only [setTh_th_same]; exact hret _ _ _ rfl (hr r rfl)
        · simp only [setTh_th_same]; exact keep _ (by intro r' h'; simp [Pc.req] at h'; subst h'; exact hr r rfl)
    | chk r b =>
      simp only; split
      · simp only [setTh_th_same]; exact hret _ _ _ rfl (hr r rfl)
      · simp only [setTh_th_same]; exact keep _ (by intro r' h'; simp [Pc.req] at h'; subst h'; exact hr r rfl)
    | ent r b =>
      simp only; split
      · simp only [setTh_th_same]; exact hret _ _ _ rfl (hr r rfl)
      · split <;> (simp only [setTh_th_same]; exact keep _ (by intro r' h'; simp [Pc.req] at h'; subst h'; exact hr r rfl))
    | cs r b acc => simp only [setTh_th_same]; exact keep _ (by intro r' h'; simp [Pc.req] at h'; subst h'; exact hr r rfl)
    | ins r b acc =>
      simp only
      cases s c.P with
      | some v => simp only; split
                  · split <;> (simp only [setTh_th_same]; exact keep _ (by intro r' h'; simp [Pc.req] at h'; subst h'; exact hr r rfl))
                  · simp only [setTh_th_same]; exact keep _ (by intro r' h'; simp [Pc.req] at h'; subst h'; exact hr r rfl)
      | none => simp only [setTh_th_same]; exact keep _ (by intro r' h'; simp [Pc.req] at h'; subst h'; exact hr r rfl)
      | panic => simp only [setTh_th_same]; exact keep _ (by intro r' h'; simp [Pc.req] at h')
    | setC r b acc =>
      simp only; split
      · simp only [setTh_th_same]; exact hret _ _ _ rfl (hr r rfl)
      · simp only [setTh_th_same]; exact keep _ (by intro r' h'; simp [Pc.req] at h'; subst h'; exact hr r rfl)
    | pub r b acc =>
      simp only
      cases acc with
      | nil => simp only [setTh_th_same]; exact hret _ _ _ rfl (hr r rfl)
      | cons v rest => simp only; split <;> (simp only [setTh_th_same]; exact hret _ _ _ rfl (hr r rfl))
    | unw b n => simp only [setTh_th_same]; exact keep _ (by intro r' h'; simp [Pc.req] at h')
    | dead b n => simpa [hx] using h0
  · rw [step_th_other s t u c hu]; exact h u

theorem ret_pend (x : Thread) (r : Req) (o : POut) :
    pend (ret x r o) = lenSum x.todo + (if r.isLoop = true ∧ o ≠ .fin then r.len else 0) := by
  unfold ret; split <;> simp [pend]

/-- own reservation budget of the moving thread: what is reserved plus what it will still reserve grows by at most
its chunk size, and only at the exit of `next()` -/
theorem step_pend (s : Script) {c : Cfg} (t : Nat) :
    (step s t c).R + pend ((step s t c).th t) ≤ c.R + pend (c.th t) +
      (match (c.th t).pc with | .ins r _ _ => r.len | _ => 0) := by
  unfold step
  generalize hx : c.th t = x
  obtain ⟨pc, todo, outs⟩ := x
  cases pc with
  | idle =>
    cases todo with
    | nil => simp [hx]
    | cons r rest => cases r <;> simp [setTh, pend, lenSum, Req.len] <;> omega
  | skp => simp only [setTh_th_same]; rw [ret_pend]; simp [pend, Req.isLoop]
  | resv r => simp [setTh, pend]; omega
  | pre r b => simp only; split <;> (simp only [setTh_th_same]; (try rw [ret_pend]); simp [setTh, pend])
  | wait r b => simp only; split <;> (try split) <;> (simp only [setTh_th_same]; (try rw [ret_pend]); simp [setTh, pend])
  | chk r b => simp only; split <;> (simp only [setTh_th_same]; (try rw [ret_pend]); simp [setTh, pend])
  | ent r b => simp only; split <;> (try split) <;> (simp only [setTh_th_same]; (try rw [ret_pend]); simp [setTh, pend])
  | cs r b acc => simp [setTh, pend]
  | ins r b acc =>
    simp only
    cases s c.P <;> simp only <;> (repeat' (first | split | simp [setTh, pend])) <;> (try omega)
  | setC r b acc => simp only; split <;> (simp only [setTh_th_same]; (try rw [ret_pend]); simp [setTh, pend])
  | pub r b acc =>
    simp only
    cases acc with
    | nil => simp only [setTh_th_same]; rw [ret_pend]; simp [pend]
    | cons v rest => simp only; split <;> (simp only [setTh_th_same]; rw [ret_pend]; simp [pend])
  | unw b n => simp [setTh, pend]
  | dead b n => simp [hx]

theorem not_busy_step (s : Script) (t : Nat) (c : Cfg) (h : ¬ Busy c t) : step s t c = c := by
  unfold Busy at h
  unfold step
  generalize hx : c.th t = x at h
  obtain ⟨pc, todo, outs⟩ := x
  cases pc with
  | idle =>
    cases todo with
    | nil => rfl
    | cons r rest => exact absurd ⟨Or.inr (by simp), by simp⟩ h
  | dead b n => rfl
  | _ => exact absurd ⟨Or.inl (by simp), by simp⟩ h

end Orx.IW

namespace Orx.IW

theorem sum_le_add_one (T : Nat) (f g : Nat → Nat) (t δ : Nat) (ht : t < T) (hle : f t ≤ g t + δ)
    (h : ∀ u, u < T → u ≠ t → f u ≤ g u) :
    ((List.range T).map f).sum ≤ ((List.range T).map g).sum + δ := by
  induction T with
  | zero => omega
  | succ T ih =>
    simp only [List.range_succ, List.map_append, List.sum_append, List.map_cons, List.map_nil, List.sum_cons, List.sum_nil]
    by_cases htT : t = T
    · subst htT
      have := sum_le_of_pointwise t f g (fun u hu => h u (by omega) (by omega))
      omega
    · have := ih (by omega) (fun u hu hne => h u (by omega) hne)
      have := h T (by omega) (fun hc => htT hc.symm)
      omega

theorem busy_lt {s : Script} {T M L B : Nat} {c : Cfg} (h : TInv s T M L B c) (t : Nat) (hb : Busy c t) : t < T := by
  rcases Nat.lt_or_ge t T with h1 | h1
  · exact h1
  · have := h.out t h1
    rcases hb.1 with h2 | h2
    · exact absurd this.1 h2
    · exact absurd this.2 h2

/-- the wrapped iterator is called at most until its first `None` -/
theorem ins_P_le {s : Script} {c : Cfg} (hi : Inv s c) {L : Nat} (hL : FirstNone s L) (t : Nat) (r : Req) (b : Nat) (acc : List Nat)
    (hpc : (c.th t).pc = .ins r b acc) : c.P ≤ L := by
  have hnn := hi.callOk t r b acc (Or.inr hpc)
  rcases Nat.lt_or_ge L c.P with h | h
  · exact absurd (hnn L h) hL.1
  · exact h

theorem ins_P_succ (s : Script) (t : Nat) (c : Cfg) (r : Req) (b : Nat) (acc : List Nat)
    (hpc : (c.th t).pc = .ins r b acc) : (step s t c).P = c.P + 1 := by
  unfold step; simp only [hpc]
  cases s c.P <;> simp only <;> repeat' (first | split | simp [setTh])

theorem pending_step (s : Script) (T : Nat) {c : Cfg} (t : Nat) (ht : t < T) :
    (step s t c).R + pending T (step s t c) ≤ c.R + pending T c +
      (match (c.th t).pc with | .ins r _ _ => r.len | _ => 0) := by
  have hoth : ∀ u, u ≠ t → pend ((step s t c).th u) = pend (c.th u) := fun u hu => by rw [step_th_other s t u c hu]
  have hown := step_pend s (c := c) t
  have key : ∀ (f g : Nat → Nat), (∀ u, u ≠ t → f u = g u) → ∀ T, t < T →
      ((List.range T).map f).sum + g t = ((List.range T).map g).sum + f t := by
    intro f g hfg T
    induction T with
    | zero => intro h; omega
    | succ T ih =>
      intro h
      simp only [List.range_succ, List.map_append, List.sum_append, List.map_cons, List.map_nil, List.sum_cons, List.sum_nil]
      by_cases htT : t = T
      · subst htT
        have := sum_eq_of_pointwise t f g (fun u hu => hfg u (by omega))
        omega
      · have := ih (by omega)
        have := hfg T (fun hc => htT hc.symm)
        omega
  have := key (fun u => pend ((step s t c).th u)) (fun u => pend (c.th u)) hoth T ht
  unfold pending
  omega

/-- the bundle is preserved by every step -/
theorem tinv_step {s : Script} {T M L B : Nat} (hL : FirstNone s L) (hB : B < W) {c : Cfg} (h : TInv s T M L B c) (t : Nat) :
    TInv s T M L B (step s t c) := by
  by_cases hb : Busy c t
  · have ht := busy_lt h t hb
    have hR : c.R < W := by have := h.budget; omega
    have hpend := pending_step s T (c := c) t ht
    by_cases hins : ∃ r b acc, (c.th t).pc = .ins r b acc
    · obtain ⟨r, b, acc, hpc⟩ := hins
      have hPL := ins_P_le h.inv hL t r b acc hpc
      have hP1 := ins_P_succ s t c r b acc hpc
      have hlen : r.len ≤ M := (h.ml t).2 r (by simp [hpc, Pc.req])
      simp only [hpc] at hpend
      refine ⟨step_inv h.inv hR t, cover_step h.inv h.cover t, deadC_step s h.deadC t, step_ml s M h.ml t, ?_, by omega, ?_⟩
      · intro u hu; rw [step_th_other s t u c (by omega)]; exact h.out u hu
      · have hb := h.budget
        rw [hP1]
        have h1 : M * (L + 1 - (c.P + 1)) + M = M * (L + 1 - c.P) := by
          have : L + 1 - c.P = (L + 1 - (c.P + 1)) + 1 := by omega
          rw [this, Nat.mul_add, Nat.mul_one]
        omega
    · have hni : ∀ r b acc, (c.th t).pc ≠ .ins r b acc := fun r b acc hp => hins ⟨r, b, acc, hp⟩
      have hP := step_P_same s t c hni
      have hz : (match (c.th t).pc with | .ins r _ _ => r.len | _ => 0) = 0 := by
        generalize (c.th t).pc = pc at hni
        cases pc <;> simp
        exact absurd rfl (hni _ _ _)
      rw [hz] at hpend
      refine ⟨step_inv h.inv hR t, cover_step h.inv h.cover t, deadC_step s h.deadC t, step_ml s M h.ml t, ?_, by rw [hP]; exact h.pbound, ?_⟩
      · intro u hu; rw [step_th_other s t u c (by omega)]; exact h.out u hu
      · rw [hP]; have := h.budget; omega
  · rw [not_busy_step s t c hb]; exact h

theorem thCost_congr (c c' : Cfg) (u : Nat) (hth : c'.th u = c.th u) (hC : c'.C = c.C) (hY : c'.Y = c.Y) :
    thCost c' u = thCost c u := by
  unfold thCost
  rw [hth]
  congr 1
  cases (c.th u).pc <;> simp [pcCost, hC, hY]

/-- the transition system of the protocol as an instance of the generic fairness lemma -/
def sys (s : Script) (T M L B : Nat) (hL : FirstNone s L) (hB : B < W) : Orx.Fair.Sys Cfg where
  step := fun t c => step s t c
  inv := TInv s T M L B
  busy := Busy
  spin := Spinning
  mu := mu T (2 * M + 12) L
  T := List.range T
  inv_step := fun c t h => tinv_step hL hB h t
  idle_step := fun c t _ hb => not_busy_step s t c hb
  spin_mu := by
    intro c t h hb hs
    obtain ⟨hR, hY, hC, hP, hoth, _⟩ := spin_step_harmless s t c hs
    unfold mu
    rw [hP]
    congr 1
    apply sum_eq_of_pointwise
    intro u hu
    by_cases hut : u = t
    · subst hut; exact spin_cost_eq s u c hs
    · exact thCost_congr c (step s t c) u (hoth u hut) hC hY
  prog_mu := by
    intro c t h hb hs
    have ht := busy_lt h t hb
    unfold mu
    by_cases hins : ∃ r b acc, (c.th t).pc = .ins r b acc
    · obtain ⟨r, b, acc, hpc⟩ := hins
      have hPL := ins_P_le h.inv hL t r b acc hpc
      have hP1 := ins_P_succ s t c r b acc hpc
      have hlen : r.len ≤ M := (h.ml t).2 r (by simp [hpc, Pc.req])
      have hsum := sum_le_add_one T (thCost (step s t c)) (thCost c) t (2 * r.len + 11) ht
        (by have := ins_cost_le h.inv t r b acc hpc; omega) (fun u _ hut => other_cost_le s t u c hut)
      rw [hP1]
      have h1 : (2 * M + 12) * (L + 1 - (c.P + 1)) + (2 * M + 12) = (2 * M + 12) * (L + 1 - c.P) := by
        have : L + 1 - c.P = (L + 1 - (c.P + 1)) + 1 := by omega
        rw [this, Nat.mul_add, Nat.mul_one]
      omega
    · have hni : ∀ r b acc, (c.th t).pc ≠ .ins r b acc := fun r b acc hp => hins ⟨r, b, acc, hp⟩
      have hP := step_P_same s t c hni
      rw [hP]
      have := sum_lt_of_one T _ _ t ht (prog_cost_lt h.inv t hb hs hni) (fun u _ hut => other_cost_le s t u c hut)
      omega
  spin_keeps := by
    intro c t u h hbu hsu hut hbt hst
    obtain ⟨hR, hY, hC, _, hoth, _⟩ := spin_step_harmless s u c hsu
    have hth := hoth t (Ne.symm hut)
    refine ⟨?_, ?_⟩
    · unfold Busy; rw [hth]; exact hbt
    · intro hsp
      apply hst
      obtain ⟨h1, r, b, h2, h3⟩ := hsp
      exact ⟨by rw [← hC]; exact h1, r, b, by rw [← hth]; exact h2, by rw [← hY]; exact h3⟩
  exists_prog := by
    intro c h ⟨t, _, hb⟩
    obtain ⟨u, hbu, hsu⟩ := deadlock_free h.inv h.cover h.deadC t hb
    exact ⟨u, List.mem_range.mpr (busy_lt h u hbu), hbu, hsu⟩

theorem tinv_init (s : Script) (T M L B : Nat) (ps : Nat → List Req) (hok : ∀ t, ∀ r ∈ ps t, ReqOk r)
    (hml : ∀ t, ∀ r ∈ ps t, r.len ≤ M) (hout : ∀ t, T ≤ t → ps t = [])
    (hB : ((List.range T).map fun t => lenSum (ps t)).sum + M * (L + 1) ≤ B) : TInv s T M L B (init ps) := by
  refine ⟨inv_init s ps hok, cover_init ps, by intro t b n h; simp [init] at h, ?_, ?_, by simp [init], ?_⟩
  · intro t; exact ⟨by simpa [init] using hml t, by simp [init, Pc.req]⟩
  · intro t ht; exact ⟨by simp [init], by simpa [init] using hout t ht⟩
  · have : pending T (init ps) = ((List.range T).map fun t => lenSum (ps t)).sum := by
      unfold pending
      apply sum_eq_of_pointwise
      intro u _; simp [init, pend]
    simp [this, init]; exact hB

/-- **Termination under weak fairness.** For every wrapped iterator that eventually returns `None` or panics (call
`L` is the first that does not return an element; the iterator may be non-fused), every family of per-thread
request lists over `T` threads — single pulls, one-shot chunk pulls, buffered pulls, `skip_to_end`, and the looping
adaptors `for_each` / `fold` / `values` with any chunk sizes `1 ≤ n ≤ M` — whose reservations stay below `2^64`
(`B`), and every schedule `σ` that schedules each of the `T` threads again and again: after finitely many steps no
thread has anything left to do — every call has returned. -/
theorem fair_termination (s : Script) (T M L B : Nat) (hL : FirstNone s L) (hB : B < W) (ps : Nat → List Req)
    (hok : ∀ t, ∀ r ∈ ps t, ReqOk r) (hml : ∀ t, ∀ r ∈ ps t, r.len ≤ M) (hout : ∀ t, T ≤ t → ps t = [])
    (hbud : ((List.range T).map fun t => lenSum (ps t)).sum + M * (L + 1) ≤ B)
    (σ : Nat → Nat) (hfair : ∀ t, t < T → ∀ k, ∃ d, σ (k + d) = t) :
    ∃ d, ∀ t, t < T → ¬ Busy (Orx.Fair.seg (sys s T M L B hL hB) σ 0 d (init ps)) t := by
  have h0 := tinv_init s T M L B ps hok hml hout hbud
  have hf : Orx.Fair.WeaklyFair (sys s T M L B hL hB) σ := by
    intro t ht k; exact hfair t (List.mem_range.mp ht) k
  obtain ⟨d, hd⟩ := Orx.Fair.fair_termination (sys s T M L B hL hB) σ hf (mu T (2 * M + 12) L (init ps)) 0 (init ps) h0 (Nat.le_refl _)
  exact ⟨d, fun t ht => hd t (List.mem_range.mpr ht)⟩

end Orx.IW
