import Orx.Fair
import Orx.IW.Progress
/-! # Termination of the ticket protocol under weak fairness (C09), for programs without looping requests

A potential `mu` (remaining own steps of every thread; a waiting thread weighs the same at both loads of its
spin loop) strictly decreases with every step of a thread that is not spinning, and is unchanged by spin
iterations. Together with deadlock freedom (`Progress.deadlock_free`) and the generic lemma
`Orx.Fair.fair_termination` this gives: under every weakly fair schedule all threads finish. -/
namespace Orx.IW

def reqCost (r : Req) : Nat := 2 * r.len + 20

def pcCost (c : Cfg) : Pc → Nat
  | .idle => 0
  | .skp => 1
  | .resv r => 2 * r.len + 18
  | .pre r _ => 2 * r.len + 17
  | .wait r b => if c.C then 2 else if c.Y < b then 2 * r.len + 16 else 2 * r.len + 15
  | .chk r _ => if c.C then 1 else 2 * r.len + 16
  | .ent r _ => if c.C then 1 else 2 * r.len + 14
  | .cs r _ acc => 2 * (r.len - acc.length) + 10
  | .ins r _ acc => 2 * (r.len - acc.length) + 9
  | .setC .. => 2
  | .pub .. => 1
  | .unw .. => 1
  | .dead .. => 0

def todoCost (l : List Req) : Nat := (l.map reqCost).sum

def thCost (c : Cfg) (t : Nat) : Nat := pcCost c (c.th t).pc + todoCost (c.th t).todo

def mu (T : Nat) (c : Cfg) : Nat := ((List.range T).map (thCost c)).sum

theorem sum_le_of_pointwise (T : Nat) (f g : Nat → Nat) (h : ∀ u, u < T → f u ≤ g u) :
    ((List.range T).map f).sum ≤ ((List.range T).map g).sum := by
  induction T with
  | zero => simp
  | succ T ih =>
    simp only [List.range_succ, List.map_append, List.sum_append, List.map_cons, List.map_nil, List.sum_cons, List.sum_nil]
    have := ih (fun u hu => h u (by omega))
    have := h T (by omega)
    omega

theorem sum_lt_of_one (T : Nat) (f g : Nat → Nat) (t : Nat) (ht : t < T) (hlt : f t < g t)
    (h : ∀ u, u < T → u ≠ t → f u ≤ g u) :
    ((List.range T).map f).sum < ((List.range T).map g).sum := by
  induction T with
  | zero => omega
  | succ T ih =>
    simp only [List.range_succ, List.map_append, List.sum_append, List.map_cons, List.map_nil, List.sum_cons, List.sum_nil]
    by_cases htT : t = T
    · subst htT
      have := sum_le_of_pointwise t f g (fun u hu => h u (by omega) (by omega))
      omega
    · have := ih (by omega) (fun u hu hne => h u (by omega) hne)
      have := h T (by omega) (fun hc => htT hc.symm)
      omega

theorem sum_eq_of_pointwise (T : Nat) (f g : Nat → Nat) (h : ∀ u, u < T → f u = g u) :
    ((List.range T).map f).sum = ((List.range T).map g).sum := by
  have h1 := sum_le_of_pointwise T f g (fun u hu => Nat.le_of_eq (h u hu))
  have h2 := sum_le_of_pointwise T g f (fun u hu => Nat.le_of_eq (h u hu).symm)
  omega

/-- the weight of a thread that did not move does not grow when `completed` gets set or `yielded` advances -/
theorem pcCost_mono (c c' : Cfg) (pc : Pc) (hC : c.C = true → c'.C = true) (hY : c.Y ≤ c'.Y) :
    pcCost c' pc ≤ pcCost c pc := by
  cases pc <;> simp only [pcCost] <;> (try omega)
  all_goals
    cases hc : c.C <;> cases hc' : c'.C <;> simp_all <;> (try split) <;> (try split) <;> omega

end Orx.IW

namespace Orx.IW

/-- the request a thread is working on -/
def Pc.req : Pc → Option Req
  | .resv r | .pre r _ | .wait r _ | .chk r _ | .ent r _ | .cs r _ _ | .ins r _ _ | .setC r _ _ | .pub r _ _ => some r
  | _ => none

/-- no looping requests (`for_each`, `fold`, `values` are excluded from the termination theorem) -/
def NL (c : Cfg) : Prop :=
  ∀ t, (∀ r ∈ (c.th t).todo, r.isLoop = false) ∧ (∀ r, (c.th t).pc.req = some r → r.isLoop = false)

theorem ret_nl (x : Thread) (r : Req) (o : POut) (h : r.isLoop = false) :
    ret x r o = { x with pc := .idle, outs := x.outs ++ [o] } := by
  unfold ret; simp [h]

theorem step_Y_mono (s : Script) (t : Nat) (c : Cfg) : c.Y ≤ (step s t c).Y := by
  unfold step
  repeat' (first | split | simp [setTh])

/-- other threads never get heavier -/
theorem other_cost_le (s : Script) (t u : Nat) (c : Cfg) (hu : u ≠ t) : thCost (step s t c) u ≤ thCost c u := by
  unfold thCost
  rw [step_th_other s t u c hu]
  have := pcCost_mono c (step s t c) (c.th u).pc (step_C_mono s t c) (step_Y_mono s t c)
  omega

/-- a spin iteration leaves the spinner's weight unchanged … -/
theorem spin_cost_eq (s : Script) (t : Nat) (c : Cfg) (h : Spinning c t) : thCost (step s t c) t = thCost c t := by
  obtain ⟨hC, r, b, hpc, hlt⟩ := h
  have h1 : ¬ b = c.Y := by omega
  have h2 : ¬ b < c.Y := by omega
  rcases hpc with hpc | hpc <;> unfold thCost step <;> simp [hpc, h1, h2, hC, setTh, pcCost, hlt]

/-- … and a step of a thread that is busy and not spinning makes it strictly lighter. -/
theorem prog_cost_lt {s : Script} {c : Cfg} (hi : Inv s c) (hnl : NL c) (t : Nat) (hb : Busy c t) (hs : ¬ Spinning c t) :
    thCost (step s t c) t < thCost c t := by
  obtain ⟨hbusy, hnd⟩ := hb
  have hnlt := hnl t
  unfold thCost step
  generalize hx : c.th t = x at hbusy hnd hnlt hs
  obtain ⟨pc, todo, outs⟩ := x
  have hr : ∀ r, pc.req = some r → r.isLoop = false := fun r h => hnlt.2 r (by simpa using h)
  cases pc with
  | idle =>
    cases todo with
    | nil => simp at hbusy
    | cons r rest =>
      cases r <;> simp [setTh, pcCost, todoCost, reqCost, Req.len] <;> omega
  | skp => simp [setTh, ret_nl _ _ _ (show Req.skip.isLoop = false from rfl), pcCost]
  | resv r => simp [setTh, pcCost]
  | pre r b =>
    have hl := hr r rfl
    simp only
    split
    · simp [setTh, ret_nl _ _ _ hl, pcCost]
    · rename_i hC
      simp [setTh, pcCost, hC]; split <;> omega
  | wait r b =>
    have hl := hr r rfl
    have hme : (c.th t).pc.ticket = some (b, r.len) := by simp [hx, Pc.ticket]
    have htk := hi.tk t b r.len hme
    have hns : c.C = true ∨ ¬ c.Y < b := by
      by_cases hC : c.C = true
      · exact Or.inl hC
      · right; intro hlt; exact hs ⟨by simpa using hC, r, b, Or.inl (by simp [hx]), hlt⟩
    simp only
    split
    · rename_i hbY; simp [setTh, pcCost, hbY]; split <;> omega
    · split
      · simp [setTh, ret_nl _ _ _ hl, pcCost]; split <;> (try split) <;> omega
      · rename_i h1 h2
        rcases hns with hC | hY
        · simp [setTh, pcCost, hC]
        · omega
  | chk r b =>
    have hl := hr r rfl
    have hme : (c.th t).pc.ticket = some (b, r.len) := by simp [hx, Pc.ticket]
    have htk := hi.tk t b r.len hme
    simp only
    split
    · rename_i hC; simp [setTh, ret_nl _ _ _ hl, pcCost, hC]
    · rename_i hC
      have hY : ¬ c.Y < b := by
        intro hlt; exact hs ⟨by simpa using hC, r, b, Or.inr (by simp [hx]), hlt⟩
      simp [setTh, pcCost, hC, hY]
  | ent r b =>
    have hl := hr r rfl
    simp only
    split
    · rename_i hC; simp [setTh, ret_nl _ _ _ hl, pcCost, hC]
    · rename_i hC
      split <;> simp [setTh, pcCost, hC] <;> omega
  | cs r b acc => simp [setTh, pcCost]
  | ins r b acc =>
    simp only
    cases s c.P with
    | some v =>
      simp only
      split
      · split <;> simp [setTh, pcCost] <;> omega
      · rename_i hne
        have hlt := hi.csLt t r b acc (by simp [hx])
        simp [setTh, pcCost]; omega
    | none => simp [setTh, pcCost]
    | panic => simp [setTh, pcCost]
  | setC r b acc =>
    have hl := hr r rfl
    simp only; split <;> simp [setTh, ret_nl _ _ _ hl, pcCost]
  | pub r b acc =>
    have hl := hr r rfl
    simp only
    cases acc with
    | nil => simp [setTh, ret_nl _ _ _ hl, pcCost]
    | cons v rest => simp only; split <;> simp [setTh, ret_nl _ _ _ hl, pcCost]
  | unw b n => simp [setTh, pcCost]
  | dead b n => exact absurd rfl (hnd b n)

end Orx.IW

namespace Orx.IW

def lenSum (l : List Req) : Nat := (l.map Req.len).sum

/-- positions a thread will still reserve -/
def pend (x : Thread) : Nat :=
  lenSum x.todo + (match x.pc with | .resv r => r.len | _ => 0)

def pending (T : Nat) (c : Cfg) : Nat := ((List.range T).map fun t => pend (c.th t)).sum

/-- everything the termination argument carries along -/
structure TInv (s : Script) (T B : Nat) (c : Cfg) : Prop where
  inv : Inv s c
  cover : Cover c
  deadC : DeadC c
  nl : NL c
  out : ∀ t, T ≤ t → (c.th t).pc = .idle ∧ (c.th t).todo = []
  budget : c.R + pending T c ≤ B

theorem step_nl (s : Script) {c : Cfg} (h : NL c) (t : Nat) : NL (step s t c) := by
  intro u
  by_cases hu : u = t
  · subst hu
    have h0 := h u
    unfold step
    generalize hx : c.th u = x at h0
    obtain ⟨pc, todo, outs⟩ := x
    have hr : ∀ r, pc.req = some r → r.isLoop = false := fun r hh => h0.2 r (by simpa using hh)
    have htd : ∀ r ∈ todo, r.isLoop = false := by simpa using h0.1
    have hret : ∀ (x : Thread) r o, x.todo = todo → r.isLoop = false →
        (∀ r' ∈ (ret x r o).todo, r'.isLoop = false) ∧ (∀ r', (ret x r o).pc.req = some r' → r'.isLoop = false) := by
      intro x r o h1 h2; rw [ret_nl x r o h2]; simp [h1, Pc.req]; exact htd
    cases pc with
    | idle =>
      cases todo with
      | nil => simpa [hx] using h0
      | cons r rest =>
        have h1 : r.isLoop = false := htd r (by simp)
        have h2 : ∀ r' ∈ rest, r'.isLoop = false := fun r' hr' => htd r' (by simp [hr'])
        cases r <;> simp [setTh, Pc.req] <;> first | exact h2 | exact ⟨h2, h1⟩ | exact ⟨h2, by simpa using h1⟩
    | skp => simp only [setTh_th_same]; exact hret _ _ _ rfl rfl
    | resv r => simp [setTh, Pc.req]; exact ⟨htd, hr r rfl⟩
    | pre r b =>
      simp only; split
      · simp only [setTh_th_same]; exact hret _ _ _ rfl (hr r rfl)
      · simp [setTh, Pc.req]; exact ⟨htd, hr r rfl⟩
    | wait r b =>
      simp only; split
      · simp [setTh, Pc.req]; exact ⟨htd, hr r rfl⟩
      · split
        · simp only [setTh_th_same]; exact hret _ _ _ rfl (hr r rfl)
        · simp [setTh, Pc.req]; exact ⟨htd, hr r rfl⟩
    | chk r b =>
      simp only; split
      · simp only [setTh_th_same]; exact hret _ _ _ rfl (hr r rfl)
      · simp [setTh, Pc.req]; exact ⟨htd, hr r rfl⟩
    | ent r b =>
      simp only; split
      · simp only [setTh_th_same]; exact hret _ _ _ rfl (hr r rfl)
      · split <;> (simp [setTh, Pc.req]; exact ⟨htd, hr r rfl⟩)
    | cs r b acc => simp [setTh, Pc.req]; exact ⟨htd, hr r rfl⟩
    | ins r b acc =>
      simp only
      cases s c.P with
      | some v => simp only; split
                  · split <;> (simp [setTh, Pc.req]; exact ⟨htd, hr r rfl⟩)
                  · simp [setTh, Pc.req]; exact ⟨htd, hr r rfl⟩
      | none => simp [setTh, Pc.req]; exact ⟨htd, hr r rfl⟩
      | panic => simp [setTh, Pc.req]; exact htd
    | setC r b acc =>
      simp only; split
      · simp only [setTh_th_same]; exact hret _ _ _ rfl (hr r rfl)
      · simp [setTh, Pc.req]; exact ⟨htd, hr r rfl⟩
    | pub r b acc =>
      simp only
      cases acc with
      | nil => simp only [setTh_th_same]; exact hret _ _ _ rfl (hr r rfl)
      | cons v rest => simp only; split <;> (simp only [setTh_th_same]; exact hret _ _ _ rfl (hr r rfl))
    | unw b n => simp [setTh, Pc.req]; exact htd
    | dead b n => simpa [hx] using h0
  · rw [step_th_other s t u c hu]; exact h u

/-- the reservation budget: what is reserved plus what will still be reserved never grows -/
theorem step_pend (s : Script) {c : Cfg} (h : NL c) (t : Nat) :
    (step s t c).R + pend ((step s t c).th t) ≤ c.R + pend (c.th t) := by
  have h0 := h t
  unfold step
  generalize hx : c.th t = x at h0
  obtain ⟨pc, todo, outs⟩ := x
  have hr : ∀ r, pc.req = some r → r.isLoop = false := fun r hh => h0.2 r (by simpa using hh)
  have hretp : ∀ (x : Thread) r o, r.isLoop = false → pend (ret x r o) = lenSum x.todo := by
    intro x r o h2; rw [ret_nl x r o h2]; simp [pend]
  cases pc with
  | idle =>
    cases todo with
    | nil => simp [hx]
    | cons r rest => cases r <;> simp [setTh, pend, lenSum, Req.len] <;> omega
  | skp => simp [setTh, ret_nl _ _ _ (show Req.skip.isLoop = false from rfl), pend]
  | resv r => simp [setTh, pend]; omega
  | pre r b => simp only; split <;> simp [setTh, ret_nl _ _ _ (hr r rfl), pend]
  | wait r b => simp only; split <;> (try split) <;> simp [setTh, ret_nl _ _ _ (hr r rfl), pend]
  | chk r b => simp only; split <;> simp [setTh, ret_nl _ _ _ (hr r rfl), pend]
  | ent r b => simp only; split <;> (try split) <;> simp [setTh, ret_nl _ _ _ (hr r rfl), pend]
  | cs r b acc => simp [setTh, pend]
  | ins r b acc =>
    simp only
    cases s c.P <;> simp only <;> (repeat' (first | split | simp [setTh, pend]))
  | setC r b acc => simp only; split <;> simp [setTh, ret_nl _ _ _ (hr r rfl), pend]
  | pub r b acc =>
    simp only
    cases acc with
    | nil => simp [setTh, ret_nl _ _ _ (hr r rfl), pend]
    | cons v rest => simp only; split <;> simp [setTh, ret_nl _ _ _ (hr r rfl), pend]
  | unw b n => simp [setTh, pend]
  | dead b n => simp [hx]

theorem not_busy_step (s : Script) (t : Nat) (c : Cfg) (h : ¬ Busy c t) : step s t c = c := by
  unfold Busy at h
  unfold step
  generalize hx : c.th t = x at h
  obtain ⟨pc, todo, outs⟩ := x
  cases pc with
  | idle =>
    cases todo with
    | nil => rfl
    | cons r rest => exact absurd ⟨Or.inr (by simp), by simp⟩ h
  | dead b n => rfl
  | _ => exact absurd ⟨Or.inl (by simp), by simp⟩ h

end Orx.IW

namespace Orx.IW

theorem busy_lt {s : Script} {T B : Nat} {c : Cfg} (h : TInv s T B c) (t : Nat) (hb : Busy c t) : t < T := by
  rcases Nat.lt_or_ge t T with h1 | h1
  · exact h1
  · have := h.out t h1
    rcases hb.1 with h2 | h2
    · exact absurd this.1 h2
    · exact absurd this.2 h2

theorem pending_step (s : Script) (T : Nat) {c : Cfg} (hnl : NL c) (t : Nat) (ht : t < T) :
    (step s t c).R + pending T (step s t c) ≤ c.R + pending T c := by
  have hoth : ∀ u, u ≠ t → pend ((step s t c).th u) = pend (c.th u) := fun u hu => by rw [step_th_other s t u c hu]
  have hown := step_pend s hnl t
  have key : ∀ (f g : Nat → Nat), (∀ u, u ≠ t → f u = g u) → ∀ T, t < T →
      ((List.range T).map f).sum + g t = ((List.range T).map g).sum + f t := by
    intro f g hfg T
    induction T with
    | zero => intro h; omega
    | succ T ih =>
      intro h
      simp only [List.range_succ, List.map_append, List.sum_append, List.map_cons, List.map_nil, List.sum_cons, List.sum_nil]
      by_cases htT : t = T
      · subst htT
        have := sum_eq_of_pointwise t f g (fun u hu => hfg u (by omega))
        omega
      · have := ih (by omega)
        have := hfg T (fun hc => htT hc.symm)
        omega
  have := key (fun u => pend ((step s t c).th u)) (fun u => pend (c.th u)) hoth T ht
  unfold pending
  omega

/-- the bundle is preserved by every step -/
theorem tinv_step {s : Script} {T B : Nat} (hB : B < W) {c : Cfg} (h : TInv s T B c) (t : Nat) :
    TInv s T B (step s t c) := by
  by_cases hb : Busy c t
  · have ht := busy_lt h t hb
    have hR : c.R < W := by have := h.budget; omega
    refine ⟨step_inv h.inv hR t, cover_step h.inv h.cover t, deadC_step s h.deadC t, step_nl s h.nl t, ?_, ?_⟩
    · intro u hu
      rw [step_th_other s t u c (by omega)]
      exact h.out u hu
    · exact Nat.le_trans (pending_step s T h.nl t ht) h.budget
  · rw [not_busy_step s t c hb]; exact h

theorem thCost_congr (c c' : Cfg) (u : Nat) (hth : c'.th u = c.th u) (hC : c'.C = c.C) (hY : c'.Y = c.Y) :
    thCost c' u = thCost c u := by
  unfold thCost
  rw [hth]
  congr 1
  cases (c.th u).pc <;> simp [pcCost, hC, hY]

/-- the transition system of the protocol as an instance of the generic fairness lemma -/
def sys (s : Script) (T B : Nat) (hB : B < W) : Orx.Fair.Sys Cfg where
  step := fun t c => step s t c
  inv := TInv s T B
  busy := Busy
  spin := Spinning
  mu := mu T
  T := List.range T
  inv_step := fun c t h => tinv_step hB h t
  idle_step := fun c t _ hb => not_busy_step s t c hb
  spin_mu := by
    intro c t h hb hs
    have ht := busy_lt h t hb
    obtain ⟨hR, hY, hC, _, hoth, _⟩ := spin_step_harmless s t c hs
    unfold mu
    apply sum_eq_of_pointwise
    intro u hu
    by_cases hut : u = t
    · subst hut; exact spin_cost_eq s u c hs
    · exact thCost_congr c (step s t c) u (hoth u hut) hC hY
  prog_mu := by
    intro c t h hb hs
    have ht := busy_lt h t hb
    unfold mu
    exact sum_lt_of_one T _ _ t ht (prog_cost_lt h.inv h.nl t hb hs) (fun u _ hut => other_cost_le s t u c hut)
  spin_keeps := by
    intro c t u h hbu hsu hut hbt hst
    obtain ⟨hR, hY, hC, _, hoth, _⟩ := spin_step_harmless s u c hsu
    have hth := hoth t (Ne.symm hut)
    refine ⟨?_, ?_⟩
    · unfold Busy; rw [hth]; exact hbt
    · intro hsp
      apply hst
      obtain ⟨h1, r, b, h2, h3⟩ := hsp
      exact ⟨by rw [← hC]; exact h1, r, b, by rw [← hth]; exact h2, by rw [← hY]; exact h3⟩
  exists_prog := by
    intro c h ⟨t, _, hb⟩
    obtain ⟨u, hbu, hsu⟩ := deadlock_free h.inv h.cover h.deadC t hb
    exact ⟨u, List.mem_range.mpr (busy_lt h u hbu), hbu, hsu⟩

theorem tinv_init (s : Script) (T B : Nat) (ps : Nat → List Req) (hok : ∀ t, ∀ r ∈ ps t, ReqOk r)
    (hnl : ∀ t, ∀ r ∈ ps t, r.isLoop = false) (hout : ∀ t, T ≤ t → ps t = [])
    (hB : ((List.range T).map fun t => lenSum (ps t)).sum ≤ B) : TInv s T B (init ps) := by
  refine ⟨inv_init s ps hok, cover_init ps, by intro t b n h; simp [init] at h, ?_, ?_, ?_⟩
  · intro t; exact ⟨by simpa [init] using hnl t, by simp [init, Pc.req]⟩
  · intro t ht; exact ⟨by simp [init], by simpa [init] using hout t ht⟩
  · have : pending T (init ps) = ((List.range T).map fun t => lenSum (ps t)).sum := by
      unfold pending
      apply sum_eq_of_pointwise
      intro u _; simp [init, pend]
    simp [this, init]; exact hB

/-- **Termination under weak fairness (loop-free programs).** For every wrapped iterator (fused or not, panicking or
not), every family of per-thread request lists over `T` threads made of single pulls, one-shot chunk pulls, buffered
pulls (chunk sizes ≥ 1) and `skip_to_end`s, whose total requested count is below `2^64`, and every schedule `σ` that
schedules each of the `T` threads again and again: after finitely many steps no thread has anything left to do --
every call has returned. -/
theorem fair_termination (s : Script) (T B : Nat) (hB : B < W) (ps : Nat → List Req)
    (hok : ∀ t, ∀ r ∈ ps t, ReqOk r) (hnl : ∀ t, ∀ r ∈ ps t, r.isLoop = false) (hout : ∀ t, T ≤ t → ps t = [])
    (hbud : ((List.range T).map fun t => lenSum (ps t)).sum ≤ B)
    (σ : Nat → Nat) (hfair : ∀ t, t < T → ∀ k, ∃ d, σ (k + d) = t) :
    ∃ d, ∀ t, t < T → ¬ Busy (Orx.Fair.seg (sys s T B hB) σ 0 d (init ps)) t := by
  have h0 := tinv_init s T B ps hok hnl hout hbud
  have hf : Orx.Fair.WeaklyFair (sys s T B hB) σ := by
    intro t ht k; exact hfair t (List.mem_range.mp ht) k
  obtain ⟨d, hd⟩ := Orx.Fair.fair_termination (sys s T B hB) σ hf (mu T (init ps)) 0 (init ps) h0 (Nat.le_refl _)
  exact ⟨d, fun t ht => hd t (List.mem_range.mpr ht)⟩

end Orx.IW
