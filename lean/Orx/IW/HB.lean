import Orx.IW.Reach
/-! # Happens-before between consecutive uses of the wrapped iterator (C07)

Schedules are SC interleavings; happens-before is **not** taken from the interleaving but computed by the C11
release/acquire rules from the memory orderings of the accesses, with vector clocks as ghost state:
a release (or stronger) RMW on `yielded` publishes the thread's clock on the location (continuing the release
sequence), an acquire (or stronger) load of `yielded` joins the published clock, a relaxed access joins nothing.
Synchronisation through `reserved` and `completed` is ignored (fewer edges: conservative for a no-race proof).
The orderings are parameters; `Orx.Generated.Orderings` (extracted from the source) instantiates them. -/
namespace Orx.IW

abbrev VC := Nat → Nat

def VC.le (a b : VC) : Prop := ∀ i, a i ≤ b i
def VC.join (a b : VC) : VC := fun i => max (a i) (b i)
def VC.tick (a : VC) (t : Nat) : VC := fun i => if i = t then a i + 1 else a i
def VC.zero : VC := fun _ => 0

theorem VC.le_refl (a : VC) : a.le a := fun _ => Nat.le_refl _
theorem VC.le_trans {a b c : VC} (h1 : a.le b) (h2 : b.le c) : a.le c := fun i => Nat.le_trans (h1 i) (h2 i)
theorem VC.le_join_left (a b : VC) : a.le (a.join b) := fun i => Nat.le_max_left _ _
theorem VC.le_join_right (a b : VC) : b.le (a.join b) := fun i => Nat.le_max_right _ _
theorem VC.le_tick (a : VC) (t : Nat) : a.le (a.tick t) := fun i => by unfold VC.tick; split <;> omega

/-- the orderings the protocol uses on `yielded` -/
structure Ords where
  yLoad : Ord      -- `AtomicCounter::current`
  yFaa : Ord       -- `AtomicCounter::fetch_and_add`

structure HCfg where
  core : Cfg
  clk : Nat → VC := fun _ => VC.zero
  relY : VC := VC.zero        -- clock published by the release sequence on `yielded`
  last : VC := VC.zero        -- clock of the latest use (entry or exit of `next()`) of the wrapped iterator

def setClk (h : HCfg) (t : Nat) (k : VC) : Nat → VC := fun u => if u = t then k else h.clk u

/-- one step with its happens-before bookkeeping -/
def hstep (o : Ords) (s : Script) (t : Nat) (h : HCfg) : HCfg :=
  let k := (h.clk t).tick t
  let core' := step s t h.core
  match (h.core.th t).pc with
  | .wait _ _ =>
    let k' := if o.yLoad.isAcq then k.join h.relY else k
    { h with core := core', clk := setClk h t k' }
  | .pub _ _ _ =>
    let k' := if o.yFaa.isAcq then k.join h.relY else k
    let rel' := if o.yFaa.isRel then k'.join h.relY else h.relY
    { h with core := core', clk := setClk h t k', relY := rel' }
  | .cs _ _ _ => { h with core := core', clk := setClk h t k, last := k }
  | .ins _ _ _ => { h with core := core', clk := setClk h t k, last := k }
  | _ => { h with core := core', clk := setClk h t k }

def hrun (o : Ords) (s : Script) : List Nat → HCfg → HCfg
  | [], h => h
  | t :: ts, h => hrun o s ts (hstep o s t h)

theorem hstep_core (o : Ords) (s : Script) (t : Nat) (h : HCfg) : (hstep o s t h).core = step s t h.core := by
  unfold hstep; split <;> rfl

theorem hrun_core (o : Ords) (s : Script) (σ : List Nat) (h : HCfg) : (hrun o s σ h).core = run s σ h.core := by
  induction σ generalizing h with
  | nil => rfl
  | cons t ts ih => simp [hrun, run, ih, hstep_core]

/-- it is this thread's turn: it has read `yielded = its ticket` (and is checking `completed`), or it works inside the
critical section (not unwound) -/
def Pc.working : Pc → Bool
  | .ent .. | .cs .. | .ins .. | .setC .. | .pub .. => true
  | _ => false

/-- the protocol is dead: the ticket `yielded` points at was given up, nobody will ever enter again -/
def DeadT (c : Cfg) : Prop := c.Y < c.R ∧ ∀ t b n, (c.th t).pc.ticket = some (b, n) → c.Y < b

structure HInv (h : HCfg) : Prop where
  /-- (K) whoever works in the critical section has the latest use of the iterator in its past -/
  inside : ∀ t, (h.core.th t).pc.working = true → h.last.le (h.clk t)
  /-- (J) when nobody is inside, the latest use is published on `yielded` -- or nobody will ever enter again -/
  outside : (∀ t, (h.core.th t).pc.inCS = false) → h.last.le h.relY ∨ DeadT h.core

/-- whoever has its turn holds the ticket `yielded` points at -/
theorem working_ticket {s : Script} {c : Cfg} (hi : Inv s c) (t : Nat) (h : (c.th t).pc.working = true) :
    ∃ n, (c.th t).pc.ticket = some (c.Y, n) := by
  generalize hpc : (c.th t).pc = pc at h
  cases pc <;> simp [Pc.working] at h
  · rename_i r b; exact ⟨r.len, by rw [hi.entY t r b hpc]; simp [Pc.ticket]⟩
  all_goals
    rename_i r b acc
    have hb := hi.csY t b r.len (by simp [hpc, Pc.inCS]) (by simp [hpc, Pc.ticket])
    exact ⟨r.len, by rw [hb]; simp [Pc.ticket]⟩

theorem step_th_other (s : Script) (t u : Nat) (c : Cfg) (hu : u ≠ t) : (step s t c).th u = c.th u := by
  unfold step
  repeat' (first | split | simp [setTh, hu])

theorem step_Y_other (s : Script) (t : Nat) (c : Cfg) (h : ∀ r b acc, (c.th t).pc ≠ .pub r b acc) : (step s t c).Y = c.Y := by
  unfold step
  generalize hx : c.th t = x at h
  obtain ⟨pc, todo, outs⟩ := x
  cases pc with
  | pub r b acc => exact absurd rfl (h r b acc)
  | _ => simp only <;> (try (repeat' (first | split | simp [setTh])))


theorem setClk_same (h : HCfg) (t : Nat) (k : VC) : setClk h t k t = k := by simp [setClk]
theorem setClk_other (h : HCfg) (t u : Nat) (k : VC) (hu : u ≠ t) : setClk h t k u = h.clk u := by simp [setClk, hu]

/-- Establishing `HInv` after a step of `t`, from facts about `t`'s new state (the other threads did not move). -/
theorem hinv_update {h : HCfg} (hv : HInv h) (t : Nat) (core' : Cfg) (k' : VC) (rel' last' : VC)
    (hoth : ∀ u, u ≠ t → core'.th u = h.core.th u)
    (hlast : ∀ u, u ≠ t → (h.core.th u).pc.working = true → last' = h.last)
    (hself : (core'.th t).pc.working = true → last'.le k')
    (hout : (∀ u, (core'.th u).pc.inCS = false) → last'.le rel' ∨ DeadT core') :
    HInv { core := core', clk := setClk h t k', relY := rel', last := last' } := by
  constructor
  · intro u hw
    by_cases hu : u = t
    · subst hu; simp only [setClk_same]; exact hself hw
    · simp only [setClk_other h t u k' hu]
      rw [hoth u hu] at hw
      rw [hlast u hu hw]
      exact hv.inside u hw
  · exact hout

/-- two threads never have their turn at the same time -/
theorem working_not_two {s : Script} {c : Cfg} (hi : Inv s c) (t u : Nat) (htu : u ≠ t)
    (ht : (c.th t).pc.working = true) : (c.th u).pc.working = false := by
  cases hw : (c.th u).pc.working with
  | false => rfl
  | true =>
    obtain ⟨n, h1⟩ := working_ticket hi t ht
    obtain ⟨n', h2⟩ := working_ticket hi u hw
    have h3 := hi.tk t _ _ h1
    have h4 := hi.tk u _ _ h2
    have h5 := hi.disj t u _ _ _ _ (Ne.symm htu) h1 h2
    omega

theorem inCS_of_working_not_ent {pc : Pc} (h : pc.working = true) (he : ∀ r b, pc ≠ .ent r b) : pc.inCS = true := by
  cases pc <;> simp_all [Pc.working, Pc.inCS]

/-- if somebody has its turn, nobody else is inside the critical section -/
theorem working_others_outside {s : Script} {c : Cfg} (hi : Inv s c) (t : Nat) (ht : (c.th t).pc.working = true) :
    ∀ u, u ≠ t → (c.th u).pc.inCS = false := by
  obtain ⟨n, h1⟩ := working_ticket hi t ht
  exact others_not_inCS hi t c.Y n h1 rfl

/-- outside the critical section nobody works after a step of a thread that was not about to get its turn -/
theorem step_not_working (s : Script) (t : Nat) (c : Cfg)
    (h : match (c.th t).pc with | .idle | .skp | .resv _ | .pre _ _ | .chk _ _ | .unw _ _ | .dead _ _ => True | _ => False) :
    ((step s t c).th t).pc.working = false := by
  unfold step
  generalize hx : c.th t = x at h
  obtain ⟨pc, todo, outs⟩ := x
  have hret : ∀ (x : Thread) r o, (ret x r o).pc.working = false := by
    intro x r o; rcases ret_pc x r o with h1 | h1 <;> simp [h1, Pc.working]
  cases pc <;> simp at h
  · cases todo with
    | nil => simp [hx, Pc.working]
    | cons r rest => cases r <;> simp [setTh, Pc.working]
  · simp [setTh, hret]
  · simp [setTh, Pc.working]
  · simp only; split
    · simp only [setTh_th_same]; exact hret _ _ _
    · simp [setTh, Pc.working]
  · simp only; split
    · simp only [setTh_th_same]; exact hret _ _ _
    · simp [setTh, Pc.working]
  · simp [setTh, Pc.working]
  · simp [hx, Pc.working]

/-- a dead protocol stays dead while nobody is in the critical section -/
theorem deadT_step {s : Script} {c : Cfg} (hi : Inv s c) (hd : DeadT c) (hall : ∀ u, (c.th u).pc.inCS = false) (t : Nat) :
    DeadT (step s t c) := by
  have hY : (step s t c).Y = c.Y := step_Y_other s t c (by
    intro r b acc hp; have := hall t; simp [hp, Pc.inCS] at this)
  refine ⟨by rw [hY]; exact Nat.lt_of_lt_of_le hd.1 (step_R_mono s t c), ?_⟩
  intro u b' n' hb'
  rw [hY]
  by_cases hu : u = t
  · subst hu
    have hcs := hall u
    unfold step at hb'
    generalize hx : c.th u = x at hb' hcs
    obtain ⟨pc, todo, outs⟩ := x
    have hretk : ∀ (x : Thread) r o, (ret x r o).pc.ticket = none := by
      intro x r o; rcases ret_pc x r o with h1 | h1 <;> simp [h1, Pc.ticket]
    have hold : ∀ b n, pc.ticket = some (b, n) → c.Y < b := fun b n hb => hd.2 u b n (by simp [hx, hb])
    cases pc <;> simp [Pc.inCS] at hcs
    · cases todo with
      | nil => simp [hx, Pc.ticket] at hb'
      | cons r rest => cases r <;> simp [setTh, Pc.ticket] at hb'
    · simp [setTh, hretk] at hb'
    · simp [setTh, Pc.ticket] at hb'; obtain ⟨rfl, _⟩ := hb'; exact hd.1
    · rename_i r b
      simp only at hb'; split at hb'
      · simp [setTh, hretk] at hb'
      · simp [setTh, Pc.ticket] at hb'; obtain ⟨rfl, _⟩ := hb'; exact hold b r.len (by simp [Pc.ticket])
    · rename_i r b
      have hb0 := hold b r.len (by simp [Pc.ticket])
      simp only at hb'
      split at hb'
      · omega
      · split at hb'
        · simp [setTh, hretk] at hb'
        · simp [setTh, Pc.ticket] at hb'; obtain ⟨rfl, _⟩ := hb'; exact hb0
    · rename_i r b
      simp only at hb'; split at hb'
      · simp [setTh, hretk] at hb'
      · simp [setTh, Pc.ticket] at hb'; obtain ⟨rfl, _⟩ := hb'; exact hold b r.len (by simp [Pc.ticket])
    · rename_i r b
      have hb0 := hold b r.len (by simp [Pc.ticket])
      have := hi.entY u r b (by simp [hx])
      omega
  · rw [step_th_other s t u c hu] at hb'; exact hd.2 u b' n' hb'

/-- steps of a thread that is outside the critical section and not about to get its turn -/
theorem hinv_quiet {s : Script} {h : HCfg} (hi : Inv s h.core) (hv : HInv h) (t : Nat)
    (hq : match (h.core.th t).pc with | .idle | .skp | .resv _ | .pre _ _ | .chk _ _ | .unw _ _ | .dead _ _ => True | _ => False) :
    HInv { h with core := step s t h.core, clk := setClk h t ((h.clk t).tick t) } := by
  have hoth := fun u (hu : u ≠ t) => step_th_other s t u h.core hu
  refine hinv_update hv t _ _ _ _ hoth (fun _ _ _ => rfl) ?_ ?_
  · intro hw; rw [step_not_working s t h.core hq] at hw; exact absurd hw (by simp)
  · intro hall
    by_cases hd : ∃ b n, (h.core.th t).pc = .dead b n ∨ (h.core.th t).pc = .unw b n
    · obtain ⟨b, n, hd | hd⟩ := hd
      · have h1 : (step s t h.core).th t = h.core.th t := by
          unfold step; simp [hd]
        have := hall t
        simp [h1, hd, Pc.inCS] at this
      · have h1 : ((step s t h.core).th t).pc = .dead b n := by
          unfold step; simp [hd, setTh]
        have := hall t
        simp [h1, Pc.inCS] at this
    · have hall0 : ∀ u, (h.core.th u).pc.inCS = false := by
        intro u
        by_cases hu : u = t
        · subst hu
          generalize (h.core.th u).pc = pc at hq hd
          cases pc <;> simp [Pc.inCS] at hq ⊢
          · exact absurd ⟨_, _, Or.inr rfl⟩ hd
          · exact absurd ⟨_, _, Or.inl rfl⟩ hd
        · rw [← hoth u hu]; exact hall u
      rcases hv.outside hall0 with hle | hdead
      · exact Or.inl hle
      · exact Or.inr (deadT_step hi hdead hall0 t)

/-- **(K)/(J) are preserved by every step**, provided the load of `yielded` acquires and its `fetch_add` releases. -/
theorem hstep_inv (o : Ords) (hacq : o.yLoad.isAcq = true) (hrel : o.yFaa.isRel = true)
    {s : Script} {h : HCfg} (hi : Inv s h.core) (hW : h.core.R < W) (hv : HInv h) (t : Nat) :
    HInv (hstep o s t h) := by
  have hoth := fun u (hu : u ≠ t) => step_th_other s t u h.core hu
  unfold hstep
  generalize hpc : (h.core.th t).pc = pc
  cases pc with
  | idle => exact hinv_quiet hi hv t (by simp [hpc])
  | skp => exact hinv_quiet hi hv t (by simp [hpc])
  | resv r => exact hinv_quiet hi hv t (by simp [hpc])
  | pre r b => exact hinv_quiet hi hv t (by simp [hpc])
  | chk r b => exact hinv_quiet hi hv t (by simp [hpc])
  | unw b n => exact hinv_quiet hi hv t (by simp [hpc])
  | dead b n => exact hinv_quiet hi hv t (by simp [hpc])
  | wait r b =>
    simp only [hacq, ↓reduceIte]
    have hme : (h.core.th t).pc.ticket = some (b, r.len) := by simp [hpc, Pc.ticket]
    have htk := hi.tk t b r.len hme
    -- what the step does to `t`
    have hnew : ((step s t h.core).th t).pc = (if b = h.core.Y then .ent r b else if b < h.core.Y then (ret (h.core.th t) r .fin).pc else .chk r b) := by
      unfold step; simp only [hpc]
      split
      · simp [setTh]
      · split <;> simp [setTh]
    have hY : (step s t h.core).Y = h.core.Y := step_Y_other s t h.core (by simp [hpc])
    refine hinv_update hv t _ _ _ _ hoth (fun _ _ _ => rfl) ?_ ?_
    · intro hw
      rw [hnew] at hw
      by_cases hbY : b = h.core.Y
      · -- it is t's turn: nobody is inside, (J) applies, the acquire load joins what was published
        have hno := others_not_inCS hi t b r.len hme hbY
        have hall : ∀ u, (h.core.th u).pc.inCS = false := by
          intro u
          by_cases hu : u = t
          · subst hu; simp [hpc, Pc.inCS]
          · exact hno u hu
        rcases hv.outside hall with hle | hdead
        · exact VC.le_trans hle (VC.le_join_right _ _)
        · have := hdead.2 t b r.len hme; omega
      · simp only [hbY, ↓reduceIte] at hw
        split at hw
        · rcases ret_pc (h.core.th t) r .fin with h1 | h1 <;> simp [h1, Pc.working] at hw
        · simp [Pc.working] at hw
    · intro hall
      have hall0 : ∀ u, (h.core.th u).pc.inCS = false := by
        intro u
        by_cases hu : u = t
        · subst hu; simp [hpc, Pc.inCS]
        · rw [← hoth u hu]; exact hall u
      rcases hv.outside hall0 with hle | hdead
      · exact Or.inl hle
      · exact Or.inr (deadT_step hi hdead hall0 t)
  | ent r b =>
    simp only
    have hw0 : (h.core.th t).pc.working = true := by simp [hpc, Pc.working]
    have hme : (h.core.th t).pc.ticket = some (b, r.len) := by simp [hpc, Pc.ticket]
    have hbY := hi.entY t r b hpc
    have hK := hv.inside t hw0
    have hno := others_not_inCS hi t b r.len hme hbY
    have hall0 : ∀ u, (h.core.th u).pc.inCS = false := by
      intro u
      by_cases hu : u = t
      · subst hu; simp [hpc, Pc.inCS]
      · exact hno u hu
    refine hinv_update hv t _ _ _ _ hoth (fun _ _ _ => rfl) (fun _ => VC.le_trans hK (VC.le_tick _ _)) ?_
    intro _
    rcases hv.outside hall0 with hle | hdead
    · exact Or.inl hle
    · have := hdead.2 t b r.len hme; omega
  | cs r b acc =>
    simp only
    have hw0 : (h.core.th t).pc.working = true := by simp [hpc, Pc.working]
    have hnew : ((step s t h.core).th t).pc = .ins r b acc := by unfold step; simp [hpc, setTh]
    refine hinv_update hv t _ _ _ _ hoth ?_ (fun _ => VC.le_refl _) ?_
    · intro u hu hw; rw [working_not_two hi t u hu hw0] at hw; exact absurd hw (by simp)
    · intro hall; have := hall t; simp [hnew, Pc.inCS] at this
  | ins r b acc =>
    simp only
    have hw0 : (h.core.th t).pc.working = true := by simp [hpc, Pc.working]
    have hnew : ((step s t h.core).th t).pc.inCS = true := by
      unfold step; simp only [hpc]
      cases s h.core.P <;> simp only <;> repeat' (first | split | simp [setTh, Pc.inCS])
    refine hinv_update hv t _ _ _ _ hoth ?_ (fun _ => VC.le_refl _) ?_
    · intro u hu hw; rw [working_not_two hi t u hu hw0] at hw; exact absurd hw (by simp)
    · intro hall; have := hall t; simp [hnew] at this
  | setC r b acc =>
    simp only
    have hme : (h.core.th t).pc.ticket = some (b, r.len) := by simp [hpc, Pc.ticket]
    have hcs : (h.core.th t).pc.inCS = true := by simp [hpc, Pc.inCS]
    have hw0 : (h.core.th t).pc.working = true := by simp [hpc, Pc.working]
    have htk := hi.tk t b r.len hme
    have hbY := hi.csY t b r.len hcs hme
    have hK := hv.inside t hw0
    have hY : (step s t h.core).Y = h.core.Y := step_Y_other s t h.core (by simp [hpc])
    refine hinv_update hv t _ _ _ _ hoth (fun _ _ _ => rfl) (fun _ => VC.le_trans hK (VC.le_tick _ _)) ?_
    intro hall
    -- t left the critical section without publishing: the protocol is dead
    refine Or.inr ⟨?_, ?_⟩
    · rw [hY]; exact Nat.lt_of_lt_of_le (by omega) (step_R_mono s t h.core)
    · intro u b' n' hb'
      rw [hY]
      by_cases hu : u = t
      · subst hu
        by_cases hs : r.isSingle = true
        · have hnt : ((step s u h.core).th u).pc.ticket = none := by
            unfold step; simp only [hpc, hs, ↓reduceIte, setTh_th_same]
            rcases ret_pc (h.core.th u) r .fin with h1 | h1 <;> simp [h1, Pc.ticket]
          rw [hnt] at hb'; exact absurd hb' (by simp)
        · have hin : ((step s u h.core).th u).pc.inCS = true := by
            unfold step; simp [hpc, hs, setTh, Pc.inCS]
          have := hall u; rw [hin] at this; exact absurd this (by simp)
      · rw [hoth u hu] at hb'
        have h1 := hi.disj t u b r.len b' n' (Ne.symm hu) hme hb'
        have h2 := hi.tk u b' n' hb'
        omega
  | pub r b acc =>
    simp only [hrel, ↓reduceIte]
    have hw0 : (h.core.th t).pc.working = true := by simp [hpc, Pc.working]
    have hK := hv.inside t hw0
    have hnw : ((step s t h.core).th t).pc.working = false := by
      unfold step; simp only [hpc]
      cases acc with
      | nil => simp only [setTh_th_same]; rcases ret_pc (h.core.th t) r .fin with h1 | h1 <;> simp [h1, Pc.working]
      | cons v rest =>
        simp only; split
        · simp only [setTh_th_same]; rcases ret_pc (h.core.th t) r (.item b v) with h1 | h1 <;> simp [h1, Pc.working]
        · simp only [setTh_th_same]; rcases ret_pc (h.core.th t) r (.chunk b (v :: rest)) with h1 | h1 <;> simp [h1, Pc.working]
    refine hinv_update hv t _ _ _ _ hoth (fun _ _ _ => rfl) (fun hw => by rw [hnw] at hw; exact absurd hw (by simp)) ?_
    intro _
    refine Or.inl ?_
    refine VC.le_trans hK (VC.le_trans (VC.le_tick _ t) ?_)
    split
    · exact VC.le_trans (VC.le_join_left _ h.relY) (VC.le_join_left _ _)
    · exact VC.le_join_left _ _

def hinit (ps : Nat → List Req) : HCfg := { core := init ps }

theorem hinv_init (ps : Nat → List Req) : HInv (hinit ps) := by
  constructor
  · intro t _; exact fun _ => Nat.le_refl _
  · intro _; exact Or.inl (fun _ => Nat.le_refl _)

theorem hinv_run (o : Ords) (hacq : o.yLoad.isAcq = true) (hrel : o.yFaa.isRel = true)
    {s : Script} (σ : List Nat) {h : HCfg} (hi : Inv s h.core) (hv : HInv h)
    (hW : (run s σ h.core).R < W) : HInv (hrun o s σ h) ∧ Inv s (hrun o s σ h).core := by
  induction σ generalizing h with
  | nil => exact ⟨hv, hi⟩
  | cons t ts ih =>
    simp only [hrun, run] at hW ⊢
    have h1 : (step s t h.core).R < W := Nat.lt_of_le_of_lt (run_R_mono s ts _) hW
    have h0 : h.core.R < W := Nat.lt_of_le_of_lt (step_R_mono s t h.core) h1
    have hv' := hstep_inv o hacq hrel hi h0 hv t
    have hi' : Inv s (hstep o s t h).core := by rw [hstep_core]; exact step_inv hi h0 t
    exact ih hi' hv' (by rw [hstep_core]; exact hW)

/-- **No data race on the wrapped iterator.** With an acquiring load and a releasing `fetch_add` on `yielded`:
in every reachable configuration (all wrapped iterators -- fused or not, panicking or not --, all programs with
skips, all schedules), whenever a thread is about to enter or to leave the wrapped iterator's `next()`, the
previous use of the iterator — by whichever thread — happens-before it (its vector clock is below the thread's). -/
theorem no_race (o : Ords) (hacq : o.yLoad.isAcq = true) (hrel : o.yFaa.isRel = true)
    (s : Script) (ps : Nat → List Req) (hok : ∀ t, ∀ r ∈ ps t, ReqOk r) (σ : List Nat)
    (hW : (run s σ (init ps)).R < W) (t : Nat)
    (huse : ∃ r b acc, ((hrun o s σ (hinit ps)).core.th t).pc = .cs r b acc ∨ ((hrun o s σ (hinit ps)).core.th t).pc = .ins r b acc) :
    (hrun o s σ (hinit ps)).last.le ((hrun o s σ (hinit ps)).clk t) := by
  have h := (hinv_run o hacq hrel σ (h := hinit ps) (inv_init s ps hok) (hinv_init ps) hW).1
  apply h.inside t
  obtain ⟨r, b, acc, hpc | hpc⟩ := huse <;> simp [hpc, Pc.working]

end Orx.IW
