import Orx.IW.Reach
/-! # Happens-before between consecutive uses of the wrapped iterator (C07)

Schedules are SC interleavings; happens-before is **not** taken from the interleaving but computed by the C11
release/acquire rules from the memory orderings of the accesses, with vector clocks as ghost state:
a release (or stronger) RMW on `yielded` publishes the thread's clock on the location (continuing the release
sequence), an acquire (or stronger) load of `yielded` joins the published clock, a relaxed access joins nothing.
Synchronisation through `reserved` and `completed` is ignored (fewer edges: conservative for a no-race proof).
The orderings are parameters; `Orx.Generated.Orderings` (extracted from the source) instantiates them. -/
namespace Orx.IW

abbrev VC := Nat → Nat

def VC.le (a b : VC) : Prop := ∀ i, a i ≤ b i
def VC.join (a b : VC) : VC := fun i => max (a i) (b i)
def VC.tick (a : VC) (t : Nat) : VC := fun i => if i = t then a i + 1 else a i
def VC.zero : VC := fun _ => 0

theorem VC.le_refl (a : VC) : a.le a := fun _ => Nat.le_refl _
theorem VC.le_trans {a b c : VC} (h1 : a.le b) (h2 : b.le c) : a.le c := fun i => Nat.le_trans (h1 i) (h2 i)
theorem VC.le_join_left (a b : VC) : a.le (a.join b) := fun i => Nat.le_max_left _ _
theorem VC.le_join_right (a b : VC) : b.le (a.join b) := fun i => Nat.le_max_right _ _
theorem VC.le_tick (a : VC) (t : Nat) : a.le (a.tick t) := fun i => by unfold VC.tick; split <;> omega

/-- the orderings the protocol uses on `yielded` -/
structure Ords where
  yLoad : Ord      -- `AtomicCounter::current`
  yFaa : Ord       -- `AtomicCounter::fetch_and_add`

structure HCfg where
  core : Cfg
  clk : Nat → VC := fun _ => VC.zero
  relY : VC := VC.zero        -- clock published by the release sequence on `yielded`
  last : VC := VC.zero        -- clock of the latest use (entry or exit of `next()`) of the wrapped iterator

def setClk (h : HCfg) (t : Nat) (k : VC) : Nat → VC := fun u => if u = t then k else h.clk u

/-- one step with its happens-before bookkeeping -/
def hstep (o : Ords) (s : Script) (t : Nat) (h : HCfg) : HCfg :=
  let k := (h.clk t).tick t
  let core' := step s t h.core
  match (h.core.th t).pc with
  | .wait _ _ =>
    let k' := if o.yLoad.isAcq then k.join h.relY else k
    { h with core := core', clk := setClk h t k' }
  | .pub _ _ _ =>
    let k' := if o.yFaa.isAcq then k.join h.relY else k
    let rel' := if o.yFaa.isRel then k'.join h.relY else h.relY
    { h with core := core', clk := setClk h t k', relY := rel' }
  | .cs _ _ _ => { h with core := core', clk := setClk h t k, last := k }
  | .ins _ _ _ => { h with core := core', clk := setClk h t k, last := k }
  | _ => { h with core := core', clk := setClk h t k }

def hrun (o : Ords) (s : Script) : List Nat → HCfg → HCfg
  | [], h => h
  | t :: ts, h => hrun o s ts (hstep o s t h)

theorem hstep_core (o : Ords) (s : Script) (t : Nat) (h : HCfg) : (hstep o s t h).core = step s t h.core := by
  unfold hstep; split <;> rfl

theorem hrun_core (o : Ords) (s : Script) (σ : List Nat) (h : HCfg) : (hrun o s σ h).core = run s σ h.core := by
  induction σ generalizing h with
  | nil => rfl
  | cons t ts ih => simp [hrun, run, ih, hstep_core]

/-- working inside the critical section (not unwound) -/
def Pc.working : Pc → Bool
  | .cs .. | .ins .. | .setC .. | .pub .. => true
  | _ => false

/-- the protocol is dead: the ticket `yielded` points at was given up, nobody will ever enter again -/
def DeadT (c : Cfg) : Prop := c.Y < c.R ∧ ∀ t b n, (c.th t).pc.ticket = some (b, n) → c.Y < b

structure HInv (h : HCfg) : Prop where
  /-- (K) whoever works in the critical section has the latest use of the iterator in its past -/
  inside : ∀ t, (h.core.th t).pc.working = true → h.last.le (h.clk t)
  /-- (J) when nobody is inside, the latest use is published on `yielded` -- or nobody will ever enter again -/
  outside : (∀ t, (h.core.th t).pc.inCS = false) → h.last.le h.relY ∨ DeadT h.core

theorem working_inCS {pc : Pc} (h : pc.working = true) : pc.inCS = true := by
  cases pc <;> simp_all [Pc.working, Pc.inCS]

theorem step_th_other (s : Script) (t u : Nat) (c : Cfg) (hu : u ≠ t) : (step s t c).th u = c.th u := by
  unfold step
  repeat' (first | split | simp [setTh, hu])

theorem step_Y_other (s : Script) (t : Nat) (c : Cfg) (h : ∀ r b acc, (c.th t).pc ≠ .pub r b acc) : (step s t c).Y = c.Y := by
  unfold step
  generalize hx : c.th t = x at h
  obtain ⟨pc, todo, outs⟩ := x
  cases pc with
  | pub r b acc => exact absurd rfl (h r b acc)
  | _ => simp only <;> (try (repeat' (first | split | simp [setTh])))

end Orx.IW
