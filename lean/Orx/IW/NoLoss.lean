import Orx.IW.Completed
/-! # Nothing is lost: every position below `yielded` that the wrapped iterator filled has been handed out -/
namespace Orx.IW

def NoPanic (s : Script) : Prop := ∀ i, s i ≠ .panic

/-- `l` is the index of the first call that did not return an element -/
def FirstNone (s : Script) (l : Nat) : Prop := ¬ IsSome (s l) ∧ NoNoneBefore s l

theorem exists_firstNone (s : Script) (p : Nat) (h : ¬ NoNoneBefore s p) : ∃ l, l < p ∧ FirstNone s l := by
  induction p with
  | zero => exact absurd (fun i hi => absurd hi (Nat.not_lt_zero i)) h
  | succ p ih =>
    by_cases hp : NoNoneBefore s p
    · refine ⟨p, Nat.lt_succ_self p, ?_, hp⟩
      intro hsome
      apply h
      intro i hi
      by_cases hip : i = p
      · subst hip; exact hsome
      · exact hp i (by omega)
    · obtain ⟨l, hl, hf⟩ := ih hp
      exact ⟨l, by omega, hf⟩

theorem firstNone_unique {s : Script} {l l' : Nat} (h : FirstNone s l) (h' : FirstNone s l') : l = l' := by
  rcases Nat.lt_trichotomy l l' with hlt | heq | hgt
  · exact absurd (h'.2 l hlt) h.1
  · exact heq
  · exact absurd (h.2 l' hgt) h'.1

/-- position `p` has been handed out to somebody -/
def Delivered (c : Cfg) (p : Nat) : Prop := ∃ t, ∃ o ∈ (c.th t).outs, p ∈ o.pos

structure LInv (s : Script) (c : Cfg) : Prop where
  /-- once a first `None` was observed at call `l`, the critical section is at or beyond position `l` -/
  csNone : ∀ l, FirstNone s l → l < c.P → ∀ t b n, (c.th t).pc.inCS = true → (c.th t).pc.ticket = some (b, n) →
              l ≤ b + (c.th t).pc.acc.length
  idleNone : ∀ l, FirstNone s l → l < c.P → (∀ t, (c.th t).pc.inCS = false) → l ≤ c.Y
  /-- every position below `yielded` that the wrapped iterator filled before it ended has been handed out -/
  noLoss : ∀ p, p < c.Y → NoNoneBefore s (p + 1) → Delivered c p
  /-- whatever a thread has accumulated was produced before the iterator ended … -/
  accNN : ∀ t r b acc, ((c.th t).pc = .cs r b acc ∨ (c.th t).pc = .ins r b acc ∨ (c.th t).pc = .pub r b acc ∨ (c.th t).pc = .setC r b acc) →
            NoNoneBefore s (b + acc.length)
  /-- … and so was everything that has been handed out -/
  delOk : ∀ p, Delivered c p → NoNoneBefore s (p + 1)

theorem delivered_mono_of_outs {c c' : Cfg} (h : ∀ t, ∀ o ∈ (c.th t).outs, o ∈ (c'.th t).outs) (p : Nat) :
    Delivered c p → Delivered c' p := by
  rintro ⟨t, o, ho, hp⟩; exact ⟨t, o, h t o ho, hp⟩

/-- generic update lemma (same shape as `inv_update`): the moving thread `t` gets state `x'` -/
theorem linv_update {s : Script} {c : Cfg} (hi : Inv s c) (h : LInv s c) (t : Nat) (x' : Thread)
    (R' Y' : Nat) (C' : Bool) (P' : Nat) (hY : c.Y ≤ Y')
    (houts : ∀ o ∈ (c.th t).outs, o ∈ x'.outs)
    -- facts about `t` in the critical section afterwards
    (hcs : ∀ l, FirstNone s l → l < P' → ∀ b n, x'.pc.inCS = true → x'.pc.ticket = some (b, n) → l ≤ b + x'.pc.acc.length)
    -- the other threads: unchanged, and whoever of them is in the critical section keeps P
    (hothP : ∀ u, u ≠ t → (c.th u).pc.inCS = true → P' = c.P)
    (hidle : ∀ l, FirstNone s l → l < P' → x'.pc.inCS = false → (∀ u, u ≠ t → (c.th u).pc.inCS = false) → l ≤ Y')
    (hnew : ∀ p, c.Y ≤ p → p < Y' → NoNoneBefore s (p + 1) → ∃ o ∈ x'.outs, p ∈ o.pos)
    (hacc : ∀ r b acc, (x'.pc = .cs r b acc ∨ x'.pc = .ins r b acc ∨ x'.pc = .pub r b acc ∨ x'.pc = .setC r b acc) → NoNoneBefore s (b + acc.length))
    (hdel : ∀ o ∈ x'.outs, o ∈ (c.th t).outs ∨ ∀ p ∈ o.pos, NoNoneBefore s (p + 1)) :
    LInv s (setTh { c with R := R', Y := Y', C := C', P := P' } t x') := by
  constructor
  · intro l hl hlP u b n
    by_cases hu : u = t
    · subst hu; simp; exact hcs l hl hlP b n
    · simp [hu]; intro hcsu htk
      have := hothP u hu hcsu
      rw [this] at hlP
      exact h.csNone l hl hlP u b n hcsu htk
  · intro l hl hlP hall
    simp at hlP ⊢
    apply hidle l hl hlP
    · simpa using hall t
    · intro u hu; simpa [hu] using hall u
  · intro p hp hsome
    simp at hp
    by_cases hpY : p < c.Y
    · obtain ⟨u, o, ho, hpo⟩ := h.noLoss p hpY hsome
      by_cases hu : u = t
      · subst hu; exact ⟨u, o, by simpa using houts o ho, hpo⟩
      · exact ⟨u, o, by simpa [hu] using ho, hpo⟩
    · obtain ⟨o, ho, hpo⟩ := hnew p (by omega) hp hsome
      exact ⟨t, o, by simpa using ho, hpo⟩
  · intro u r b acc
    by_cases hu : u = t
    · subst hu; simpa using hacc r b acc
    · simpa [hu] using h.accNN u r b acc
  · rintro p ⟨u, o, ho, hpo⟩
    by_cases hu : u = t
    · subst hu
      simp at ho
      rcases hdel o ho with h1 | h1
      · exact h.delOk p ⟨u, o, h1, hpo⟩
      · exact h1 p hpo
    · simp [hu] at ho
      exact h.delOk p ⟨u, o, ho, hpo⟩

theorem single_len {r : Req} (h : r.isSingle = true) : r.len = 1 := by
  cases r <;> simp_all [Req.isSingle, Req.len]

theorem nnb_le {s : Script} {p q : Nat} (hpq : p ≤ q) (h : NoNoneBefore s q) : NoNoneBefore s p :=
  fun i hi => h i (by omega)

theorem step_linv {s : Script} (hnp : NoPanic s) {c : Cfg} (hi : Inv s c) (h : LInv s c) (hW : c.R < W)
    (hnd : ∀ t b n, (c.th t).pc ≠ .unw b n) (t : Nat) : LInv s (step s t c) := by
  unfold step
  generalize hx : c.th t = x
  obtain ⟨pc, todo, outs⟩ := x
  have hdelSame : ∀ (x' : Thread), (∀ o ∈ x'.outs, o ∈ outs ∨ o.pos = []) →
      ∀ o ∈ x'.outs, o ∈ (c.th t).outs ∨ ∀ p ∈ o.pos, NoNoneBefore s (p + 1) := by
    intro x' hx' o ho
    rcases hx' o ho with h1 | h1
    · exact Or.inl (by simpa [hx] using h1)
    · exact Or.inr (by simp [h1])
  have retDel : ∀ (x0 : Thread) r o, x0.outs = outs → o.pos = [] → ∀ o' ∈ (ret x0 r o).outs, o' ∈ outs ∨ o'.pos = [] := by
    intro x0 r o h0 hp o' ho'
    simp [ret_outs, h0] at ho'
    rcases ho' with h1 | h1
    · exact Or.inl h1
    · exact Or.inr (by rw [h1]; exact hp)
  have retAcc : ∀ (x0 : Thread) r o r' b acc, ((ret x0 r o).pc = .cs r' b acc ∨ (ret x0 r o).pc = .ins r' b acc ∨ (ret x0 r o).pc = .pub r' b acc ∨ (ret x0 r o).pc = .setC r' b acc) →
      NoNoneBefore s (b + acc.length) := by
    intro x0 r o r' b acc he; rcases ret_pc x0 r o with h1 | h1 <;> simp [h1] at he
  have sameDel : ∀ (x' : Thread), x'.outs = outs → ∀ o ∈ x'.outs, o ∈ outs ∨ o.pos = [] := by
    intro x' h0 o ho; exact Or.inl (by simpa [h0] using ho)
  have retOuts : ∀ (x : Thread) r o, ∀ o' ∈ x.outs, o' ∈ (ret x r o).outs := by
    intro x r o o' ho'; simp [ret_outs, ho']
  -- steps of a thread that is and stays outside the critical section and moves no counter
  have quiet : ∀ (x' : Thread) (R' : Nat) (C' : Bool), pc.inCS = false → x'.pc.inCS = false → (∀ o ∈ outs, o ∈ x'.outs) →
      (∀ o ∈ x'.outs, o ∈ outs ∨ o.pos = []) →
      LInv s (setTh { c with R := R', Y := c.Y, C := C', P := c.P } t x') := by
    intro x' R' C' hpc hx' hout hdel
    refine linv_update hi h t x' R' c.Y C' c.P (Nat.le_refl _) (by simpa [hx] using hout) ?_ (fun _ _ _ => rfl) ?_ (fun p h1 h2 => by omega) ?_ (hdelSame x' hdel)
    · intro l _ _ b n hc; simp [hx'] at hc
    · intro l hl hlP _ hall
      apply h.idleNone l hl hlP
      intro u
      by_cases hu : u = t
      · subst hu; simp [hx, hpc]
      · exact hall u hu
    · intro r b acc he
      rcases he with he | he | he | he <;> simp [he, Pc.inCS] at hx'
  cases pc with
  | idle =>
    cases todo with
    | nil => simpa using h
    | cons r rest =>
      cases r <;> (simp only; rw [← cfg_eta c]; exact quiet _ _ _ rfl rfl (by simp) (sameDel _ rfl))
  | skp => simp only; exact quiet _ _ _ rfl (ret_inCS _ _ _) (retOuts ⟨_, _, outs⟩ _ _) (retDel _ _ _ rfl rfl)
  | resv r => simp only; exact quiet _ _ _ rfl rfl (by simp) (sameDel _ rfl)
  | pre r b =>
    simp only; split
    · rw [← cfg_eta c]; exact quiet _ _ _ rfl (ret_inCS _ _ _) (retOuts ⟨_, _, outs⟩ _ _) (retDel _ _ _ rfl rfl)
    · rw [← cfg_eta c]; exact quiet _ _ _ rfl rfl (by simp) (sameDel _ rfl)
  | chk r b =>
    simp only; split
    · rw [← cfg_eta c]; exact quiet _ _ _ rfl (ret_inCS _ _ _) (retOuts ⟨_, _, outs⟩ _ _) (retDel _ _ _ rfl rfl)
    · rw [← cfg_eta c]; exact quiet _ _ _ rfl rfl (by simp) (sameDel _ rfl)
  | wait r b =>
    simp only
    split
    · rw [← cfg_eta c]; exact quiet _ _ _ rfl rfl (by simp) (sameDel _ rfl)
    · split
      · rw [← cfg_eta c]; exact quiet _ _ _ rfl (ret_inCS _ _ _) (retOuts ⟨_, _, outs⟩ _ _) (retDel _ _ _ rfl rfl)
      · rw [← cfg_eta c]; exact quiet _ _ _ rfl rfl (by simp) (sameDel _ rfl)
  | ent r b =>
    have hme : (c.th t).pc.ticket = some (b, r.len) := by simp [hx, Pc.ticket]
    have htk := hi.tk t b r.len hme
    have hit : iters r b = r.len := iters_eq r b (by omega)
    have hbY : b = c.Y := hi.entY t r b (by simp [hx])
    simp only
    split
    · rw [← cfg_eta c]; exact quiet _ _ _ rfl (ret_inCS _ _ _) (retOuts ⟨_, _, outs⟩ _ _) (retDel _ _ _ rfl rfl)
    · rename_i hC
      rw [hit, if_neg (by omega)]
      have hno := others_not_inCS hi t b r.len hme hbY
      have hall : ∀ u, (c.th u).pc.inCS = false := by
        intro u
        by_cases hu : u = t
        · subst hu; simp [hx, Pc.inCS]
        · exact hno u hu
      have hnn : NoNoneBefore s c.P := by
        by_cases hq : NoNoneBefore s c.P
        · exact hq
        · rcases hi.noneC hq with h1 | ⟨u, hu⟩
          · simp [h1] at hC
          · have : (c.th u).pc.inCS = true := by
              generalize (c.th u).pc = q at hu; cases q <;> simp [Pc.recording, Pc.inCS] at hu ⊢
            rw [hall u] at this; exact absurd this (by simp)
      have hPY := hi.pidle hall hnn
      rw [← cfg_eta c]
      refine linv_update hi h t _ c.R c.Y c.C c.P (Nat.le_refl _) (by simp [hx]) ?_ (fun _ _ _ => rfl) (by simp [Pc.inCS]) (fun p h1 h2 => by omega) ?_ (hdelSame _ (sameDel _ rfl))
      · intro l hl hlP b0 n0 _ hb0
        exact absurd (hnn l hlP) hl.1
      · intro r' b' acc' he
        simp at he; obtain ⟨rfl, rfl, rfl⟩ := he
        simp; rw [hbY, ← hPY]; exact hnn
  | cs r b acc =>
    have hme : (c.th t).pc.ticket = some (b, r.len) := by simp [hx, Pc.ticket]
    have hcs : (c.th t).pc.inCS = true := by simp [hx, Pc.inCS]
    have hold := h.accNN t r b acc (by simp [hx])
    simp only
    rw [← cfg_eta c]
    refine linv_update hi h t _ c.R c.Y c.C c.P (Nat.le_refl _) (by simp [hx]) ?_ (fun _ _ _ => rfl) (by simp [Pc.inCS]) (fun p h1 h2 => by omega) ?_ (hdelSame _ (sameDel _ rfl))
    · intro l hl hlP b0 n0 _ hb0
      simp [Pc.ticket] at hb0
      obtain ⟨rfl, rfl⟩ := hb0
      have := h.csNone l hl hlP t b r.len hcs hme
      simpa [hx, Pc.acc] using this
    · intro r' b' acc' he
      simp at he; obtain ⟨rfl, rfl, rfl⟩ := he; exact hold
  | ins r b acc =>
    have hme : (c.th t).pc.ticket = some (b, r.len) := by simp [hx, Pc.ticket]
    have hcs : (c.th t).pc.inCS = true := by simp [hx, Pc.inCS]
    have htk := hi.tk t b r.len hme
    have hbY := hi.csY t b r.len hcs hme
    have hno := others_not_inCS hi t b r.len hme hbY
    have hit : iters r b = r.len := iters_eq r b (by omega)
    have hnn : NoNoneBefore s c.P := hi.callOk t r b acc (by simp [hx])
    have hP : c.P = b + acc.length := by simpa [hx, Pc.acc] using hi.pcs t b r.len hcs hme hnn
    have hothP : ∀ u, u ≠ t → (c.th u).pc.inCS = true → c.P + 1 = c.P := by
      intro u hu hc; simp [hno u hu] at hc
    simp only
    rw [hit]
    cases hsp : s c.P with
    | some v =>
      have hnn1 : NoNoneBefore s (c.P + 1) := by
        intro i hi'
        by_cases hip : i = c.P
        · subst hip; simp [hsp, IsSome]
        · exact hnn i (by omega)
      have key : ∀ pc', (pc' = .cs r b (acc ++ [v]) ∨ pc' = .pub r b (acc ++ [v])) →
          LInv s (setTh { c with R := c.R, Y := c.Y, C := c.C, P := c.P + 1 } t ⟨pc', todo, outs⟩) := by
        intro pc' hpc'
        have hin : pc'.inCS = true := by rcases hpc' with h1 | h1 <;> simp [h1, Pc.inCS]
        refine linv_update hi h t _ c.R c.Y c.C (c.P + 1) (Nat.le_refl _) (by simp [hx]) ?_ hothP (by simp [hin]) (fun p h1 h2 => by omega) ?_ (hdelSame _ (sameDel _ rfl))
        · intro l hl hlP b0 n0 _ hb0
          exact absurd (hnn1 l hlP) hl.1
        · intro r' b' acc' he
          have : b' = b ∧ acc' = acc ++ [v] := by
            rcases hpc' with h1 | h1 <;> (rw [h1] at he; simp at he) <;> (obtain ⟨_, rfl, rfl⟩ := he; exact ⟨rfl, rfl⟩)
          obtain ⟨rfl, rfl⟩ := this
          have : b' + (acc ++ [v]).length = c.P + 1 := by simp; omega
          rw [this]; exact hnn1
      simp only
      split
      · rw [if_neg (by simp at *; omega)]; exact key _ (Or.inr rfl)
      · exact key _ (Or.inl rfl)
    | none =>
      have hfirst : FirstNone s c.P := ⟨by simp [hsp, IsSome], hnn⟩
      simp only
      refine linv_update hi h t _ c.R c.Y c.C (c.P + 1) (Nat.le_refl _) (by simp [hx]) ?_ hothP (by simp [Pc.inCS]) (fun p h1 h2 => by omega) ?_ (hdelSame _ (sameDel _ rfl))
      · intro l hl hlP b0 n0 _ hb0
        simp [Pc.ticket] at hb0
        obtain ⟨rfl, rfl⟩ := hb0
        have := firstNone_unique hl hfirst
        simp [Pc.acc]; omega
      · intro r' b' acc' he
        simp at he; obtain ⟨_, rfl, rfl⟩ := he
        rw [← hP]; exact hnn
    | panic => exact absurd hsp (hnp c.P)
  | setC r b acc =>
    have hme : (c.th t).pc.ticket = some (b, r.len) := by simp [hx, Pc.ticket]
    have hcs : (c.th t).pc.inCS = true := by simp [hx, Pc.inCS]
    have hbY := hi.csY t b r.len hcs hme
    have hold := fun l hl hlP => h.csNone l hl hlP t b r.len hcs hme
    simp [hx, Pc.acc] at hold
    have haccNN := h.accNN t r b acc (by simp [hx])
    have hacc := (hi.accOk t b r.len hme).2
    simp [hx, Pc.acc] at hacc
    simp only
    split
    · rename_i hsingle
      have hlen : r.len = 1 := single_len hsingle
      refine linv_update hi h t _ c.R c.Y true c.P (Nat.le_refl _) (by intro o ho; simp [hx] at ho; simp [ret_outs, ho]) ?_ (fun _ _ _ => rfl) ?_ (fun p h1 h2 => by omega) (retAcc _ _ _) (hdelSame _ (retDel _ _ _ rfl rfl))
      · intro l _ _ b0 n0 hc; simp [ret_inCS] at hc
      · intro l hl hlP _ _
        have := hold l hl hlP
        have hlt := hi.csLt t r b acc (by simp [hx])
        omega
    · refine linv_update hi h t _ c.R c.Y true c.P (Nat.le_refl _) (by simp [hx]) ?_ (fun _ _ _ => rfl) (by simp [Pc.inCS]) (fun p h1 h2 => by omega) ?_ (hdelSame _ (sameDel _ rfl))
      · intro l hl hlP b0 n0 _ hb0
        simp [Pc.ticket] at hb0
        obtain ⟨rfl, rfl⟩ := hb0
        simpa [Pc.acc] using hold l hl hlP
      · intro r' b' acc' he
        simp at he; obtain ⟨_, rfl, rfl⟩ := he; exact haccNN
  | pub r b acc =>
    have hme : (c.th t).pc.ticket = some (b, r.len) := by simp [hx, Pc.ticket]
    have hcs : (c.th t).pc.inCS = true := by simp [hx, Pc.inCS]
    have htk := hi.tk t b r.len hme
    have hbY := hi.csY t b r.len hcs hme
    have hacc := hi.accOk t b r.len hme
    simp [hx, Pc.acc] at hacc
    have hold := fun l hl hlP => h.csNone l hl hlP t b r.len hcs hme
    simp [hx, Pc.acc] at hold
    have hfull := hi.pubFull t r b acc (by simp [hx])
    have haccNN := h.accNN t r b acc (by simp [hx])
    -- positions of the ticket beyond what was accumulated were not filled before the end
    have hbeyond : ∀ p, b + acc.length ≤ p → p < b + r.len → ¬ NoNoneBefore s (p + 1) := by
      intro p hp1 hp2 hfill
      by_cases hnn : NoNoneBefore s c.P
      · have := hfull hnn; omega
      · obtain ⟨l, hlP, hl⟩ := exists_firstNone s c.P hnn
        have := hold l hl hlP
        exact hl.1 (hfill l (by omega))
    have key : ∀ o, (∀ p, b ≤ p → p < b + acc.length → p ∈ o.pos) → (∀ p ∈ o.pos, b ≤ p ∧ p < b + acc.length) →
        LInv s (setTh { c with R := c.R, Y := c.Y + r.len, C := c.C, P := c.P } t (ret ⟨Pc.pub r b acc, todo, outs⟩ r o)) := by
      intro o ho ho2
      refine linv_update hi h t _ c.R (c.Y + r.len) c.C c.P (by omega) (by intro o ho; simp [hx] at ho; simp [ret_outs, ho]) ?_ (fun _ _ _ => rfl) ?_ ?_ (retAcc _ _ _) ?_
      · intro l _ _ b0 n0 hc; simp [ret_inCS] at hc
      · intro l hl hlP _ _; have := hold l hl hlP; omega
      · intro p h1 h2 hfill
        refine ⟨o, by simp [ret_outs], ho p (by omega) ?_⟩
        by_cases hlt : p < b + acc.length
        · exact hlt
        · exact absurd hfill (hbeyond p (by omega) (by omega))
      · intro o' ho'
        simp [ret_outs] at ho'
        rcases ho' with h1 | h1
        · exact Or.inl (by simpa [hx] using h1)
        · refine Or.inr ?_
          subst h1
          intro p hp
          have := ho2 p hp
          exact nnb_le (by omega) haccNN
    simp only
    cases acc with
    | nil => simp only; exact key _ (by intro p h1 h2; simp at h2; omega) (by simp [POut.pos])
    | cons v rest =>
      simp only
      split
      · rename_i hsingle
        have hlen : r.len = 1 := single_len hsingle
        apply key
        · intro p h1 h2
          have := hacc.2; simp at this h2
          simp [POut.pos]; omega
        · intro p hp; simp [POut.pos] at hp; subst hp; simp
      · apply key
        · intro p h1 h2
          simp only [List.length_cons] at h2
          simp only [POut.pos, List.length_cons, List.mem_range'_1]
          omega
        · intro p hp
          simp only [POut.pos, List.length_cons, List.mem_range'_1] at hp
          simp only [List.length_cons]; omega
  | unw b n => exact absurd (by simp [hx]) (hnd t b n)
  | dead b n => simpa using h

theorem linv_init (s : Script) (ps : Nat → List Req) : LInv s (init ps) := by
  constructor
  · intro l _ hl; simp [init] at hl
  · intro l _ hl; simp [init] at hl
  · intro p hp; simp [init] at hp
  · intro t r b acc he; simp [init] at he
  · rintro p ⟨t, o, ho, _⟩; simp [init] at ho

end Orx.IW

namespace Orx.IW

/-- no thread has unwound (or is unwinding) out of the critical section -/
def ND (c : Cfg) : Prop := ∀ t b n, (c.th t).pc ≠ .unw b n ∧ (c.th t).pc ≠ .dead b n

theorem step_nd {s : Script} (hnp : NoPanic s) {c : Cfg} (h : ND c) (t : Nat) : ND (step s t c) := by
  intro u b n
  by_cases hu : u = t
  · subst hu
    have h0 := h u
    unfold step
    generalize hx : c.th u = x at h0
    obtain ⟨pc, todo, outs⟩ := x
    have hret : ∀ (x : Thread) r o, (ret x r o).pc ≠ .unw b n ∧ (ret x r o).pc ≠ .dead b n := by
      intro x r o; rcases ret_pc x r o with h1 | h1 <;> simp [h1]
    cases pc with
    | idle => cases todo with
      | nil => simpa [hx] using h0 b n
      | cons r rest => cases r <;> simp [setTh]
    | ins r b' acc =>
      simp only
      cases hsp : s c.P with
      | some v => simp only; split
                  · split <;> simp [setTh]
                  · simp [setTh]
      | none => simp [setTh]
      | panic => exact absurd hsp (hnp c.P)
    | unw b' n' => exact absurd rfl (h0 b' n').1
    | dead b' n' => exact absurd rfl (h0 b' n').2
    | _ => simp only <;> repeat' (first | split | simp [setTh, hret])
  · have : (step s t c).th u = c.th u := by
      unfold step; repeat' (first | split | simp [setTh, hu])
    rw [this]; exact h u b n

/-- without `skip_to_end`: `completed` and every reported end are backed by a `None` of the wrapped iterator -/
structure FInv (s : Script) (c : Cfg) : Prop where
  noSkip : ∀ t, (∀ r ∈ (c.th t).todo, r ≠ .skip) ∧ (c.th t).pc ≠ .skp
  cNone : c.C = true → ¬ NoNoneBefore s c.P
  finNone : ∀ t, POut.fin ∈ (c.th t).outs → ¬ NoNoneBefore s c.P

theorem nnb_mono {s : Script} {p q : Nat} (hpq : p ≤ q) (h : ¬ NoNoneBefore s p) : ¬ NoNoneBefore s q :=
  fun hq => h (fun i hi => hq i (by omega))

theorem finv_update {s : Script} {c : Cfg} (h : FInv s c) (t : Nat) (x' : Thread) (R' Y' : Nat) (C' : Bool) (P' : Nat)
    (hP : c.P ≤ P')
    (htodo : ∀ r ∈ x'.todo, r ≠ .skip) (hpc : x'.pc ≠ .skp)
    (hC : C' = true → c.C = true ∨ ¬ NoNoneBefore s P')
    (hfin : POut.fin ∈ x'.outs → POut.fin ∈ (c.th t).outs ∨ ¬ NoNoneBefore s P') :
    FInv s (setTh { c with R := R', Y := Y', C := C', P := P' } t x') := by
  constructor
  · intro u
    by_cases hu : u = t
    · subst hu; simpa using ⟨htodo, hpc⟩
    · simpa [hu] using h.noSkip u
  · intro hc
    simp at hc ⊢
    rcases hC hc with h1 | h1
    · exact nnb_mono hP (h.cNone h1)
    · exact h1
  · intro u
    by_cases hu : u = t
    · subst hu; simp; intro hf
      rcases hfin hf with h1 | h1
      · exact nnb_mono hP (h.finNone u h1)
      · exact h1
    · simp [hu]; intro hf; exact nnb_mono hP (h.finNone u hf)

theorem step_finv {s : Script} {c : Cfg} (hi : Inv s c) (hnd : ND c) (h : FInv s c) (t : Nat) : FInv s (step s t c) := by
  unfold step
  generalize hx : c.th t = x
  obtain ⟨pc, todo, outs⟩ := x
  have hns := h.noSkip t
  simp [hx] at hns
  have htd : ∀ r ∈ todo, r ≠ Req.skip := hns.1
  have retpc : ∀ (x : Thread) r o, r ≠ .skip → (ret x r o).pc ≠ .skp := by
    intro x r o _; rcases ret_pc x r o with h | h <;> simp [h]
  -- a step that changes neither C nor P and adds no `fin`
  have same : ∀ (x' : Thread) (R' Y' : Nat), (∀ r ∈ x'.todo, r ≠ .skip) → x'.pc ≠ .skp → x'.outs = outs →
      FInv s (setTh { c with R := R', Y := Y', C := c.C, P := c.P } t x') := by
    intro x' R' Y' h1 h2 h3
    exact finv_update h t x' R' Y' c.C c.P (Nat.le_refl _) h1 h2 (fun hc => Or.inl hc) (fun hf => Or.inl (by simpa [hx, h3] using hf))
  -- returning `fin` because `completed` was read as true
  have finC : ∀ (x0 : Thread) r, x0.todo = todo → x0.outs = outs → c.C = true →
      FInv s (setTh { c with R := c.R, Y := c.Y, C := c.C, P := c.P } t (ret x0 r .fin)) := by
    intro x0 r h1 h2 hc
    refine finv_update h t _ c.R c.Y c.C c.P (Nat.le_refl _) (by simpa [ret_todo, h1] using htd) ?_ (fun hc => Or.inl hc) (fun _ => Or.inr (h.cNone hc))
    rcases ret_pc x0 r .fin with h | h <;> simp [h]
  cases pc with
  | idle =>
    cases todo with
    | nil => simpa using h
    | cons r rest =>
      have hr : r ≠ .skip := htd r (by simp)
      have hrest : ∀ r' ∈ rest, r' ≠ Req.skip := fun r' hr' => htd r' (by simp [hr'])
      cases r with
      | skip => exact absurd rfl hr
      | _ => simp only; rw [← cfg_eta c]; exact same _ _ _ hrest (by simp) rfl
  | skp => exact absurd rfl hns.2
  | resv r => simp only; exact same _ _ _ htd (by simp) rfl
  | pre r b =>
    simp only; split
    · rename_i hc; rw [← cfg_eta c]; exact finC _ r rfl rfl hc
    · rw [← cfg_eta c]; exact same _ _ _ htd (by simp) rfl
  | chk r b =>
    simp only; split
    · rename_i hc; rw [← cfg_eta c]; exact finC _ r rfl rfl hc
    · rw [← cfg_eta c]; exact same _ _ _ htd (by simp) rfl
  | wait r b =>
    have hme : (c.th t).pc.ticket = some (b, r.len) := by simp [hx, Pc.ticket]
    have htk := hi.tk t b r.len hme
    simp only; split
    · rw [← cfg_eta c]; exact same _ _ _ htd (by simp) rfl
    · split
      · omega
      · rw [← cfg_eta c]; exact same _ _ _ htd (by simp) rfl
  | ent r b =>
    simp only; split
    · rename_i hc; rw [← cfg_eta c]; exact finC _ r rfl rfl hc
    · split <;> (rw [← cfg_eta c]; exact same _ _ _ htd (by simp) rfl)
  | cs r b acc => simp only; rw [← cfg_eta c]; exact same _ _ _ htd (by simp) rfl
  | ins r b acc =>
    simp only
    have upd : ∀ (x' : Thread), (∀ r ∈ x'.todo, r ≠ .skip) → x'.pc ≠ .skp → x'.outs = outs →
        FInv s (setTh { c with R := c.R, Y := c.Y, C := c.C, P := c.P + 1 } t x') := by
      intro x' h1 h2 h3
      exact finv_update h t x' c.R c.Y c.C (c.P + 1) (by omega) h1 h2 (fun hc => Or.inl hc) (fun hf => Or.inl (by simpa [hx, h3] using hf))
    cases s c.P with
    | some v => simp only; split
                · split <;> exact upd _ htd (by simp) rfl
                · exact upd _ htd (by simp) rfl
    | none => simp only; exact upd _ htd (by simp) rfl
    | panic => simp only; exact upd _ htd (by simp) rfl
  | setC r b acc =>
    have hnone := hi.setCNone t r b acc (by simp [hx])
    simp only; split
    · refine finv_update h t _ c.R c.Y true c.P (Nat.le_refl _) (by simpa [ret_todo] using htd) ?_ (fun _ => Or.inr hnone) (fun _ => Or.inr hnone)
      rcases ret_pc ⟨Pc.setC r b acc, todo, outs⟩ r .fin with h | h <;> simp [h]
    · exact finv_update h t _ c.R c.Y true c.P (Nat.le_refl _) htd (by simp) (fun _ => Or.inr hnone) (fun hf => Or.inl (by simpa [hx] using hf))
  | pub r b acc =>
    have hme : (c.th t).pc.ticket = some (b, r.len) := by simp [hx, Pc.ticket]
    have htk := hi.tk t b r.len hme
    have hfull := hi.pubFull t r b acc (by simp [hx])
    have key : ∀ o, (o = .fin → ¬ NoNoneBefore s c.P) →
        FInv s (setTh { c with R := c.R, Y := c.Y + r.len, C := c.C, P := c.P } t (ret ⟨Pc.pub r b acc, todo, outs⟩ r o)) := by
      intro o ho
      refine finv_update h t _ c.R (c.Y + r.len) c.C c.P (Nat.le_refl _) (by simpa [ret_todo] using htd) ?_ (fun hc => Or.inl hc) ?_
      · rcases ret_pc ⟨Pc.pub r b acc, todo, outs⟩ r o with h | h <;> simp [h]
      · intro hf
        simp [ret_outs] at hf
        rcases hf with hf | hf
        · exact Or.inl (by simpa [hx] using hf)
        · exact Or.inr (ho hf.symm)
    simp only
    cases acc with
    | nil =>
      simp only
      exact key _ (fun _ hnn => by have := hfull hnn; simp at this; omega)
    | cons v rest =>
      simp only
      split <;> exact key _ (by simp)
  | unw b n => exact absurd (by simp [hx]) (hnd t b n).1
  | dead b n => simpa using h

theorem finv_init (s : Script) (ps : Nat → List Req) (hns : ∀ t, ∀ r ∈ ps t, r ≠ .skip) : FInv s (init ps) := by
  constructor
  · intro t; exact ⟨by simpa [init] using hns t, by simp [init]⟩
  · simp [init]
  · simp [init]

/-- all four invariants along any schedule -/
theorem all_inv_run {s : Script} (hnp : NoPanic s) (σ : List Nat) {c : Cfg}
    (hi : Inv s c) (ho : OInv s c) (hl : LInv s c) (hfi : FInv s c) (hnd : ND c) (hW : (run s σ c).R < W) :
    Inv s (run s σ c) ∧ OInv s (run s σ c) ∧ LInv s (run s σ c) ∧ FInv s (run s σ c) := by
  induction σ generalizing c with
  | nil => exact ⟨hi, ho, hl, hfi⟩
  | cons t ts ih =>
    simp only [run] at hW ⊢
    have h1 : (step s t c).R < W := Nat.lt_of_le_of_lt (run_R_mono s ts _) hW
    have h0 : c.R < W := Nat.lt_of_le_of_lt (step_R_mono s t c) h1
    exact ih (step_inv hi h0 t) (step_oinv hi ho t) (step_linv hnp hi hl h0 (fun t b n => (hnd t b n).1) t)
      (step_finv hi hnd hfi t) (step_nd hnp hnd t) hW

/-- **Exactly once, wrapper over an arbitrary iterator — fused or not.** For every non-panicking wrapped
iterator `s` (it may yield again after a `None`: the protocol never polls it again), every family of per-thread
request lists (single pulls, one-shot chunks, buffered chunks, loops; chunk sizes ≥ 1; no skip) and every
interleaving `σ` (reserved count below `2^64`): if no thread is inside the critical section and some thread has
observed the end, then a position has been handed out iff the wrapped iterator filled it before it ended, i.e.
iff all calls up to and including that position returned elements. (No duplicates: `OInv.sorted`, `OInv.disj`.) -/
theorem exactly_once (s : Script) (hnp : NoPanic s) (ps : Nat → List Req)
    (hok : ∀ t, ∀ r ∈ ps t, ReqOk r) (hns : ∀ t, ∀ r ∈ ps t, r ≠ .skip) (σ : List Nat)
    (hW : (run s σ (init ps)).R < W)
    (hquiet : ∀ t, ((run s σ (init ps)).th t).pc.inCS = false)
    (hend : ∃ t, POut.fin ∈ ((run s σ (init ps)).th t).outs) (p : Nat) :
    Delivered (run s σ (init ps)) p ↔ NoNoneBefore s (p + 1) := by
  obtain ⟨hi, ho, hl, hfi⟩ := all_inv_run hnp σ (inv_init s ps hok) (oinv_init s ps) (linv_init s ps) (finv_init s ps hns) (by intro t b n; simp [init]) hW
  constructor
  · exact hl.delOk p
  · intro hfill
    obtain ⟨t, hfin⟩ := hend
    have hnn := hfi.finNone t hfin
    obtain ⟨l, hlP, hl1⟩ := exists_firstNone s _ hnn
    have hlY := hl.idleNone l hl1 hlP hquiet
    have hpl : p < l := by
      rcases Nat.lt_or_ge p l with h | h
      · exact h
      · exact absurd (hfill l (by omega)) hl1.1
    exact hl.noLoss p (by omega) hfill

/-- for a fused iterator "filled before the end" is just "is an element" -/
theorem filled_iff_isSome {s : Script} (hf : Fused s) (p : Nat) : NoNoneBefore s (p + 1) ↔ IsSome (s p) := by
  constructor
  · intro h; exact h p (by omega)
  · intro h i hi; exact hf i p (by omega) h

end Orx.IW
