import Orx.IW.FullLedgerRun
/-! # Loops over the owning wrapper destroy nothing and visit every produced element exactly once (C12) -/
namespace Orx.IWF
open Orx.IW

/-- the loop adaptors and default functions with a positive chunk size and a closure that does not panic -/
def isLoopOp : Op → Bool
  | .foreach (_ + 1) none | .enumforeach (_ + 1) none | .fold (_ + 1) | .values | .idsvalues => true
  | _ => false

/-- a closure that does not panic visits all its pairs -/
theorem visitAll_none (s : ISrc) (wi : Bool) (ps : List (Nat × Nat)) (v sm : Nat) (acc : List Ev) :
    (visitAll s wi none ps v sm acc).2.2.2 = none := by
  induction ps generalizing v sm acc with
  | nil => rfl
  | cons p ps ih => obtain ⟨i, x⟩ := p; simp [visitAll, ih]

theorem isLoopOp_params {op : Op} (h : isLoopOp op = true) :
    ∃ n wi isf, loopParams op = some (n + 1, wi, none, isf) := by
  cases op with
  | foreach n pa => cases n <;> cases pa <;> simp_all [isLoopOp, loopParams]
  | enumforeach n pa => cases n <;> cases pa <;> simp_all [isLoopOp, loopParams]
  | fold n => cases n <;> simp_all [isLoopOp, loopParams]
  | values => exact ⟨0, false, false, rfl⟩
  | idsvalues => exact ⟨0, true, false, rfl⟩
  | _ => simp [isLoopOp] at h

theorem isLoopOp_notQuery {op : Op} (h : isLoopOp op = true) : isQuery op = false := by
  cases op <;> simp_all [isLoopOp, isQuery]

/-- calling a loop op destroys nothing and keeps the thread's own buffered iterator (it has none) -/
theorem callStep_loop (s : ISrc) (t : Nat) (c : FCfg) (x : DThread) (o : SOp) (rest : List SOp) (h : isLoopOp o.op = true) :
    (callStep s t c x o rest).1.dr = c.dr ∧ ((callStep s t c x o rest).1.d t).buf = x.buf ∧
    ((callStep s t c x o rest).1.d t).todo = rest ∧ ((callStep s t c x o rest).1.d t).cur = some o.op ∧
    ((callStep s t c x o rest).1.d t).dead = x.dead := by
  obtain ⟨n, wi, isf, hl⟩ := isLoopOp_params h
  obtain ⟨k, op⟩ := o
  cases op <;> simp [isLoopOp] at h <;> simp_all [callStep, loopParams]

/-- a loop op receiving elements or the end destroys nothing -/
theorem retFx_loop_dr (s : ISrc) (t : Nat) (c : FCfg) (x : DThread) (op : Op) (o : POut) (evs : List Ev) (h : isLoopOp op = true) :
    (retFx s t c x op o evs).1.dr = c.dr ∧ ((retFx s t c x op o evs).1.d t).buf = x.buf ∧
    ((retFx s t c x op o evs).1.d t).todo = x.todo ∧ ((retFx s t c x op o evs).1.d t).dead = x.dead ∧
    (((retFx s t c x op o evs).1.d t).cur = x.cur ∨ ((retFx s t c x op o evs).1.d t).cur = none) := by
  obtain ⟨n, wi, isf, hl⟩ := isLoopOp_params h
  by_cases ho : o = .fin
  · subst ho
    rw [retFx_fin s t c x op evs (isLoopOp_notQuery h)]
    simp
  · rw [retFx_loop s t c x op o evs _ wi none isf hl ho, visitAll_none]
    simp

/-- behind the accumulator a clean buffer is empty -/
theorem prefix_clean_next_none (l : List (Option Nat)) (acc : List Nat) (hp : Prefix l acc) (hs : somes l = acc) :
    l.getD acc.length none = none := by
  by_cases hlt : acc.length < l.length
  · have h1 : somes (l.take acc.length) = acc := by rw [hp, somes_map_some]
    have h2 : somes (l.drop acc.length) = [] := by
      have := congrArg somes (List.take_append_drop acc.length l)
      rw [somes_append, h1, hs] at this
      simpa using this
    rw [List.drop_eq_getElem_cons hlt] at h2
    cases hx : l[acc.length] with
    | none => simp [List.getD, hlt, hx]
    | some o => simp [hx, somes_cons_some] at h2
  · simp [List.getD, List.getElem?_eq_none (by omega : l.length ≤ acc.length)]

/-- the wrapped `next()` returning inside a loop's pull destroys nothing: a loop's own buffer is clean behind the accumulator -/
theorem insFx_loop (s : ISrc) (c : FCfg) (x : DThread) (pc : Pc) (evs : List Ev)
    (hnp : s.fn c.core.P ≠ .panic) (hnu : ∀ b n, pc ≠ .unw b n)
    (hslot : ∀ n lp b acc l, pc = .ins (.buffered n lp) b acc → x.lbuf = some l → l.getD acc.length none = none) :
    (insFx s c x pc true evs).1.dr = c.dr ∧ (insFx s c x pc true evs).2.1.buf = x.buf ∧
    (insFx s c x pc true evs).2.1.todo = x.todo ∧ (insFx s c x pc true evs).2.1.cur = x.cur ∧
    (insFx s c x pc true evs).2.1.dead = x.dead ∧ (insFx s c x pc true evs).2.2.2 = false := by
  cases pc with
  | ins r b acc =>
    cases hs : s.fn c.core.P with
    | panic => exact absurd hs hnp
    | none => simp [insFx, hs]
    | some v =>
      cases r with
      | buffered n lp =>
        cases hl : x.lbuf with
        | none => simp [insFx, hs, hl]
        | some l =>
          have h0 := hslot n lp b acc l rfl hl
          have h1 : l[acc.length]?.getD none = none := by simpa [List.getD] using h0
          simp [insFx, hs, hl, h1]
      | _ => simp [insFx, hs]
  | unw b n => exact absurd rfl (hnu b n)
  | _ => simp [insFx]

/-- a loop-only thread: only loops (positive chunk sizes, closures that do not panic) to run, no buffered iterator of its
own, alive, never unwinding -/
structure LO (c : FCfg) (t : Nat) : Prop where
  todo : ∀ o ∈ (c.d t).todo, isLoopOp o.op = true
  cur : ∀ op, (c.d t).cur = some op → isLoopOp op = true
  buf : (c.d t).buf = none
  alive : (c.d t).dead = false
  nounw : ∀ b n, (c.core.th t).pc ≠ .unw b n

theorem core_step_not_unw (s : Script) (t : Nat) (c : Cfg) (hnp : s c.P ≠ .panic) (h : ∀ b n, (c.th t).pc ≠ .unw b n) :
    ∀ b n, ((IW.step s t c).th t).pc ≠ .unw b n := by
  intro b n
  have hret : ∀ (x : Thread) (r : Req) (o : POut), (ret x r o).pc ≠ .unw b n := by
    intro x r o; unfold ret; split <;> simp
  cases hpc : (c.th t).pc with
  | idle =>
    cases htd : (c.th t).todo with
    | nil => simp [IW.step, hpc, htd]
    | cons r rest => cases r <;> simp [IW.step, hpc, htd, setTh]
  | skp => simp [IW.step, hpc, setTh, hret]
  | resv r => simp [IW.step, hpc, setTh]
  | pre r b0 => simp only [IW.step, hpc]; split <;> simp [setTh, hret]
  | wait r b0 => simp only [IW.step, hpc]; split <;> (try split) <;> simp [setTh, hret]
  | chk r b0 => simp only [IW.step, hpc]; split <;> simp [setTh, hret]
  | ent r b0 => simp only [IW.step, hpc]; split <;> (try split) <;> simp [setTh, hret]
  | cs r b0 acc => simp [IW.step, hpc, setTh]
  | ins r b0 acc =>
    simp only [IW.step, hpc]
    cases hs : s c.P with
    | panic => exact absurd hs hnp
    | none => simp [setTh]
    | some v => simp only []; split <;> (try split) <;> simp [setTh]
  | setC r b0 acc => simp only [IW.step, hpc]; split <;> simp [setTh, hret]
  | pub r b0 acc => simp only [IW.step, hpc]; cases acc <;> simp only [] <;> (try split) <;> simp [setTh, hret]
  | unw b0 n0 => exact absurd hpc (h b0 n0)
  | dead b0 n0 => simp [IW.step, hpc]

theorem stepW_th (s : Script) (t : Nat) (c : Cfg) : (stepW s t c).th = (IW.step s t c).th := rfl

/-- **A loop-only thread never destroys an element** (wrapped iterator without panics): one step -/
theorem step_LO (s : ISrc) (hnp : ∀ i, s.fn i ≠ .panic) (t : Nat) (c : FCfg)
    (hW : stepW s.fn t c.core = IW.step s.fn t c.core) (hti : TI c t) (hlo : LO c t) :
    LO (step s t c).1 t ∧ (step s t c).1.dr = c.dr := by
  have hd := hlo.alive
  cases hcur : (c.d t).cur with
  | none =>
    cases htd : (c.d t).todo with
    | nil => rw [step_noop s t c (Or.inr ⟨hcur, htd⟩)]; exact ⟨hlo, rfl⟩
    | cons o rest =>
      have hop : isLoopOp o.op = true := hlo.todo o (by simp [htd])
      have hcs := callStep_loop s t c (c.d t) o rest hop
      obtain ⟨hpc, _⟩ := hti.quiet hd (Or.inl hcur)
      have hstep : (step s t c).1 = { (callStep s t c (c.d t) o rest).1 with
          core := if (callStep s t c (c.d t) o rest).2.2 then stepW s.fn t c.core else c.core } := by
        simp [step, stepAux, hd, hcur, htd]
      rw [hstep]
      refine ⟨⟨?_, ?_, ?_, ?_, ?_⟩, hcs.1⟩
      · intro o' ho'; rw [hcs.2.2.1] at ho'; exact hlo.todo o' (by simp [htd, ho'])
      · intro op hop'; rw [hcs.2.2.2.1] at hop'; simp at hop'; subst hop'; exact hop
      · rw [hcs.2.1]; exact hlo.buf
      · rw [hcs.2.2.2.2]; exact hd
      · intro b n
        simp only []
        split
        · rw [stepW_th]; exact core_step_not_unw s.fn t c.core (hnp _) hlo.nounw b n
        · exact hlo.nounw b n
  | some op =>
    have hop : isLoopOp op = true := hlo.cur op hcur
    have hq := isLoopOp_notQuery hop
    obtain ⟨n, wi, isf, hl⟩ := isLoopOp_params hop
    have hlp : (loopParams op).isSome = true := by simp [hl]
    -- the slot the next element goes into is empty
    have hslot : ∀ n lp b acc l, (c.core.th t).pc = .ins (.buffered n lp) b acc → (c.d t).lbuf = some l →
        l.getD acc.length none = none := by
      intro n' lp b acc l hpc hlb
      obtain ⟨r, hreq, hruns⟩ := hti.busy hd op hcur hq
      have hr : r = .buffered n' lp := by
        rcases hruns with ⟨_, h2⟩ | ⟨_, h2 | ⟨b0, h2⟩⟩ <;> simp [hpc, pcReq] at h2; exact h2.symm
      subst hr
      have hlp' := opReq_lp _ _ _ _ hreq
      rw [hlp] at hlp'
      subst hlp'
      obtain ⟨l', h1, _, h3⟩ := (hti.bufs hd op hcur hq).1 n' true hreq
      simp [actBuf, hlb] at h1; subst h1
      simp only [hpc, bufSt, BufSt.ok] at h3
      exact prefix_clean_next_none l acc h3.1 (by simpa using h3.2)
    have hins := insFx_loop s c (c.d t) (c.core.th t).pc (emitEvs s t c.core) (hnp _) hlo.nounw hslot
    rw [step_proto_eq s t c op hW hd hcur hq, hlp]
    simp only [hins.2.2.2.2.2, Bool.false_eq_true, ↓reduceIte]
    have hnu' := core_step_not_unw s.fn t c.core (hnp _) hlo.nounw
    cases hno : (((IW.step s.fn t c.core).th t).outs.drop (c.core.th t).outs.length).head? with
    | none =>
      simp only []
      refine ⟨⟨?_, ?_, ?_, ?_, ?_⟩, by simpa using hins.1⟩
      · intro o' ho'; simp only [setD_d_same, hins.2.2.1] at ho'; exact hlo.todo o' ho'
      · intro op' hop'; simp only [setD_d_same, hins.2.2.2.1] at hop'; exact hlo.cur op' hop'
      · simp only [setD_d_same, hins.2.1]; exact hlo.buf
      · simp only [setD_d_same, hins.2.2.2.2.1]; exact hd
      · intro b n; simpa using hnu' b n
    | some o =>
      simp only []
      have hr := retFx_loop_dr s t (insFx s c (c.d t) (c.core.th t).pc true (emitEvs s t c.core)).1
        (insFx s c (c.d t) (c.core.th t).pc true (emitEvs s t c.core)).2.1 op o
        (insFx s c (c.d t) (c.core.th t).pc true (emitEvs s t c.core)).2.2.1 hop
      refine ⟨⟨?_, ?_, ?_, ?_, ?_⟩, by show (retFx _ _ _ _ _ _ _).1.dr = _; rw [hr.1, hins.1]⟩
      · intro o' ho'; simp only [hr.2.2.1, hins.2.2.1] at ho'; exact hlo.todo o' ho'
      · intro op' hop'
        rcases hr.2.2.2.2 with h1 | h1
        · simp only [h1, hins.2.2.2.1] at hop'; exact hlo.cur op' hop'
        · rw [h1] at hop'; exact absurd hop' (by simp)
      · simp only [hr.2.1, hins.2.1]; exact hlo.buf
      · simp only [hr.2.2.2.1, hins.2.2.2.2.1]; exact hd
      · intro b n
        show ((if (retFx _ _ _ _ _ _ _).2.2 = true then IW.step s.fn t c.core else c.core).th t).pc ≠ _
        rw [retFx_flag]; exact hnu' b n

theorem LO_congr {c c' : FCfg} {u : Nat} (hd : c'.d u = c.d u) (hc : c'.core.th u = c.core.th u) (h : LO c u) : LO c' u := by
  constructor
  · rw [hd]; exact h.todo
  · rw [hd]; exact h.cur
  · rw [hd]; exact h.buf
  · rw [hd]; exact h.alive
  · rw [hc]; exact h.nounw

theorem run_LO (s : ISrc) (hown : s.owning = true) (hnp : ∀ i, s.fn i ≠ .panic) (n : Nat) (σ : List Nat)
    (hσ : ∀ t ∈ σ, t < n) (c : FCfg) (hg : GI s n c) (hlo : ∀ t, t < n → LO c t) (hdr : c.dr = []) (hb : Below s σ c) :
    GI s n (run s σ c) ∧ (∀ t, t < n → LO (run s σ c) t) ∧ (run s σ c).dr = [] := by
  induction σ generalizing c with
  | nil => exact ⟨hg, hlo, hdr⟩
  | cons t ts ih =>
    obtain ⟨h1, h2, h3⟩ := hb
    have ht : t < n := hσ t (by simp)
    have hinv' := step_inv hg.inv h1 t
    have hW : stepW s.fn t c.core = IW.step s.fn t c.core :=
      stepW_eq s.fn t c.core h2 (Nat.lt_of_le_of_lt hinv'.yr h2)
    have hst := step_LO s hnp t c hW (hg.ti t) (hlo t ht)
    refine ih (fun u hu => hσ u (by simp [hu])) _ (step_GI s hown n t ht c hg h1 h2) ?_ (by rw [hst.2, hdr]) h3
    intro u hu
    by_cases hut : u = t
    · subst hut; exact hst.1
    · exact LO_congr (step_d_other s t u c hut) (step_core_th_other s t u c hut) (hlo u hu)

/-- **C12 for the owning wrapper, every schedule.** Threads `0..n-1` run nothing but `for_each` / `enumerate_for_each` /
`fold` / `values()` / `ids_and_values()` loops with positive chunk sizes (any mix of sizes) and closures that do not panic,
over a wrapped iterator that does not panic. For every interleaving (ticket dispenser below `2^64`): the machinery destroys
no element at any time, and once all loops have returned the closures have been invoked on exactly the elements the wrapped
iterator produced, each exactly once (multiset equality). -/
theorem loops_visit_every_produced_element_once (s : ISrc) (hown : s.owning = true) (hnp : ∀ i, s.fn i ≠ .panic) (n : Nat)
    (progs : Nat → List SOp) (hloop : ∀ t, t < n → ∀ o ∈ progs t, isLoopOp o.op = true)
    (σ : List Nat) (hσ : ∀ t ∈ σ, t < n) (hb : Below s σ (init progs))
    (hfin : ∀ t, t < n → finished ((run s σ (init progs)).d t) = true) (p : Nat) :
    (run s σ (init progs)).dr = [] ∧
    (prod s (run s σ (init progs)).core.P).count p = (run s σ (init progs)).mv.count p := by
  have hinit : ∀ t, t < n → LO (init progs) t := by
    intro t ht
    exact ⟨by simpa [init] using hloop t ht, by simp [init], by simp [init], by simp [init], by simp [init, IW.init]⟩
  obtain ⟨hg, hlo, hdr⟩ := run_LO s hown hnp n σ hσ _ (GI_init s n progs (fun t => reqsOf_ok (progs t) none (by simp)))
    hinit (by simp [init]) hb
  refine ⟨hdr, ?_⟩
  have hl := hg.led p
  have hheld : ∀ m, m ≤ n → ((List.range m).flatMap (held (run s σ (init progs)))).count p = 0 := by
    intro m
    induction m with
    | zero => intro _; rfl
    | succ j ihj =>
      intro hj
      simp only [List.range_succ, List.flatMap_append, List.flatMap_cons, List.flatMap_nil, List.append_nil, List.count_append]
      rw [ihj (by omega), held_finished _ j (hg.ti j) (hfin j (by omega))]
      simp [bufSomes, (hlo j (by omega)).buf]
  rw [hheld n (Nat.le_refl _), hdr] at hl
  simpa using hl

end Orx.IWF
