import Orx.IW.FullLedger
import Orx.IW.HB
/-! # Ownership ledger of the owning wrapper: from one step to every schedule, and the owner phase -/
namespace Orx.IWF
open Orx.IW

/-- any step of thread `t` -/
theorem step_thread (s : ISrc) (hown : s.owning = true) (t : Nat) (c : FCfg)
    (hW : stepW s.fn t c.core = IW.step s.fn t c.core) (hi : Inv s.fn c.core) (h : TI c t) :
    StepOk s t c (step s t c).1 := by
  by_cases hd : (c.d t).dead = true
  · rw [step_noop s t c (Or.inl hd)]; exact ⟨h, fun p => rfl⟩
  · have hd' : (c.d t).dead = false := by simpa using hd
    cases hcur : (c.d t).cur with
    | none =>
      cases htd : (c.d t).todo with
      | nil => rw [step_noop s t c (Or.inr ⟨hcur, htd⟩)]; exact ⟨h, fun p => rfl⟩
      | cons o rest => exact step_call s hown t c hW h hd' hcur o rest htd
    | some op =>
      cases hq : isQuery op with
      | true => exact step_query s t c h hd' op hcur hq
      | false => exact step_proto s hown t c hW hi h hd' op hcur hq

/-- the other threads are not touched -/
theorem callStep_d_other (s : ISrc) (t u : Nat) (c : FCfg) (x : DThread) (o : SOp) (rest : List SOp) (hu : u ≠ t) :
    (callStep s t c x o rest).1.d u = c.d u := by
  unfold callStep
  repeat' (first | split | simp [setD, hu])

theorem queryStep_d_other (s : ISrc) (t u : Nat) (c : FCfg) (x : DThread) (op : Op) (hu : u ≠ t) :
    (queryStep s t c x op).1.d u = c.d u := by
  unfold queryStep
  repeat' (first | split | simp [setD, hu])

theorem insFx_d (s : ISrc) (c : FCfg) (x : DThread) (pc : Pc) (lp : Bool) (evs : List Ev) :
    (insFx s c x pc lp evs).1.d = c.d := by
  unfold insFx
  repeat' (first | rfl | split | dsimp only)

theorem retFx_d_other (s : ISrc) (t u : Nat) (c : FCfg) (x : DThread) (op : Op) (o : POut) (evs : List Ev) (hu : u ≠ t) :
    (retFx s t c x op o evs).1.d u = c.d u := by
  unfold retFx
  repeat' (first | split | dsimp only | simp [setD, hu])

theorem stepAux_d_other (s : ISrc) (t u : Nat) (c : FCfg) (core' : Cfg) (hu : u ≠ t) :
    (stepAux s t c core').1.d u = c.d u := by
  by_cases hd : (c.d t).dead = true
  · simp [stepAux, hd]
  · have hd' : (c.d t).dead = false := by simpa using hd
    cases hcur : (c.d t).cur with
    | none =>
      cases htd : (c.d t).todo with
      | nil => simp [stepAux, hd', hcur, htd]
      | cons o rest =>
        simp only [stepAux, hd', hcur, htd, Bool.false_eq_true, ↓reduceIte]
        exact callStep_d_other s t u c _ _ _ hu
    | some op =>
      cases hq : isQuery op with
      | true =>
        have hop : op = .len ∨ op = .hasmore := by cases op <;> simp_all [isQuery]
        rcases hop with rfl | rfl <;>
        · simp only [stepAux, hd', hcur, Bool.false_eq_true, ↓reduceIte]
          exact queryStep_d_other s t u c _ _ hu
      | false =>
        rw [stepAux_proto s t c core' op hd' hcur hq]
        simp only []
        generalize emitEvs s t c.core = evs
        have hr := insFx_d s c (c.d t) (c.core.th t).pc (loopParams op).isSome evs
        generalize insFx s c (c.d t) (c.core.th t).pc (loopParams op).isSome evs = r at hr ⊢
        by_cases h1 : r.2.2.2 = true
        · simp [h1, setD, hu, hr]
        · simp only [h1, Bool.false_eq_true, ↓reduceIte]
          cases ((core'.th t).outs.drop (c.core.th t).outs.length).head? with
          | none => simp [setD, hu, hr]
          | some o => simp only []; rw [retFx_d_other s t u _ _ _ _ _ hu, hr]

theorem step_d_other (s : ISrc) (t u : Nat) (c : FCfg) (hu : u ≠ t) : (step s t c).1.d u = c.d u := by
  simp only [step]
  exact stepAux_d_other s t u c _ hu

theorem step_core_cases (s : ISrc) (t : Nat) (c : FCfg) :
    (step s t c).1.core = c.core ∨ (step s t c).1.core = stepW s.fn t c.core := step_core s t c

theorem step_core_th_other (s : ISrc) (t u : Nat) (c : FCfg) (hu : u ≠ t) :
    (step s t c).1.core.th u = c.core.th u := by
  rcases step_core s t c with h | h <;> rw [h]
  simp only [stepW]
  exact step_th_other s.fn t u c.core hu

theorem TI_congr {c c' : FCfg} {u : Nat} (hd : c'.d u = c.d u) (hc : c'.core.th u = c.core.th u) (h : TI c u) : TI c' u := by
  constructor
  · rw [hd, hc]; exact h.todo
  · rw [hd, hc]; exact h.quiet
  · rw [hd, hc]; exact h.busy
  · rw [hd, hc]; exact h.bufs
  · rw [hd, hc]; exact h.deadOk

theorem held_congr {c c' : FCfg} {u : Nat} (hd : c'.d u = c.d u) (hc : c'.core.th u = c.core.th u) : held c' u = held c u := by
  simp [held, hd, hc]

/-- replacing one summand of a finite sum of lists (as multisets) -/
theorem count_flatMap_update (f f' : Nat → List Nat) (n t p : Nat) (ht : t < n) (hoth : ∀ u, u ≠ t → f' u = f u) :
    ((List.range n).flatMap f').count p + (f t).count p = ((List.range n).flatMap f).count p + (f' t).count p := by
  induction n with
  | zero => omega
  | succ k ih =>
    simp only [List.range_succ, List.flatMap_append, List.flatMap_cons, List.flatMap_nil, List.append_nil, List.count_append]
    by_cases hk : t = k
    · subst hk
      have : ∀ m, m ≤ t → (List.range m).flatMap f' = (List.range m).flatMap f := by
        intro m
        induction m with
        | zero => intro _; rfl
        | succ j ihj =>
          intro hj
          simp only [List.range_succ, List.flatMap_append, List.flatMap_cons, List.flatMap_nil, List.append_nil]
          rw [ihj (by omega), hoth j (by omega)]
      rw [this t (Nat.le_refl _)]; omega
    · have := ih (by omega)
      rw [hoth k (fun h => hk h.symm)]
      omega

/-- the invariant of the full machine: protocol invariant, coupling of every thread, ledger -/
structure GI (s : ISrc) (n : Nat) (c : FCfg) : Prop where
  inv : Inv s.fn c.core
  ti : ∀ t, TI c t
  led : Led s n c

theorem GI_init (s : ISrc) (n : Nat) (progs : Nat → List SOp)
    (hok : ∀ t, ∀ r ∈ reqsOf (progs t) none, ReqOk r) : GI s n (init progs) := by
  refine ⟨inv_init s.fn _ hok, fun t => TI_init progs t, ?_⟩
  intro p
  have : ∀ u, held (init progs) u = [] := by intro u; simp [held, init, IW.init, coreAcc, somes_nil]
  have h0 : ∀ m, (List.range m).flatMap (held (init progs)) = [] := by
    intro m
    induction m with
    | zero => rfl
    | succ j ihj => simp [List.range_succ, List.flatMap_append, ihj, this]
  show (prod s (init progs).core.P).count p = _
  rw [h0]
  simp [init, IW.init, prod]

theorem step_GI (s : ISrc) (hown : s.owning = true) (n t : Nat) (ht : t < n) (c : FCfg) (hg : GI s n c)
    (hR : c.core.R < W) (hR' : (IW.step s.fn t c.core).R < W) : GI s n (step s t c).1 := by
  have hinv' := step_inv hg.inv hR t
  have hW : stepW s.fn t c.core = IW.step s.fn t c.core :=
    stepW_eq s.fn t c.core hR' (Nat.lt_of_le_of_lt hinv'.yr hR')
  have hst := step_thread s hown t c hW hg.inv (hg.ti t)
  refine ⟨?_, ?_, ?_⟩
  · rcases step_core s t c with h | h <;> rw [h]
    · exact hg.inv
    · rw [hW]; exact hinv'
  · intro u
    by_cases hu : u = t
    · subst hu; exact hst.1
    · exact TI_congr (step_d_other s t u c hu) (step_core_th_other s t u c hu) (hg.ti u)
  · intro p
    have h1 := hst.2 p
    have h2 := hg.led p
    have h3 := count_flatMap_update (held c) (held (step s t c).1) n t p ht
      (fun u hu => held_congr (step_d_other s t u c hu) (step_core_th_other s t u c hu))
    omega

/-- the full machine along a schedule -/
def run (s : ISrc) : List Nat → FCfg → FCfg
  | [], c => c
  | t :: ts, c => run s ts (step s t c).1

/-- the reserved counter stays below `2^64` along the run (the quantifier of C01/C05) -/
def Below (s : ISrc) : List Nat → FCfg → Prop
  | [], c => c.core.R < W
  | t :: ts, c => c.core.R < W ∧ (IW.step s.fn t c.core).R < W ∧ Below s ts (step s t c).1

theorem run_GI (s : ISrc) (hown : s.owning = true) (n : Nat) (σ : List Nat) (hσ : ∀ t ∈ σ, t < n) (c : FCfg)
    (hg : GI s n c) (hb : Below s σ c) : GI s n (run s σ c) := by
  induction σ generalizing c with
  | nil => exact hg
  | cons t ts ih =>
    obtain ⟨h1, h2, h3⟩ := hb
    exact ih (fun u hu => hσ u (by simp [hu])) _ (step_GI s hown n t (hσ t (by simp)) c hg h1 h2) h3

/-- `into_seq_iter().take(k)` on the wrapped iterator the owner got back: what it pulls is what the iterator produces -/
theorem owner_go_prod (s : ISrc) (kk : Option Nat) (fuel p : Nat) (got : List Nat) (acc : List Ev) :
    ∃ ext, (owner.go s kk fuel p got acc).1 = got ++ ext ∧
      prod s (owner.go s kk fuel p got acc).2.2 = prod s p ++ ext := by
  induction fuel generalizing p got acc with
  | zero => exact ⟨[], by simp [owner.go], by simp [owner.go]⟩
  | succ k ih =>
    unfold owner.go
    split
    · exact ⟨[], by simp, by simp⟩
    · split
      · rename_i v hv
        obtain ⟨ext, h1, h2⟩ := ih (p + 1) (got ++ [v]) (acc ++ [.srcEnter, .srcExit (.some v)] ++ cloneEvs s [v])
        exact ⟨v :: ext, by simpa using h1, by rw [h2, prod_succ_some s p v hv]; simp⟩
      · rename_i hv
        exact ⟨[], by simp, by simp [prod_succ_none s p hv]⟩
      · rename_i hv
        exact ⟨[], by simp, by simp [prod_succ_panic s p hv]⟩

/-- a thread that is finished (its program is over, or it died in a panic) holds at most the slots of its buffered iterator -/
theorem held_finished (c : FCfg) (t : Nat) (h : TI c t) (hf : finished (c.d t) = true) :
    held c t = bufSomes (c.d t) := by
  have hparts : (c.d t).lbuf = none ∧ coreAcc (c.core.th t).pc = [] := by
    by_cases hd : (c.d t).dead = true
    · exact h.deadOk hd
    · have hd' : (c.d t).dead = false := by simpa using hd
      simp only [finished, hd', Bool.false_or, Bool.and_eq_true, Option.isNone_iff_eq_none, List.isEmpty_iff] at hf
      obtain ⟨hpc, hlb⟩ := h.quiet hd' (Or.inl hf.1)
      exact ⟨hlb, by simp [hpc, coreAcc]⟩
  cases hb : (c.d t).buf <;> simp [held, bufSomes, hparts.1, hparts.2, hb, somes_nil]

/-- **Every element the wrapped iterator produced is moved out or destroyed exactly once** (owning wrapper, every
schedule): once all threads are finished, after the owner's `Drop` or `into_seq_iter` (consumed to any extent — what the
owner pulls from the iterator it got back is the owner's), the elements produced by all calls of the wrapped `next()`
are, as a multiset, exactly the elements moved out to callers plus the elements destroyed by the machinery. -/
theorem owner_exactly_once (s : ISrc) (hown : s.owning = true) (n : Nat) (c : FCfg) (hg : GI s n c)
    (hfin : ∀ t, t < n → finished (c.d t) = true) (op : OwnerOp) (p : Nat) :
    (prod s (owner s n c op).1.core.P).count p = (owner s n c op).1.mv.count p + (owner s n c op).1.dr.count p := by
  have hheld : (List.range n).flatMap (held c) =
      (List.range n).flatMap (fun t => bufSomes (c.d t)) := by
    have : ∀ m, m ≤ n → (List.range m).flatMap (held c) =
        (List.range m).flatMap (fun t => bufSomes (c.d t)) := by
      intro m
      induction m with
      | zero => intro _; rfl
      | succ j ihj =>
        intro hj
        simp only [List.range_succ, List.flatMap_append, List.flatMap_cons, List.flatMap_nil, List.append_nil]
        rw [ihj (by omega), held_finished c j (hg.ti j) (hfin j (by omega))]
    exact this n (Nat.le_refl _)
  have hl := hg.led p
  rw [hheld] at hl
  cases op with
  | drop =>
    simp only [owner, hown, ↓reduceIte, List.count_append]
    omega
  | intoseq kk =>
    obtain ⟨ext, h1, h2⟩ := owner_go_prod s kk (s.script.length + 2) c.core.P [] []
    simp only [owner, hown, ↓reduceIte, List.count_append]
    simp only [List.nil_append] at h1
    rw [h2, h1, List.count_append]
    omega

/-- every request a program issues has a chunk size ≥ 1 (the ops with chunk size 0 panic or return at once) -/
theorem reqsOf_ok (prog : List SOp) (buf : Option Nat) (hb : ∀ n, buf = some n → 1 ≤ n) :
    ∀ r ∈ reqsOf prog buf, ReqOk r := by
  induction prog generalizing buf with
  | nil => intro r hr; simp [reqsOf] at hr
  | cons o rest ih =>
    obtain ⟨k, op⟩ := o
    intro r hr
    cases op with
    | bufnew n =>
      by_cases hn : n = 0
      · simp [reqsOf, hn] at hr
      · simp only [reqsOf, hn, ↓reduceIte] at hr
        exact ih (some n) (by intro m hm; simp at hm; omega) r hr
    | bufdrop => simp only [reqsOf] at hr; exact ih none (by simp) r hr
    | bufnext kk =>
      cases buf with
      | none => simp [reqsOf] at hr
      | some m =>
        simp only [reqsOf, List.mem_cons] at hr
        rcases hr with rfl | hr
        · exact Or.inr (by simpa [Req.len] using hb m rfl)
        · exact ih (some m) hb r hr
    | get i => simp [reqsOf] at hr
    | clone j => simp [reqsOf] at hr
    | next => simp only [reqsOf, reqOf, List.mem_cons] at hr; rcases hr with rfl | hr; exact Or.inr (by simp [Req.len]); exact ih buf hb r hr
    | nextv => simp only [reqsOf, reqOf, List.mem_cons] at hr; rcases hr with rfl | hr; exact Or.inr (by simp [Req.len]); exact ih buf hb r hr
    | skip => simp only [reqsOf, reqOf, List.mem_cons] at hr; rcases hr with rfl | hr; exact Or.inl rfl; exact ih buf hb r hr
    | len => simp only [reqsOf, reqOf] at hr; exact ih buf hb r hr
    | hasmore => simp only [reqsOf, reqOf] at hr; exact ih buf hb r hr
    | values => simp only [reqsOf, reqOf, List.mem_cons] at hr; rcases hr with rfl | hr; exact Or.inr (by simp [Req.len]); exact ih buf hb r hr
    | idsvalues => simp only [reqsOf, reqOf, List.mem_cons] at hr; rcases hr with rfl | hr; exact Or.inr (by simp [Req.len]); exact ih buf hb r hr
    | chunk n kk =>
      cases n with
      | zero => simp only [reqsOf, reqOf] at hr; exact ih buf hb r hr
      | succ m => simp [reqsOf, reqOf] at hr; rcases hr with rfl | hr; exact Or.inr (by simp [Req.len]); exact ih buf hb r hr
    | foreach n pa =>
      match n with
      | 0 => simp [reqsOf] at hr
      | 1 => simp [reqsOf, reqOf] at hr; rcases hr with rfl | hr; exact Or.inr (by simp [Req.len]); exact ih buf hb r hr
      | m + 2 => simp [reqsOf, reqOf] at hr; rcases hr with rfl | hr; exact Or.inr (by simp [Req.len]); exact ih buf hb r hr
    | enumforeach n pa =>
      match n with
      | 0 => simp [reqsOf] at hr
      | 1 => simp [reqsOf, reqOf] at hr; rcases hr with rfl | hr; exact Or.inr (by simp [Req.len]); exact ih buf hb r hr
      | m + 2 => simp [reqsOf, reqOf] at hr; rcases hr with rfl | hr; exact Or.inr (by simp [Req.len]); exact ih buf hb r hr
    | fold n =>
      match n with
      | 0 => simp [reqsOf] at hr
      | 1 => simp [reqsOf, reqOf] at hr; rcases hr with rfl | hr; exact Or.inr (by simp [Req.len]); exact ih buf hb r hr
      | m + 2 => simp [reqsOf, reqOf] at hr; rcases hr with rfl | hr; exact Or.inr (by simp [Req.len]); exact ih buf hb r hr

/-- **C08 / C15 for the owning wrapper, every schedule.** For every wrapped iterator of owned values (fused or not,
panicking or not), all op programs of the threads `0..n-1` (single pulls, one-shot chunks and buffered chunks consumed in
any way incl. `nth`, loops with panicking closures, skips, queries, buffered iterators created, reused and dropped), every
interleaving `σ` under which the ticket dispenser stays below `2^64`: if all threads have finished, then after the owner's
`Drop` or `into_seq_iter` every element the wrapped iterator ever produced has been moved out to exactly one caller or
destroyed exactly once by the machinery — multiset equality, so never both, never twice, never neither. -/
theorem wrapper_exactly_once (s : ISrc) (hown : s.owning = true) (n : Nat) (progs : Nat → List SOp)
    (σ : List Nat) (hσ : ∀ t ∈ σ, t < n) (hb : Below s σ (init progs))
    (hfin : ∀ t, t < n → finished ((run s σ (init progs)).d t) = true) (op : OwnerOp) (p : Nat) :
    (prod s (owner s n (run s σ (init progs)) op).1.core.P).count p =
      (owner s n (run s σ (init progs)) op).1.mv.count p + (owner s n (run s σ (init progs)) op).1.dr.count p :=
  owner_exactly_once s hown n _
    (run_GI s hown n σ hσ _ (GI_init s n progs (fun t => reqsOf_ok (progs t) none (by simp))) hb) hfin op p

/-- … and at every moment of every schedule nothing is lost or duplicated: produced = moved out + destroyed + held -/
theorem wrapper_ledger_invariant (s : ISrc) (hown : s.owning = true) (n : Nat) (progs : Nat → List SOp)
    (σ : List Nat) (hσ : ∀ t ∈ σ, t < n) (hb : Below s σ (init progs)) (p : Nat) :
    (prod s (run s σ (init progs)).core.P).count p =
      (run s σ (init progs)).mv.count p + (run s σ (init progs)).dr.count p +
        ((List.range n).flatMap (held (run s σ (init progs)))).count p :=
  (run_GI s hown n σ hσ _ (GI_init s n progs (fun t => reqsOf_ok (progs t) none (by simp))) hb).led p

/-- **C03 (reused buffers): a buffered chunk is exactly what the pull wrote.** Whenever a thread is about to publish a
buffered pull with accumulator `acc` (pc `pub`), the first `acc.length` slots of the buffer it filled — the thread's
`BufferIter`, or the loop's own buffer — hold exactly `acc`, whatever stale elements of earlier, partly consumed chunks sit
in the slots behind; the chunk iterator, which reads the first `acc.length` slots, therefore yields `acc` and announces
its length. -/
theorem buffered_chunk_is_what_was_pulled (s : ISrc) (hown : s.owning = true) (n : Nat) (progs : Nat → List SOp)
    (σ : List Nat) (hσ : ∀ t ∈ σ, t < n) (hb : Below s σ (init progs)) (t m b : Nat) (lp : Bool) (acc : List Nat)
    (hd : ((run s σ (init progs)).d t).dead = false)
    (hpc : ((run s σ (init progs)).core.th t).pc = .pub (.buffered m lp) b acc) :
    ∃ l, actBuf ((run s σ (init progs)).d t) lp = some l ∧ l.length = m ∧ l.take acc.length = acc.map some := by
  have hg := run_GI s hown n σ hσ _ (GI_init s n progs (fun t => reqsOf_ok (progs t) none (by simp))) hb
  have hti := hg.ti t
  cases hcur : ((run s σ (init progs)).d t).cur with
  | none =>
    have := (hti.quiet hd (Or.inl hcur)).1
    rw [hpc] at this; simp at this
  | some op =>
    cases hq : isQuery op with
    | true =>
      have := (hti.quiet hd (Or.inr ⟨op, hcur, hq⟩)).1
      rw [hpc] at this; simp at this
    | false =>
      obtain ⟨r, hreq, hruns⟩ := hti.busy hd op hcur hq
      have hr : r = .buffered m lp := by
        rcases hruns with ⟨_, h2⟩ | ⟨_, h2 | ⟨b0, h2⟩⟩ <;> simp [hpc, pcReq] at h2; exact h2.symm
      subst hr
      obtain ⟨l, h1, h2, h3⟩ := (hti.bufs hd op hcur hq).1 m lp hreq
      simp only [hpc, bufSt, BufSt.ok] at h3
      exact ⟨l, h1, h2, h3.1⟩


instance belowDec (s : ISrc) : ∀ (σ : List Nat) (c : FCfg), Decidable (Below s σ c)
  | [], c => by unfold Below; exact inferInstance
  | t :: ts, c => by
    unfold Below
    have := belowDec s ts (step s t c).1
    exact inferInstance

end Orx.IWF
