import Orx.IW.HB
import Orx.IW.Completed
/-! # Deadlock freedom of the ticket protocol (C09 for the wrapper; its failure under panics is C18's finding) -/
namespace Orx.IW

/-- while `completed` is unset, the held tickets cover every reserved position that is not yet yielded -/
def Cover (c : Cfg) : Prop :=
  c.C = false → ∀ p, c.Y ≤ p → p < c.R → ∃ t b n, (c.th t).pc.ticket = some (b, n) ∧ b ≤ p ∧ p < b + n

theorem step_C_false (s : Script) (t : Nat) (c : Cfg) (h : (step s t c).C = false) : c.C = false := by
  cases hc : c.C with
  | false => rfl
  | true => rw [step_C_mono s t c hc] at h; exact absurd h (by simp)

/-- ticket of the moving thread after a step, in terms of before -/
theorem cover_step {s : Script} {c : Cfg} (hi : Inv s c) (hc : Cover c) (t : Nat) : Cover (step s t c) := by
  intro hC' p hp1 hp2
  have hC : c.C = false := step_C_false s t c hC'
  have hoth := fun u (hu : u ≠ t) => step_th_other s t u c hu
  -- generic: if Y, R unchanged and t keeps its ticket (or had none), the old witness works
  have keep : (step s t c).Y = c.Y → (step s t c).R = c.R →
      (∀ b n, (c.th t).pc.ticket = some (b, n) → ((step s t c).th t).pc.ticket = some (b, n)) →
      ∃ u b n, ((step s t c).th u).pc.ticket = some (b, n) ∧ b ≤ p ∧ p < b + n := by
    intro hY hR hk
    rw [hY] at hp1; rw [hR] at hp2
    obtain ⟨u, b, n, hb, h1, h2⟩ := hc hC p hp1 hp2
    by_cases hu : u = t
    · subst hu; exact ⟨u, b, n, hk b n hb, h1, h2⟩
    · exact ⟨u, b, n, by rw [hoth u hu]; exact hb, h1, h2⟩
  generalize hx : c.th t = x
  obtain ⟨pc, todo, outs⟩ := x
  have hretk : ∀ (x : Thread) r o, (ret x r o).pc.ticket = none := by
    intro x r o; rcases ret_pc x r o with h1 | h1 <;> simp [h1, Pc.ticket]
  cases pc with
  | idle =>
    apply keep
    · exact step_Y_other s t c (by simp [hx])
    · unfold step; simp only [hx]; cases todo with
      | nil => rfl
      | cons r rest => cases r <;> simp [setTh]
    · intro b n hb; simp [hx, Pc.ticket] at hb
  | skp =>
    -- the skip sets C: contradiction with C' = false
    have : (step s t c).C = true := skip_sets_C s t c (by simp [hx])
    rw [this] at hC'; exact absurd hC' (by simp)
  | resv r =>
    have hY : (step s t c).Y = c.Y := step_Y_other s t c (by simp [hx])
    have hR : (step s t c).R = c.R + r.len := by unfold step; simp [hx, setTh]
    have hT : ((step s t c).th t).pc.ticket = some (c.R, r.len) := by unfold step; simp [hx, setTh, Pc.ticket]
    rw [hY] at hp1; rw [hR] at hp2
    by_cases hp : p < c.R
    · obtain ⟨u, b, n, hb, h1, h2⟩ := hc hC p hp1 hp
      have hu : u ≠ t := by intro hu; subst hu; simp [hx, Pc.ticket] at hb
      exact ⟨u, b, n, by rw [hoth u hu]; exact hb, h1, h2⟩
    · exact ⟨t, c.R, r.len, hT, by omega, by omega⟩
  | pre r b =>
    have hnew : ((step s t c).th t).pc = .wait r b := by unfold step; simp [hx, hC, setTh]
    apply keep
    · exact step_Y_other s t c (by simp [hx])
    · unfold step; simp [hx, hC, setTh]
    · intro b' n' hb'; simp [hx, Pc.ticket] at hb'; simp [hnew, Pc.ticket, hb']
  | chk r b =>
    have hnew : ((step s t c).th t).pc = .wait r b := by unfold step; simp [hx, hC, setTh]
    apply keep
    · exact step_Y_other s t c (by simp [hx])
    · unfold step; simp [hx, hC, setTh]
    · intro b' n' hb'; simp [hx, Pc.ticket] at hb'; simp [hnew, Pc.ticket, hb']
  | wait r b =>
    have hme : (c.th t).pc.ticket = some (b, r.len) := by simp [hx, Pc.ticket]
    have htk := hi.tk t b r.len hme
    apply keep
    · exact step_Y_other s t c (by simp [hx])
    · unfold step; simp only [hx]; split
      · simp [setTh]
      · split <;> simp [setTh]
    · intro b' n' hb'
      simp [hx, Pc.ticket] at hb'
      unfold step; simp only [hx]
      split
      · simp [setTh, Pc.ticket, hb']
      · split
        · omega
        · simp [setTh, Pc.ticket, hb']
  | ent r b =>
    have hme : (c.th t).pc.ticket = some (b, r.len) := by simp [hx, Pc.ticket]
    apply keep
    · exact step_Y_other s t c (by simp [hx])
    · unfold step; simp only [hx, hC, Bool.false_eq_true, ↓reduceIte]; split <;> simp [setTh]
    · intro b' n' hb'
      simp [hx, Pc.ticket] at hb'
      unfold step; simp only [hx, hC, Bool.false_eq_true, ↓reduceIte]
      split <;> simp [setTh, Pc.ticket, hb']
  | cs r b acc =>
    apply keep
    · exact step_Y_other s t c (by simp [hx])
    · unfold step; simp [hx, setTh]
    · intro b' n' hb'; simp [hx, Pc.ticket] at hb'; unfold step; simp [hx, setTh, Pc.ticket, hb']
  | ins r b acc =>
    apply keep
    · exact step_Y_other s t c (by simp [hx])
    · unfold step; simp only [hx]; cases s c.P <;> simp only <;> repeat' (first | split | simp [setTh])
    · intro b' n' hb'; simp [hx, Pc.ticket] at hb'
      unfold step; simp only [hx]
      cases s c.P <;> simp only <;> repeat' (first | split | simp [setTh, Pc.ticket, hb'])
  | setC r b =>
    have : (step s t c).C = true := by unfold step; simp only [hx]; split <;> simp [setTh]
    rw [this] at hC'; exact absurd hC' (by simp)
  | pub r b acc =>
    have hme : (c.th t).pc.ticket = some (b, r.len) := by simp [hx, Pc.ticket]
    have hcs : (c.th t).pc.inCS = true := by simp [hx, Pc.inCS]
    have hbY := hi.csY t b r.len hcs hme
    have hY : (step s t c).Y = c.Y + r.len := by
      unfold step; simp only [hx]; cases acc with
      | nil => simp [setTh]
      | cons v rest => simp only; split <;> simp [setTh]
    have hR : (step s t c).R = c.R := by
      unfold step; simp only [hx]; cases acc with
      | nil => simp [setTh]
      | cons v rest => simp only; split <;> simp [setTh]
    rw [hY] at hp1; rw [hR] at hp2
    obtain ⟨u, b', n', hb', h1, h2⟩ := hc hC p (by omega) hp2
    have hu : u ≠ t := by
      intro hu; subst hu; rw [hme] at hb'; simp at hb'; omega
    exact ⟨u, b', n', by rw [hoth u hu]; exact hb', h1, h2⟩
  | unw b n =>
    have : (step s t c).C = true := by unfold step; simp [hx, setTh]
    rw [this] at hC'; exact absurd hC' (by simp)
  | dead b n =>
    apply keep
    · exact step_Y_other s t c (by simp [hx])
    · unfold step; simp [hx]
    · intro b' n' hb'; unfold step; simp [hx]; simpa [hx] using hb'

theorem cover_init (ps : Nat → List Req) : Cover (init ps) := by
  intro _ p hp1 hp2; simp [init] at hp2

/-- a thread that has unwound out of the critical section has left `completed` set behind (the unwind guard) -/
def DeadC (c : Cfg) : Prop := ∀ t b n, (c.th t).pc = .dead b n → c.C = true

theorem deadC_step (s : Script) {c : Cfg} (h : DeadC c) (t : Nat) : DeadC (step s t c) := by
  intro u b n hd
  by_cases hu : u = t
  · subst hu
    by_cases hold : ∃ b' n', (c.th u).pc = .dead b' n'
    · obtain ⟨b', n', hold⟩ := hold
      exact step_C_mono s u c (h u b' n' hold)
    · -- it became dead in this step: that is the guard's store
      unfold step at hd ⊢
      generalize hx : c.th u = x at hd hold
      obtain ⟨pc, todo, outs⟩ := x
      have hret : ∀ (x : Thread) r o, (ret x r o).pc ≠ .dead b n := by
        intro x r o; rcases ret_pc x r o with h1 | h1 <;> simp [h1]
      cases pc with
      | unw b' n' => simp [setTh]
      | dead b' n' => exact absurd ⟨b', n', rfl⟩ hold
      | idle => cases todo with
        | nil => simp [hx] at hd
        | cons r rest => cases r <;> simp [setTh] at hd
      | ins r b' acc =>
        simp only at hd
        repeat' (first | split at hd | simp [setTh] at hd)
      | _ => simp only at hd <;> (repeat' (first | split at hd | simp [setTh, hret] at hd))
  · rw [step_th_other s t u c hu] at hd
    exact step_C_mono s t c (h u b n hd)

/-- a thread that still has something to do -/
def Busy (c : Cfg) (t : Nat) : Prop :=
  ((c.th t).pc ≠ .idle ∨ (c.th t).todo ≠ []) ∧ ∀ b n, (c.th t).pc ≠ .dead b n

/-- a thread whose next step is a spin iteration: it waits for `yielded` to reach its ticket -/
def Spinning (c : Cfg) (t : Nat) : Prop :=
  c.C = false ∧ ∃ r b, ((c.th t).pc = .wait r b ∨ (c.th t).pc = .chk r b) ∧ c.Y < b

/-- **Deadlock freedom.** In every configuration that satisfies the invariants -- also after a thread has unwound out of the
critical section, thanks to the unwind guard --: if some thread is busy, some busy thread is not spinning (so under a fair scheduler somebody always moves on). -/
theorem deadlock_free {s : Script} {c : Cfg} (hi : Inv s c) (hc : Cover c)
    (hdc : DeadC c) (t0 : Nat) (hb : Busy c t0) :
    ∃ t, Busy c t ∧ ¬ Spinning c t := by
  by_cases hsp : Spinning c t0
  · obtain ⟨hC, r, b, hpc, hYb⟩ := hsp
    have hme : (c.th t0).pc.ticket = some (b, r.len) := by rcases hpc with h | h <;> simp [h, Pc.ticket]
    have htk := hi.tk t0 b r.len hme
    -- position Y is reserved and not yielded: somebody holds the ticket starting at Y
    obtain ⟨u, b', n', hb', h1, h2⟩ := hc hC c.Y (Nat.le_refl _) (by omega)
    have htk' := hi.tk u b' n' hb'
    have hbY : b' = c.Y := by omega
    refine ⟨u, ?_, ?_⟩
    · refine ⟨Or.inl (fun hidle => by rw [hidle] at hb'; simp [Pc.ticket] at hb'), fun b0 n0 hd => ?_⟩
      have := hdc u b0 n0 hd; rw [hC] at this; exact absurd this (by simp)
    · rintro ⟨_, r', b'', hpc', hlt⟩
      have : (c.th u).pc.ticket = some (b'', r'.len) := by rcases hpc' with h | h <;> simp [h, Pc.ticket]
      rw [this] at hb'; simp at hb'; omega
  · exact ⟨t0, hb, hsp⟩

/-- all protocol invariants along any schedule, including `Cover` -/
theorem cover_run {s : Script} (σ : List Nat) {c : Cfg} (hi : Inv s c) (hc : Cover c) (hd : DeadC c)
    (hW : (run s σ c).R < W) : Inv s (run s σ c) ∧ Cover (run s σ c) ∧ DeadC (run s σ c) := by
  induction σ generalizing c with
  | nil => exact ⟨hi, hc, hd⟩
  | cons t ts ih =>
    simp only [run] at hW ⊢
    have h1 : (step s t c).R < W := Nat.lt_of_le_of_lt (run_R_mono s ts _) hW
    have h0 : c.R < W := Nat.lt_of_le_of_lt (step_R_mono s t c) h1
    exact ih (step_inv hi h0 t) (cover_step hi hc t) (deadC_step s hd t) hW

/-- a spin iteration changes nothing but the spinner's own position in its two-load loop -/
theorem spin_step_harmless (s : Script) (t : Nat) (c : Cfg) (h : Spinning c t) :
    (step s t c).R = c.R ∧ (step s t c).Y = c.Y ∧ (step s t c).C = c.C ∧ (step s t c).P = c.P ∧
    (∀ u, u ≠ t → (step s t c).th u = c.th u) ∧ Spinning (step s t c) t := by
  obtain ⟨hC, r, b, hpc, hlt⟩ := h
  refine ⟨?_, ?_, ?_, ?_, fun u hu => step_th_other s t u c hu, ?_⟩ <;>
    rcases hpc with hpc | hpc <;> unfold step <;> simp only [hpc]
  all_goals (try (have h1 : ¬ b = c.Y := by omega))
  all_goals (try (have h2 : ¬ b < c.Y := by omega))
  all_goals (try simp [h1, h2, hC, setTh])
  · exact ⟨by simpa [setTh] using hC, r, b, by simp [setTh], by simpa [setTh] using hlt⟩
  · exact ⟨by simpa [setTh] using hC, r, b, by simp [setTh], by simpa [setTh] using hlt⟩

end Orx.IW
