import Orx.IW.Outs
/-! # `completed` is permanent; a pull that starts once it is set delivers nothing (C05, C06, C11 for the wrapper) -/
namespace Orx.IW

/-- `completed` is never reset -/
theorem step_C_mono (s : Script) (t : Nat) (c : Cfg) (h : c.C = true) : (step s t c).C = true := by
  unfold step
  repeat' (first | split | simp [setTh, h])

theorem run_C_mono (s : Script) (σ : List Nat) (c : Cfg) (h : c.C = true) : (run s σ c).C = true := by
  induction σ generalizing c with
  | nil => simpa [run]
  | cons t ts ih => simp only [run]; exact ih _ (step_C_mono s t c h)

/-- `skip_to_end` sets `completed` with its single store -/
theorem skip_sets_C (s : Script) (t : Nat) (c : Cfg) (h : (c.th t).pc = .skp) : (step s t c).C = true := by
  unfold step; simp [h, setTh]

/-- a thread that has not yet passed the `completed` check of its current pull (or is between pulls) -/
def Pc.quiet : Pc → Bool
  | .idle | .skp | .resv _ | .pre _ _ => true
  | _ => false

theorem ret_quiet (x : Thread) (r : Req) (o : POut) : (ret x r o).pc.quiet = true := by
  rcases (by unfold ret; split <;> simp : (ret x r o).pc = .resv r ∨ (ret x r o).pc = .idle) with h | h <;> simp [h, Pc.quiet]

/-- positions carried by all outputs of a thread -/
def outPos (x : Thread) : List Nat := x.outs.flatMap POut.pos

/-- **Once `completed` is set, a thread that is between pulls or has not yet passed the check stays there and
never receives a position again** — whatever it and the other threads do. (One step.) -/
theorem quiet_step (s : Script) (t u : Nat) (c : Cfg) (hC : c.C = true) (hq : (c.th u).pc.quiet = true) :
    ((step s t c).th u).pc.quiet = true ∧ outPos ((step s t c).th u) = outPos (c.th u) := by
  by_cases hu : u = t
  · subst hu
    unfold step
    generalize hx : c.th u = x at hq
    obtain ⟨pc, todo, outs⟩ := x
    cases pc <;> simp [Pc.quiet] at hq
    · cases todo with
      | nil => simp [hx, Pc.quiet]
      | cons r rest => cases r <;> simp [setTh, Pc.quiet, outPos]
    · simp [setTh, outPos, ret, Req.isLoop, POut.pos, Pc.quiet]
    · simp [setTh, Pc.quiet, outPos]
    · simp only [hC, ↓reduceIte]
      simp [setTh, ret_quiet, outPos]
      unfold ret; split <;> simp [POut.pos]
  · have : (step s t c).th u = c.th u := by
      unfold step
      repeat' (first | split | simp [setTh, hu])
    rw [this]; exact ⟨hq, rfl⟩

theorem quiet_run (s : Script) (σ : List Nat) (u : Nat) (c : Cfg) (hC : c.C = true) (hq : (c.th u).pc.quiet = true) :
    ((run s σ c).th u).pc.quiet = true ∧ outPos ((run s σ c).th u) = outPos (c.th u) := by
  induction σ generalizing c with
  | nil => exact ⟨hq, rfl⟩
  | cons t ts ih =>
    simp only [run]
    have h1 := quiet_step s t u c hC hq
    have h2 := ih (step s t c) (step_C_mono s t c hC) h1.1
    exact ⟨h2.1, h2.2.trans h1.2⟩

end Orx.IW
