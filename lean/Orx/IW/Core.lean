import Orx.Basic
/-! # Ticket protocol of `ConIterOfIter` (src/iter/implementors/iter.rs, src/iter/buffered/iter.rs)

Small-step, sequentially consistent model. One `step` = one scheduling point of FORMAT.md:
the `call` of an op, one atomic access, or the entry / exit of the wrapped iterator's `next()`.
Counters are unbounded `Nat` here (`step`); `stepW` is the machine-word version the driver runs
(`fetch_add` wraps modulo `2^64`); they coincide while the counters stay below `2^64`. -/
namespace Orx.IW

/-- the wrapped iterator: result of its `i`-th call of `next()` -/
abbrev Script := Nat → SrcRes

/-- protocol-level requests -/
inductive Req where
  | single (loop : Bool)             -- `fetch_one` (loop: `for_each(1)`, `values()`, …)
  | chunk (n : Nat)                  -- `fetch_n(n)`, n ≥ 1
  | buffered (n : Nat) (loop : Bool) -- `BufferedIter::next` with chunk size n ≥ 1
  | skip                             -- `early_exit`
  deriving Repr, DecidableEq, Inhabited

def Req.len : Req → Nat
  | .single _ => 1
  | .chunk n => n
  | .buffered n _ => n
  | .skip => 0

def Req.isLoop : Req → Bool
  | .single l => l
  | .buffered _ l => l
  | _ => false

def Req.isSingle : Req → Bool
  | .single _ => true
  | _ => false

def Req.isChunk : Req → Bool
  | .chunk _ => true
  | _ => false

/-- number of times `fetch_n` calls the wrapped iterator at most: the length of `begin..begin.saturating_add(n)`
(the other requests count up to their chunk size) -/
def iters (r : Req) (b : Nat) : Nat :=
  if r.isChunk then satAdd b r.len - b else r.len

/-- protocol-level outputs -/
inductive POut where
  | fin
  | item (idx val : Nat)
  | chunk (b : Nat) (vals : List Nat)
  | unit
  deriving Repr, DecidableEq, Inhabited

inductive Pc where
  | idle
  | skp                                        -- next: `completed.store(true, SeqCst)`      (iter.rs early_exit)
  | resv (r : Req)                             -- next: `reserved.fetch_add(r.len, AcqRel)`
  | pre (r : Req) (b : Nat)                    -- next: `completed.load(SeqCst)` right after reserving
  | wait (r : Req) (b : Nat)                   -- next: `yielded.load(Acquire)`
  | chk (r : Req) (b : Nat)                    -- next: `completed.load(Relaxed)`
  | ent (r : Req) (b : Nat)                    -- our turn; next: `completed.load(SeqCst)` before touching the iterator
  | cs (r : Req) (b : Nat) (acc : List Nat)    -- next: entry of the wrapped `next()`
  | ins (r : Req) (b : Nat) (acc : List Nat)   -- next: exit of the wrapped `next()`
  | setC (r : Req) (b : Nat) (acc : List Nat)  -- the iterator returned `None`; next: `completed.store(true, SeqCst)`
  | pub (r : Req) (b : Nat) (acc : List Nat)   -- next: `yielded.fetch_add(r.len, AcqRel)`
  | unw (b n : Nat)                            -- unwinding out of `next()`: next: `completed.store(true, SeqCst)` by the guard
  | dead (b n : Nat)                           -- unwound out of the critical section
  deriving Repr, DecidableEq, Inhabited

structure Thread where
  pc : Pc := .idle
  todo : List Req := []
  outs : List POut := []
  deriving Repr, Inhabited

structure Cfg where
  R : Nat := 0          -- reserved counter
  Y : Nat := 0          -- yielded counter
  C : Bool := false     -- completed
  P : Nat := 0          -- number of calls of the wrapped `next()` so far
  th : Nat → Thread := fun _ => {}

def setTh (c : Cfg) (t : Nat) (x : Thread) : Cfg :=
  { c with th := fun u => if u = t then x else c.th u }

/-- return from request `r` with output `o`; a looping request that did not see the end goes again -/
def ret (x : Thread) (r : Req) (o : POut) : Thread :=
  if r.isLoop ∧ o ≠ .fin then { x with pc := .resv r, outs := x.outs ++ [o] }
  else { x with pc := .idle, outs := x.outs ++ [o] }

def step (s : Script) (t : Nat) (c : Cfg) : Cfg :=
  let x := c.th t
  match x.pc with
  | .idle =>
    match x.todo with
    | [] => c
    | .skip :: rest => setTh c t { x with pc := .skp, todo := rest }
    | r :: rest => setTh c t { x with pc := .resv r, todo := rest }
  | .skp => setTh { c with C := true } t (ret x .skip .unit)
  | .resv r =>
    setTh { c with R := c.R + r.len } t { x with pc := .pre r c.R }
  | .pre r b =>
    if c.C then setTh c t (ret x r .fin) else setTh c t { x with pc := .wait r b }
  | .wait r b =>
    if b = c.Y then setTh c t { x with pc := .ent r b }
    else if b < c.Y then setTh c t (ret x r .fin)
    else setTh c t { x with pc := .chk r b }
  | .chk r b =>
    if c.C then setTh c t (ret x r .fin) else setTh c t { x with pc := .wait r b }
  | .ent r b =>
    if c.C then setTh c t (ret x r .fin)
    else if iters r b = 0 then setTh c t { x with pc := .setC r b [] }   -- empty index range: nothing is pulled
    else setTh c t { x with pc := .cs r b [] }
  | .cs r b acc => setTh c t { x with pc := .ins r b acc }
  | .ins r b acc =>
    let c' := { c with P := c.P + 1 }
    match s c.P with
    | .some v =>
      let acc' := acc ++ [v]
      if acc'.length = iters r b then
        -- the loop is over; `fetch_n` marks completion if its buffer is shorter than the chunk size
        if acc'.length < r.len then setTh c' t { x with pc := .setC r b acc' }
        else setTh c' t { x with pc := .pub r b acc' }
      else setTh c' t { x with pc := .cs r b acc' }
    | .none => setTh c' t { x with pc := .setC r b acc }
    | .panic => setTh c' t { x with pc := .unw b r.len }
  | .setC r b acc =>
    if r.isSingle then setTh { c with C := true } t (ret x r .fin)
    else setTh { c with C := true } t { x with pc := .pub r b acc }
  | .pub r b acc =>
    let c' := { c with Y := c.Y + r.len }
    match acc with
    | [] => setTh c' t (ret x r .fin)
    | v :: rest =>
      if r.isSingle then setTh c' t (ret x r (.item b v))
      else setTh c' t (ret x r (.chunk b (v :: rest)))
  | .unw b n => setTh { c with C := true } t { x with pc := .dead b n }
  | .dead _ _ => c

/-- the machine-word version: counters wrap at `2^64` -/
def stepW (s : Script) (t : Nat) (c : Cfg) : Cfg :=
  let c' := step s t c
  { c' with R := c'.R % W, Y := c'.Y % W }

def run (s : Script) : List Nat → Cfg → Cfg
  | [], c => c
  | t :: ts, c => run s ts (step s t c)

/-- The protocol event (atomic access or wrapped-iterator boundary) of thread `t`'s next step. `none`: the
step is a `call` (or nothing). -/
def emit (s : Script) (t : Nat) (c : Cfg) : Option Ev :=
  match (c.th t).pc with
  | .idle => none
  | .skp => some (.st .C .seqcst 1)
  | .resv r => some (.faa .R .acqrel c.R r.len)
  | .pre _ _ => some (.ld .C .seqcst (if c.C then 1 else 0))
  | .wait _ _ => some (.ld .Y .acquire c.Y)
  | .chk _ _ => some (.ld .C .relaxed (if c.C then 1 else 0))
  | .ent _ _ => some (.ld .C .seqcst (if c.C then 1 else 0))
  | .cs _ _ _ => some .srcEnter
  | .ins _ _ _ => some (.srcExit (s c.P))
  | .setC _ _ _ => some (.st .C .seqcst 1)
  | .pub r _ _ => some (.faa .Y .acqrel c.Y r.len)
  | .unw _ _ => some (.st .C .seqcst 1)
  | .dead _ _ => none

def init (ps : Nat → List Req) : Cfg := { th := fun t => { todo := ps t } }

end Orx.IW
