import Orx.IW.HB
import Orx.IW.Completed
/-! # Stale reads: the ticket protocol beyond sequentially consistent interleavings (C07)

`Core.step` lets every load return the latest value. Under the C11 memory model only read-modify-writes and the
`SeqCst` accesses of one location that is accessed by `SeqCst` accesses only are guaranteed to do so; an `Acquire` load
of `yielded` (`AtomicCounter::current`, pc `wait`) may return an **older** value of its modification order, and the
`Relaxed` load of `completed` in the spin loop (pc `chk`) may still return `false` after the flag was set.
(`reserved` and `yielded` are only modified by `fetch_add`, which reads the latest value; the loads of `completed` at
`pre` and `ent` and all its stores are `SeqCst`.)

`stepS` is `step` with such stale loads as an additional, adversarial choice per step. This file proves that the
safety invariant `Inv` — hence mutual exclusion of the critical section, exclusive sequential use of the wrapped
iterator, index fidelity, no duplicate — and the happens-before invariant `HInv` survive **every** choice of stale
reads: a stale value of `yielded` is smaller than the waiting thread's ticket (the holder of a ticket is the only one
who moves `yielded` past it), so it can only make the thread spin once more; it is never mistaken for the thread's turn.
A thread that does see its turn read the *latest* value, i.e. it read from the previous holder's release `fetch_add`,
which is what `hb_chain` needs. Liveness under stale reads additionally needs that a stale value is not returned
forever (C11 §6.9.2.3 "in a finite period of time"), which is a fairness assumption on the memory system like the
fairness assumption on the scheduler; it is not formalised here. -/
namespace Orx.IW

/-- what the load of this step returns -/
inductive Stale where
  | fresh                -- the latest value (always the case for RMWs and the `SeqCst` accesses)
  | yOld (y : Nat)       -- `yielded.load(Acquire)` returns the older value `y`
  | cOld                 -- `completed.load(Relaxed)` returns `false`
  deriving Repr, DecidableEq

/-- one step of thread `t` whose load may be stale -/
def stepS (s : Script) (t : Nat) (st : Stale) (c : Cfg) : Cfg :=
  match (c.th t).pc, st with
  | .wait r b, .yOld y =>
    if y ≤ c.Y then
      if b = y then setTh c t { (c.th t) with pc := .ent r b }
      else if b < y then setTh c t (ret (c.th t) r .fin)
      else setTh c t { (c.th t) with pc := .chk r b }
    else step s t c          -- not a value `yielded` ever had: not a possible read
  | .chk r b, .cOld => setTh c t { (c.th t) with pc := .wait r b }
  | _, _ => step s t c

def runS (s : Script) : List (Nat × Stale) → Cfg → Cfg
  | [], c => c
  | (t, st) :: ts, c => runS s ts (stepS s t st c)

theorem stepS_fresh (s : Script) (t : Nat) (c : Cfg) : stepS s t .fresh c = step s t c := by
  unfold stepS; split <;> simp_all

/-- relabelling a waiting thread between `wait` and `chk` (same ticket, outside the critical section) keeps `Inv` -/
theorem inv_relabel {s : Script} {c : Cfg} (h : Inv s c) (t : Nat) (r : Req) (b : Nat)
    (hpc : (c.th t).pc = .wait r b ∨ (c.th t).pc = .chk r b) (pc' : Pc) (hpc' : pc' = .wait r b ∨ pc' = .chk r b) :
    Inv s (setTh c t { (c.th t) with pc := pc' }) := by
  have hme : (c.th t).pc.ticket = some (b, r.len) := by rcases hpc with h1 | h1 <;> simp [h1, Pc.ticket]
  have hncs : (c.th t).pc.inCS = false := by rcases hpc with h1 | h1 <;> simp [h1, Pc.inCS]
  have hnrec : (c.th t).pc.recording = false := by rcases hpc with h1 | h1 <;> simp [h1, Pc.recording]
  have htk := h.tk t b r.len hme
  have hdisj : ∀ u b' n', u ≠ t → (c.th u).pc.ticket = some (b', n') → b + r.len ≤ b' ∨ b' + n' ≤ b :=
    fun u b' n' hu hb' => h.disj t u b r.len b' n' (Ne.symm hu) hme hb'
  have hidle : ∀ x' : Thread, x'.pc.inCS = false → (∀ u, u ≠ t → (c.th u).pc.inCS = false) → NoNoneBefore s c.P → c.P = c.Y := by
    intro _ _ hall hnn
    apply h.pidle _ hnn
    intro u
    by_cases hu : u = t
    · subst hu; exact hncs
    · exact hall u hu
  have key := inv_update h t { (c.th t) with pc := pc' } c.R c.Y c.C c.P h.yr (Nat.le_refl _)
    ⟨fun r' hr' => h.todoOk t r' hr', by rcases hpc' with h1 | h1 <;> simp [h1], ?_,
     by rcases hpc' with h1 | h1 <;> simp [h1], by rcases hpc' with h1 | h1 <;> simp [h1],
     by rcases hpc' with h1 | h1 <;> simp [h1], by rcases hpc' with h1 | h1 <;> simp [h1],
     by rcases hpc' with h1 | h1 <;> simp [h1]⟩
    (oth_same h t) (hidle _) (none_same h t hnrec _) (fun u r' b' _ hp => h.entY u r' b' hp)
  · exact key
  · intro b0 n0 hb0
    have : pc'.ticket = some (b, r.len) := by rcases hpc' with h1 | h1 <;> simp [h1, Pc.ticket]
    simp only at hb0
    rw [this] at hb0
    simp at hb0
    obtain ⟨rfl, rfl⟩ := hb0
    refine ⟨htk.1, htk.2.1, htk.2.2, ?_, ?_, ?_, ?_, hdisj⟩ <;> rcases hpc' with h1 | h1 <;> simp [h1, Pc.inCS, Pc.acc]

/-- **A stale load is never mistaken for the thread's turn.** Every step with a stale load is either exactly the step
with the fresh load, or a relabelling of the waiting thread between `wait` and `chk` (one more spin). -/
theorem stepS_cases {s : Script} {c : Cfg} (h : Inv s c) (t : Nat) (st : Stale) :
    stepS s t st c = step s t c ∨
    ∃ r b pc', ((c.th t).pc = .wait r b ∨ (c.th t).pc = .chk r b) ∧ (pc' = .wait r b ∨ pc' = .chk r b) ∧
      stepS s t st c = setTh c t { (c.th t) with pc := pc' } := by
  unfold stepS
  split
  · rename_i r b y hpc
    have htk := h.tk t b r.len (by simp [hpc, Pc.ticket])
    split
    · rename_i hy
      split
      · -- the stale value equals the ticket: it is the latest value
        rename_i hby
        have hY : b = c.Y := by omega
        left
        unfold step
        simp [hpc, hY]
      · split
        · omega      -- a value beyond the ticket was never written while the thread waits
        · right; exact ⟨r, b, .chk r b, Or.inl hpc, Or.inr rfl, rfl⟩
    · left; rfl
  · rename_i r b hpc
    right; exact ⟨r, b, .wait r b, Or.inr hpc, Or.inl rfl, rfl⟩
  · left; rfl

theorem stepS_inv {s : Script} {c : Cfg} (h : Inv s c) (hW : c.R < W) (t : Nat) (st : Stale) :
    Inv s (stepS s t st c) := by
  rcases stepS_cases h t st with he | ⟨r, b, pc', hpc, hpc', he⟩
  · rw [he]; exact step_inv h hW t
  · rw [he]; exact inv_relabel h t r b hpc pc' hpc'

/-- the ticket dispenser never decreases, whatever is read -/
theorem stepS_R_mono (s : Script) (t : Nat) (st : Stale) (c : Cfg) : c.R ≤ (stepS s t st c).R := by
  unfold stepS
  split
  · split
    · split
      · simp
      · split <;> simp
    · exact step_R_mono s t c
  · simp
  · exact step_R_mono s t c

theorem runS_R_mono (s : Script) (σ : List (Nat × Stale)) (c : Cfg) : c.R ≤ (runS s σ c).R := by
  induction σ generalizing c with
  | nil => simp [runS]
  | cons p ps ih =>
    obtain ⟨t, st⟩ := p
    simp only [runS]; exact Nat.le_trans (stepS_R_mono s t st c) (ih _)

/-- `Inv` along every schedule with every choice of stale loads, as long as the ticket dispenser stays below `2^64` -/
theorem inv_runS {s : Script} (σ : List (Nat × Stale)) {c : Cfg} (h : Inv s c)
    (hW : (runS s σ c).R < W) : Inv s (runS s σ c) := by
  induction σ generalizing c with
  | nil => simpa [runS]
  | cons p ps ih =>
    obtain ⟨t, st⟩ := p
    simp only [runS] at hW ⊢
    have h1 : (stepS s t st c).R < W := Nat.lt_of_le_of_lt (runS_R_mono s ps _) hW
    have h0 : c.R < W := Nat.lt_of_le_of_lt (stepS_R_mono s t st c) h1
    exact ih (stepS_inv h h0 t st) hW

/-- **Mutual exclusion under stale reads.** For every wrapped iterator, all request programs, every schedule and
every adversarial choice of stale loads: two threads are never inside the critical section together. -/
theorem mutex_weak (s : Script) (ps : Nat → List Req) (hok : ∀ t, ∀ r ∈ ps t, ReqOk r)
    (σ : List (Nat × Stale)) (hW : (runS s σ (init ps)).R < W) (t u : Nat) (htu : t ≠ u)
    (ht : ((runS s σ (init ps)).th t).pc.inCS = true) (hu : ((runS s σ (init ps)).th u).pc.inCS = true) : False :=
  mutex (inv_runS σ (inv_init s ps hok) hW) t u htu ht hu

/-! ## The end is permanent under stale reads (C05, C06) -/

theorem stepS_th_other (s : Script) (t u : Nat) (st : Stale) (c : Cfg) (hu : u ≠ t) : (stepS s t st c).th u = c.th u := by
  unfold stepS
  split
  · split
    · split
      · simp [setTh, hu]
      · split <;> simp [setTh, hu]
    · exact step_th_other s t u c hu
  · simp [setTh, hu]
  · exact step_th_other s t u c hu

theorem stepS_C_mono (s : Script) (t : Nat) (st : Stale) (c : Cfg) (h : c.C = true) : (stepS s t st c).C = true := by
  unfold stepS
  split
  · split
    · split
      · simpa using h
      · split <;> simpa using h
    · exact step_C_mono s t c h
  · simpa using h
  · exact step_C_mono s t c h

/-- a thread that is between pulls, or has not yet passed the (`SeqCst`, hence fresh) check of `completed` after
reserving, never takes a stale step: stale loads only exist at `wait` and `chk` -/
theorem stepS_quiet_eq (s : Script) (t : Nat) (st : Stale) (c : Cfg) (hq : (c.th t).pc.quiet = true) :
    stepS s t st c = step s t c := by
  unfold stepS
  split
  · rename_i r b y hpc; simp [hpc, Pc.quiet] at hq
  · rename_i r b hpc; simp [hpc, Pc.quiet] at hq
  · rfl

theorem quiet_stepS (s : Script) (t u : Nat) (st : Stale) (c : Cfg) (hC : c.C = true) (hq : (c.th u).pc.quiet = true) :
    ((stepS s t st c).th u).pc.quiet = true ∧ outPos ((stepS s t st c).th u) = outPos (c.th u) := by
  by_cases hu : u = t
  · subst hu
    rw [stepS_quiet_eq s u st c hq]
    exact quiet_step s u u c hC hq
  · rw [stepS_th_other s t u st c hu]; exact ⟨hq, rfl⟩

/-- **Once `completed` is set, a thread that starts a pull never receives a position — also under stale loads.** -/
theorem quiet_runS (s : Script) (σ : List (Nat × Stale)) (u : Nat) (c : Cfg) (hC : c.C = true) (hq : (c.th u).pc.quiet = true) :
    ((runS s σ c).th u).pc.quiet = true ∧ outPos ((runS s σ c).th u) = outPos (c.th u) := by
  induction σ generalizing c with
  | nil => exact ⟨hq, rfl⟩
  | cons p ps ih =>
    obtain ⟨t, st⟩ := p
    simp only [runS]
    have h1 := quiet_stepS s t u st c hC hq
    have h2 := ih (stepS s t st c) (stepS_C_mono s t st c hC) h1.1
    exact ⟨h2.1, h2.2.trans h1.2⟩

/-! ## Happens-before under stale reads -/

open Classical in
/-- `hstep` with a possibly stale load: a stale load that makes the thread spin joins nothing (reading an older release
would only add knowledge); every other case is `hstep` -/
noncomputable def hstepS (o : Ords) (s : Script) (t : Nat) (st : Stale) (h : HCfg) : HCfg :=
  if stepS s t st h.core = step s t h.core then hstep o s t h
  else { h with core := stepS s t st h.core, clk := setClk h t ((h.clk t).tick t) }

noncomputable def hrunS (o : Ords) (s : Script) : List (Nat × Stale) → HCfg → HCfg
  | [], h => h
  | (t, st) :: ts, h => hrunS o s ts (hstepS o s t st h)

theorem hstepS_core (o : Ords) (s : Script) (t : Nat) (st : Stale) (h : HCfg) :
    (hstepS o s t st h).core = stepS s t st h.core := by
  unfold hstepS
  split
  · rename_i he; rw [hstep_core, he]
  · rfl

/-- **The happens-before invariant survives stale reads**: a thread that gets its turn read the latest `yielded`, so
its clock joined the previous holder's release; a thread that read a stale value only spins. -/
theorem hstepS_inv (o : Ords) (hacq : o.yLoad.isAcq = true) (hrel : o.yFaa.isRel = true) {s : Script} {h : HCfg}
    (hi : Inv s h.core) (hv : HInv h) (hW : h.core.R < W) (t : Nat) (st : Stale) : HInv (hstepS o s t st h) := by
  unfold hstepS
  split
  · exact hstep_inv o hacq hrel hi hW hv t
  · rename_i hne
    rcases stepS_cases hi t st with he | ⟨r, b, pc', hpc, hpc', he⟩
    · exact absurd he hne
    · rw [he]
      have hw' : pc'.working = false := by rcases hpc' with h1 | h1 <;> simp [h1, Pc.working]
      have hcs' : pc'.inCS = false := by rcases hpc' with h1 | h1 <;> simp [h1, Pc.inCS]
      have hcs : (h.core.th t).pc.inCS = false := by rcases hpc with h1 | h1 <;> simp [h1, Pc.inCS]
      have htk : (h.core.th t).pc.ticket = some (b, r.len) := by rcases hpc with h1 | h1 <;> simp [h1, Pc.ticket]
      have htk' : pc'.ticket = some (b, r.len) := by rcases hpc' with h1 | h1 <;> simp [h1, Pc.ticket]
      apply hinv_update hv t _ _ h.relY h.last
      · intro u hu; simp [hu]
      · intro u _ _; rfl
      · intro hw; simp [hw'] at hw
      · intro hall
        have hall0 : ∀ u, (h.core.th u).pc.inCS = false := by
          intro u
          by_cases hu : u = t
          · subst hu; exact hcs
          · have := hall u; simpa [hu] using this
        rcases hv.outside hall0 with h1 | ⟨h1, h2⟩
        · exact Or.inl h1
        · refine Or.inr ⟨by simpa using h1, ?_⟩
          intro u b' n' hb'
          by_cases hu : u = t
          · subst hu
            simp only [setTh_th_same] at hb'
            rw [htk'] at hb'
            simp at hb'
            obtain ⟨rfl, rfl⟩ := hb'
            simpa using h2 u _ _ htk
          · simp only [setTh_th_other _ _ _ _ hu] at hb'
            simpa using h2 u b' n' hb'

theorem hrunS_core (o : Ords) (s : Script) (σ : List (Nat × Stale)) (h : HCfg) :
    (hrunS o s σ h).core = runS s σ h.core := by
  induction σ generalizing h with
  | nil => rfl
  | cons p ps ih => obtain ⟨t, st⟩ := p; simp [hrunS, runS, ih, hstepS_core]

theorem hinv_runS (o : Ords) (hacq : o.yLoad.isAcq = true) (hrel : o.yFaa.isRel = true) {s : Script}
    (σ : List (Nat × Stale)) {h : HCfg} (hi : Inv s h.core) (hv : HInv h) (hW : (runS s σ h.core).R < W) :
    HInv (hrunS o s σ h) ∧ Inv s (hrunS o s σ h).core := by
  induction σ generalizing h with
  | nil => exact ⟨hv, hi⟩
  | cons p ps ih =>
    obtain ⟨t, st⟩ := p
    simp only [hrunS, runS] at hW ⊢
    have h1 : (stepS s t st h.core).R < W := Nat.lt_of_le_of_lt (runS_R_mono s ps _) hW
    have h0 : h.core.R < W := Nat.lt_of_le_of_lt (stepS_R_mono s t st h.core) h1
    have hv' := hstepS_inv o hacq hrel hi hv h0 t st
    have hi' : Inv s (hstepS o s t st h).core := by rw [hstepS_core]; exact stepS_inv hi h0 t st
    exact ih hi' hv' (by rw [hstepS_core]; exact hW)

/-- **No data race on the wrapped iterator, stale reads included.** With an acquiring load and a releasing `fetch_add`
on `yielded`: for all wrapped iterators, programs, schedules and all choices of stale loads, whenever a thread is about
to enter or to leave the wrapped iterator's `next()`, the previous use of the iterator happens-before it. -/
theorem no_race_weak (o : Ords) (hacq : o.yLoad.isAcq = true) (hrel : o.yFaa.isRel = true)
    (s : Script) (ps : Nat → List Req) (hok : ∀ t, ∀ r ∈ ps t, ReqOk r) (σ : List (Nat × Stale))
    (hW : (runS s σ (init ps)).R < W) (t : Nat)
    (huse : ∃ r b acc, ((hrunS o s σ (hinit ps)).core.th t).pc = .cs r b acc ∨ ((hrunS o s σ (hinit ps)).core.th t).pc = .ins r b acc) :
    (hrunS o s σ (hinit ps)).last.le ((hrunS o s σ (hinit ps)).clk t) := by
  have h := (hinv_runS o hacq hrel σ (h := hinit ps) (inv_init s ps hok) (hinv_init ps) hW).1
  apply h.inside t
  obtain ⟨r, b, acc, hpc | hpc⟩ := huse <;> simp [hpc, Pc.working]

end Orx.IW
