import Orx.IW.Inv
/-! # The ticket protocol seen from one thread

`IW.step` (Core.lean) moves one thread against the shared memory. Here the same step is split into what the thread does
(`actOf`: its next atomic access; `lstep`: where it goes given the value the access returned) and what the shared memory
does (`respOf`: the value returned; `effOf`: the new memory). `step_local` proves the split exact. The thread-local half
is what `GenThms/Proto.lean` compares with the program trees translated from the Rust source. -/
set_option linter.unusedSimpArgs false
namespace Orx.IW

/-- a thread's atomic access (or the boundary of the wrapped iterator's `next()`) -/
inductive Act where
  | faa (l : Loc) (o : Ord) (n : Nat)
  | ldN (l : Loc) (o : Ord)
  | ldB (l : Loc) (o : Ord)
  | stB (l : Loc) (o : Ord) (v : Bool)
  | enter
  | exit
  deriving Repr, DecidableEq

/-- what the access returns -/
inductive Resp where
  | nat (n : Nat)
  | bool (b : Bool)
  | unit
  | src (r : SrcRes)
  deriving Repr, DecidableEq

def actOf : Pc → Option Act
  | .idle => none
  | .dead _ _ => none
  | .skp => some (.stB .C .seqcst true)
  | .resv r => some (.faa .R .acqrel r.len)
  | .pre _ _ => some (.ldB .C .seqcst)
  | .wait _ _ => some (.ldN .Y .acquire)
  | .chk _ _ => some (.ldB .C .relaxed)
  | .ent _ _ => some (.ldB .C .seqcst)
  | .cs _ _ _ => some .enter
  | .ins _ _ _ => some .exit
  | .setC _ _ _ => some (.stB .C .seqcst true)
  | .pub r _ _ => some (.faa .Y .acqrel r.len)
  | .unw _ _ => some (.stB .C .seqcst true)

/-- the value the shared memory returns to the access of a thread at `pc` -/
def respOf (s : Script) (c : Cfg) : Pc → Resp
  | .resv _ => .nat c.R
  | .pre _ _ => .bool c.C
  | .wait _ _ => .nat c.Y
  | .chk _ _ => .bool c.C
  | .ent _ _ => .bool c.C
  | .ins _ _ _ => .src (s c.P)
  | .pub _ _ _ => .nat c.Y
  | _ => .unit

/-- the shared memory after the access -/
def effOf (c : Cfg) : Pc → Cfg
  | .skp => { c with C := true }
  | .resv r => { c with R := c.R + r.len }
  | .ins _ _ _ => { c with P := c.P + 1 }
  | .setC _ _ _ => { c with C := true }
  | .pub r _ _ => { c with Y := c.Y + r.len }
  | .unw _ _ => { c with C := true }
  | _ => c

/-- where the thread goes -/
inductive LRes where
  | go (pc : Pc)
  | done (r : Req) (o : POut)     -- the request returns `o`
  deriving Repr, DecidableEq

/-- the thread-local transition: the next pc (or the returned value) given the value read -/
def lstep : Pc → Resp → LRes
  | .skp, _ => .done .skip .unit
  | .resv r, .nat v => .go (.pre r v)
  | .pre r b, .bool v => if v then .done r .fin else .go (.wait r b)
  | .wait r b, .nat y => if b = y then .go (.ent r b) else if b < y then .done r .fin else .go (.chk r b)
  | .chk r b, .bool v => if v then .done r .fin else .go (.wait r b)
  | .ent r b, .bool v =>
    if v then .done r .fin else if iters r b = 0 then .go (.setC r b []) else .go (.cs r b [])
  | .cs r b acc, _ => .go (.ins r b acc)
  | .ins r b acc, .src (.some v) =>
    if (acc ++ [v]).length = iters r b then
      if (acc ++ [v]).length < r.len then .go (.setC r b (acc ++ [v])) else .go (.pub r b (acc ++ [v]))
    else .go (.cs r b (acc ++ [v]))
  | .ins r b acc, .src .none => .go (.setC r b acc)
  | .ins r b _, .src .panic => .go (.unw b r.len)
  | .setC r b acc, _ => if r.isSingle then .done r .fin else .go (.pub r b acc)
  | .pub r b acc, _ =>
    match acc with
    | [] => .done r .fin
    | v :: rest => if r.isSingle then .done r (.item b v) else .done r (.chunk b (v :: rest))
  | .unw b n, _ => .go (.dead b n)
  | pc, _ => .go pc

/-- apply the thread-local result to the thread record -/
def applyL (x : Thread) : LRes → Thread
  | .go pc => { x with pc := pc }
  | .done r o => ret x r o

/-- **`IW.step` is the thread-local transition against the shared memory**: for a thread that is neither idle nor dead,
one step = perform `actOf pc` on the memory (`effOf`), receive `respOf`, continue as `lstep` says. -/
theorem step_local (s : Script) (t : Nat) (c : Cfg) (h : actOf (c.th t).pc ≠ none) :
    step s t c = setTh (effOf c (c.th t).pc) t (applyL (c.th t) (lstep (c.th t).pc (respOf s c (c.th t).pc))) := by
  cases hpc : (c.th t).pc with
  | idle => simp [hpc, actOf] at h
  | dead b n => simp [hpc, actOf] at h
  | skp =>
    simp only [step, hpc]
    simp [lstep, respOf, effOf, applyL]
  | resv r =>
    simp only [step, hpc]
    simp [lstep, respOf, effOf, applyL]
  | pre r b =>
    simp only [step, hpc]
    cases hC : c.C <;> simp [lstep, respOf, effOf, applyL, hC]
  | wait r b =>
    simp only [step, hpc]
    simp only [lstep, respOf, effOf, applyL]
    split
    · rfl
    · split <;> rfl
  | chk r b =>
    simp only [step, hpc]
    cases hC : c.C <;> simp [lstep, respOf, effOf, applyL, hC]
  | ent r b =>
    simp only [step, hpc]
    cases hC : c.C
    · simp only [lstep, respOf, effOf, applyL, hC]
      by_cases hi : iters r b = 0 <;> simp [hi]
    · simp [lstep, respOf, effOf, applyL, hC]
  | cs r b acc =>
    simp only [step, hpc]
    simp [lstep, respOf, effOf, applyL]
  | ins r b acc =>
    simp only [step, hpc]
    simp only [lstep, respOf, effOf, applyL]
    cases hs : s c.P with
    | some v =>
      simp only [lstep]
      split
      · split <;> rfl
      · rfl
    | none => rfl
    | panic => rfl
  | setC r b acc =>
    simp only [step, hpc]
    simp only [lstep, respOf, effOf, applyL]
    split <;> rfl
  | pub r b acc =>
    simp only [step, hpc]
    simp only [lstep, respOf, effOf, applyL]
    cases acc with
    | nil => rfl
    | cons v rest => simp only; split <;> rfl
  | unw b n =>
    simp only [step, hpc]
    simp [lstep, respOf, effOf, applyL]

/-- the trace event of an access that returned `v` -/
def evOf : Act → Resp → Ev
  | .faa l o n, .nat v => .faa l o v n
  | .ldN l o, .nat v => .ld l o v
  | .ldB l o, .bool v => .ld l o (if v then 1 else 0)
  | .stB l o v, _ => .st l o (if v then 1 else 0)
  | .enter, _ => .srcEnter
  | .exit, .src r => .srcExit r
  | _, _ => .srcEnter

/-- the event `emit` logs for a step is the thread's access with the memory's answer -/
theorem emit_local (s : Script) (t : Nat) (c : Cfg) :
    emit s t c = (actOf (c.th t).pc).map fun a => evOf a (respOf s c (c.th t).pc) := by
  unfold emit
  cases hpc : (c.th t).pc <;> simp [actOf, evOf, respOf]

end Orx.IW
