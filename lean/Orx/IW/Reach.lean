import Orx.IW.StepInv
namespace Orx.IW

theorem inv_init (s : Script) (ps : Nat → List Req) (hok : ∀ t, ∀ r ∈ ps t, ReqOk r) : Inv s (init ps) := by
  constructor <;> simp [init, Pc.ticket, Pc.inCS, Pc.acc] <;> first | exact hok | (intros; trivial) | skip
  all_goals (intro _ i hi; omega)

theorem inv_run {s : Script} (hf : Fused s) (σ : List Nat) {c : Cfg} (h : Inv s c) : Inv s (run s σ c) := by
  induction σ generalizing c with
  | nil => simpa [run]
  | cons t ts ih => simp only [run]; exact ih (step_inv hf h t)

/-- every configuration reachable from `init ps` by any schedule satisfies the invariant -/
theorem inv_reach (s : Script) (hf : Fused s) (ps : Nat → List Req) (hok : ∀ t, ∀ r ∈ ps t, ReqOk r)
    (σ : List Nat) : Inv s (run s σ (init ps)) :=
  inv_run hf σ (inv_init s ps hok)

/-- the word-level step agrees with the ideal one while the counters stay below `2^64` -/
theorem stepW_eq (s : Script) (t : Nat) (c : Cfg) (hR : (step s t c).R < W) (hY : (step s t c).Y < W) :
    stepW s t c = step s t c := by
  simp [stepW, Nat.mod_eq_of_lt hR, Nat.mod_eq_of_lt hY]

end Orx.IW
