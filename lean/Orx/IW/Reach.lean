import Orx.IW.StepInv
namespace Orx.IW

theorem inv_init (s : Script) (ps : Nat → List Req) (hok : ∀ t, ∀ r ∈ ps t, ReqOk r) : Inv s (init ps) := by
  constructor <;> simp [init, Pc.ticket, Pc.inCS, Pc.acc, Pc.recording] <;> first | exact hok | (intros; trivial) | skip
  all_goals (first | (intro _ i hi; omega) | (intro i hi; omega))

/-- the reserved counter never decreases -/
theorem step_R_mono (s : Script) (t : Nat) (c : Cfg) : c.R ≤ (step s t c).R := by
  unfold step
  repeat' (first | split | simp [setTh])

theorem run_R_mono (s : Script) (σ : List Nat) (c : Cfg) : c.R ≤ (run s σ c).R := by
  induction σ generalizing c with
  | nil => simp [run]
  | cons t ts ih => simp only [run]; exact Nat.le_trans (step_R_mono s t c) (ih _)

/-- `NoWrap`: the cumulative number of reserved positions stays below `2^64` (the quantifier of C01/C05) -/
theorem inv_run {s : Script} (σ : List Nat) {c : Cfg} (h : Inv s c) (hW : (run s σ c).R < W) :
    Inv s (run s σ c) := by
  induction σ generalizing c with
  | nil => simpa [run]
  | cons t ts ih =>
    simp only [run] at hW ⊢
    have h1 : (step s t c).R < W := Nat.lt_of_le_of_lt (run_R_mono s ts _) hW
    have h0 : c.R < W := Nat.lt_of_le_of_lt (step_R_mono s t c) h1
    exact ih (step_inv h h0 t) hW

/-- every configuration reachable from `init ps` by any schedule satisfies the invariant -/
theorem inv_reach (s : Script) (ps : Nat → List Req) (hok : ∀ t, ∀ r ∈ ps t, ReqOk r)
    (σ : List Nat) (hW : (run s σ (init ps)).R < W) : Inv s (run s σ (init ps)) :=
  inv_run σ (inv_init s ps hok) hW

/-- the word-level step agrees with the ideal one while the counters stay below `2^64` -/
theorem stepW_eq (s : Script) (t : Nat) (c : Cfg) (hR : (step s t c).R < W) (hY : (step s t c).Y < W) :
    stepW s t c = step s t c := by
  simp [stepW, Nat.mod_eq_of_lt hR, Nat.mod_eq_of_lt hY]

end Orx.IW
