import Orx.IW.Reach
/-! # What the protocol hands out: fidelity, freshness, order (C01, C02, C03, C04 for the wrapper) -/
namespace Orx.IW

/-- source positions carried by an output -/
def POut.pos : POut → List Nat
  | .item b _ => [b]
  | .chunk b vals => List.range' b vals.length
  | _ => []

/-- the output tells the truth about the wrapped iterator: `s idx = some val`, chunks are non-empty runs -/
def GoodOut (s : Script) : POut → Prop
  | .item b v => s b = .some v
  | .chunk b vals => vals ≠ [] ∧ ∀ k (h : k < vals.length), s (b + k) = .some (vals[k])
  | _ => True

structure OInv (s : Script) (c : Cfg) : Prop where
  good : ∀ t, ∀ o ∈ (c.th t).outs, GoodOut s o
  belowY : ∀ t, ∀ o ∈ (c.th t).outs, ∀ p ∈ o.pos, p < c.Y
  sorted : ∀ t, (c.th t).outs.Pairwise fun a b => ∀ p ∈ a.pos, ∀ q ∈ b.pos, p < q
  disj : ∀ t u, t ≠ u → ∀ o ∈ (c.th t).outs, ∀ o' ∈ (c.th u).outs, ∀ p ∈ o.pos, ∀ q ∈ o'.pos, p ≠ q

theorem oinv_update {s : Script} {c : Cfg} (h : OInv s c) (t : Nat) (x' : Thread) (R' Y' : Nat) (C' : Bool) (P' : Nat)
    (hY : c.Y ≤ Y')
    (hx : x'.outs = (c.th t).outs ∨
      ∃ o, x'.outs = (c.th t).outs ++ [o] ∧ GoodOut s o ∧ ∀ p ∈ o.pos, c.Y ≤ p ∧ p < Y') :
    OInv s (setTh { c with R := R', Y := Y', C := C', P := P' } t x') := by
  have hb : ∀ u, ∀ o ∈ (c.th u).outs, ∀ p ∈ o.pos, p < c.Y := h.belowY
  rcases hx with hx | ⟨o, hx, hgo, hpo⟩
  · constructor
    · intro u; by_cases hu : u = t
      · subst hu; simpa [hx] using h.good u
      · simpa [hu] using h.good u
    · intro u; by_cases hu : u = t
      · subst hu; simp [hx]; intro o ho p hp; have := hb u o ho p hp; omega
      · simp [hu]; intro o ho p hp; have := hb u o ho p hp; omega
    · intro u; by_cases hu : u = t
      · subst hu; simpa [hx] using h.sorted u
      · simpa [hu] using h.sorted u
    · intro u v huv
      by_cases hu : u = t <;> by_cases hv : v = t
      · omega
      · subst hu; simp [hx, hv]; exact h.disj u v huv
      · subst hv; simp [hx, hu]; exact h.disj u v huv
      · simp [hu, hv]; exact h.disj u v huv
  · constructor
    · intro u; by_cases hu : u = t
      · subst hu; simp [hx]; intro o' ho'
        rcases ho' with ho' | rfl
        · exact h.good u o' ho'
        · exact hgo
      · simpa [hu] using h.good u
    · intro u; by_cases hu : u = t
      · subst hu; simp [hx]; intro o' ho' p hp
        rcases ho' with ho' | rfl
        · have := hb u o' ho' p hp; omega
        · exact (hpo p hp).2
      · simp [hu]; intro o' ho' p hp; have := hb u o' ho' p hp; omega
    · intro u; by_cases hu : u = t
      · subst hu; simp [hx]
        rw [List.pairwise_append]
        refine ⟨h.sorted u, by simp, ?_⟩
        intro a ha b hb' p hp q hq
        simp at hb'; subst hb'
        have := hb u a ha p hp
        have := (hpo q hq).1
        omega
      · simpa [hu] using h.sorted u
    · intro u v huv
      by_cases hu : u = t <;> by_cases hv : v = t
      · omega
      · subst hu; simp [hx, hv]; intro o1 ho1 o2 ho2 p hp q hq
        rcases ho1 with ho1 | rfl
        · exact h.disj u v huv o1 ho1 o2 ho2 p hp q hq
        · have := hb v o2 ho2 q hq; have := (hpo p hp).1; omega
      · subst hv; simp [hx, hu]; intro o1 ho1 o2 ho2 p hp q hq
        rcases ho2 with ho2 | rfl
        · exact h.disj u v huv o1 ho1 o2 ho2 p hp q hq
        · have := hb u o1 ho1 p hp; have := (hpo q hq).1; omega
      · simp [hu, hv]; exact h.disj u v huv

theorem ret_outs (x : Thread) (r : Req) (o : POut) : (ret x r o).outs = x.outs ++ [o] := by
  unfold ret; split <;> simp

/-- returning an output without positions -/
theorem oinv_ret_free {s : Script} {c : Cfg} (h : OInv s c) (t : Nat) (x : Thread) (hx : x.outs = (c.th t).outs)
    (r : Req) (o : POut) (ho : o.pos = []) (hg : GoodOut s o) (R' : Nat) (C' : Bool) (P' : Nat) :
    OInv s (setTh { c with R := R', Y := c.Y, C := C', P := P' } t (ret x r o)) := by
  refine oinv_update h t _ R' c.Y C' P' (Nat.le_refl _) (Or.inr ⟨o, by simp [ret_outs, hx], hg, by simp [ho]⟩)

theorem step_oinv {s : Script} {c : Cfg} (hi : Inv s c) (h : OInv s c) (t : Nat) : OInv s (step s t c) := by
  unfold step
  generalize hx : c.th t = x
  obtain ⟨pc, todo, outs⟩ := x
  have houts : ∀ pc' todo', (⟨pc', todo', outs⟩ : Thread).outs = (c.th t).outs := by intros; simp [hx]
  have same : ∀ (x' : Thread), x'.outs = (c.th t).outs → ∀ R' C' P', OInv s (setTh { c with R := R', Y := c.Y, C := C', P := P' } t x') :=
    fun x' hx' R' C' P' => oinv_update h t x' R' c.Y C' P' (Nat.le_refl _) (Or.inl hx')
  cases pc with
  | idle =>
    cases todo with
    | nil => simpa using h
    | cons r rest =>
      cases r <;> (simp only; rw [← cfg_eta c]; exact same _ (by simp [hx]) _ _ _)
  | skp => simp only; exact oinv_ret_free h t _ (by simp [hx]) _ .unit rfl trivial _ _ _
  | resv r => simp only; exact same _ (by simp [hx]) _ _ _
  | pre r b =>
    simp only; split
    · rw [← cfg_eta c]; exact oinv_ret_free h t _ (by simp [hx]) _ .fin rfl trivial _ _ _
    · rw [← cfg_eta c]; exact same _ (by simp [hx]) _ _ _
  | wait r b =>
    simp only; split
    · rw [← cfg_eta c]; exact same _ (by simp [hx]) _ _ _
    · split
      · rw [← cfg_eta c]; exact oinv_ret_free h t _ (by simp [hx]) _ .fin rfl trivial _ _ _
      · rw [← cfg_eta c]; exact same _ (by simp [hx]) _ _ _
  | chk r b =>
    simp only; split
    · rw [← cfg_eta c]; exact oinv_ret_free h t _ (by simp [hx]) _ .fin rfl trivial _ _ _
    · rw [← cfg_eta c]; exact same _ (by simp [hx]) _ _ _
  | ent r b =>
    simp only; split
    · rw [← cfg_eta c]; exact oinv_ret_free h t _ (by simp [hx]) _ .fin rfl trivial _ _ _
    · split <;> (rw [← cfg_eta c]; exact same _ (by simp [hx]) _ _ _)
  | cs r b acc => simp only; rw [← cfg_eta c]; exact same _ (by simp [hx]) _ _ _
  | ins r b acc =>
    simp only
    cases s c.P with
    | some v => simp only; split
                · split <;> exact same _ (by simp [hx]) _ _ _
                · exact same _ (by simp [hx]) _ _ _
    | none => simp only; exact same _ (by simp [hx]) _ _ _
    | panic => simp only; exact same _ (by simp [hx]) _ _ _
  | setC r b acc0 =>
    simp only; split
    · exact oinv_ret_free h t _ (by simp [hx]) _ .fin rfl trivial _ _ _
    · exact same _ (by simp [hx]) _ _ _
  | pub r b acc =>
    have hme : (c.th t).pc.ticket = some (b, r.len) := by simp [hx, Pc.ticket]
    have hcs : (c.th t).pc.inCS = true := by simp [hx, Pc.inCS]
    have hbY := hi.csY t b r.len hcs hme
    have hacc := hi.accOk t b r.len hme
    simp [hx, Pc.acc] at hacc
    simp only
    cases acc with
    | nil =>
      simp only
      exact oinv_update h t _ c.R (c.Y + r.len) c.C c.P (by omega)
        (Or.inr ⟨.fin, by simp [ret_outs, hx], trivial, by simp [POut.pos]⟩)
    | cons v rest =>
      simp only
      split
      · refine oinv_update h t _ c.R (c.Y + r.len) c.C c.P (by omega)
          (Or.inr ⟨.item b v, by simp [ret_outs, hx], ?_, ?_⟩)
        · have := hacc.1 0 (by simp); simpa [GoodOut] using this
        · intro p hp; simp [POut.pos] at hp; subst hp
          have := hacc.2; simp at this; omega
      · refine oinv_update h t _ c.R (c.Y + r.len) c.C c.P (by omega)
          (Or.inr ⟨.chunk b (v :: rest), by simp [ret_outs, hx], ⟨by simp, hacc.1⟩, ?_⟩)
        intro p hp
        simp [POut.pos, List.mem_range'] at hp
        have := hacc.2; simp at this; omega
  | unw b n => simp only; exact same _ (by simp [hx]) _ _ _
  | dead b n => simpa using h

theorem oinv_init (s : Script) (ps : Nat → List Req) : OInv s (init ps) := by
  constructor <;> simp [init]

theorem oinv_run {s : Script} (σ : List Nat) {c : Cfg} (hi : Inv s c) (h : OInv s c)
    (hW : (run s σ c).R < W) : OInv s (run s σ c) := by
  induction σ generalizing c with
  | nil => simpa [run]
  | cons t ts ih =>
    simp only [run] at hW ⊢
    have h1 : (step s t c).R < W := Nat.lt_of_le_of_lt (run_R_mono s ts _) hW
    have h0 : c.R < W := Nat.lt_of_le_of_lt (step_R_mono s t c) h1
    exact ih (step_inv hi h0 t) (step_oinv hi h t) hW

end Orx.IW
