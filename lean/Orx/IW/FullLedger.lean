import Orx.IW.Full
import Orx.IW.Reach
/-! # Ownership ledger of the owning wrapper (`ConIterOfIter` over an iterator of owned values) -- C08 / C15 / C03

`IWF.step` is the full thread machine the driver runs (protocol + buffers + consumption + drops). This file proves, for
every wrapped iterator (fused or not, panicking or not), all op programs and every schedule, that every element the
wrapped iterator produced is at every moment in exactly one place:

  produced  =  moved out to a caller  +  destroyed by the machinery  +  held
                                                                        (in a thread's `fetch_n` accumulator, in a slot
                                                                         of a `BufferIter`, in a running loop's buffer)

as multisets, and that the chunk a buffered pull hands out is exactly what it wrote into the first slots of its reused
buffer, whatever stale elements the slots behind hold (the `P` clauses of C03 and C08 in DESIGN.md §7). -/
namespace Orx.IWF
open Orx.IW

/-! ## lists of optional slots -/

theorem somes_nil : somes [] = [] := rfl
theorem somes_cons_none (l : List (Option Nat)) : somes (none :: l) = somes l := by simp [somes]
theorem somes_cons_some (v : Nat) (l : List (Option Nat)) : somes (some v :: l) = v :: somes l := by simp [somes]
theorem somes_append (a b : List (Option Nat)) : somes (a ++ b) = somes a ++ somes b := by simp [somes, List.filterMap_append]
theorem somes_replicate_none (n : Nat) : somes (List.replicate n none) = [] := by
  induction n with
  | zero => rfl
  | succ k ih => simp [List.replicate_succ, somes_cons_none, ih]
theorem somes_map_some (l : List Nat) : somes (l.map some) = l := by
  induction l with
  | nil => rfl
  | cons a as ih => simp [somes_cons_some, ih]

theorem count_somes_take_drop (l : List (Option Nat)) (j p : Nat) :
    (somes (l.take j)).count p + (somes (l.drop j)).count p = (somes l).count p := by
  rw [← List.count_append, ← somes_append, List.take_append_drop]

/-- writing slot `i` (in range): the old content leaves, the new value enters -/
theorem count_somes_set (l : List (Option Nat)) (i v p : Nat) (h : i < l.length) :
    (somes (setSlot l i (some v))).count p + (match l.getD i none with | some o => [o] | none => []).count p
      = (somes l).count p + [v].count p := by
  induction l generalizing i with
  | nil => simp at h
  | cons a as ih =>
    cases i with
    | zero =>
      cases a with
      | none => simp [setSlot, somes_cons_none, somes_cons_some, List.count_cons]
      | some o => simp [setSlot, somes_cons_some, List.count_cons]; omega
    | succ k =>
      have hk : k < as.length := by simpa using h
      have := ih k hk
      cases a with
      | none => simpa [setSlot, somes_cons_none] using this
      | some o =>
        simp only [setSlot, List.set_cons_succ, somes_cons_some, List.count_cons, List.getD_cons_succ] at this ⊢
        omega

/-- the first slots of `l` hold exactly `acc` -/
def Prefix (l : List (Option Nat)) (acc : List Nat) : Prop := l.take acc.length = acc.map some

theorem Prefix.nil (l : List (Option Nat)) : Prefix l [] := by simp [Prefix]

theorem Prefix.le {l : List (Option Nat)} {acc : List Nat} (h : Prefix l acc) : acc.length ≤ l.length := by
  have := congrArg List.length h
  simp at this
  omega

/-- writing the next slot extends the prefix -/
theorem Prefix.snoc {l : List (Option Nat)} {acc : List Nat} (h : Prefix l acc) (v : Nat) (hlt : acc.length < l.length) :
    Prefix (setSlot l acc.length (some v)) (acc ++ [v]) := by
  unfold Prefix at *
  simp only [List.length_append, List.length_singleton, List.map_append, List.map_cons, List.map_nil, setSlot]
  rw [List.take_add_one]
  have h1 : (l.set acc.length (some v)).take acc.length = l.take acc.length := by
    rw [List.take_set_of_le (Nat.le_refl _)]
  rw [h1, h]
  simp [hlt]

theorem Prefix.somes_take {l : List (Option Nat)} {acc : List Nat} (h : Prefix l acc) (j : Nat) (hj : j ≤ acc.length) :
    somes (l.take j) = acc.take j := by
  have : l.take j = (l.take acc.length).take j := by rw [List.take_take, Nat.min_eq_left hj]
  rw [this, h, ← List.map_take, somes_map_some]

/-! ## where an element can be -/

def isBuffered : Req → Bool
  | .buffered _ _ => true
  | _ => false

/-- elements a thread holds in the accumulator of a single / one-shot chunk pull (a buffered pull accumulates in its buffer) -/
def coreAcc : Pc → List Nat
  | .cs r _ a | .ins r _ a | .setC r _ a | .pub r _ a => if isBuffered r then [] else a
  | _ => []

/-- the request a pc is executing -/
def pcReq : Pc → Option Req
  | .resv r | .pre r _ | .wait r _ | .chk r _ | .ent r _ | .cs r _ _ | .ins r _ _ | .setC r _ _ | .pub r _ _ => some r
  | _ => none

/-- the accumulator of a pc inside the critical section -/
def pcAcc : Pc → Option (List Nat)
  | .cs _ _ a | .ins _ _ a | .setC _ _ a | .pub _ _ a => some a
  | _ => none

def bsz (x : DThread) : Option Nat := x.buf.map List.length

/-- the protocol request the op issues (a `bufnext` uses the size of the thread's buffered iterator) -/
def opReq (x : DThread) (op : Op) : Option Req :=
  match op with
  | .bufnext _ => (bsz x).map fun n => Req.buffered n false
  | op => reqOf op

def isQuery : Op → Bool
  | .len | .hasmore => true
  | _ => false

/-- the buffer a buffered request fills: the loop's own buffer, or the thread's buffered iterator -/
def actBuf (x : DThread) (lp : Bool) : Option (List (Option Nat)) := if lp then x.lbuf else x.buf

/-- everything thread `t` holds -/
def held (c : FCfg) (t : Nat) : List Nat :=
  somes ((c.d t).buf.getD []) ++ somes ((c.d t).lbuf.getD []) ++ coreAcc (c.core.th t).pc

/-- the elements the wrapped iterator produced in its first `p` calls -/
def prod (s : ISrc) (p : Nat) : List Nat :=
  (List.range p).filterMap fun i => match s.fn i with | .some v => some v | _ => none

theorem prod_succ (s : ISrc) (p : Nat) :
    prod s (p + 1) = prod s p ++ (match s.fn p with | .some v => [v] | _ => []) := by
  simp only [prod, List.range_succ, List.filterMap_append, List.filterMap_cons, List.filterMap_nil]
  cases s.fn p <;> simp

/-- what the buffer of a buffered request must look like at a pc -/
inductive BufSt where
  | acc (a : List Nat)   -- inside the critical section: the first slots hold the accumulator
  | free                 -- unwinding: anything (the guard's step destroys a loop-owned buffer)
  | clean                -- outside: a loop-owned buffer holds nothing

def bufSt : Pc → BufSt
  | .cs _ _ a | .ins _ _ a | .setC _ _ a | .pub _ _ a => .acc a
  | .unw _ _ => .free
  | _ => .clean

def BufSt.ok (st : BufSt) (l : List (Option Nat)) (lp : Bool) : Prop :=
  match st with
  | .acc a => Prefix l a ∧ (lp = true → somes l = a)
  | .free => True
  | .clean => lp = true → somes l = []

/-- `pc` executes request `r` -/
def PcRuns (pc : Pc) (r : Req) : Prop :=
  (r = .skip ∧ pc = .skp) ∨ (r ≠ .skip ∧ (pcReq pc = some r ∨ ∃ b, pc = .unw b r.len))

/-- **Coupling of the two layers, per thread**: the decoration layer (current op, remaining ops, buffers) and the protocol
layer (pc, remaining requests) of a live thread are in step; a buffered pull in progress has written exactly its
accumulator into the first slots of its buffer (a loop's own buffer holds nothing else). -/
structure TI (c : FCfg) (t : Nat) : Prop where
  todo : (c.d t).dead = false → (c.core.th t).todo = reqsOf (c.d t).todo (bsz (c.d t))
  quiet : (c.d t).dead = false → ((c.d t).cur = none ∨ ∃ op, (c.d t).cur = some op ∧ isQuery op = true) →
            (c.core.th t).pc = .idle ∧ (c.d t).lbuf = none
  busy : (c.d t).dead = false → ∀ op, (c.d t).cur = some op → isQuery op = false →
            ∃ r, opReq (c.d t) op = some r ∧ PcRuns (c.core.th t).pc r
  bufs : (c.d t).dead = false → ∀ op, (c.d t).cur = some op → isQuery op = false →
            (∀ n lp, opReq (c.d t) op = some (.buffered n lp) →
              ∃ l, actBuf (c.d t) lp = some l ∧ l.length = n ∧ (bufSt (c.core.th t).pc).ok l lp) ∧
            ((∀ n, opReq (c.d t) op ≠ some (.buffered n true)) → (c.d t).lbuf = none)
  deadOk : (c.d t).dead = true → (c.d t).lbuf = none ∧ coreAcc (c.core.th t).pc = []

/-- initially -/
theorem TI_init (progs : Nat → List SOp) (t : Nat) : TI (init progs) t := by
  constructor <;> simp [init, IW.init, bsz]

/-- the ledger: produced = moved out + destroyed + held by the threads `0..n-1` (as multisets) -/
def Led (s : ISrc) (n : Nat) (c : FCfg) : Prop :=
  ∀ p, (prod s c.core.P).count p = c.mv.count p + c.dr.count p + ((List.range n).flatMap (held c)).count p

/-! ## one step -/

@[simp] theorem setD_d_same (c : FCfg) (t : Nat) (x : DThread) : (setD c t x).d t = x := by simp [setD]
@[simp] theorem setD_d_other (c : FCfg) (t u : Nat) (x : DThread) (h : u ≠ t) : (setD c t x).d u = c.d u := by simp [setD, h]
@[simp] theorem setD_core (c : FCfg) (t : Nat) (x : DThread) : (setD c t x).core = c.core := rfl
@[simp] theorem setD_mv (c : FCfg) (t : Nat) (x : DThread) : (setD c t x).mv = c.mv := rfl
@[simp] theorem setD_dr (c : FCfg) (t : Nat) (x : DThread) : (setD c t x).dr = c.dr := rfl

/-- what one step of thread `t` must establish: the coupling again, and the ledger equation of the step -/
def StepOk (s : ISrc) (t : Nat) (c c' : FCfg) : Prop :=
  TI c' t ∧
  ∀ p, c'.mv.count p + c'.dr.count p + (held c' t).count p + (prod s c.core.P).count p
      = c.mv.count p + c.dr.count p + (held c t).count p + (prod s c'.core.P).count p

theorem reqsOf_cons_bufnew (n : Nat) (k : Nat) (rest : List SOp) (buf : Option Nat) (h : n ≠ 0) :
    reqsOf (⟨k, .bufnew n⟩ :: rest) buf = reqsOf rest (some n) := by
  simp [reqsOf, h]

/-- a thread that is dead, or has nothing left to do, does not move -/
theorem step_noop (s : ISrc) (t : Nat) (c : FCfg)
    (h : (c.d t).dead = true ∨ ((c.d t).cur = none ∧ (c.d t).todo = [])) : step s t c = (c, []) := by
  unfold step stepAux
  rcases h with h | ⟨h1, h2⟩
  · simp [h]
  · by_cases hd : (c.d t).dead = true <;> simp [hd, h1, h2]

theorem core_step_idle_cons (s : Script) (t : Nat) (c : Cfg) (r : Req) (rest : List Req)
    (hpc : (c.th t).pc = .idle) (htd : (c.th t).todo = r :: rest) (hr : r ≠ .skip) :
    IW.step s t c = IW.setTh c t { (c.th t) with pc := .resv r, todo := rest } := by
  cases r <;> simp_all [IW.step]

theorem core_step_idle_skip (s : Script) (t : Nat) (c : Cfg) (rest : List Req)
    (hpc : (c.th t).pc = .idle) (htd : (c.th t).todo = .skip :: rest) :
    IW.step s t c = IW.setTh c t { (c.th t) with pc := .skp, todo := rest } := by
  unfold IW.step
  simp only [hpc, htd]

theorem step_call (s : ISrc) (hown : s.owning = true) (t : Nat) (c : FCfg) (hW : stepW s.fn t c.core = IW.step s.fn t c.core)
    (h : TI c t) (hd : (c.d t).dead = false) (hcur : (c.d t).cur = none) (o : SOp) (rest : List SOp)
    (htd : (c.d t).todo = o :: rest) : StepOk s t c (step s t c).1 := by
  obtain ⟨hpc, hlb⟩ := h.quiet hd (Or.inl hcur)
  have htodo := h.todo hd
  rw [htd] at htodo
  unfold step stepAux
  simp only [hd, hcur, htd, Bool.false_eq_true, ↓reduceIte]
  obtain ⟨k, op⟩ := o
  cases op with
  | bufnew n =>
    by_cases hn : n = 0
    · subst hn
      simp only [callStep, ↓reduceIte]
      refine ⟨⟨?_, ?_, ?_, ?_, ?_⟩, ?_⟩ <;> simp [held, hlb, hpc, coreAcc]
    · simp only [callStep, hn, ↓reduceIte]
      refine ⟨⟨?_, ?_, ?_, ?_, ?_⟩, ?_⟩
      · intro _; simp [bsz, htodo, reqsOf, hn]
      · intro _ _; simp [hpc, hlb]
      · intro _ op hop; simp [hcur] at hop
      · intro _ op hop; simp [hcur] at hop
      · intro hd'; simp [hd] at hd'
      · intro p
        cases hb : (c.d t).buf <;> simp [held, hb, hlb, hpc, coreAcc, somes_replicate_none, somes_nil, List.count_append, hown]
        omega
  | bufdrop =>
    simp only [callStep]
    refine ⟨⟨?_, ?_, ?_, ?_, ?_⟩, ?_⟩
    · intro _; simp [bsz, htodo, reqsOf]
    · intro _ _; simp [hpc, hlb]
    · intro _ op hop; simp [hcur] at hop
    · intro _ op hop; simp [hcur] at hop
    · intro hd'; simp [hd] at hd'
    · intro p
      cases hb : (c.d t).buf <;> simp [held, hb, hlb, hpc, coreAcc, somes_nil, List.count_append, hown]
      omega
  | len =>
    simp only [callStep]
    refine ⟨⟨?_, ?_, ?_, ?_, ?_⟩, ?_⟩
    · intro _; simp [bsz, htodo, reqsOf, reqOf]
    · intro _ _; simp [hpc, hlb]
    · intro _ op hop hq; simp at hop; subst hop; simp [isQuery] at hq
    · intro _ op hop hq; simp at hop; subst hop; simp [isQuery] at hq
    · intro hd'; simp [hd] at hd'
    · intro p; simp [held, hlb, hpc, coreAcc]
  | hasmore =>
    simp only [callStep]
    refine ⟨⟨?_, ?_, ?_, ?_, ?_⟩, ?_⟩
    · intro _; simp [bsz, htodo, reqsOf, reqOf]
    · intro _ _; simp [hpc, hlb]
    · intro _ op hop hq; simp at hop; subst hop; simp [isQuery] at hq
    · intro _ op hop hq; simp at hop; subst hop; simp [isQuery] at hq
    · intro hd'; simp [hd] at hd'
    · intro p; simp [held, hlb, hpc, coreAcc]
  | get i =>
    simp only [callStep]
    refine ⟨⟨?_, ?_, ?_, ?_, ?_⟩, ?_⟩ <;> simp [held, hlb, hpc, coreAcc]
  | clone j =>
    simp only [callStep]
    refine ⟨⟨?_, ?_, ?_, ?_, ?_⟩, ?_⟩ <;> simp [held, hlb, hpc, coreAcc]
  | next =>
    have hq : reqsOf (⟨k, .next⟩ :: rest) (bsz (c.d t)) = .single false :: reqsOf rest (bsz (c.d t)) := by simp [reqsOf, reqOf]
    rw [hq] at htodo
    have hcs := core_step_idle_cons s.fn t c.core _ _ hpc htodo (by simp)
    simp only [callStep, loopParams, hW, hcs, ↓reduceIte]
    refine ⟨⟨?_, ?_, ?_, ?_, ?_⟩, ?_⟩
    · intro _; simp [bsz]
    · intro _ hq'; simp [isQuery] at hq'
    · intro _ op hop _; simp at hop; subst hop; exact ⟨.single false, by simp [opReq, reqOf], Or.inr ⟨by simp, Or.inl (by simp [pcReq, setTh])⟩⟩
    · intro _ op hop _; simp at hop; subst hop; simp [opReq, reqOf, hlb]
    · intro hd'; simp [hd] at hd'
    · intro p; simp [held, hlb, hpc, coreAcc]
  | nextv =>
    have hq : reqsOf (⟨k, .nextv⟩ :: rest) (bsz (c.d t)) = .single false :: reqsOf rest (bsz (c.d t)) := by simp [reqsOf, reqOf]
    rw [hq] at htodo
    have hcs := core_step_idle_cons s.fn t c.core _ _ hpc htodo (by simp)
    simp only [callStep, loopParams, hW, hcs, ↓reduceIte]
    refine ⟨⟨?_, ?_, ?_, ?_, ?_⟩, ?_⟩
    · intro _; simp [bsz]
    · intro _ hq'; simp [isQuery] at hq'
    · intro _ op hop _; simp at hop; subst hop; exact ⟨.single false, by simp [opReq, reqOf], Or.inr ⟨by simp, Or.inl (by simp [pcReq, setTh])⟩⟩
    · intro _ op hop _; simp at hop; subst hop; simp [opReq, reqOf, hlb]
    · intro hd'; simp [hd] at hd'
    · intro p; simp [held, hlb, hpc, coreAcc]
  | chunk n kk =>
    cases n with
    | zero =>
      simp only [callStep]
      refine ⟨⟨?_, ?_, ?_, ?_, ?_⟩, ?_⟩
      · intro _; simp [bsz, htodo, reqsOf, reqOf]
      · intro _ _; simp [hpc, hlb]
      · intro _ op hop; simp [hcur] at hop
      · intro _ op hop; simp [hcur] at hop
      · intro hd'; simp [hd] at hd'
      · intro p; simp [held, hlb, hpc, coreAcc]
    | succ m =>
      have hq : reqsOf (⟨k, .chunk (m + 1) kk⟩ :: rest) (bsz (c.d t)) = .chunk (m + 1) :: reqsOf rest (bsz (c.d t)) := by simp [reqsOf, reqOf]
      rw [hq] at htodo
      have hcs := core_step_idle_cons s.fn t c.core _ _ hpc htodo (by simp)
      simp only [callStep, loopParams, hW, hcs, ↓reduceIte]
      refine ⟨⟨?_, ?_, ?_, ?_, ?_⟩, ?_⟩
      · intro _; simp [bsz]
      · intro _ hq'; simp [isQuery] at hq'
      · intro _ op hop _; simp at hop; subst hop; exact ⟨.chunk (m + 1), by simp [opReq, reqOf], Or.inr ⟨by simp, Or.inl (by simp [pcReq, setTh])⟩⟩
      · intro _ op hop _; simp at hop; subst hop; simp [opReq, reqOf, hlb]
      · intro hd'; simp [hd] at hd'
      · intro p; simp [held, hlb, hpc, coreAcc]
  | skip =>
    have hq : reqsOf (⟨k, .skip⟩ :: rest) (bsz (c.d t)) = .skip :: reqsOf rest (bsz (c.d t)) := by simp [reqsOf, reqOf]
    rw [hq] at htodo
    have hcs := core_step_idle_skip s.fn t c.core _ hpc htodo
    simp only [callStep, loopParams, hW, hcs, ↓reduceIte]
    refine ⟨⟨?_, ?_, ?_, ?_, ?_⟩, ?_⟩
    · intro _; simp [bsz]
    · intro _ hq'; simp [isQuery] at hq'
    · intro _ op hop _; simp at hop; subst hop; exact ⟨.skip, by simp [opReq, reqOf], Or.inl ⟨rfl, by simp [setTh]⟩⟩
    · intro _ op hop _; simp at hop; subst hop; simp [opReq, reqOf, hlb]
    · intro hd'; simp [hd] at hd'
    · intro p; simp [held, hlb, hpc, coreAcc]
  | bufnext kk =>
    cases hb : (c.d t).buf with
    | none =>
      simp only [callStep, hb]
      refine ⟨⟨?_, ?_, ?_, ?_, ?_⟩, ?_⟩ <;> simp [held, hlb, hpc, coreAcc, hb]
    | some l =>
      have hq : reqsOf (⟨k, .bufnext kk⟩ :: rest) (bsz (c.d t)) = .buffered l.length false :: reqsOf rest (bsz (c.d t)) := by
        simp [reqsOf, bsz, hb]
      rw [hq] at htodo
      have hcs := core_step_idle_cons s.fn t c.core _ _ hpc htodo (by simp)
      simp only [callStep, hb, hW, hcs, ↓reduceIte]
      refine ⟨⟨?_, ?_, ?_, ?_, ?_⟩, ?_⟩
      · intro _; simp [bsz, hb]
      · intro _ hq'; simp [isQuery] at hq'
      · intro _ op hop _; simp at hop; subst hop
        exact ⟨.buffered l.length false, by simp [opReq, bsz, hb], Or.inr ⟨by simp, Or.inl (by simp [pcReq, setTh])⟩⟩
      · intro _ op hop _; simp at hop; subst hop
        refine ⟨?_, ?_⟩
        · intro n lp hreq
          simp [opReq, bsz, hb] at hreq
          obtain ⟨rfl, rfl⟩ := hreq
          exact ⟨l, by simp [actBuf, hb], rfl, by simp [bufSt, BufSt.ok, setTh]⟩
        · intro _; simp [hlb]
      · intro hd'; simp [hd] at hd'
      · intro p; simp [held, hlb, hpc, coreAcc, hb]
  | foreach n pa =>
    match n with
    | 0 =>
      simp only [callStep, loopParams, ↓reduceIte]
      refine ⟨⟨?_, ?_, ?_, ?_, ?_⟩, ?_⟩ <;> simp [held, hlb, hpc, coreAcc]
    | 1 =>
      have hq : reqsOf (⟨k, .foreach 1 pa⟩ :: rest) (bsz (c.d t)) = .single true :: reqsOf rest (bsz (c.d t)) := by simp [reqsOf, reqOf]
      rw [hq] at htodo
      have hcs := core_step_idle_cons s.fn t c.core _ _ hpc htodo (by simp)
      simp only [callStep, loopParams, hW, hcs, ↓reduceIte]
      refine ⟨⟨?_, ?_, ?_, ?_, ?_⟩, ?_⟩
      · intro _; simp [bsz]
      · intro _ hq'; simp [isQuery] at hq'
      · intro _ op hop _; simp at hop; subst hop; exact ⟨.single true, by simp [opReq, reqOf], Or.inr ⟨by simp, Or.inl (by simp [pcReq, setTh])⟩⟩
      · intro _ op hop _; simp at hop; subst hop; simp [opReq, reqOf]
      · intro hd'; simp [hd] at hd'
      · intro p; simp [held, hlb, hpc, coreAcc]
    | m + 2 =>
      have hq : reqsOf (⟨k, .foreach (m + 2) pa⟩ :: rest) (bsz (c.d t)) = .buffered (m + 2) true :: reqsOf rest (bsz (c.d t)) := by simp [reqsOf, reqOf]
      rw [hq] at htodo
      have hcs := core_step_idle_cons s.fn t c.core _ _ hpc htodo (by simp)
      simp only [callStep, loopParams, hW, hcs, ↓reduceIte]
      refine ⟨⟨?_, ?_, ?_, ?_, ?_⟩, ?_⟩
      · intro _; simp [bsz]
      · intro _ hq'; simp [isQuery] at hq'
      · intro _ op hop _; simp at hop; subst hop; exact ⟨.buffered (m + 2) true, by simp [opReq, reqOf], Or.inr ⟨by simp, Or.inl (by simp [pcReq, setTh])⟩⟩
      · intro _ op hop _; simp at hop; subst hop
        refine ⟨?_, ?_⟩
        · intro n' lp hreq
          simp [opReq, reqOf] at hreq
          obtain ⟨rfl, rfl⟩ := hreq
          exact ⟨List.replicate (m + 2) none, by simp [actBuf], by simp, by simp [bufSt, BufSt.ok, setTh, somes_replicate_none]⟩
        · intro hne; exact absurd (by simp [opReq, reqOf]) (hne (m + 2))
      · intro hd'; simp [hd] at hd'
      · intro p; simp [held, hlb, hpc, coreAcc, somes_replicate_none, somes_nil]
  | enumforeach n pa =>
    match n with
    | 0 =>
      simp only [callStep, loopParams, ↓reduceIte]
      refine ⟨⟨?_, ?_, ?_, ?_, ?_⟩, ?_⟩ <;> simp [held, hlb, hpc, coreAcc]
    | 1 =>
      have hq : reqsOf (⟨k, .enumforeach 1 pa⟩ :: rest) (bsz (c.d t)) = .single true :: reqsOf rest (bsz (c.d t)) := by simp [reqsOf, reqOf]
      rw [hq] at htodo
      have hcs := core_step_idle_cons s.fn t c.core _ _ hpc htodo (by simp)
      simp only [callStep, loopParams, hW, hcs, ↓reduceIte]
      refine ⟨⟨?_, ?_, ?_, ?_, ?_⟩, ?_⟩
      · intro _; simp [bsz]
      · intro _ hq'; simp [isQuery] at hq'
      · intro _ op hop _; simp at hop; subst hop; exact ⟨.single true, by simp [opReq, reqOf], Or.inr ⟨by simp, Or.inl (by simp [pcReq, setTh])⟩⟩
      · intro _ op hop _; simp at hop; subst hop; simp [opReq, reqOf]
      · intro hd'; simp [hd] at hd'
      · intro p; simp [held, hlb, hpc, coreAcc]
    | m + 2 =>
      have hq : reqsOf (⟨k, .enumforeach (m + 2) pa⟩ :: rest) (bsz (c.d t)) = .buffered (m + 2) true :: reqsOf rest (bsz (c.d t)) := by simp [reqsOf, reqOf]
      rw [hq] at htodo
      have hcs := core_step_idle_cons s.fn t c.core _ _ hpc htodo (by simp)
      simp only [callStep, loopParams, hW, hcs, ↓reduceIte]
      refine ⟨⟨?_, ?_, ?_, ?_, ?_⟩, ?_⟩
      · intro _; simp [bsz]
      · intro _ hq'; simp [isQuery] at hq'
      · intro _ op hop _; simp at hop; subst hop; exact ⟨.buffered (m + 2) true, by simp [opReq, reqOf], Or.inr ⟨by simp, Or.inl (by simp [pcReq, setTh])⟩⟩
      · intro _ op hop _; simp at hop; subst hop
        refine ⟨?_, ?_⟩
        · intro n' lp hreq
          simp [opReq, reqOf] at hreq
          obtain ⟨rfl, rfl⟩ := hreq
          exact ⟨List.replicate (m + 2) none, by simp [actBuf], by simp, by simp [bufSt, BufSt.ok, setTh, somes_replicate_none]⟩
        · intro hne; exact absurd (by simp [opReq, reqOf]) (hne (m + 2))
      · intro hd'; simp [hd] at hd'
      · intro p; simp [held, hlb, hpc, coreAcc, somes_replicate_none, somes_nil]
  | fold n =>
    match n with
    | 0 =>
      simp only [callStep, loopParams, ↓reduceIte]
      refine ⟨⟨?_, ?_, ?_, ?_, ?_⟩, ?_⟩ <;> simp [held, hlb, hpc, coreAcc]
    | 1 =>
      have hq : reqsOf (⟨k, .fold 1⟩ :: rest) (bsz (c.d t)) = .single true :: reqsOf rest (bsz (c.d t)) := by simp [reqsOf, reqOf]
      rw [hq] at htodo
      have hcs := core_step_idle_cons s.fn t c.core _ _ hpc htodo (by simp)
      simp only [callStep, loopParams, hW, hcs, ↓reduceIte]
      refine ⟨⟨?_, ?_, ?_, ?_, ?_⟩, ?_⟩
      · intro _; simp [bsz]
      · intro _ hq'; simp [isQuery] at hq'
      · intro _ op hop _; simp at hop; subst hop; exact ⟨.single true, by simp [opReq, reqOf], Or.inr ⟨by simp, Or.inl (by simp [pcReq, setTh])⟩⟩
      · intro _ op hop _; simp at hop; subst hop; simp [opReq, reqOf]
      · intro hd'; simp [hd] at hd'
      · intro p; simp [held, hlb, hpc, coreAcc]
    | m + 2 =>
      have hq : reqsOf (⟨k, .fold (m + 2)⟩ :: rest) (bsz (c.d t)) = .buffered (m + 2) true :: reqsOf rest (bsz (c.d t)) := by simp [reqsOf, reqOf]
      rw [hq] at htodo
      have hcs := core_step_idle_cons s.fn t c.core _ _ hpc htodo (by simp)
      simp only [callStep, loopParams, hW, hcs, ↓reduceIte]
      refine ⟨⟨?_, ?_, ?_, ?_, ?_⟩, ?_⟩
      · intro _; simp [bsz]
      · intro _ hq'; simp [isQuery] at hq'
      · intro _ op hop _; simp at hop; subst hop; exact ⟨.buffered (m + 2) true, by simp [opReq, reqOf], Or.inr ⟨by simp, Or.inl (by simp [pcReq, setTh])⟩⟩
      · intro _ op hop _; simp at hop; subst hop
        refine ⟨?_, ?_⟩
        · intro n' lp hreq
          simp [opReq, reqOf] at hreq
          obtain ⟨rfl, rfl⟩ := hreq
          exact ⟨List.replicate (m + 2) none, by simp [actBuf], by simp, by simp [bufSt, BufSt.ok, setTh, somes_replicate_none]⟩
        · intro hne; exact absurd (by simp [opReq, reqOf]) (hne (m + 2))
      · intro hd'; simp [hd] at hd'
      · intro p; simp [held, hlb, hpc, coreAcc, somes_replicate_none, somes_nil]
  | values =>
    have hq : reqsOf (⟨k, .values⟩ :: rest) (bsz (c.d t)) = .single true :: reqsOf rest (bsz (c.d t)) := by simp [reqsOf, reqOf]
    rw [hq] at htodo
    have hcs := core_step_idle_cons s.fn t c.core _ _ hpc htodo (by simp)
    simp only [callStep, loopParams, hW, hcs, ↓reduceIte]
    refine ⟨⟨?_, ?_, ?_, ?_, ?_⟩, ?_⟩
    · intro _; simp [bsz]
    · intro _ hq'; simp [isQuery] at hq'
    · intro _ op hop _; simp at hop; subst hop; exact ⟨.single true, by simp [opReq, reqOf], Or.inr ⟨by simp, Or.inl (by simp [pcReq, setTh])⟩⟩
    · intro _ op hop _; simp at hop; subst hop; simp [opReq, reqOf]
    · intro hd'; simp [hd] at hd'
    · intro p; simp [held, hlb, hpc, coreAcc]
  | idsvalues =>
    have hq : reqsOf (⟨k, .idsvalues⟩ :: rest) (bsz (c.d t)) = .single true :: reqsOf rest (bsz (c.d t)) := by simp [reqsOf, reqOf]
    rw [hq] at htodo
    have hcs := core_step_idle_cons s.fn t c.core _ _ hpc htodo (by simp)
    simp only [callStep, loopParams, hW, hcs, ↓reduceIte]
    refine ⟨⟨?_, ?_, ?_, ?_, ?_⟩, ?_⟩
    · intro _; simp [bsz]
    · intro _ hq'; simp [isQuery] at hq'
    · intro _ op hop _; simp at hop; subst hop; exact ⟨.single true, by simp [opReq, reqOf], Or.inr ⟨by simp, Or.inl (by simp [pcReq, setTh])⟩⟩
    · intro _ op hop _; simp at hop; subst hop; simp [opReq, reqOf]
    · intro hd'; simp [hd] at hd'
    · intro p; simp [held, hlb, hpc, coreAcc]


/-- `try_get_len` / `has_more` in progress: no protocol step, nothing moves -/
theorem step_query (s : ISrc) (t : Nat) (c : FCfg) (h : TI c t) (hd : (c.d t).dead = false) (op : Op)
    (hcur : (c.d t).cur = some op) (hq : isQuery op = true) : StepOk s t c (step s t c).1 := by
  obtain ⟨hpc, hlb⟩ := h.quiet hd (Or.inr ⟨op, hcur, hq⟩)
  have htodo := h.todo hd
  unfold step stepAux
  simp only [hd, hcur, Bool.false_eq_true, ↓reduceIte]
  have hop : op = .len ∨ op = .hasmore := by cases op <;> simp_all [isQuery]
  rcases hop with rfl | rfl <;>
  · simp only [queryStep]
    split
    · split
      · refine ⟨⟨?_, ?_, ?_, ?_, ?_⟩, ?_⟩ <;> simp_all [held, coreAcc, bsz]
      · split
        · refine ⟨⟨?_, ?_, ?_, ?_, ?_⟩, ?_⟩ <;> simp_all [held, coreAcc, bsz]
        · refine ⟨⟨?_, ?_, ?_, ?_, ?_⟩, ?_⟩ <;> simp_all [held, coreAcc, bsz, isQuery]
    · refine ⟨⟨?_, ?_, ?_, ?_, ?_⟩, ?_⟩ <;> simp_all [held, coreAcc, bsz]

/-- for an op that talks to the protocol machine, `stepAux` is the protocol branch -/
theorem stepAux_proto (s : ISrc) (t : Nat) (c : FCfg) (core' : Cfg) (op : Op)
    (hd : (c.d t).dead = false) (hcur : (c.d t).cur = some op) (hq : isQuery op = false) :
    stepAux s t c core' =
      (let r := insFx s c (c.d t) (c.core.th t).pc (loopParams op).isSome
                  (emitEvs s t c.core)
       if r.2.2.2 then (setD r.1 t r.2.1, r.2.2.1, true) else
       match ((core'.th t).outs.drop (c.core.th t).outs.length).head? with
       | none => (setD r.1 t r.2.1, r.2.2.1, true)
       | some o => retFx s t r.1 r.2.1 op o r.2.2.1) := by
  unfold stepAux
  simp only [hd, hcur, Bool.false_eq_true, ↓reduceIte]
  cases op <;> first | rfl | (simp [isQuery] at hq)

theorem newOut_same (y y' : Thread) (h : y'.outs = y.outs) : (y'.outs.drop y.outs.length).head? = none := by
  simp [h]

theorem newOut_ret (y : Thread) (r : Req) (o : POut) : ((ret y r o).outs.drop y.outs.length).head? = some o := by
  unfold ret; split <;> simp

theorem insFx_other (s : ISrc) (c : FCfg) (x : DThread) (pc : Pc) (lp : Bool) (evs : List Ev)
    (h1 : ∀ r b acc, pc ≠ .ins r b acc) (h2 : ∀ b n, pc ≠ .unw b n) : insFx s c x pc lp evs = (c, x, evs, false) := by
  cases pc <;> simp_all [insFx]

/-- the step of a thread that executes a protocol op, in terms of the protocol step -/
theorem step_proto_eq (s : ISrc) (t : Nat) (c : FCfg) (op : Op)
    (hW : stepW s.fn t c.core = IW.step s.fn t c.core)
    (hd : (c.d t).dead = false) (hcur : (c.d t).cur = some op) (hq : isQuery op = false) :
    (step s t c).1 =
      (let r := insFx s c (c.d t) (c.core.th t).pc (loopParams op).isSome
                  (emitEvs s t c.core)
       let q : FCfg × List Ev × Bool :=
         if r.2.2.2 then (setD r.1 t r.2.1, r.2.2.1, true) else
         match (((IW.step s.fn t c.core).th t).outs.drop (c.core.th t).outs.length).head? with
         | none => (setD r.1 t r.2.1, r.2.2.1, true)
         | some o => retFx s t r.1 r.2.1 op o r.2.2.1
       { q.1 with core := if q.2.2 then IW.step s.fn t c.core else c.core }) := by
  simp only [step, stepAux_proto s t c _ op hd hcur hq, hW]

/-- the protocol machine moves, the decoration does not, nothing is produced or handed over -/
theorem stepOk_pc (s : ISrc) (t : Nat) (c : FCfg) (core' : Cfg) (h : TI c t) (hd : (c.d t).dead = false)
    (op : Op) (hcur : (c.d t).cur = some op) (hq : isQuery op = false) (r : Req) (hreq : opReq (c.d t) op = some r)
    (htodo : (core'.th t).todo = (c.core.th t).todo) (hP : prod s core'.P = prod s c.core.P)
    (hruns : PcRuns (core'.th t).pc r)
    (hst : ∀ l lp, (bufSt (c.core.th t).pc).ok l lp → (bufSt (core'.th t).pc).ok l lp)
    (hacc : coreAcc (core'.th t).pc = coreAcc (c.core.th t).pc) :
    StepOk s t c { core := core', d := (setD c t (c.d t)).d, mv := (setD c t (c.d t)).mv, dr := (setD c t (c.d t)).dr } := by
  have hb := h.bufs hd op hcur hq
  refine ⟨⟨?_, ?_, ?_, ?_, ?_⟩, ?_⟩
  · intro _; simp only [setD_d_same, htodo]; exact h.todo hd
  · intro _ hq'
    simp only [setD_d_same] at hq'
    rcases hq' with h1 | ⟨op', h1, h2⟩
    · simp [hcur] at h1
    · simp [hcur] at h1; subst h1; simp [hq] at h2
  · intro _ op' hop' _
    simp only [setD_d_same] at hop' ⊢
    simp [hcur] at hop'; subst hop'
    exact ⟨r, hreq, hruns⟩
  · intro _ op' hop' _
    simp only [setD_d_same] at hop' ⊢
    simp [hcur] at hop'; subst hop'
    refine ⟨?_, hb.2⟩
    intro n lp hr
    obtain ⟨l, h1, h2, h3⟩ := hb.1 n lp hr
    exact ⟨l, h1, h2, hst l lp h3⟩
  · intro hd'; simp [hd] at hd'
  · intro p; simp [held, hacc, hP]

theorem retFx_flag (s : ISrc) (t : Nat) (c : FCfg) (x : DThread) (op : Op) (o : POut) (evs : List Ev) :
    (retFx s t c x op o evs).2.2 = true := by
  unfold retFx
  repeat' (first | rfl | split | dsimp only)

/-- the end is reported to the op: it returns; a loop gives its buffer up -/
theorem retFx_fin (s : ISrc) (t : Nat) (c : FCfg) (x : DThread) (op : Op) (evs : List Ev) (hq : isQuery op = false) :
    (retFx s t c x op .fin evs).1 =
      setD c t { x with cur := none, lbuf := if (loopParams op).isSome then none else x.lbuf } := by
  cases op <;> first | (simp [retFx, loopParams]; done) | (simp [isQuery] at hq)

theorem ret_fin_pc (y : Thread) (r : Req) : (ret y r .fin).pc = .idle ∧ (ret y r .fin).todo = y.todo := by
  simp [ret]

/-- a pull (or skip) that reports the end / returns without elements: the op is over, nothing is held any more -/
theorem stepOk_fin (s : ISrc) (t : Nat) (c : FCfg) (core' : Cfg) (h : TI c t) (hd : (c.d t).dead = false)
    (op : Op) (hcur : (c.d t).cur = some op) (hq : isQuery op = false) (r : Req)
    (hth : core'.th t = ret (c.core.th t) r .fin) (hP : core'.P = c.core.P)
    (hclean : ∀ l lp, (bufSt (c.core.th t).pc).ok l lp → lp = true → somes l = [])
    (hacc : coreAcc (c.core.th t).pc = []) (evs : List Ev) :
    StepOk s t c { core := core', d := (retFx s t c (c.d t) op .fin evs).1.d, mv := (retFx s t c (c.d t) op .fin evs).1.mv,
                   dr := (retFx s t c (c.d t) op .fin evs).1.dr } := by
  have hb := h.bufs hd op hcur hq
  obtain ⟨r0, hreq, _⟩ := h.busy hd op hcur hq
  rw [retFx_fin s t c (c.d t) op evs hq]
  have hlb : (if (loopParams op).isSome then none else (c.d t).lbuf) = none := by
    split
    · rfl
    · rename_i hnl
      apply hb.2
      intro n hn
      cases op <;> simp_all [opReq, reqOf, loopParams, bsz] <;> (try split at hn) <;> simp_all
  have hsl : somes ((c.d t).lbuf.getD []) = [] := by
    cases hl : (c.d t).lbuf with
    | none => rfl
    | some l =>
      -- a live loop buffer: the op is a loop over a buffered request
      have : ∃ n, opReq (c.d t) op = some (.buffered n true) := by
        by_cases hx : ∀ n, opReq (c.d t) op ≠ some (.buffered n true)
        · have := hb.2 hx; simp [hl] at this
        · simpa using hx
      obtain ⟨n, hn⟩ := this
      obtain ⟨l', h1, _, h3⟩ := hb.1 n true hn
      simp [actBuf, hl] at h1; subst h1
      simpa using hclean l true h3 rfl
  refine ⟨⟨?_, ?_, ?_, ?_, ?_⟩, ?_⟩
  · intro _; simp only [setD_d_same, hth, (ret_fin_pc _ _).2, bsz]; exact h.todo hd
  · intro _ _; simp [hth, (ret_fin_pc _ _).1, hlb]
  · intro _ op' hop'; simp at hop'
  · intro _ op' hop'; simp at hop'
  · intro hd'; simp [hd] at hd'
  · intro p
    simp only [held, setD_d_same, setD_mv, setD_dr, hth, (ret_fin_pc _ _).1, hlb, hP, hacc]
    simp [hsl, coreAcc, somes_nil]

theorem opReq_congr (x x' : DThread) (op : Op) (h : x'.buf = x.buf) : opReq x' op = opReq x op := by
  cases op <;> simp [opReq, bsz, h]

theorem opReq_lp (x : DThread) (op : Op) (n : Nat) (lp : Bool) (h : opReq x op = some (.buffered n lp)) :
    (loopParams op).isSome = lp := by
  cases op <;> simp_all [opReq, reqOf, loopParams, bsz] <;> (repeat' split at h) <;> (try simp_all) <;> (try (obtain ⟨_, _, _, h3⟩ := h; exact h3))

theorem somes_set_clean (l : List (Option Nat)) (acc : List Nat) (v : Nat) (hp : Prefix l acc) (hs : somes l = acc)
    (hlt : acc.length < l.length) : somes (setSlot l acc.length (some v)) = acc ++ [v] := by
  have h1 : somes (l.take acc.length) = acc := by rw [hp, somes_map_some]
  have h2 : somes (l.drop acc.length) = [] := by
    have := congrArg somes (List.take_append_drop acc.length l)
    rw [somes_append, h1, hs] at this
    simpa using this
  have h3 : l.drop acc.length = l[acc.length] :: l.drop (acc.length + 1) := by
    rw [List.drop_eq_getElem_cons hlt]
  have h4 : somes (l.drop (acc.length + 1)) = [] := by
    rw [h3] at h2
    cases hx : l[acc.length] with
    | none => simpa [hx, somes_cons_none] using h2
    | some o => simp [hx, somes_cons_some] at h2
  unfold setSlot
  rw [List.set_eq_take_append_cons_drop, if_pos hlt, somes_append, h1, somes_cons_some, h4]

theorem prod_succ_some (s : ISrc) (p v : Nat) (h : s.fn p = .some v) : prod s (p + 1) = prod s p ++ [v] := by
  rw [prod_succ, h]
theorem prod_succ_none (s : ISrc) (p : Nat) (h : s.fn p = .none) : prod s (p + 1) = prod s p := by
  rw [prod_succ, h]; simp
theorem prod_succ_panic (s : ISrc) (p : Nat) (h : s.fn p = .panic) : prod s (p + 1) = prod s p := by
  rw [prod_succ, h]; simp

/-- the (index, value) pairs a loop's closure sees for an output -/
def pairsOf : POut → List (Nat × Nat)
  | .item b v => [(b, v)]
  | .chunk b vals => ((List.range vals.length).zip vals).map fun (i, v) => (b + i, v)
  | _ => []

theorem pairsOf_snd_chunk (b : Nat) (vals : List Nat) : (pairsOf (.chunk b vals)).map (·.2) = vals := by
  simp only [pairsOf, List.map_map]
  have : ((fun x : Nat × Nat => x.2) ∘ fun x : Nat × Nat => (b + x.1, x.2)) = fun x => x.2 := by funext x; rfl
  rw [this]
  exact List.map_snd_zip (by simp)

theorem pairsOf_len_chunk (b : Nat) (vals : List Nat) : (pairsOf (.chunk b vals)).length = vals.length := by
  simp [pairsOf]

/-- a loop op receives elements: its closure visits them (all, or up to a panic) -/
theorem retFx_loop (s : ISrc) (t : Nat) (c : FCfg) (x : DThread) (op : Op) (o : POut) (evs : List Ev)
    (n : Nat) (wi : Bool) (pa : Option Nat) (isf : Bool) (hl : loopParams op = some (n, wi, pa, isf)) (ho : o ≠ .fin) :
    (retFx s t c x op o evs).1 =
      (match (visitAll s wi pa (pairsOf o) x.visits x.sum []).2.2.2 with
       | none =>
         setD { c with mv := c.mv ++ (pairsOf o).map (·.2) } t
           { x with visits := (visitAll s wi pa (pairsOf o) x.visits x.sum []).2.1,
                    sum := (visitAll s wi pa (pairsOf o) x.visits x.sum []).2.2.1,
                    lbuf := x.lbuf.map fun l => (List.replicate (pairsOf o).length none) ++ l.drop (pairsOf o).length }
       | some restLen =>
         setD { c with mv := c.mv ++ ((pairsOf o).take ((pairsOf o).length - restLen)).map (·.2),
                       dr := c.dr ++ (if s.owning then ((pairsOf o).drop ((pairsOf o).length - restLen)).map (·.2) else []) } t
           { x with dead := true, lbuf := none }) := by
  cases op <;> simp [loopParams] at hl <;>
  · obtain ⟨rfl, rfl, rfl, rfl⟩ := hl
    cases o <;> first | (exact absurd rfl ho) | (simp only [retFx, loopParams, pairsOf]; split <;> simp_all)


theorem count_take_drop (l : List Nat) (k p : Nat) : (l.take k).count p + (l.drop k).count p = l.count p := by
  rw [← List.count_append, List.take_append_drop]

/-- how a consumer splits a chunk: discarded by `nth`, taken, left in the chunk -/
theorem count_split3 (vals : List Nat) (sk j p : Nat) (h : sk ≤ j) :
    (vals.take sk).count p + ((vals.take j).drop sk).count p + (vals.drop j).count p = vals.count p := by
  have h1 := count_take_drop (vals.take j) sk p
  have h2 := count_take_drop vals j p
  have h3 : (vals.take j).take sk = vals.take sk := by rw [List.take_take, Nat.min_eq_left h]
  rw [h3] at h1
  omega

theorem step_proto (s : ISrc) (hown : s.owning = true) (t : Nat) (c : FCfg)
    (hW : stepW s.fn t c.core = IW.step s.fn t c.core) (hi : Inv s.fn c.core) (h : TI c t)
    (hd : (c.d t).dead = false) (op : Op) (hcur : (c.d t).cur = some op) (hq : isQuery op = false) :
    StepOk s t c (step s t c).1 := by
  obtain ⟨r, hreq, hruns⟩ := h.busy hd op hcur hq
  have hbufs := h.bufs hd op hcur hq
  have htodo := h.todo hd
  rw [step_proto_eq s t c op hW hd hcur hq]
  cases hpc : (c.core.th t).pc with
  | resv r' =>
    have hr : r' = r := by
      rcases hruns with ⟨_, h2⟩ | ⟨_, h2 | ⟨b, h2⟩⟩ <;> simp [hpc, pcReq] at h2; exact h2
    subst hr
    rw [insFx_other _ _ _ _ _ _ (by simp) (by simp)]
    have hst : IW.step s.fn t c.core = setTh { c.core with R := c.core.R + r'.len } t { (c.core.th t) with pc := .pre r' c.core.R } := by
      simp [IW.step, hpc]
    simp only [hst, Bool.false_eq_true, ↓reduceIte, setTh_th_same, newOut_same]
    exact stepOk_pc s t c _ h hd op hcur hq r' hreq (by simp) (by simp)
      (Or.inr ⟨by rcases hruns with ⟨h1, h2⟩ | ⟨h1, _⟩ <;> simp_all, Or.inl (by simp [pcReq])⟩)
      (by simp [hpc, bufSt]) (by simp [hpc, coreAcc])
  | pre r' b =>
    have hr : r' = r := by
      rcases hruns with ⟨_, h2⟩ | ⟨_, h2 | ⟨b0, h2⟩⟩ <;> simp [hpc, pcReq] at h2; exact h2
    subst hr
    have hrs : r' ≠ .skip := by rcases hruns with ⟨h1, h2⟩ | ⟨h1, _⟩ <;> simp_all
    rw [insFx_other _ _ _ _ _ _ (by simp) (by simp)]
    by_cases hC : c.core.C = true
    · have hst : IW.step s.fn t c.core = setTh c.core t (ret (c.core.th t) r' .fin) := by simp [IW.step, hpc, hC]
      simp only [hst, setTh_th_same, newOut_ret, retFx_flag, Bool.false_eq_true, ↓reduceIte]
      exact stepOk_fin s t c _ h hd op hcur hq r' (by simp) (by simp) (by simp [hpc, bufSt, BufSt.ok]) (by simp [hpc, coreAcc]) _
    · have hst : IW.step s.fn t c.core = setTh c.core t { (c.core.th t) with pc := .wait r' b } := by simp [IW.step, hpc, hC]
      simp only [hst, Bool.false_eq_true, ↓reduceIte, setTh_th_same, newOut_same]
      exact stepOk_pc s t c _ h hd op hcur hq r' hreq (by simp) (by simp)
        (Or.inr ⟨hrs, Or.inl (by simp [pcReq])⟩) (by simp [hpc, bufSt, BufSt.ok]) (by simp [hpc, coreAcc])
  | wait r' b =>
    have hr : r' = r := by
      rcases hruns with ⟨_, h2⟩ | ⟨_, h2 | ⟨b0, h2⟩⟩ <;> simp [hpc, pcReq] at h2; exact h2
    subst hr
    have hrs : r' ≠ .skip := by rcases hruns with ⟨h1, h2⟩ | ⟨h1, _⟩ <;> simp_all
    rw [insFx_other _ _ _ _ _ _ (by simp) (by simp)]
    by_cases hY : b = c.core.Y
    · have hst : IW.step s.fn t c.core = setTh c.core t { (c.core.th t) with pc := .ent r' b } := by simp [IW.step, hpc, hY]
      simp only [hst, Bool.false_eq_true, ↓reduceIte, setTh_th_same, newOut_same]
      exact stepOk_pc s t c _ h hd op hcur hq r' hreq (by simp) (by simp)
        (Or.inr ⟨hrs, Or.inl (by simp [pcReq])⟩) (by simp [hpc, bufSt, BufSt.ok]) (by simp [hpc, coreAcc])
    · by_cases hlt : b < c.core.Y
      · have hst : IW.step s.fn t c.core = setTh c.core t (ret (c.core.th t) r' .fin) := by simp [IW.step, hpc, hY, hlt]
        simp only [hst, setTh_th_same, newOut_ret, retFx_flag, Bool.false_eq_true, ↓reduceIte]
        exact stepOk_fin s t c _ h hd op hcur hq r' (by simp) (by simp) (by simp [hpc, bufSt, BufSt.ok]) (by simp [hpc, coreAcc]) _
      · have hst : IW.step s.fn t c.core = setTh c.core t { (c.core.th t) with pc := .chk r' b } := by simp [IW.step, hpc, hY, hlt]
        simp only [hst, Bool.false_eq_true, ↓reduceIte, setTh_th_same, newOut_same]
        exact stepOk_pc s t c _ h hd op hcur hq r' hreq (by simp) (by simp)
          (Or.inr ⟨hrs, Or.inl (by simp [pcReq])⟩) (by simp [hpc, bufSt, BufSt.ok]) (by simp [hpc, coreAcc])
  | chk r' b =>
    have hr : r' = r := by
      rcases hruns with ⟨_, h2⟩ | ⟨_, h2 | ⟨b0, h2⟩⟩ <;> simp [hpc, pcReq] at h2; exact h2
    subst hr
    have hrs : r' ≠ .skip := by rcases hruns with ⟨h1, h2⟩ | ⟨h1, _⟩ <;> simp_all
    rw [insFx_other _ _ _ _ _ _ (by simp) (by simp)]
    by_cases hC : c.core.C = true
    · have hst : IW.step s.fn t c.core = setTh c.core t (ret (c.core.th t) r' .fin) := by simp [IW.step, hpc, hC]
      simp only [hst, setTh_th_same, newOut_ret, retFx_flag, Bool.false_eq_true, ↓reduceIte]
      exact stepOk_fin s t c _ h hd op hcur hq r' (by simp) (by simp) (by simp [hpc, bufSt, BufSt.ok]) (by simp [hpc, coreAcc]) _
    · have hst : IW.step s.fn t c.core = setTh c.core t { (c.core.th t) with pc := .wait r' b } := by simp [IW.step, hpc, hC]
      simp only [hst, Bool.false_eq_true, ↓reduceIte, setTh_th_same, newOut_same]
      exact stepOk_pc s t c _ h hd op hcur hq r' hreq (by simp) (by simp)
        (Or.inr ⟨hrs, Or.inl (by simp [pcReq])⟩) (by simp [hpc, bufSt, BufSt.ok]) (by simp [hpc, coreAcc])
  | ent r' b =>
    have hr : r' = r := by
      rcases hruns with ⟨_, h2⟩ | ⟨_, h2 | ⟨b0, h2⟩⟩ <;> simp [hpc, pcReq] at h2; exact h2
    subst hr
    have hrs : r' ≠ .skip := by rcases hruns with ⟨h1, h2⟩ | ⟨h1, _⟩ <;> simp_all
    rw [insFx_other _ _ _ _ _ _ (by simp) (by simp)]
    by_cases hC : c.core.C = true
    · have hst : IW.step s.fn t c.core = setTh c.core t (ret (c.core.th t) r' .fin) := by simp [IW.step, hpc, hC]
      simp only [hst, setTh_th_same, newOut_ret, retFx_flag, Bool.false_eq_true, ↓reduceIte]
      exact stepOk_fin s t c _ h hd op hcur hq r' (by simp) (by simp) (by simp [hpc, bufSt, BufSt.ok]) (by simp [hpc, coreAcc]) _
    · by_cases hit : iters r' b = 0
      · have hst : IW.step s.fn t c.core = setTh c.core t { (c.core.th t) with pc := .setC r' b [] } := by simp [IW.step, hpc, hC, hit]
        simp only [hst, Bool.false_eq_true, ↓reduceIte, setTh_th_same, newOut_same]
        exact stepOk_pc s t c _ h hd op hcur hq r' hreq (by simp) (by simp)
          (Or.inr ⟨hrs, Or.inl (by simp [pcReq])⟩) (by simp [hpc, bufSt, BufSt.ok, Prefix.nil]) (by simp [hpc, coreAcc])
      · have hst : IW.step s.fn t c.core = setTh c.core t { (c.core.th t) with pc := .cs r' b [] } := by simp [IW.step, hpc, hC, hit]
        simp only [hst, Bool.false_eq_true, ↓reduceIte, setTh_th_same, newOut_same]
        exact stepOk_pc s t c _ h hd op hcur hq r' hreq (by simp) (by simp)
          (Or.inr ⟨hrs, Or.inl (by simp [pcReq])⟩) (by simp [hpc, bufSt, BufSt.ok, Prefix.nil]) (by simp [hpc, coreAcc])
  | cs r' b acc =>
    have hr : r' = r := by
      rcases hruns with ⟨_, h2⟩ | ⟨_, h2 | ⟨b0, h2⟩⟩ <;> simp [hpc, pcReq] at h2; exact h2
    subst hr
    have hrs : r' ≠ .skip := by rcases hruns with ⟨h1, h2⟩ | ⟨h1, _⟩ <;> simp_all
    rw [insFx_other _ _ _ _ _ _ (by simp) (by simp)]
    have hst : IW.step s.fn t c.core = setTh c.core t { (c.core.th t) with pc := .ins r' b acc } := by simp [IW.step, hpc]
    simp only [hst, Bool.false_eq_true, ↓reduceIte, setTh_th_same, newOut_same]
    exact stepOk_pc s t c _ h hd op hcur hq r' hreq (by simp) (by simp)
      (Or.inr ⟨hrs, Or.inl (by simp [pcReq])⟩) (by simp [hpc, bufSt, BufSt.ok]) (by simp [hpc, coreAcc])
  | idle =>
    rcases hruns with ⟨_, h2⟩ | ⟨_, h2 | ⟨b0, h2⟩⟩ <;> simp [hpc, pcReq] at h2
  | dead b n =>
    rcases hruns with ⟨_, h2⟩ | ⟨_, h2 | ⟨b0, h2⟩⟩ <;> simp [hpc, pcReq] at h2
  | skp =>
    have hr : r = .skip := by
      rcases hruns with ⟨h1, _⟩ | ⟨_, h2 | ⟨b0, h2⟩⟩
      · exact h1
      · simp [hpc, pcReq] at h2
      · simp [hpc] at h2
    subst hr
    have hop : op = .skip := by
      cases op <;> simp_all [opReq, reqOf, bsz] <;> (repeat' split at hreq) <;> simp_all
    subst hop
    rw [insFx_other _ _ _ _ _ _ (by simp) (by simp)]
    have hst : IW.step s.fn t c.core = setTh { c.core with C := true } t (ret (c.core.th t) .skip .unit) := by simp [IW.step, hpc]
    have hlb : (c.d t).lbuf = none := hbufs.2 (by intro n; simp [hreq])
    simp only [hst, setTh_th_same, newOut_ret, retFx, Bool.false_eq_true, ↓reduceIte]
    refine ⟨⟨?_, ?_, ?_, ?_, ?_⟩, ?_⟩
    · intro _; simp [ret, Req.isLoop, bsz]; exact htodo
    · intro _ _; simp [ret, Req.isLoop, hlb]
    · intro _ op' hop'; simp at hop'
    · intro _ op' hop'; simp at hop'
    · intro hd'; simp [hd] at hd'
    · intro p; simp [held, hpc, coreAcc, ret, Req.isLoop]
  | setC r' b acc =>
    have hr : r' = r := by
      rcases hruns with ⟨_, h2⟩ | ⟨_, h2 | ⟨b0, h2⟩⟩ <;> simp [hpc, pcReq] at h2; exact h2
    subst hr
    have hrs : r' ≠ .skip := by rcases hruns with ⟨h1, h2⟩ | ⟨h1, _⟩ <;> simp_all
    rw [insFx_other _ _ _ _ _ _ (by simp) (by simp)]
    by_cases hsg : r'.isSingle = true
    · have hst : IW.step s.fn t c.core = setTh { c.core with C := true } t (ret (c.core.th t) r' .fin) := by simp [IW.step, hpc, hsg]
      have hacc0 : acc = [] := by
        have := hi.csLt t r' b acc (Or.inr (Or.inr hpc))
        have hl : r'.len = 1 := by cases r' <;> simp_all [Req.isSingle, Req.len]
        cases acc <;> simp_all
      subst hacc0
      simp only [hst, setTh_th_same, newOut_ret, retFx_flag, Bool.false_eq_true, ↓reduceIte]
      exact stepOk_fin s t c _ h hd op hcur hq r' (by simp) (by simp) (by simp [hpc, bufSt, BufSt.ok]) (by simp [hpc, coreAcc]) _
    · have hst : IW.step s.fn t c.core = setTh { c.core with C := true } t { (c.core.th t) with pc := .pub r' b acc } := by simp [IW.step, hpc, hsg]
      simp only [hst, Bool.false_eq_true, ↓reduceIte, setTh_th_same, newOut_same]
      exact stepOk_pc s t c _ h hd op hcur hq r' hreq (by simp) (by simp)
        (Or.inr ⟨hrs, Or.inl (by simp [pcReq])⟩) (by simp [hpc, bufSt, BufSt.ok]) (by simp [hpc, coreAcc])
  | unw b n =>
    have hst : IW.step s.fn t c.core = setTh { c.core with C := true } t { (c.core.th t) with pc := .dead b n } := by simp [IW.step, hpc]
    simp only [insFx, hst, ↓reduceIte]
    refine ⟨⟨?_, ?_, ?_, ?_, ?_⟩, ?_⟩
    · intro hd'; simp at hd'
    · intro hd'; simp at hd'
    · intro hd'; simp at hd'
    · intro hd'; simp at hd'
    · intro _; simp [coreAcc]
    · intro p
      by_cases hl : (loopParams op).isSome = true
      · cases hlb : (c.d t).lbuf <;> simp [held, hpc, coreAcc, hl, hlb, hown, List.count_append, somes_nil] <;> omega
      · have hlb : (c.d t).lbuf = none := by
          apply hbufs.2
          intro n hn
          cases op <;> simp_all [opReq, reqOf, loopParams, bsz] <;> (try split at hn) <;> simp_all
        simp [held, hpc, coreAcc, hl, hlb]
  | ins r' b acc =>
    have hr : r' = r := by
      rcases hruns with ⟨_, h2⟩ | ⟨_, h2 | ⟨b0, h2⟩⟩ <;> simp [hpc, pcReq] at h2; exact h2
    subst hr
    have hrs : r' ≠ .skip := by rcases hruns with ⟨h1, h2⟩ | ⟨h1, _⟩ <;> simp_all
    have hcsLt := hi.csLt t r' b acc (Or.inr (Or.inl hpc))
    cases hs : s.fn c.core.P with
    | none =>
      have hst : IW.step s.fn t c.core = setTh { c.core with P := c.core.P + 1 } t { (c.core.th t) with pc := .setC r' b acc } := by
        simp [IW.step, hpc, hs]
      simp only [insFx, hs, hst, Bool.false_eq_true, ↓reduceIte, setTh_th_same, newOut_same]
      exact stepOk_pc s t c _ h hd op hcur hq r' hreq (by simp) (by simp [prod_succ_none s _ hs])
        (Or.inr ⟨hrs, Or.inl (by simp [pcReq])⟩) (by simp [hpc, bufSt, BufSt.ok]) (by simp [hpc, coreAcc])
    | panic =>
      have hst : IW.step s.fn t c.core = setTh { c.core with P := c.core.P + 1 } t { (c.core.th t) with pc := .unw b r'.len } := by
        simp [IW.step, hpc, hs]
      simp only [insFx, hs, hst, Bool.false_eq_true, ↓reduceIte, setTh_th_same, newOut_same]
      refine ⟨⟨?_, ?_, ?_, ?_, ?_⟩, ?_⟩
      · intro _; simp; exact htodo
      · intro _ hq'
        simp only [setD_d_same] at hq'
        rcases hq' with h1 | ⟨op', h1, h2⟩
        · simp [hcur] at h1
        · simp [hcur] at h1; subst h1; simp [hq] at h2
      · intro _ op' hop' _
        simp only [setD_d_same] at hop' ⊢
        simp [hcur] at hop'; subst hop'
        exact ⟨r', hreq, Or.inr ⟨hrs, Or.inr ⟨b, by simp⟩⟩⟩
      · intro _ op' hop' _
        simp only [setD_d_same] at hop' ⊢
        simp [hcur] at hop'; subst hop'
        refine ⟨?_, hbufs.2⟩
        intro n lp hn
        obtain ⟨l, h1, h2, _⟩ := hbufs.1 n lp hn
        exact ⟨l, h1, h2, by simp [bufSt, BufSt.ok]⟩
      · intro hd'; simp [hd] at hd'
      · intro p
        simp only [held, setD_d_same, setD_mv, setD_dr, setTh_th_same, hpc, coreAcc, prod_succ_panic s _ hs, setTh_P]
        cases r' with
        | chunk n => simp [isBuffered, hown, List.count_append]; omega
        | single lp =>
          have : acc = [] := by cases acc <;> simp_all [Req.len]
          simp [isBuffered, this]
        | buffered n lp => simp [isBuffered]
        | skip => simp at hrs
    | some v =>
      have hst : ∃ pc', IW.step s.fn t c.core = setTh { c.core with P := c.core.P + 1 } t { (c.core.th t) with pc := pc' } ∧
          (pc' = .cs r' b (acc ++ [v]) ∨ pc' = .setC r' b (acc ++ [v]) ∨ pc' = .pub r' b (acc ++ [v])) := by
        simp only [IW.step, hpc, hs]
        split
        · split
          · exact ⟨_, rfl, Or.inr (Or.inl rfl)⟩
          · exact ⟨_, rfl, Or.inr (Or.inr rfl)⟩
        · exact ⟨_, rfl, Or.inl rfl⟩
      obtain ⟨pc', hst, hpc'⟩ := hst
      have hreq' : pcReq pc' = some r' := by rcases hpc' with h1 | h1 | h1 <;> simp [h1, pcReq]
      have hbs' : bufSt pc' = .acc (acc ++ [v]) := by rcases hpc' with h1 | h1 | h1 <;> simp [h1, bufSt]
      have hca' : coreAcc pc' = if isBuffered r' then [] else acc ++ [v] := by rcases hpc' with h1 | h1 | h1 <;> simp [h1, coreAcc]
      cases r' with
      | skip => simp at hrs
      | single lp0 =>
        simp only [insFx, hs, hst, Bool.false_eq_true, ↓reduceIte, setTh_th_same, newOut_same]
        refine ⟨⟨?_, ?_, ?_, ?_, ?_⟩, ?_⟩
        · intro _; simp; exact htodo
        · intro _ hq'
          simp only [setD_d_same] at hq'
          rcases hq' with h1 | ⟨op', h1, h2⟩
          · simp [hcur] at h1
          · simp [hcur] at h1; subst h1; simp [hq] at h2
        · intro _ op' hop' _
          simp only [setD_d_same] at hop' ⊢
          simp [hcur] at hop'; subst hop'
          exact ⟨_, hreq, Or.inr ⟨hrs, Or.inl (by simpa using hreq')⟩⟩
        · intro _ op' hop' _
          simp only [setD_d_same] at hop' ⊢
          simp [hcur] at hop'; subst hop'
          refine ⟨?_, hbufs.2⟩
          intro n lp hn
          rw [hreq] at hn; simp at hn
        · intro hd'; simp [hd] at hd'
        · intro p
          simp only [held, setD_d_same, setD_mv, setD_dr, setTh_th_same, hpc, hca', prod_succ_some s _ _ hs, setTh_P]
          simp [coreAcc, isBuffered, List.count_append]; omega
      | chunk n0 =>
        simp only [insFx, hs, hst, Bool.false_eq_true, ↓reduceIte, setTh_th_same, newOut_same]
        refine ⟨⟨?_, ?_, ?_, ?_, ?_⟩, ?_⟩
        · intro _; simp; exact htodo
        · intro _ hq'
          simp only [setD_d_same] at hq'
          rcases hq' with h1 | ⟨op', h1, h2⟩
          · simp [hcur] at h1
          · simp [hcur] at h1; subst h1; simp [hq] at h2
        · intro _ op' hop' _
          simp only [setD_d_same] at hop' ⊢
          simp [hcur] at hop'; subst hop'
          exact ⟨_, hreq, Or.inr ⟨hrs, Or.inl (by simpa using hreq')⟩⟩
        · intro _ op' hop' _
          simp only [setD_d_same] at hop' ⊢
          simp [hcur] at hop'; subst hop'
          refine ⟨?_, hbufs.2⟩
          intro n lp hn
          rw [hreq] at hn; simp at hn
        · intro hd'; simp [hd] at hd'
        · intro p
          simp only [held, setD_d_same, setD_mv, setD_dr, setTh_th_same, hpc, hca', prod_succ_some s _ _ hs, setTh_P]
          simp [coreAcc, isBuffered, List.count_append]; omega
      | buffered n lp =>
        obtain ⟨l, hab, hlen, hok⟩ := hbufs.1 n lp hreq
        simp only [hpc, bufSt, BufSt.ok] at hok
        obtain ⟨hpre, hcl⟩ := hok
        have hlp := opReq_lp _ _ _ _ hreq
        have hlt : acc.length < l.length := by simpa [hlen, Req.len] using hcsLt
        cases lp with
        | false =>
          have hbuf : (c.d t).buf = some l := by simpa [actBuf] using hab
          have hlb : (c.d t).lbuf = none := hbufs.2 (by intro n'; rw [hreq]; simp)
          simp only [insFx, hs, hlp, hbuf, hst, Bool.false_eq_true, ↓reduceIte, setTh_th_same, newOut_same]
          have hop : ∃ kk, op = .bufnext kk := by
            cases op <;> simp_all [opReq, reqOf, bsz] <;> (repeat' split at hreq) <;> simp_all
          obtain ⟨kk, rfl⟩ := hop
          refine ⟨⟨?_, ?_, ?_, ?_, ?_⟩, ?_⟩
          · intro _; simp [bsz, setSlot]; simpa [bsz, hbuf] using htodo
          · intro _ hq'
            simp only [setD_d_same] at hq'
            rcases hq' with h1 | ⟨op', h1, h2⟩
            · simp [hcur] at h1
            · simp [hcur] at h1; subst h1; simp [isQuery] at h2
          · intro _ op' hop' _
            simp only [setD_d_same] at hop' ⊢
            simp [hcur] at hop'; subst hop'
            refine ⟨.buffered n false, ?_, Or.inr ⟨hrs, Or.inl (by simpa using hreq')⟩⟩
            simp [opReq, bsz, setSlot, hlen]
          · intro _ op' hop' _
            simp only [setD_d_same] at hop' ⊢
            simp [hcur] at hop'; subst hop'
            refine ⟨?_, ?_⟩
            · intro n' lp' hn
              simp [opReq, bsz, setSlot, hlen] at hn
              obtain ⟨rfl, rfl⟩ := hn
              refine ⟨setSlot l acc.length (some v), by simp [actBuf], by simp [setSlot, hlen], ?_⟩
              simp only [setTh_th_same, hbs', BufSt.ok]
              exact ⟨hpre.snoc v hlt, by simp⟩
            · intro _; simpa using hlb
          · intro hd'; simp [hd] at hd'
          · intro p
            have hset := count_somes_set l acc.length v p hlt
            simp only [held, setD_d_same, setD_mv, setD_dr, setTh_th_same, hpc, hca', prod_succ_some s _ _ hs, setTh_P]
            simp only [coreAcc, hbuf, hlb, isBuffered, ↓reduceIte, Option.getD_some, Option.getD_none, hown, List.count_append, somes_nil,
              List.count_nil] at hset ⊢
            generalize List.count p (somes (setSlot l acc.length (some v))) = A at hset ⊢
            generalize (List.count p (match l.getD acc.length none with | some o => [o] | none => [])) = B at hset ⊢
            omega
        | true =>
          have hlbuf : (c.d t).lbuf = some l := by simpa [actBuf] using hab
          simp only [insFx, hs, hlp, hlbuf, hst, Bool.false_eq_true, ↓reduceIte, setTh_th_same, newOut_same]
          refine ⟨⟨?_, ?_, ?_, ?_, ?_⟩, ?_⟩
          · intro _; simp [bsz]; simpa [bsz] using htodo
          · intro _ hq'
            simp only [setD_d_same] at hq'
            rcases hq' with h1 | ⟨op', h1, h2⟩
            · simp [hcur] at h1
            · simp [hcur] at h1; subst h1; simp [hq] at h2
          · intro _ op' hop' _
            simp only [setD_d_same] at hop' ⊢
            simp [hcur] at hop'; subst hop'
            refine ⟨.buffered n true, ?_, Or.inr ⟨hrs, Or.inl (by simpa using hreq')⟩⟩
            have : opReq { (c.d t) with lbuf := some (setSlot l acc.length (some v)) } op = opReq (c.d t) op := by
              cases op <;> simp [opReq, bsz]
            rw [this]; exact hreq
          · intro _ op' hop' _
            simp only [setD_d_same] at hop' ⊢
            simp [hcur] at hop'; subst hop'
            have hsame : opReq { (c.d t) with lbuf := some (setSlot l acc.length (some v)) } op = opReq (c.d t) op := by
              cases op <;> simp [opReq, bsz]
            refine ⟨?_, ?_⟩
            · intro n' lp' hn
              rw [hsame, hreq] at hn; simp at hn
              obtain ⟨rfl, rfl⟩ := hn
              refine ⟨setSlot l acc.length (some v), by simp [actBuf], by simp [setSlot, hlen], ?_⟩
              simp only [setTh_th_same, hbs', BufSt.ok]
              exact ⟨hpre.snoc v hlt, fun _ => somes_set_clean l acc v hpre (hcl rfl) hlt⟩
            · intro hne; exact absurd (by rw [hsame]; exact hreq) (hne n)
          · intro hd'; simp [hd] at hd'
          · intro p
            have hset := count_somes_set l acc.length v p hlt
            simp only [held, setD_d_same, setD_mv, setD_dr, setTh_th_same, hpc, hca', prod_succ_some s _ _ hs, setTh_P]
            simp only [coreAcc, hlbuf, isBuffered, ↓reduceIte, Option.getD_some, hown, List.count_append, List.count_nil] at hset ⊢
            generalize List.count p (somes (setSlot l acc.length (some v))) = A at hset ⊢
            generalize (List.count p (match l.getD acc.length none with | some o => [o] | none => [])) = B at hset ⊢
            omega
  | pub r' b acc =>
    have hr : r' = r := by
      rcases hruns with ⟨_, h2⟩ | ⟨_, h2 | ⟨b0, h2⟩⟩ <;> simp [hpc, pcReq] at h2; exact h2
    subst hr
    have hrs : r' ≠ .skip := by rcases hruns with ⟨h1, h2⟩ | ⟨h1, _⟩ <;> simp_all
    rw [insFx_other _ _ _ _ _ _ (by simp) (by simp)]
    have haccLe := (hi.accOk t b r'.len (by simp [hpc, Pc.ticket])).2
    simp only [hpc, Pc.acc] at haccLe
    cases acc with
    | nil =>
      have hst : IW.step s.fn t c.core = setTh { c.core with Y := c.core.Y + r'.len } t (ret (c.core.th t) r' .fin) := by
        simp [IW.step, hpc]
      simp only [hst, setTh_th_same, newOut_ret, retFx_flag, Bool.false_eq_true, ↓reduceIte]
      exact stepOk_fin s t c _ h hd op hcur hq r' (by simp) (by simp) (by simp [hpc, bufSt, BufSt.ok]) (by simp [hpc, coreAcc]) _
    | cons v rest =>
      cases r' with
      | skip => simp at hrs
      | single lp =>
        have hrest : rest = [] := by
          simp [Req.len] at haccLe; exact haccLe
        subst hrest
        have hst : IW.step s.fn t c.core = setTh { c.core with Y := c.core.Y + (Req.single lp).len } t (ret (c.core.th t) (.single lp) (.item b v)) := by
          simp [IW.step, hpc, Req.isSingle]
        simp only [hst, setTh_th_same, newOut_ret, retFx_flag, Bool.false_eq_true, ↓reduceIte]
        have hlb : (c.d t).lbuf = none := hbufs.2 (by intro n'; rw [hreq]; simp)
        cases lp with
        | false =>
          have hop : op = .next ∨ op = .nextv := by
            cases op <;> simp_all [opReq, reqOf, bsz] <;> (repeat' split at hreq) <;> simp_all
          rcases hop with rfl | rfl <;>
          · simp only [retFx]
            refine ⟨⟨?_, ?_, ?_, ?_, ?_⟩, ?_⟩
            · intro _; simp [ret, Req.isLoop, bsz]; exact htodo
            · intro _ _; simp [ret, Req.isLoop, hlb]
            · intro _ op' hop'; simp at hop'
            · intro _ op' hop'; simp at hop'
            · intro hd'; simp [hd] at hd'
            · intro p; simp [held, hpc, coreAcc, ret, Req.isLoop, isBuffered, hlb, List.count_append]; omega
        | true =>
          have hlp : ∃ wi pa isf, loopParams op = some (1, wi, pa, isf) := by
            cases op <;> simp_all [opReq, reqOf, bsz, loopParams] <;> (repeat' split at hreq) <;> simp_all
          obtain ⟨wi, pa, isf, hlp⟩ := hlp
          have hretpc : (ret (c.core.th t) (.single true) (.item b v)).pc = .resv (.single true) ∧
              (ret (c.core.th t) (.single true) (.item b v)).todo = (c.core.th t).todo := by simp [ret, Req.isLoop]
          rw [show ∀ (X : FCfg) (core' : Cfg), ({ core := core', d := X.d, mv := X.mv, dr := X.dr } : FCfg) = { X with core := core' } from fun _ _ => rfl,
            retFx_loop s t c (c.d t) op (.item b v) _ 1 wi pa isf hlp (by simp)]
          simp only [pairsOf, List.map_cons, List.map_nil, List.length_cons, List.length_nil]
          split
          · -- the closure returned
            refine ⟨⟨?_, ?_, ?_, ?_, ?_⟩, ?_⟩
            · intro _; simp [hretpc.2, bsz]; exact htodo
            · intro _ hq'
              simp only [setD_d_same] at hq'
              rcases hq' with h1 | ⟨op', h1, h2⟩
              · simp [hcur] at h1
              · simp [hcur] at h1; subst h1; simp [hq] at h2
            · intro _ op' hop' _
              simp only [setD_d_same] at hop' ⊢
              simp [hcur] at hop'; subst hop'
              refine ⟨.single true, ?_, Or.inr ⟨by simp, Or.inl (by simp [hretpc.1, pcReq])⟩⟩
              exact (opReq_congr (c.d t) _ op rfl).trans hreq
            · intro _ op' hop' _
              simp only [setD_d_same] at hop' ⊢
              simp [hcur] at hop'; subst hop'
              refine ⟨?_, ?_⟩
              · intro n' lp' hn; have hn' := (opReq_congr (c.d t) _ op rfl).symm.trans hn; rw [hreq] at hn'; simp at hn'
              · intro _; simp [hlb]
            · intro hd'; simp [hd] at hd'
            · intro p; simp [held, hpc, coreAcc, hretpc.1, isBuffered, hlb, List.count_append]; omega
          · -- the closure panicked
            rename_i restLen _
            refine ⟨⟨?_, ?_, ?_, ?_, ?_⟩, ?_⟩
            · intro hd'; simp at hd'
            · intro hd'; simp at hd'
            · intro hd'; simp at hd'
            · intro hd'; simp at hd'
            · intro _; simp [hretpc.1, coreAcc]
            · intro p
              have := count_take_drop [v] (1 - restLen) p
              simp [held, hpc, coreAcc, hretpc.1, isBuffered, hlb, List.count_append, hown] at this ⊢
              omega
      | chunk n =>
        have hst : IW.step s.fn t c.core = setTh { c.core with Y := c.core.Y + (Req.chunk n).len } t (ret (c.core.th t) (.chunk n) (.chunk b (v :: rest))) := by
          simp [IW.step, hpc, Req.isSingle]
        simp only [hst, setTh_th_same, newOut_ret, retFx_flag, Bool.false_eq_true, ↓reduceIte]
        have hlb : (c.d t).lbuf = none := hbufs.2 (by intro n'; rw [hreq]; simp)
        have hop : ∃ kk, op = .chunk n kk := by
          cases op <;> simp_all [opReq, reqOf, bsz] <;> (repeat' split at hreq) <;> simp_all
        obtain ⟨kk, rfl⟩ := hop
        simp only [retFx]
        refine ⟨⟨?_, ?_, ?_, ?_, ?_⟩, ?_⟩
        · intro _; simp [ret, Req.isLoop, bsz]; exact htodo
        · intro _ _; simp [ret, Req.isLoop, hlb]
        · intro _ op' hop'; simp at hop'
        · intro _ op' hop'; simp at hop'
        · intro hd'; simp [hd] at hd'
        · intro p
          have h3 := count_split3 (v :: rest) (kk.skipped (v :: rest).length) (takeCount kk (v :: rest).length) p
            (Take.skipped_le_count _ _)
          simp only [held, setD_d_same, setD_mv, setD_dr, setTh_th_same, hpc, coreAcc, ret, Req.isLoop, isBuffered, hlb, hown,
            List.count_append, ↓reduceIte, setTh_P, Bool.false_and, Bool.false_eq_true, false_and, setD_core] at h3 ⊢
          simp only [List.count_nil] at h3 ⊢
          omega
      | buffered n lp =>
        have hst : IW.step s.fn t c.core = setTh { c.core with Y := c.core.Y + (Req.buffered n lp).len } t (ret (c.core.th t) (.buffered n lp) (.chunk b (v :: rest))) := by
          simp [IW.step, hpc, Req.isSingle]
        simp only [hst, setTh_th_same, newOut_ret, retFx_flag, Bool.false_eq_true, ↓reduceIte]
        obtain ⟨l, hab, hlen, hok⟩ := hbufs.1 n lp hreq
        simp only [hpc, bufSt, BufSt.ok] at hok
        obtain ⟨hpre, hcl⟩ := hok
        have hle := hpre.le
        cases lp with
        | false =>
          have hbuf : (c.d t).buf = some l := by simpa [actBuf] using hab
          have hlb : (c.d t).lbuf = none := hbufs.2 (by intro n'; rw [hreq]; simp)
          have hop : ∃ kk, op = .bufnext kk := by
            cases op <;> simp_all [opReq, reqOf, bsz] <;> (repeat' split at hreq) <;> simp_all
          obtain ⟨kk, rfl⟩ := hop
          have hj : takeCount kk (v :: rest).length ≤ (v :: rest).length := Take.count_le _ _
          simp only [retFx, hbuf, Option.map_some]
          refine ⟨⟨?_, ?_, ?_, ?_, ?_⟩, ?_⟩
          · intro _
            have : bsz { (c.d t) with cur := none, buf := some (List.replicate (takeCount kk (v :: rest).length) none ++ List.drop (takeCount kk (v :: rest).length) l) } = bsz (c.d t) := by
              simp only [bsz, hbuf, Option.map_some, List.length_append, List.length_replicate, List.length_drop]
              congr 1; omega
            simp only [setD_d_same, setTh_th_same, ret, Req.isLoop, Bool.false_and, Bool.false_eq_true, false_and, ↓reduceIte, this]
            exact htodo
          · intro _ _; simp [ret, Req.isLoop, hlb]
          · intro _ op' hop'; simp at hop'
          · intro _ op' hop'; simp at hop'
          · intro hd'; simp [hd] at hd'
          · intro p
            have h1 := count_somes_take_drop l (takeCount kk (v :: rest).length) p
            have h2 := hpre.somes_take (takeCount kk (v :: rest).length) hj
            have h3 := count_take_drop ((v :: rest).take (takeCount kk (v :: rest).length)) (kk.skipped (v :: rest).length) p
            have h4 : ((v :: rest).take (takeCount kk (v :: rest).length)).take (kk.skipped (v :: rest).length) = (v :: rest).take (kk.skipped (v :: rest).length) := by
              rw [List.take_take, Nat.min_eq_left (by unfold takeCount; exact Take.skipped_le_count _ _)]
            rw [h2] at h1
            rw [h4] at h3
            simp only [held, setD_d_same, setD_mv, setD_dr, setTh_th_same, hpc, coreAcc, ret, Req.isLoop, isBuffered, hlb, hbuf, hown,
              List.count_append, ↓reduceIte, setTh_P, Bool.false_and, Bool.false_eq_true, false_and, setD_core, Option.getD_some,
              Option.getD_none, somes_append, somes_replicate_none, somes_nil, List.count_nil] at h1 h3 ⊢
            omega
        | true =>
          have hlbuf : (c.d t).lbuf = some l := by simpa [actBuf] using hab
          have hsl : somes l = v :: rest := hcl rfl
          have hlp : ∃ wi pa isf, loopParams op = some (n, wi, pa, isf) := by
            cases op <;> simp_all [opReq, reqOf, bsz, loopParams] <;> (repeat' split at hreq) <;> simp_all
          obtain ⟨wi, pa, isf, hlp⟩ := hlp
          have hretpc : (ret (c.core.th t) (.buffered n true) (.chunk b (v :: rest))).pc = .resv (.buffered n true) ∧
              (ret (c.core.th t) (.buffered n true) (.chunk b (v :: rest))).todo = (c.core.th t).todo := by simp [ret, Req.isLoop]
          have hdrop : somes (l.drop (v :: rest).length) = [] := by
            have h1 := congrArg somes (List.take_append_drop (v :: rest).length l)
            rw [somes_append, hpre.somes_take _ (Nat.le_refl _), List.take_length, hsl] at h1
            simpa using h1
          rw [show ∀ (X : FCfg) (core' : Cfg), ({ core := core', d := X.d, mv := X.mv, dr := X.dr } : FCfg) = { X with core := core' } from fun _ _ => rfl,
            retFx_loop s t c (c.d t) op (.chunk b (v :: rest)) _ n wi pa isf hlp (by simp)]
          simp only [pairsOf_snd_chunk, pairsOf_len_chunk]
          split
          · -- the closure visited the whole chunk
            refine ⟨⟨?_, ?_, ?_, ?_, ?_⟩, ?_⟩
            · intro _; simp [hretpc.2, bsz]; exact htodo
            · intro _ hq'
              simp only [setD_d_same] at hq'
              rcases hq' with h1 | ⟨op', h1, h2⟩
              · simp [hcur] at h1
              · simp [hcur] at h1; subst h1; simp [hq] at h2
            · intro _ op' hop' _
              simp only [setD_d_same] at hop' ⊢
              simp [hcur] at hop'; subst hop'
              exact ⟨.buffered n true, (opReq_congr (c.d t) _ op rfl).trans hreq, Or.inr ⟨by simp, Or.inl (by simp [hretpc.1, pcReq])⟩⟩
            · intro _ op' hop' _
              simp only [setD_d_same] at hop' ⊢
              simp [hcur] at hop'; subst hop'
              refine ⟨?_, ?_⟩
              · intro n' lp' hn
                have hn' := (opReq_congr (c.d t) _ op rfl).symm.trans hn
                rw [hreq] at hn'; simp at hn'
                obtain ⟨rfl, rfl⟩ := hn'
                refine ⟨List.replicate (v :: rest).length none ++ l.drop (v :: rest).length, by simp [actBuf, hlbuf], ?_, ?_⟩
                · simp only [List.length_append, List.length_replicate, List.length_drop]; omega
                · simp only [setTh_th_same, hretpc.1, bufSt, BufSt.ok]
                  intro _; rw [somes_append, somes_replicate_none, hdrop]; rfl
              · intro hne
                exact absurd ((opReq_congr (c.d t) _ op rfl).trans hreq) (hne n)
            · intro hd'; simp [hd] at hd'
            · intro p
              simp only [held, setD_d_same, setD_mv, setD_dr, setTh_th_same, hpc, coreAcc, hretpc.1, isBuffered, hlbuf,
                List.count_append, ↓reduceIte, setTh_P, Option.map_some, Option.getD_some, somes_append, somes_replicate_none, hdrop, hsl,
                List.count_nil]
              omega
          · -- the closure panicked
            rename_i restLen _
            refine ⟨⟨?_, ?_, ?_, ?_, ?_⟩, ?_⟩
            · intro hd'; simp at hd'
            · intro hd'; simp at hd'
            · intro hd'; simp at hd'
            · intro hd'; simp at hd'
            · intro _; simp [hretpc.1, coreAcc]
            · intro p
              have h1 := count_take_drop ((pairsOf (.chunk b (v :: rest))).map (·.2)) ((v :: rest).length - restLen) p
              rw [pairsOf_snd_chunk] at h1
              have h2 : ((pairsOf (.chunk b (v :: rest))).take ((v :: rest).length - restLen)).map (·.2) = (v :: rest).take ((v :: rest).length - restLen) := by
                rw [List.map_take, pairsOf_snd_chunk]
              have h3 : ((pairsOf (.chunk b (v :: rest))).drop ((v :: rest).length - restLen)).map (·.2) = (v :: rest).drop ((v :: rest).length - restLen) := by
                rw [List.map_drop, pairsOf_snd_chunk]
              simp only [held, setD_d_same, setD_mv, setD_dr, setTh_th_same, hpc, coreAcc, hretpc.1, isBuffered, hlbuf, hown,
                List.count_append, ↓reduceIte, setTh_P, Option.getD_some, Option.getD_none, somes_nil, hsl, h2, h3, List.count_nil]
              omega



end Orx.IWF
