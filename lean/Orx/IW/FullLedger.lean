import Orx.IW.Full
import Orx.IW.Reach
/-! # Ownership ledger of the owning wrapper (`ConIterOfIter` over an iterator of owned values) -- C08 / C15 / C03

`IWF.step` is the full thread machine the driver runs (protocol + buffers + consumption + drops). This file proves, for
every wrapped iterator (fused or not, panicking or not), all op programs and every schedule, that every element the
wrapped iterator produced is at every moment in exactly one place:

  produced  =  moved out to a caller  +  destroyed by the machinery  +  held
                                                                        (in a thread's `fetch_n` accumulator, in a slot
                                                                         of a `BufferIter`, in a running loop's buffer)

as multisets, and that the chunk a buffered pull hands out is exactly what it wrote into the first slots of its reused
buffer, whatever stale elements the slots behind hold (the `P` clauses of C03 and C08 in DESIGN.md §7). -/
namespace Orx.IWF
open Orx.IW

/-! ## lists of optional slots -/

theorem somes_nil : somes [] = [] := rfl
theorem somes_cons_none (l : List (Option Nat)) : somes (none :: l) = somes l := by simp [somes]
theorem somes_cons_some (v : Nat) (l : List (Option Nat)) : somes (some v :: l) = v :: somes l := by simp [somes]
theorem somes_append (a b : List (Option Nat)) : somes (a ++ b) = somes a ++ somes b := by simp [somes, List.filterMap_append]
theorem somes_replicate_none (n : Nat) : somes (List.replicate n none) = [] := by
  induction n with
  | zero => rfl
  | succ k ih => simp [List.replicate_succ, somes_cons_none, ih]
theorem somes_map_some (l : List Nat) : somes (l.map some) = l := by
  induction l with
  | nil => rfl
  | cons a as ih => simp [somes_cons_some, ih]

theorem count_somes_take_drop (l : List (Option Nat)) (j p : Nat) :
    (somes (l.take j)).count p + (somes (l.drop j)).count p = (somes l).count p := by
  rw [← List.count_append, ← somes_append, List.take_append_drop]

/-- writing slot `i` (in range): the old content leaves, the new value enters -/
theorem count_somes_set (l : List (Option Nat)) (i v p : Nat) (h : i < l.length) :
    (somes (setSlot l i (some v))).count p + (match l.getD i none with | some o => [o] | none => []).count p
      = (somes l).count p + [v].count p := by
  induction l generalizing i with
  | nil => simp at h
  | cons a as ih =>
    cases i with
    | zero =>
      cases a with
      | none => simp [setSlot, somes_cons_none, somes_cons_some, List.count_cons]
      | some o => simp [setSlot, somes_cons_some, List.count_cons]; omega
    | succ k =>
      have hk : k < as.length := by simpa using h
      have := ih k hk
      cases a with
      | none => simpa [setSlot, somes_cons_none] using this
      | some o =>
        simp only [setSlot, List.set_cons_succ, somes_cons_some, List.count_cons, List.getD_cons_succ] at this ⊢
        omega

/-- the first slots of `l` hold exactly `acc` -/
def Prefix (l : List (Option Nat)) (acc : List Nat) : Prop := l.take acc.length = acc.map some

theorem Prefix.nil (l : List (Option Nat)) : Prefix l [] := by simp [Prefix]

theorem Prefix.le {l : List (Option Nat)} {acc : List Nat} (h : Prefix l acc) : acc.length ≤ l.length := by
  have := congrArg List.length h
  simp at this
  omega

/-- writing the next slot extends the prefix -/
theorem Prefix.snoc {l : List (Option Nat)} {acc : List Nat} (h : Prefix l acc) (v : Nat) (hlt : acc.length < l.length) :
    Prefix (setSlot l acc.length (some v)) (acc ++ [v]) := by
  unfold Prefix at *
  simp only [List.length_append, List.length_singleton, List.map_append, List.map_cons, List.map_nil, setSlot]
  rw [List.take_add_one]
  have h1 : (l.set acc.length (some v)).take acc.length = l.take acc.length := by
    rw [List.take_set_of_le (Nat.le_refl _)]
  rw [h1, h]
  simp [hlt]

theorem Prefix.somes_take {l : List (Option Nat)} {acc : List Nat} (h : Prefix l acc) (j : Nat) (hj : j ≤ acc.length) :
    somes (l.take j) = acc.take j := by
  have : l.take j = (l.take acc.length).take j := by rw [List.take_take, Nat.min_eq_left hj]
  rw [this, h, ← List.map_take, somes_map_some]

/-! ## where an element can be -/

def isBuffered : Req → Bool
  | .buffered _ _ => true
  | _ => false

/-- elements a thread holds in the accumulator of a single / one-shot chunk pull (a buffered pull accumulates in its buffer) -/
def coreAcc : Pc → List Nat
  | .cs r _ a | .ins r _ a | .setC r _ a | .pub r _ a => if isBuffered r then [] else a
  | _ => []

/-- the request a pc is executing -/
def pcReq : Pc → Option Req
  | .resv r | .pre r _ | .wait r _ | .chk r _ | .ent r _ | .cs r _ _ | .ins r _ _ | .setC r _ _ | .pub r _ _ => some r
  | _ => none

/-- the accumulator of a pc inside the critical section -/
def pcAcc : Pc → Option (List Nat)
  | .cs _ _ a | .ins _ _ a | .setC _ _ a | .pub _ _ a => some a
  | _ => none

def bsz (x : DThread) : Option Nat := x.buf.map List.length

/-- the protocol request the op issues (a `bufnext` uses the size of the thread's buffered iterator) -/
def opReq (x : DThread) (op : Op) : Option Req :=
  match op with
  | .bufnext _ => (bsz x).map fun n => Req.buffered n false
  | op => reqOf op

def isQuery : Op → Bool
  | .len | .hasmore => true
  | _ => false

/-- the buffer a buffered request fills: the loop's own buffer, or the thread's buffered iterator -/
def actBuf (x : DThread) (lp : Bool) : Option (List (Option Nat)) := if lp then x.lbuf else x.buf

/-- everything thread `t` holds -/
def held (c : FCfg) (t : Nat) : List Nat :=
  somes ((c.d t).buf.getD []) ++ somes ((c.d t).lbuf.getD []) ++ coreAcc (c.core.th t).pc

/-- the elements the wrapped iterator produced in its first `p` calls -/
def prod (s : ISrc) (p : Nat) : List Nat :=
  (List.range p).filterMap fun i => match s.fn i with | .some v => some v | _ => none

theorem prod_succ (s : ISrc) (p : Nat) :
    prod s (p + 1) = prod s p ++ (match s.fn p with | .some v => [v] | _ => []) := by
  simp only [prod, List.range_succ, List.filterMap_append, List.filterMap_cons, List.filterMap_nil]
  cases s.fn p <;> simp

/-- `pc` executes request `r` -/
def PcRuns (pc : Pc) (r : Req) : Prop :=
  (r = .skip ∧ pc = .skp) ∨ (r ≠ .skip ∧ (pcReq pc = some r ∨ ∃ b, pc = .unw b r.len))

/-- **Coupling of the two layers, per thread**: the decoration layer (current op, remaining ops, buffers) and the protocol
layer (pc, remaining requests) of a live thread are in step; a buffered pull in progress has written exactly its
accumulator into the first slots of its buffer (a loop's own buffer holds nothing else). -/
structure TI (c : FCfg) (t : Nat) : Prop where
  todo : (c.d t).dead = false → (c.core.th t).todo = reqsOf (c.d t).todo (bsz (c.d t))
  quiet : (c.d t).dead = false → ((c.d t).cur = none ∨ ∃ op, (c.d t).cur = some op ∧ isQuery op = true) →
            (c.core.th t).pc = .idle ∧ (c.d t).lbuf = none
  busy : (c.d t).dead = false → ∀ op, (c.d t).cur = some op → isQuery op = false →
            ∃ r, opReq (c.d t) op = some r ∧ PcRuns (c.core.th t).pc r
  bufs : (c.d t).dead = false → ∀ op, (c.d t).cur = some op → isQuery op = false →
            (∀ n lp, opReq (c.d t) op = some (.buffered n lp) →
              ∃ l, actBuf (c.d t) lp = some l ∧ l.length = n ∧
                (match pcAcc (c.core.th t).pc with
                 | some acc => Prefix l acc ∧ (lp = true → somes l = acc)
                 | none => lp = true → (∃ b n', (c.core.th t).pc = .unw b n') ∨ somes l = [])) ∧
            ((∀ n, opReq (c.d t) op ≠ some (.buffered n true)) → (c.d t).lbuf = none)
  deadOk : (c.d t).dead = true → (c.d t).lbuf = none ∧ coreAcc (c.core.th t).pc = []

/-- initially -/
theorem TI_init (progs : Nat → List SOp) (t : Nat) : TI (init progs) t := by
  constructor <;> simp [init, IW.init, bsz]

/-- the ledger: produced = moved out + destroyed + held by the threads `0..n-1` (as multisets) -/
def Led (s : ISrc) (n : Nat) (c : FCfg) : Prop :=
  ∀ p, (prod s c.core.P).count p = c.mv.count p + c.dr.count p + ((List.range n).flatMap (held c)).count p

/-! ## one step -/

@[simp] theorem setD_d_same (c : FCfg) (t : Nat) (x : DThread) : (setD c t x).d t = x := by simp [setD]
@[simp] theorem setD_d_other (c : FCfg) (t u : Nat) (x : DThread) (h : u ≠ t) : (setD c t x).d u = c.d u := by simp [setD, h]
@[simp] theorem setD_core (c : FCfg) (t : Nat) (x : DThread) : (setD c t x).core = c.core := rfl
@[simp] theorem setD_mv (c : FCfg) (t : Nat) (x : DThread) : (setD c t x).mv = c.mv := rfl
@[simp] theorem setD_dr (c : FCfg) (t : Nat) (x : DThread) : (setD c t x).dr = c.dr := rfl

/-- what one step of thread `t` must establish: the coupling again, and the ledger equation of the step -/
def StepOk (s : ISrc) (t : Nat) (c c' : FCfg) : Prop :=
  TI c' t ∧
  ∀ p, c'.mv.count p + c'.dr.count p + (held c' t).count p + (prod s c.core.P).count p
      = c.mv.count p + c.dr.count p + (held c t).count p + (prod s c'.core.P).count p

theorem reqsOf_cons_bufnew (n : Nat) (k : Nat) (rest : List SOp) (buf : Option Nat) (h : n ≠ 0) :
    reqsOf (⟨k, .bufnew n⟩ :: rest) buf = reqsOf rest (some n) := by
  simp [reqsOf, h]

/-- a thread that is dead, or has nothing left to do, does not move -/
theorem step_noop (s : ISrc) (t : Nat) (c : FCfg)
    (h : (c.d t).dead = true ∨ ((c.d t).cur = none ∧ (c.d t).todo = [])) : step s t c = (c, []) := by
  unfold step stepAux
  rcases h with h | ⟨h1, h2⟩
  · simp [h]
  · by_cases hd : (c.d t).dead = true <;> simp [hd, h1, h2]

theorem core_step_idle_cons (s : Script) (t : Nat) (c : Cfg) (r : Req) (rest : List Req)
    (hpc : (c.th t).pc = .idle) (htd : (c.th t).todo = r :: rest) (hr : r ≠ .skip) :
    IW.step s t c = IW.setTh c t { (c.th t) with pc := .resv r, todo := rest } := by
  cases r <;> simp_all [IW.step]

theorem core_step_idle_skip (s : Script) (t : Nat) (c : Cfg) (rest : List Req)
    (hpc : (c.th t).pc = .idle) (htd : (c.th t).todo = .skip :: rest) :
    IW.step s t c = IW.setTh c t { (c.th t) with pc := .skp, todo := rest } := by
  unfold IW.step
  simp only [hpc, htd]

theorem step_call (s : ISrc) (hown : s.owning = true) (t : Nat) (c : FCfg) (hW : stepW s.fn t c.core = IW.step s.fn t c.core)
    (h : TI c t) (hd : (c.d t).dead = false) (hcur : (c.d t).cur = none) (o : SOp) (rest : List SOp)
    (htd : (c.d t).todo = o :: rest) : StepOk s t c (step s t c).1 := by
  obtain ⟨hpc, hlb⟩ := h.quiet hd (Or.inl hcur)
  have htodo := h.todo hd
  rw [htd] at htodo
  unfold step stepAux
  simp only [hd, hcur, htd, Bool.false_eq_true, ↓reduceIte]
  obtain ⟨k, op⟩ := o
  cases op with
  | bufnew n =>
    by_cases hn : n = 0
    · subst hn
      simp only [callStep, ↓reduceIte]
      refine ⟨⟨?_, ?_, ?_, ?_, ?_⟩, ?_⟩ <;> simp [held, hlb, hpc, coreAcc]
    · simp only [callStep, hn, ↓reduceIte]
      refine ⟨⟨?_, ?_, ?_, ?_, ?_⟩, ?_⟩
      · intro _; simp [bsz, htodo, reqsOf, hn]
      · intro _ _; simp [hpc, hlb]
      · intro _ op hop; simp [hcur] at hop
      · intro _ op hop; simp [hcur] at hop
      · intro hd'; simp [hd] at hd'
      · intro p
        cases hb : (c.d t).buf <;> simp [held, hb, hlb, hpc, coreAcc, somes_replicate_none, somes_nil, List.count_append, hown]
        omega
  | bufdrop =>
    simp only [callStep]
    refine ⟨⟨?_, ?_, ?_, ?_, ?_⟩, ?_⟩
    · intro _; simp [bsz, htodo, reqsOf]
    · intro _ _; simp [hpc, hlb]
    · intro _ op hop; simp [hcur] at hop
    · intro _ op hop; simp [hcur] at hop
    · intro hd'; simp [hd] at hd'
    · intro p
      cases hb : (c.d t).buf <;> simp [held, hb, hlb, hpc, coreAcc, somes_nil, List.count_append, hown]
      omega
  | len =>
    simp only [callStep]
    refine ⟨⟨?_, ?_, ?_, ?_, ?_⟩, ?_⟩
    · intro _; simp [bsz, htodo, reqsOf, reqOf]
    · intro _ _; simp [hpc, hlb]
    · intro _ op hop hq; simp at hop; subst hop; simp [isQuery] at hq
    · intro _ op hop hq; simp at hop; subst hop; simp [isQuery] at hq
    · intro hd'; simp [hd] at hd'
    · intro p; simp [held, hlb, hpc, coreAcc]
  | hasmore =>
    simp only [callStep]
    refine ⟨⟨?_, ?_, ?_, ?_, ?_⟩, ?_⟩
    · intro _; simp [bsz, htodo, reqsOf, reqOf]
    · intro _ _; simp [hpc, hlb]
    · intro _ op hop hq; simp at hop; subst hop; simp [isQuery] at hq
    · intro _ op hop hq; simp at hop; subst hop; simp [isQuery] at hq
    · intro hd'; simp [hd] at hd'
    · intro p; simp [held, hlb, hpc, coreAcc]
  | get i =>
    simp only [callStep]
    refine ⟨⟨?_, ?_, ?_, ?_, ?_⟩, ?_⟩ <;> simp [held, hlb, hpc, coreAcc]
  | clone j =>
    simp only [callStep]
    refine ⟨⟨?_, ?_, ?_, ?_, ?_⟩, ?_⟩ <;> simp [held, hlb, hpc, coreAcc]
  | next =>
    have hq : reqsOf (⟨k, .next⟩ :: rest) (bsz (c.d t)) = .single false :: reqsOf rest (bsz (c.d t)) := by simp [reqsOf, reqOf]
    rw [hq] at htodo
    have hcs := core_step_idle_cons s.fn t c.core _ _ hpc htodo (by simp)
    simp only [callStep, loopParams, hW, hcs, ↓reduceIte]
    refine ⟨⟨?_, ?_, ?_, ?_, ?_⟩, ?_⟩
    · intro _; simp [bsz]
    · intro _ hq'; simp [isQuery] at hq'
    · intro _ op hop _; simp at hop; subst hop; exact ⟨.single false, by simp [opReq, reqOf], Or.inr ⟨by simp, Or.inl (by simp [pcReq, setTh])⟩⟩
    · intro _ op hop _; simp at hop; subst hop; simp [opReq, reqOf, hlb]
    · intro hd'; simp [hd] at hd'
    · intro p; simp [held, hlb, hpc, coreAcc]
  | nextv =>
    have hq : reqsOf (⟨k, .nextv⟩ :: rest) (bsz (c.d t)) = .single false :: reqsOf rest (bsz (c.d t)) := by simp [reqsOf, reqOf]
    rw [hq] at htodo
    have hcs := core_step_idle_cons s.fn t c.core _ _ hpc htodo (by simp)
    simp only [callStep, loopParams, hW, hcs, ↓reduceIte]
    refine ⟨⟨?_, ?_, ?_, ?_, ?_⟩, ?_⟩
    · intro _; simp [bsz]
    · intro _ hq'; simp [isQuery] at hq'
    · intro _ op hop _; simp at hop; subst hop; exact ⟨.single false, by simp [opReq, reqOf], Or.inr ⟨by simp, Or.inl (by simp [pcReq, setTh])⟩⟩
    · intro _ op hop _; simp at hop; subst hop; simp [opReq, reqOf, hlb]
    · intro hd'; simp [hd] at hd'
    · intro p; simp [held, hlb, hpc, coreAcc]
  | chunk n kk =>
    cases n with
    | zero =>
      simp only [callStep]
      refine ⟨⟨?_, ?_, ?_, ?_, ?_⟩, ?_⟩
      · intro _; simp [bsz, htodo, reqsOf, reqOf]
      · intro _ _; simp [hpc, hlb]
      · intro _ op hop; simp [hcur] at hop
      · intro _ op hop; simp [hcur] at hop
      · intro hd'; simp [hd] at hd'
      · intro p; simp [held, hlb, hpc, coreAcc]
    | succ m =>
      have hq : reqsOf (⟨k, .chunk (m + 1) kk⟩ :: rest) (bsz (c.d t)) = .chunk (m + 1) :: reqsOf rest (bsz (c.d t)) := by simp [reqsOf, reqOf]
      rw [hq] at htodo
      have hcs := core_step_idle_cons s.fn t c.core _ _ hpc htodo (by simp)
      simp only [callStep, loopParams, hW, hcs, ↓reduceIte]
      refine ⟨⟨?_, ?_, ?_, ?_, ?_⟩, ?_⟩
      · intro _; simp [bsz]
      · intro _ hq'; simp [isQuery] at hq'
      · intro _ op hop _; simp at hop; subst hop; exact ⟨.chunk (m + 1), by simp [opReq, reqOf], Or.inr ⟨by simp, Or.inl (by simp [pcReq, setTh])⟩⟩
      · intro _ op hop _; simp at hop; subst hop; simp [opReq, reqOf, hlb]
      · intro hd'; simp [hd] at hd'
      · intro p; simp [held, hlb, hpc, coreAcc]
  | skip =>
    have hq : reqsOf (⟨k, .skip⟩ :: rest) (bsz (c.d t)) = .skip :: reqsOf rest (bsz (c.d t)) := by simp [reqsOf, reqOf]
    rw [hq] at htodo
    have hcs := core_step_idle_skip s.fn t c.core _ hpc htodo
    simp only [callStep, loopParams, hW, hcs, ↓reduceIte]
    refine ⟨⟨?_, ?_, ?_, ?_, ?_⟩, ?_⟩
    · intro _; simp [bsz]
    · intro _ hq'; simp [isQuery] at hq'
    · intro _ op hop _; simp at hop; subst hop; exact ⟨.skip, by simp [opReq, reqOf], Or.inl ⟨rfl, by simp [setTh]⟩⟩
    · intro _ op hop _; simp at hop; subst hop; simp [opReq, reqOf, hlb]
    · intro hd'; simp [hd] at hd'
    · intro p; simp [held, hlb, hpc, coreAcc]
  | bufnext kk =>
    cases hb : (c.d t).buf with
    | none =>
      simp only [callStep, hb]
      refine ⟨⟨?_, ?_, ?_, ?_, ?_⟩, ?_⟩ <;> simp [held, hlb, hpc, coreAcc, hb]
    | some l =>
      have hq : reqsOf (⟨k, .bufnext kk⟩ :: rest) (bsz (c.d t)) = .buffered l.length false :: reqsOf rest (bsz (c.d t)) := by
        simp [reqsOf, bsz, hb]
      rw [hq] at htodo
      have hcs := core_step_idle_cons s.fn t c.core _ _ hpc htodo (by simp)
      simp only [callStep, hb, hW, hcs, ↓reduceIte]
      refine ⟨⟨?_, ?_, ?_, ?_, ?_⟩, ?_⟩
      · intro _; simp [bsz, hb]
      · intro _ hq'; simp [isQuery] at hq'
      · intro _ op hop _; simp at hop; subst hop
        exact ⟨.buffered l.length false, by simp [opReq, bsz, hb], Or.inr ⟨by simp, Or.inl (by simp [pcReq, setTh])⟩⟩
      · intro _ op hop _; simp at hop; subst hop
        refine ⟨?_, ?_⟩
        · intro n lp hreq
          simp [opReq, bsz, hb] at hreq
          obtain ⟨rfl, rfl⟩ := hreq
          exact ⟨l, by simp [actBuf, hb], rfl, by simp [pcAcc, setTh]⟩
        · intro _; simp [hlb]
      · intro hd'; simp [hd] at hd'
      · intro p; simp [held, hlb, hpc, coreAcc, hb]
  | foreach n pa =>
    match n with
    | 0 =>
      simp only [callStep, loopParams, ↓reduceIte]
      refine ⟨⟨?_, ?_, ?_, ?_, ?_⟩, ?_⟩ <;> simp [held, hlb, hpc, coreAcc]
    | 1 =>
      have hq : reqsOf (⟨k, .foreach 1 pa⟩ :: rest) (bsz (c.d t)) = .single true :: reqsOf rest (bsz (c.d t)) := by simp [reqsOf, reqOf]
      rw [hq] at htodo
      have hcs := core_step_idle_cons s.fn t c.core _ _ hpc htodo (by simp)
      simp only [callStep, loopParams, hW, hcs, ↓reduceIte]
      refine ⟨⟨?_, ?_, ?_, ?_, ?_⟩, ?_⟩
      · intro _; simp [bsz]
      · intro _ hq'; simp [isQuery] at hq'
      · intro _ op hop _; simp at hop; subst hop; exact ⟨.single true, by simp [opReq, reqOf], Or.inr ⟨by simp, Or.inl (by simp [pcReq, setTh])⟩⟩
      · intro _ op hop _; simp at hop; subst hop; simp [opReq, reqOf]
      · intro hd'; simp [hd] at hd'
      · intro p; simp [held, hlb, hpc, coreAcc]
    | m + 2 =>
      have hq : reqsOf (⟨k, .foreach (m + 2) pa⟩ :: rest) (bsz (c.d t)) = .buffered (m + 2) true :: reqsOf rest (bsz (c.d t)) := by simp [reqsOf, reqOf]
      rw [hq] at htodo
      have hcs := core_step_idle_cons s.fn t c.core _ _ hpc htodo (by simp)
      simp only [callStep, loopParams, hW, hcs, ↓reduceIte]
      refine ⟨⟨?_, ?_, ?_, ?_, ?_⟩, ?_⟩
      · intro _; simp [bsz]
      · intro _ hq'; simp [isQuery] at hq'
      · intro _ op hop _; simp at hop; subst hop; exact ⟨.buffered (m + 2) true, by simp [opReq, reqOf], Or.inr ⟨by simp, Or.inl (by simp [pcReq, setTh])⟩⟩
      · intro _ op hop _; simp at hop; subst hop
        refine ⟨?_, ?_⟩
        · intro n' lp hreq
          simp [opReq, reqOf] at hreq
          obtain ⟨rfl, rfl⟩ := hreq
          exact ⟨List.replicate (m + 2) none, by simp [actBuf], by simp, by simp [pcAcc, setTh, somes_replicate_none]⟩
        · intro hne; exact absurd (by simp [opReq, reqOf]) (hne (m + 2))
      · intro hd'; simp [hd] at hd'
      · intro p; simp [held, hlb, hpc, coreAcc, somes_replicate_none, somes_nil]
  | enumforeach n pa =>
    match n with
    | 0 =>
      simp only [callStep, loopParams, ↓reduceIte]
      refine ⟨⟨?_, ?_, ?_, ?_, ?_⟩, ?_⟩ <;> simp [held, hlb, hpc, coreAcc]
    | 1 =>
      have hq : reqsOf (⟨k, .enumforeach 1 pa⟩ :: rest) (bsz (c.d t)) = .single true :: reqsOf rest (bsz (c.d t)) := by simp [reqsOf, reqOf]
      rw [hq] at htodo
      have hcs := core_step_idle_cons s.fn t c.core _ _ hpc htodo (by simp)
      simp only [callStep, loopParams, hW, hcs, ↓reduceIte]
      refine ⟨⟨?_, ?_, ?_, ?_, ?_⟩, ?_⟩
      · intro _; simp [bsz]
      · intro _ hq'; simp [isQuery] at hq'
      · intro _ op hop _; simp at hop; subst hop; exact ⟨.single true, by simp [opReq, reqOf], Or.inr ⟨by simp, Or.inl (by simp [pcReq, setTh])⟩⟩
      · intro _ op hop _; simp at hop; subst hop; simp [opReq, reqOf]
      · intro hd'; simp [hd] at hd'
      · intro p; simp [held, hlb, hpc, coreAcc]
    | m + 2 =>
      have hq : reqsOf (⟨k, .enumforeach (m + 2) pa⟩ :: rest) (bsz (c.d t)) = .buffered (m + 2) true :: reqsOf rest (bsz (c.d t)) := by simp [reqsOf, reqOf]
      rw [hq] at htodo
      have hcs := core_step_idle_cons s.fn t c.core _ _ hpc htodo (by simp)
      simp only [callStep, loopParams, hW, hcs, ↓reduceIte]
      refine ⟨⟨?_, ?_, ?_, ?_, ?_⟩, ?_⟩
      · intro _; simp [bsz]
      · intro _ hq'; simp [isQuery] at hq'
      · intro _ op hop _; simp at hop; subst hop; exact ⟨.buffered (m + 2) true, by simp [opReq, reqOf], Or.inr ⟨by simp, Or.inl (by simp [pcReq, setTh])⟩⟩
      · intro _ op hop _; simp at hop; subst hop
        refine ⟨?_, ?_⟩
        · intro n' lp hreq
          simp [opReq, reqOf] at hreq
          obtain ⟨rfl, rfl⟩ := hreq
          exact ⟨List.replicate (m + 2) none, by simp [actBuf], by simp, by simp [pcAcc, setTh, somes_replicate_none]⟩
        · intro hne; exact absurd (by simp [opReq, reqOf]) (hne (m + 2))
      · intro hd'; simp [hd] at hd'
      · intro p; simp [held, hlb, hpc, coreAcc, somes_replicate_none, somes_nil]
  | fold n =>
    match n with
    | 0 =>
      simp only [callStep, loopParams, ↓reduceIte]
      refine ⟨⟨?_, ?_, ?_, ?_, ?_⟩, ?_⟩ <;> simp [held, hlb, hpc, coreAcc]
    | 1 =>
      have hq : reqsOf (⟨k, .fold 1⟩ :: rest) (bsz (c.d t)) = .single true :: reqsOf rest (bsz (c.d t)) := by simp [reqsOf, reqOf]
      rw [hq] at htodo
      have hcs := core_step_idle_cons s.fn t c.core _ _ hpc htodo (by simp)
      simp only [callStep, loopParams, hW, hcs, ↓reduceIte]
      refine ⟨⟨?_, ?_, ?_, ?_, ?_⟩, ?_⟩
      · intro _; simp [bsz]
      · intro _ hq'; simp [isQuery] at hq'
      · intro _ op hop _; simp at hop; subst hop; exact ⟨.single true, by simp [opReq, reqOf], Or.inr ⟨by simp, Or.inl (by simp [pcReq, setTh])⟩⟩
      · intro _ op hop _; simp at hop; subst hop; simp [opReq, reqOf]
      · intro hd'; simp [hd] at hd'
      · intro p; simp [held, hlb, hpc, coreAcc]
    | m + 2 =>
      have hq : reqsOf (⟨k, .fold (m + 2)⟩ :: rest) (bsz (c.d t)) = .buffered (m + 2) true :: reqsOf rest (bsz (c.d t)) := by simp [reqsOf, reqOf]
      rw [hq] at htodo
      have hcs := core_step_idle_cons s.fn t c.core _ _ hpc htodo (by simp)
      simp only [callStep, loopParams, hW, hcs, ↓reduceIte]
      refine ⟨⟨?_, ?_, ?_, ?_, ?_⟩, ?_⟩
      · intro _; simp [bsz]
      · intro _ hq'; simp [isQuery] at hq'
      · intro _ op hop _; simp at hop; subst hop; exact ⟨.buffered (m + 2) true, by simp [opReq, reqOf], Or.inr ⟨by simp, Or.inl (by simp [pcReq, setTh])⟩⟩
      · intro _ op hop _; simp at hop; subst hop
        refine ⟨?_, ?_⟩
        · intro n' lp hreq
          simp [opReq, reqOf] at hreq
          obtain ⟨rfl, rfl⟩ := hreq
          exact ⟨List.replicate (m + 2) none, by simp [actBuf], by simp, by simp [pcAcc, setTh, somes_replicate_none]⟩
        · intro hne; exact absurd (by simp [opReq, reqOf]) (hne (m + 2))
      · intro hd'; simp [hd] at hd'
      · intro p; simp [held, hlb, hpc, coreAcc, somes_replicate_none, somes_nil]
  | values =>
    have hq : reqsOf (⟨k, .values⟩ :: rest) (bsz (c.d t)) = .single true :: reqsOf rest (bsz (c.d t)) := by simp [reqsOf, reqOf]
    rw [hq] at htodo
    have hcs := core_step_idle_cons s.fn t c.core _ _ hpc htodo (by simp)
    simp only [callStep, loopParams, hW, hcs, ↓reduceIte]
    refine ⟨⟨?_, ?_, ?_, ?_, ?_⟩, ?_⟩
    · intro _; simp [bsz]
    · intro _ hq'; simp [isQuery] at hq'
    · intro _ op hop _; simp at hop; subst hop; exact ⟨.single true, by simp [opReq, reqOf], Or.inr ⟨by simp, Or.inl (by simp [pcReq, setTh])⟩⟩
    · intro _ op hop _; simp at hop; subst hop; simp [opReq, reqOf]
    · intro hd'; simp [hd] at hd'
    · intro p; simp [held, hlb, hpc, coreAcc]
  | idsvalues =>
    have hq : reqsOf (⟨k, .idsvalues⟩ :: rest) (bsz (c.d t)) = .single true :: reqsOf rest (bsz (c.d t)) := by simp [reqsOf, reqOf]
    rw [hq] at htodo
    have hcs := core_step_idle_cons s.fn t c.core _ _ hpc htodo (by simp)
    simp only [callStep, loopParams, hW, hcs, ↓reduceIte]
    refine ⟨⟨?_, ?_, ?_, ?_, ?_⟩, ?_⟩
    · intro _; simp [bsz]
    · intro _ hq'; simp [isQuery] at hq'
    · intro _ op hop _; simp at hop; subst hop; exact ⟨.single true, by simp [opReq, reqOf], Or.inr ⟨by simp, Or.inl (by simp [pcReq, setTh])⟩⟩
    · intro _ op hop _; simp at hop; subst hop; simp [opReq, reqOf]
    · intro hd'; simp [hd] at hd'
    · intro p; simp [held, hlb, hpc, coreAcc]


/-- `try_get_len` / `has_more` in progress: no protocol step, nothing moves -/
theorem step_query (s : ISrc) (t : Nat) (c : FCfg) (h : TI c t) (hd : (c.d t).dead = false) (op : Op)
    (hcur : (c.d t).cur = some op) (hq : isQuery op = true) : StepOk s t c (step s t c).1 := by
  obtain ⟨hpc, hlb⟩ := h.quiet hd (Or.inr ⟨op, hcur, hq⟩)
  have htodo := h.todo hd
  unfold step stepAux
  simp only [hd, hcur, Bool.false_eq_true, ↓reduceIte]
  have hop : op = .len ∨ op = .hasmore := by cases op <;> simp_all [isQuery]
  rcases hop with rfl | rfl <;>
  · simp only [queryStep]
    split
    · split
      · refine ⟨⟨?_, ?_, ?_, ?_, ?_⟩, ?_⟩ <;> simp_all [held, coreAcc, bsz]
      · split
        · refine ⟨⟨?_, ?_, ?_, ?_, ?_⟩, ?_⟩ <;> simp_all [held, coreAcc, bsz]
        · refine ⟨⟨?_, ?_, ?_, ?_, ?_⟩, ?_⟩ <;> simp_all [held, coreAcc, bsz, isQuery]
    · refine ⟨⟨?_, ?_, ?_, ?_, ?_⟩, ?_⟩ <;> simp_all [held, coreAcc, bsz]

end Orx.IWF
