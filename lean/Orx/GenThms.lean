import Orx.Generated.Arith
import Orx.KS
/-! # The translated Rust functions compute what the model says (for every machine-word input)

`Generated/Arith.lean` is produced from `/repo/src` by `tools/rs2lean.py` on every run. This file states, for each
translated function of the four known-size kinds and their buffered pullers, that for **all** inputs

* it does not fault: no `usize` overflow (so debug and release builds agree), no slice index out of range, no
  violated precondition of `ptr::add` / `Taken::new` / `slice_from_raw_parts_mut`, no failed assertion;
* it performs exactly one atomic access on the position counter — the one the model's `Atom` performs, with the
  ordering the trace shows — and leaves the counter at `Atom.next`;
* it returns the value the model computes (`KS.pullRange`, `KS.lenOf`, the clamped cursor).

A change of the arithmetic in the source changes the generated definition and breaks the proof here. -/
namespace Orx.GenThms
open Orx Orx.RS Orx.Gen Orx.KS

/-- the chunk a pull returns for the model's position interval `[b, e)`: `None` iff empty -/
def chunkOf (r : Nat × Nat) : Option (NextChunk Span) :=
  if r.1 = r.2 then none else some ⟨r.1, ⟨r.1, r.2⟩⟩

/-- the same with the values of a range starting at `start` -/
def chunkOfR (start : Nat) (r : Nat × Nat) : Option (NextChunk Span) :=
  if r.1 = r.2 then none else some ⟨r.1, ⟨start + r.1, start + r.2⟩⟩

def st (c : Nat) (evs : List Ev) (dr : List (Nat × Nat)) : St := ⟨c, evs, dr⟩

def faa (c n : Nat) : Ev := .faa (.ctr 0) .acqrel c n

theorem endIdx_bounds (b n len : Nat) (h : b ≤ len) :
    b ≤ max (min (satAdd b n) len) b ∧ max (min (satAdd b n) len) b ≤ len := by omega

theorem endIdx_gt (b n len : Nat) (h : b < len) (hn : 0 < n) (hl : len < W) : b < max (min (satAdd b n) len) b := by
  unfold satAdd MAXW; unfold W at hl; split <;> omega

/-! ## slice -/

def slice (len : Nat) : SliceSelf := ⟨⟨len⟩, {}⟩

theorem slice_initial_len (len : Nat) (s : St) : Slice.initial_len (slice len) s = .ok len s := rfl

theorem slice_progress (len n c : Nat) (evs dr) :
    Slice.progress_and_get_begin_idx (slice len) n (st c evs dr) =
      .ok (if c < len then some c else none) (st (wrapAdd c n) (evs ++ [faa c n]) dr) := by
  simp only [Slice.progress_and_get_begin_idx, Slice.counter, Slice.initial_len, Counter.fetch_and_add, slice, st, faa,
    bind, M.bind, pure, M.pure, m_fetch_add, m_len, MLen.m_len, m_cmp]
  by_cases h1 : c < len
  · simp [h1, M.pure]
  · by_cases h2 : c = len <;> simp [h1, h2, M.pure]

theorem slice_fetch_n (len n c : Nat) (evs dr) :
    Slice.fetch_n (slice len) n (st c evs dr) =
      .ok (chunkOf (pullRange len c n)) (st (wrapAdd c n) (evs ++ [faa c n]) dr) := by
  simp only [Slice.fetch_n, slice_progress, slice_initial_len, bind, M.bind, pure, M.pure,
    m_unwrap_or, m_saturating_add, m_min, m_max, m_cmp, m_index_range, m_iter, MIter.m_iter, chunkOf, pullRange]
  simp only [slice]
  by_cases h1 : c < len
  · have hb := endIdx_bounds c n len (by omega)
    simp only [h1, ↓reduceIte, Option.getD_some]
    by_cases hs : c = max (min (satAdd c n) len) c
    · have : ¬ c < max (min (satAdd c n) len) c := by omega
      simp [← hs, M.pure]
    · have : c < max (min (satAdd c n) len) c := by omega
      simp [this, hs, hb, M.pure, M.bind]
  · have hm : max (min (satAdd len n) len) len = len := by omega
    simp [h1, hm, M.pure]

theorem slice_fetch_one (len c : Nat) (evs dr) :
    Slice.fetch_one (slice len) (st c evs dr) =
      .ok (if c < len then some ⟨c, c⟩ else none) (st (wrapAdd c 1) (evs ++ [faa c 1]) dr) := by
  simp only [Slice.fetch_one, Slice.counter, Slice.get, Counter.fetch_and_increment, slice, st, faa,
    bind, M.bind, pure, M.pure, m_fetch_add, m_get, m_map, MMap.m_map]
  by_cases h1 : c < len <;> simp [h1, M.pure, M.bind]

theorem slice_early_exit (len c : Nat) (evs dr) :
    Slice.early_exit (slice len) (st c evs dr) = .ok () (st len (evs ++ [.st (.ctr 0) .seqcst len]) dr) := by
  simp [Slice.early_exit, Slice.counter, Counter.store, slice, st, bind, M.bind, pure, M.pure, m_store, m_len, MLen.m_len]

theorem slice_try_get_len (len c : Nat) (evs dr) :
    Slice.try_get_len (slice len) (st c evs dr) =
      .ok (some (lenOf len c)) (st c (evs ++ [.ld (.ctr 0) .acquire c]) dr) := by
  simp only [Slice.try_get_len, Slice.counter, Slice.initial_len, Counter.current, slice, st, lenOf,
    bind, M.bind, pure, M.pure, m_load, m_len, MLen.m_len, m_cmp, op_sub]
  by_cases h1 : c < len
  · have : c ≤ len := by omega
    simp [h1, this, M.pure, M.bind]
  · by_cases h2 : c = len <;> simp [h1, h2, M.pure, M.bind]

theorem slice_into_seq_iter (len c : Nat) (evs dr) :
    Slice.into_seq_iter (slice len) (st c evs dr) =
      .ok ⟨min c len, len⟩ (st c (evs ++ [.ld (.ctr 0) .acquire c]) dr) := by
  simp [Slice.into_seq_iter, Slice.counter, Counter.current, slice, st, bind, M.bind, pure, M.pure, m_load,
    m_iter, MIter.m_iter, m_skip]

/-! ## vec -/

def vec (len : Nat) : VecSelf := ⟨⟨len⟩, len, {}⟩

theorem vec_initial_len (len : Nat) (s : St) : Vec.initial_len (vec len) s = .ok len s := rfl

theorem vec_progress (len n c : Nat) (evs dr) :
    Vec.progress_and_get_begin_idx (vec len) n (st c evs dr) =
      .ok (if c < len then some c else none) (st (wrapAdd c n) (evs ++ [faa c n]) dr) := by
  simp only [Vec.progress_and_get_begin_idx, Vec.counter, Vec.initial_len, Counter.fetch_and_add, vec, st, faa,
    bind, M.bind, pure, M.pure, m_fetch_add, m_cmp]
  by_cases h1 : c < len
  · simp [h1, M.pure]
  · by_cases h2 : c = len <;> simp [h1, h2, M.pure]

/-- `take_slice(b, n)` for a begin index inside the vector: no fault (the subtraction does not underflow, the pointer
stays in the allocation, `Taken::new` gets a valid span), and the span is `[b, min(b + n, len))` -/
theorem vec_take_slice (len b n : Nat) (hb : b ≤ len) (hl : len < W) (s : St) :
    Vec.take_slice (vec len) b n s = .ok ⟨b, min (satAdd b n) len⟩ s := by
  have h1 : b ≤ min (satAdd b n) len := by unfold satAdd MAXW; unfold W at hl; split <;> omega
  have h2 : b + (min (satAdd b n) len - b) ≤ len := by omega
  have h3 : b + (min (satAdd b n) len - b) = min (satAdd b n) len := by omega
  have h4 : min (satAdd b n) len ≤ len := by omega
  simp [h4, Vec.take_slice, vec, bind, M.bind, pure, M.pure, m_saturating_add, m_len, MLen.m_len, m_min, op_sub,
    m_as_mut_ptr, MAsMutPtr.m_as_mut_ptr, m_add, Taken_new, h1, hb, h2, h3]

theorem vec_fetch_n (len n c : Nat) (evs dr) (hl : len < W) :
    Vec.fetch_n (vec len) n (st c evs dr) =
      .ok (chunkOf (pullRange len c n)) (st (wrapAdd c n) (evs ++ [faa c n]) dr) := by
  simp only [Vec.fetch_n, vec_progress, vec_initial_len, bind, M.bind, pure, M.pure,
    m_unwrap_or, m_saturating_add, m_min, m_max, m_cmp, chunkOf, pullRange]
  by_cases h1 : c < len
  · have hb := endIdx_bounds c n len (by omega)
    simp only [h1, ↓reduceIte, Option.getD_some]
    by_cases hs : c = max (min (satAdd c n) len) c
    · have : ¬ c < max (min (satAdd c n) len) c := by omega
      simp [← hs, M.pure]
    · have hlt : c < max (min (satAdd c n) len) c := by omega
      have hm : max (min (satAdd c n) len) c = min (satAdd c n) len := by omega
      have hlt' : c < min (satAdd c n) len := by omega
      have hs' : ¬ c = min (satAdd c n) len := by omega
      simp [hm, hlt', hs', M.pure, M.bind, vec_take_slice len c n (by omega) hl]
  · have hm : max (min (satAdd len n) len) len = len := by omega
    simp [h1, hm, M.pure]

theorem vec_fetch_one (len c : Nat) (evs dr) :
    Vec.fetch_one (vec len) (st c evs dr) =
      .ok (if c < len then some ⟨c, c⟩ else none) (st (wrapAdd c 1) (evs ++ [faa c 1]) dr) := by
  simp only [Vec.fetch_one, Vec.counter, Vec.get, Counter.fetch_and_increment, vec, st, faa,
    bind, M.bind, pure, M.pure, m_fetch_add, m_cmp, m_take_one, MTakeOne.m_take_one, m_map, MMap.m_map]
  by_cases h1 : c < len
  · simp [h1, M.pure, M.bind]
  · by_cases h2 : c = len <;> simp [h1, h2, M.pure, M.bind]

/-- `early_exit` of a consumed vector: one `swap(len)`, and exactly the span `[min(c, len), len)` is destroyed in place -/
theorem vec_early_exit (len c : Nat) (evs dr) :
    Vec.early_exit (vec len) (st c evs dr) =
      .ok () (st len (evs ++ [.swp (.ctr 0) .acqrel c len]) (dr ++ [(min c len, len)])) := by
  have h1 : min c len ≤ len := by omega
  have h2 : min c len + (len - min c len) = len := by omega
  simp [Vec.early_exit, Vec.counter, Counter.swap, vec, st, bind, M.bind, pure, M.pure, m_swap, m_min, op_sub,
    m_as_mut_ptr, MAsMutPtr.m_as_mut_ptr, m_add, ptr_slice_from_raw_parts_mut, ptr_drop_in_place, h1, h2]

theorem vec_try_get_len (len c : Nat) (evs dr) :
    Vec.try_get_len (vec len) (st c evs dr) =
      .ok (some (lenOf len c)) (st c (evs ++ [.ld (.ctr 0) .acquire c]) dr) := by
  simp only [Vec.try_get_len, Vec.counter, Vec.initial_len, Counter.current, vec, st, lenOf,
    bind, M.bind, pure, M.pure, m_load, m_cmp, op_sub]
  by_cases h1 : c < len
  · have : c ≤ len := by omega
    simp [h1, this, M.pure, M.bind]
  · by_cases h2 : c = len <;> simp [h1, h2, M.pure, M.bind]

/-! ## array -/

def arr (len : Nat) : ArrSelf := ⟨⟨len⟩, {}⟩

theorem arr_initial_len (len : Nat) (s : St) : Arr.initial_len len (arr len) s = .ok len s := rfl

theorem arr_progress (len n c : Nat) (evs dr) :
    Arr.progress_and_get_begin_idx len (arr len) n (st c evs dr) =
      .ok (if c < len then some c else none) (st (wrapAdd c n) (evs ++ [faa c n]) dr) := by
  simp only [Arr.progress_and_get_begin_idx, Arr.counter, Arr.initial_len, Counter.fetch_and_add, arr, st, faa,
    bind, M.bind, pure, M.pure, m_fetch_add, m_cmp]
  by_cases h1 : c < len
  · simp [h1, M.pure]
  · by_cases h2 : c = len <;> simp [h1, h2, M.pure]

theorem arr_take_slice (len b n : Nat) (hb : b ≤ len) (hl : len < W) (s : St) :
    Arr.take_slice len (arr len) b n s = .ok ⟨b, min (satAdd b n) len⟩ s := by
  have h1 : b ≤ min (satAdd b n) len := by unfold satAdd MAXW; unfold W at hl; split <;> omega
  have h2 : b + (min (satAdd b n) len - b) ≤ len := by omega
  have h3 : b + (min (satAdd b n) len - b) = min (satAdd b n) len := by omega
  have h4 : min (satAdd b n) len ≤ len := by omega
  simp [h4, Arr.take_slice, arr, bind, M.bind, pure, M.pure, m_saturating_add, m_len, MLen.m_len, m_min, op_sub,
    m_as_mut_ptr, MAsMutPtr.m_as_mut_ptr, m_add, Taken_new, h1, hb, h2, h3]

theorem arr_fetch_n (len n c : Nat) (evs dr) (hl : len < W) :
    Arr.fetch_n len (arr len) n (st c evs dr) =
      .ok (chunkOf (pullRange len c n)) (st (wrapAdd c n) (evs ++ [faa c n]) dr) := by
  simp only [Arr.fetch_n, arr_progress, arr_initial_len, bind, M.bind, pure, M.pure,
    m_unwrap_or, m_saturating_add, m_min, m_max, m_cmp, chunkOf, pullRange]
  by_cases h1 : c < len
  · have hb := endIdx_bounds c n len (by omega)
    simp only [h1, ↓reduceIte, Option.getD_some]
    by_cases hs : c = max (min (satAdd c n) len) c
    · have : ¬ c < max (min (satAdd c n) len) c := by omega
      simp [← hs, M.pure]
    · have hlt : c < max (min (satAdd c n) len) c := by omega
      have hm : max (min (satAdd c n) len) c = min (satAdd c n) len := by omega
      have hlt' : c < min (satAdd c n) len := by omega
      have hs' : ¬ c = min (satAdd c n) len := by omega
      simp [hm, hlt', hs', M.pure, M.bind, arr_take_slice len c n (by omega) hl]
  · have hm : max (min (satAdd len n) len) len = len := by omega
    simp [h1, hm, M.pure]

theorem arr_fetch_one (len c : Nat) (evs dr) :
    Arr.fetch_one len (arr len) (st c evs dr) =
      .ok (if c < len then some ⟨c, c⟩ else none) (st (wrapAdd c 1) (evs ++ [faa c 1]) dr) := by
  simp only [Arr.fetch_one, Arr.counter, Arr.get, Counter.fetch_and_increment, arr, st, faa,
    bind, M.bind, pure, M.pure, m_fetch_add, m_cmp, m_take_one, MTakeOne.m_take_one, m_map, MMap.m_map]
  by_cases h1 : c < len
  · simp [h1, M.pure, M.bind]
  · by_cases h2 : c = len <;> simp [h1, h2, M.pure, M.bind]

theorem arr_early_exit (len c : Nat) (evs dr) :
    Arr.early_exit len (arr len) (st c evs dr) =
      .ok () (st len (evs ++ [.swp (.ctr 0) .acqrel c len]) (dr ++ [(min c len, len)])) := by
  have h1 : min c len ≤ len := by omega
  have h2 : min c len + (len - min c len) = len := by omega
  simp [Arr.early_exit, Arr.counter, Counter.swap, arr, st, bind, M.bind, pure, M.pure, m_swap, m_min, op_sub,
    m_as_mut_ptr, MAsMutPtr.m_as_mut_ptr, m_add, ptr_slice_from_raw_parts_mut, ptr_drop_in_place, h1, h2]

theorem arr_try_get_len (len c : Nat) (evs dr) :
    Arr.try_get_len len (arr len) (st c evs dr) =
      .ok (some (lenOf len c)) (st c (evs ++ [.ld (.ctr 0) .acquire c]) dr) := by
  simp only [Arr.try_get_len, Arr.counter, Arr.initial_len, Counter.current, arr, st, lenOf,
    bind, M.bind, pure, M.pure, m_load, m_cmp, op_sub]
  by_cases h1 : c < len
  · have : c ≤ len := by omega
    simp [h1, this, M.pure, M.bind]
  · by_cases h2 : c = len <;> simp [h1, h2, M.pure, M.bind]

/-! ## range -/

def range (a b : Nat) : RangeSelf := ⟨⟨a, b⟩, {}⟩

theorem range_initial_len (a b : Nat) (s : St) : Range.initial_len (range a b) s = .ok (b - a) s := rfl

theorem range_progress (a b n c : Nat) (evs dr) :
    Range.progress_and_get_begin_idx (range a b) n (st c evs dr) =
      .ok (if c < b - a then some c else none) (st (wrapAdd c n) (evs ++ [faa c n]) dr) := by
  simp only [Range.progress_and_get_begin_idx, Range.counter, range_initial_len, Counter.fetch_and_add, st, faa,
    bind, M.bind, pure, M.pure, m_fetch_add, m_cmp]
  simp only [range]
  by_cases h1 : c < b - a
  · simp [h1, M.pure]
  · by_cases h2 : c = b - a <;> simp [h1, h2, M.pure]

/-- **`fetch_n` of a range, every range (also empty, inverted, ending at `usize::MAX`) and every chunk size**: no
overflow in `begin_idx + start`, no underflow in `end_value - start`; the chunk holds exactly the values
`start + b .. start + e` for the model's position interval `[b, e)` — never a value outside the range. -/
theorem range_fetch_n (a b n c : Nat) (evs dr) (ha : a < W) (hb : b < W) :
    Range.fetch_n (range a b) n (st c evs dr) =
      .ok (chunkOfR a (pullRange (b - a) c n)) (st (wrapAdd c n) (evs ++ [faa c n]) dr) := by
  simp only [Range.fetch_n, range_progress, range_initial_len, bind, M.bind, pure, M.pure,
    m_unwrap_or, m_into, m_saturating_add, m_min, m_cmp, op_add, op_sub, m_range, m_map, MMap.m_map, chunkOfR, pullRange]
  simp only [range]
  by_cases h1 : c < b - a
  · -- in range: begin value `c + a < b`
    have hv : c + a < W := by omega
    have hlt : c + a < b := by omega
    have hsat : c + a ≤ satAdd (c + a) n := by unfold satAdd MAXW; unfold W at hv; split <;> omega
    have hsat' : satAdd c n + a ≥ min (satAdd (c + a) n) b ∨ True := Or.inr trivial
    have hge : a ≤ min (satAdd (c + a) n) b := by omega
    have hend : min (satAdd (c + a) n) b - a = max (min (satAdd c n) (b - a)) c := by
      unfold satAdd MAXW; unfold W at *
      by_cases q1 : c + a + n < 18446744073709551616 <;> by_cases q2 : c + n < 18446744073709551616 <;>
        simp only [q1, q2, ↓reduceIte] <;> omega
    simp only [h1, ↓reduceIte, Option.getD_some, hv, hlt, M.pure, M.bind, hge, hend]
    by_cases hs : c = max (min (satAdd c n) (b - a)) c
    · have : ¬ c < max (min (satAdd c n) (b - a)) c := by omega
      simp [← hs, M.pure]
    · have hlt2 : c < max (min (satAdd c n) (b - a)) c := by omega
      have e1 : a + c = c + a := by omega
      have e2 : a + max (min (satAdd c n) (b - a)) c = min (satAdd (c + a) n) b := by omega
      simp [hlt2, hs, e1, e2, M.pure, M.bind]
  · -- at or past the end (also: empty and inverted ranges)
    have hv : b - a + a < W := by omega
    have hm : max (min (satAdd (b - a) n) (b - a)) (b - a) = b - a := by omega
    have hnl : ¬ b - a + a < b := by omega
    have hle : a ≤ b - a + a := by omega
    have he : b - a + a - a = b - a := by omega
    simp only [h1, ↓reduceIte, Option.getD_none, hv, M.pure, M.bind, hnl]
    by_cases h2 : b - a + a = b
    · have hab : a ≤ b := by omega
      simp [h2, hab, hm, M.pure, M.bind]
    · have hz : b - a = 0 := by omega
      have hab : ¬ a < b := by omega
      have hne : ¬ a = b := by omega
      simp [hz, hab, hne, M.pure, M.bind]

theorem range_fetch_one (a b c : Nat) (evs dr) (ha : a < W) (hb : b < W) :
    Range.fetch_one (range a b) (st c evs dr) =
      .ok (if c < b - a then some ⟨c, a + c⟩ else none) (st (wrapAdd c 1) (evs ++ [faa c 1]) dr) := by
  simp only [Range.fetch_one, Range.counter, Range.get, range_initial_len, Counter.fetch_and_increment, st, faa,
    bind, M.bind, pure, M.pure, m_fetch_add, m_cmp, m_into, op_add, m_map, MMap.m_map]
  simp only [range]
  by_cases h1 : c < b - a
  · have : a + c < W := by omega
    simp [h1, this, M.pure, M.bind]
  · by_cases h2 : c = b - a <;> simp [h1, h2, M.pure, M.bind]

theorem range_early_exit (a b c : Nat) (evs dr) :
    Range.early_exit (range a b) (st c evs dr) = .ok () (st (b - a) (evs ++ [.st (.ctr 0) .seqcst (b - a)]) dr) := by
  simp only [Range.early_exit, Range.counter, range_initial_len, Counter.store, st, bind, M.bind, pure, M.pure, m_store]
  simp [range]

theorem range_try_get_len (a b c : Nat) (evs dr) :
    Range.try_get_len (range a b) (st c evs dr) =
      .ok (some (lenOf (b - a) c)) (st c (evs ++ [.ld (.ctr 0) .acquire c]) dr) := by
  simp only [Range.try_get_len, Range.counter, range_initial_len, Counter.current, st, lenOf,
    bind, M.bind, pure, M.pure, m_load, m_cmp, op_sub]
  simp only [range]
  by_cases h1 : c < b - a
  · have : c ≤ b - a := by omega
    simp [h1, this, M.pure, M.bind]
  · by_cases h2 : c = b - a <;> simp [h1, h2, M.pure, M.bind]

/-- `into_seq_iter` of a range: the remainder starts at `start + min(counter, len)` — computed without overflow —
and ends at `end`: exactly the undelivered values, never one outside the range -/
theorem range_into_seq_iter (a b c : Nat) (evs dr) (ha : a < W) (hb : b < W) :
    Range.into_seq_iter (range a b) (st c evs dr) =
      .ok ⟨a + min c (b - a), b⟩ (st c (evs ++ [.ld (.ctr 0) .acquire c]) dr) := by
  simp only [Range.into_seq_iter, Range.counter, range_initial_len, Counter.current, st,
    bind, M.bind, pure, M.pure, m_load, m_min, m_into, op_add, m_range]
  simp only [range]
  have : a + min c (b - a) < W := by omega
  simp [this, M.pure, M.bind]

/-! ## buffered chunk iterators (`BufferedIter::next` = `progress_and_get_begin_idx(chunk_size)` then `pull`) -/

/-- what `BufferedIter::next` returns when the counter read `c`: the model's `bufnext` -/
def bufChunk (len c n : Nat) : Option (NextChunk Span) :=
  if c < len then some ⟨c, ⟨c, (pullRange len c n).2⟩⟩ else none

def bufChunkR (start len c n : Nat) : Option (NextChunk Span) :=
  if c < len then some ⟨c, ⟨start + c, start + (pullRange len c n).2⟩⟩ else none

theorem slice_buffered_next (len n c : Nat) (evs dr) :
    BufferedIterSlice.next ⟨⟨n⟩, slice len⟩ (st c evs dr) =
      .ok (bufChunk len c n) (st (wrapAdd c n) (evs ++ [faa c n]) dr) := by
  simp only [BufferedIterSlice.next, BufSlice.chunk_size, slice_progress, bind, M.bind, pure, M.pure, m_and_then, bufChunk, pullRange]
  by_cases h1 : c < len
  · have hb := endIdx_bounds c n len (by omega)
    simp [h1, BufSlice.pull, Slice.as_slice, slice, bind, M.bind, pure, M.pure, m_len, MLen.m_len, m_cmp,
      m_saturating_add, m_min, m_max, m_index_range, m_iter, MIter.m_iter, m_map, MMap.m_map, hb]
  · simp [h1, M.pure]

theorem vec_buffered_next (len n c : Nat) (evs dr) (hl : len < W) :
    BufferedIterVec.next ⟨⟨n⟩, vec len⟩ (st c evs dr) =
      .ok (bufChunk len c n) (st (wrapAdd c n) (evs ++ [faa c n]) dr) := by
  simp only [BufferedIterVec.next, BufVec.chunk_size, vec_progress, bind, M.bind, pure, M.pure, m_and_then, bufChunk, pullRange]
  by_cases h1 : c < len
  · have hb := endIdx_bounds c n len (by omega)
    have hm : max (min (satAdd c n) len) c = min (satAdd c n) len := by
      have : c ≤ min (satAdd c n) len := by unfold satAdd MAXW; unfold W at hl; split <;> omega
      omega
    simp [h1, BufVec.pull, bind, M.bind, pure, M.pure, m_map, MMap.m_map, vec_take_slice len c n (by omega) hl, hm]
  · simp [h1, M.pure]

theorem arr_buffered_next (len n c : Nat) (evs dr) (hl : len < W) :
    BufferedIterArr.next len ⟨⟨n⟩, arr len⟩ (st c evs dr) =
      .ok (bufChunk len c n) (st (wrapAdd c n) (evs ++ [faa c n]) dr) := by
  simp only [BufferedIterArr.next, BufArr.chunk_size, arr_progress, bind, M.bind, pure, M.pure, m_and_then, bufChunk, pullRange]
  by_cases h1 : c < len
  · have hb := endIdx_bounds c n len (by omega)
    have hm : max (min (satAdd c n) len) c = min (satAdd c n) len := by
      have : c ≤ min (satAdd c n) len := by unfold satAdd MAXW; unfold W at hl; split <;> omega
      omega
    simp [h1, BufArr.pull, bind, M.bind, pure, M.pure, m_map, MMap.m_map, arr_take_slice len c n (by omega) hl, hm]
  · simp [h1, M.pure]

theorem range_buffered_next (a b n c : Nat) (evs dr) (ha : a < W) (hb : b < W) :
    BufferedIterRange.next ⟨⟨n⟩, range a b⟩ (st c evs dr) =
      .ok (bufChunkR a (b - a) c n) (st (wrapAdd c n) (evs ++ [faa c n]) dr) := by
  simp only [BufferedIterRange.next, BufRange.chunk_size, range_progress, bind, M.bind, pure, M.pure, m_and_then, bufChunkR, pullRange]
  by_cases h1 : c < b - a
  · have hv : c + a < W := by omega
    have hlt : c + a < b := by omega
    have hend : min (satAdd (c + a) n) b = a + max (min (satAdd c n) (b - a)) c := by
      unfold satAdd MAXW; unfold W at *
      by_cases q1 : c + a + n < 18446744073709551616 <;> by_cases q2 : c + n < 18446744073709551616 <;>
        simp only [q1, q2, ↓reduceIte] <;> omega
    have e1 : a + c = c + a := by omega
    simp [h1, BufRange.pull, Range.range, range, bind, M.bind, pure, M.pure, m_into, op_add, m_cmp, m_saturating_add,
      m_min, m_range, m_map, MMap.m_map, hv, hlt, hend, e1]
  · simp [h1, M.pure]

/-- a buffered chunk is never empty: chunk size `≥ 1` (asserted by `BufferedIter::new`) and a counter below the length -/
theorem buffered_chunk_nonempty (len c n : Nat) (h : c < len) (hn : 0 < n) (hl : len < W) :
    c < (pullRange len c n).2 := by
  simp only [pullRange, h, ↓reduceIte]
  exact endIdx_gt c n len h hn hl

/-- `BufferedIter::new` panics (assertion) exactly for chunk size 0 -/
theorem buffered_new_zero_panics (s : St) : BufferedIterNew.new ⟨0⟩ () s = .fail .assertion := by
  simp [BufferedIterNew.new, BufAny.chunk_size, bind, M.bind, pure, M.pure, op_gt, m_assert, M.failWith]

theorem buffered_new_positive (n : Nat) (h : 0 < n) (s : St) :
    ∃ r, BufferedIterNew.new ⟨n⟩ () s = .ok r s ∧ r.buffered_iter.chunk_size = n := by
  simp [BufferedIterNew.new, BufAny.chunk_size, bind, M.bind, pure, M.pure, op_gt, m_assert, h]

/-! ## the public entry points are the functions above -/

theorem slice_next_chunk (len n : Nat) : Slice.next_chunk (slice len) n = Slice.fetch_n (slice len) n := rfl
theorem slice_next_id_and_value (len : Nat) : Slice.next_id_and_value (slice len) = Slice.fetch_one (slice len) := rfl
theorem slice_skip_to_end (len : Nat) : Slice.skip_to_end (slice len) = Slice.early_exit (slice len) := rfl
theorem vec_next_chunk (len n : Nat) : Vec.next_chunk (vec len) n = Vec.fetch_n (vec len) n := rfl
theorem vec_next_id_and_value (len : Nat) : Vec.next_id_and_value (vec len) = Vec.fetch_one (vec len) := rfl
theorem vec_skip_to_end (len : Nat) : Vec.skip_to_end (vec len) = Vec.early_exit (vec len) := rfl
theorem arr_next_chunk (len n : Nat) : Arr.next_chunk len (arr len) n = Arr.fetch_n len (arr len) n := rfl
theorem arr_next_id_and_value (len : Nat) : Arr.next_id_and_value len (arr len) = Arr.fetch_one len (arr len) := rfl
theorem arr_skip_to_end (len : Nat) : Arr.skip_to_end len (arr len) = Arr.early_exit len (arr len) := rfl
theorem range_next_chunk (a b n : Nat) : Range.next_chunk (range a b) n = Range.fetch_n (range a b) n := rfl
theorem range_next_id_and_value (a b : Nat) : Range.next_id_and_value (range a b) = Range.fetch_one (range a b) := rfl
theorem range_skip_to_end (a b : Nat) : Range.skip_to_end (range a b) = Range.early_exit (range a b) := rfl

end Orx.GenThms
