import Orx.GenThms.Slice
import Orx.GenThms.Vec
import Orx.GenThms.Arr
import Orx.GenThms.Range
import Orx.GenThms.New
import Orx.GenThms.Adapt
import Orx.GenThms.Iter
/-! All theorems about the translated Rust functions (`Generated/Arith*.lean`), one module per group of source files. -/
