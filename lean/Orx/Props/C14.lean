import Orx.Generated.Bounds
import Orx.GenThms.Surface
/-! # C14 Type-level safety: thread-safety bounds and borrow lifetimes

Lean cannot run rustc's trait solver or borrow checker. What it decides here is the *bound logic* over the
declarations that `tools/extract_bounds.py` copies out of the current sources (`Orx/Generated/Bounds.lean`,
regenerated on every run): for every `unsafe impl Send/Sync for X` the declared where-clauses must entail what a
hand-written **capability table** says another thread can do with an `X` or an `&X`.

Everything is proved by `decide` over the generated data, so a change of a bound in the sources changes the data
and breaks the corresponding theorem. The lifetime clauses are *partial* here (the declarations have the right
shape); that rustc enforces them is established by the compile probes under `/verif/probes`.

Two statements are **false on the current tree** and are recorded as findings with their negation proved:
`iter_bound_sufficient` (D11: `Iter: Send` is not required of a wrapped iterator) and
`get_not_safely_reachable` (D12: `AtomicIter::get` is a safe public method). -/
namespace Orx.Props.C14
open Orx.Generated

/-! ## vocabulary -/

/-- what holding an `X` (after a move) or an `&X` (after sharing) lets *another thread* do -/
inductive Cap where
  /-- obtains an element by value (`next`, chunk pulls, `into_seq_iter`, or dropping the remainder) -/
  | obtainElem
  /-- obtains `&elem` to an element that other threads / the owner of the collection can reach as well -/
  | shareElem
  /-- takes over the wrapped value: calls its `&mut self` methods (`Iterator::next`), or drops it -/
  | driveInner
  /-- calls `&self` methods of the wrapped value while other threads do the same -/
  | shareInner
deriving DecidableEq, Repr

/-- the auto trait a capability needs of the type parameter it is about -/
def Cap.needs : Cap → Bound
  | .obtainElem => .send
  | .shareElem => .sync
  | .driveInner => .send
  | .shareInner => .sync

/-- **Capability table** (hand-written; read off the `&self` API of each struct).
`caps X tr`: the capabilities another thread gains when `X: tr` is used, per type parameter.
`none`: the struct is not in the table — `table_covers_all_impls` then fails, so a new `unsafe impl` cannot
slip through unreviewed. -/
def caps (ty : String) (tr : AutoTrait) : Option (List (String × Cap)) :=
  if ty = "ConIterOfSlice" then
    -- `next(&self) -> &'a T`: every thread holding the iterator (moved or shared) reads the same elements
    some [("T", .shareElem)]
  else if ty = "ConIterOfVec" ∨ ty = "ConIterOfArray" then
    -- elements are moved out to whichever thread pulls; the remainder is dropped by whoever owns the iterator
    some [("T", .obtainElem)]
  else if ty = "ConIterOfRange" then
    match tr with
    | .send => some [("Idx", .obtainElem)]
    -- `&self`: all threads read `range.start` / `range.end` and receive `Idx` values
    | .sync => some [("Idx", .obtainElem), ("Idx", .shareElem)]
  else if ty = "ConIterOfIter" then
    match tr with
    -- the wrapped iterator moves with the struct and is dropped there
    | .send => some [("Iter", .driveInner)]
    -- `next(&self)`: the ticket holder calls `Iter::next(&mut *self.iter.get())` on its own thread and keeps the item
    | .sync => some [("T", .obtainElem), ("Iter", .driveInner)]
  else if ty = "Cloned" ∨ ty = "Copied" then
    match tr with
    | .send => some [("T", .shareElem), ("A", .driveInner)]
    -- `next(&self)`: `A::next(&self.iter)` hands out `&'a T`, `T::clone(&T)` runs on the pulling thread
    | .sync => some [("T", .shareElem), ("A", .shareInner)]
  else if ty = "Taken" then
    -- crate-private owning sequential iterator over a chunk (as `vec::IntoIter`)
    match tr with
    | .send => some [("T", .obtainElem)]
    | .sync => some [("T", .shareElem)]
  else none

/-- the parameter that stands for the element type -/
def elemParam (ty : String) : String := if ty = "ConIterOfRange" then "Idx" else "T"

/-- the structs that implement `ConcurrentIter` (public); `Taken` is a crate-private sequential iterator -/
def conIterStructs : List String :=
  ["Cloned", "ConIterOfArray", "ConIterOfIter", "ConIterOfRange", "ConIterOfSlice", "ConIterOfVec", "Copied"]

/-- bounds declared for parameter `p` (impl header and where clause, merged by the extractor) -/
def declaredOf (params : List (String × List Bound)) (p : String) : List Bound :=
  ((params.filter (fun q => q.1 == p)).map (·.2)).flatten

def declared (i : UnsafeImpl) (p : String) : List Bound := declaredOf i.params p

/-- `decl ⊢ P: b`: the bound is written, or it is a supertrait of a written `AtomicIter<_>` bound -/
def entailed (decl : List Bound) (b : Bound) : Bool :=
  decl.contains b || (decl.contains .atomicIter && atomicIterSupertraits.contains b)

/-- what the capability table requires of the impl: `(parameter, auto trait)` pairs -/
def required (i : UnsafeImpl) : List (String × Bound) :=
  ((caps i.ty i.tr).getD []).map (fun pc => (pc.1, pc.2.needs))

/-- the one requirement that is *not* met on the current tree (D11) -/
def isIterGap (i : UnsafeImpl) (r : String × Bound) : Bool := i.ty == "ConIterOfIter" && r.1 == "Iter"

/-- naive substring test on character lists (kernel-reducible) -/
def hasSub (s pat : List Char) : Bool :=
  match s with
  | [] => pat.isEmpty
  | c :: cs => pat.isPrefixOf (c :: cs) || hasSub cs pat

/-! ## the statements -/

/-- **full requirement**: every `unsafe impl Send/Sync` declares what its capabilities need -/
abbrev bounds_sufficient : Prop :=
  ∀ i ∈ unsafeImpls, ∀ r ∈ required i, entailed (declared i r.1) r.2 = true

/-- **requirement on a wrapped iterator**: sharing or moving a `ConIterOfIter` lets another thread call
`Iter::next` and drop the iterator, so both impls must require `Iter: Send` -/
abbrev iter_bound_sufficient : Prop :=
  ∀ i ∈ unsafeImpls, i.ty = "ConIterOfIter" → entailed (declared i "Iter") .send = true

/-- **requirement for "no two owners from safe code"** at the declaration level: the by-value, by-index accessor
`AtomicIter::get(&self, idx) -> Option<T>` must be `unsafe`, or not nameable from outside the crate -/
abbrev get_not_safely_reachable : Prop :=
  atomicGetIsUnsafe = true ∨ atomicIterTraitIsPub = false ∨
    ((modIterIsPub = false ∨ modAtomicIterIsPub = false) ∧ atomicIterReexported = false)

/-! ## what holds -/

/-- every extracted `unsafe impl` is in the capability table -/
theorem table_covers_all_impls : ∀ i ∈ unsafeImpls, (caps i.ty i.tr).isSome = true := by decide

/-- every public concurrent iterator struct has both of its `unsafe impl`s extracted (so the ∀ below are not vacuous) -/
theorem every_con_iter_has_both_impls :
    ∀ ty ∈ conIterStructs, (unsafeImpls.any (fun i => i.ty == ty && i.tr == .send)) = true ∧
      (unsafeImpls.any (fun i => i.ty == ty && i.tr == .sync)) = true := by decide

/-- and nothing else than these structs and `Taken` carries an `unsafe impl Send/Sync` -/
theorem no_other_unsafe_impls : ∀ i ∈ unsafeImpls, i.ty ∈ conIterStructs ∨ i.ty = "Taken" := by decide

/-- **element types**: what the capability table requires of the element parameter is declared by every impl
(`&X` hands out `T` / `&T` to other threads) -/
theorem bounds_sufficient_elements :
    ∀ i ∈ unsafeImpls, ∀ r ∈ required i, r.1 = elemParam i.ty → entailed (declared i r.1) r.2 = true := by decide

/-- stronger, as the property is worded: every `unsafe impl Send/Sync` of a concurrent iterator declares **both**
`T: Send` and `T: Sync` (`Idx: Send + Sync` for the range) for its element parameter -/
theorem elements_declare_send_and_sync :
    ∀ i ∈ unsafeImpls, i.ty ∈ conIterStructs →
      Bound.send ∈ declared i (elemParam i.ty) ∧ Bound.sync ∈ declared i (elemParam i.ty) := by decide

/-- the crate-private `Taken<T>` follows the rule of `vec::IntoIter<T>`: `Send` if `T: Send`, `Sync` if `T: Sync` -/
theorem taken_like_into_iter :
    ∀ i ∈ unsafeImpls, i.ty = "Taken" →
      (i.tr = .send → Bound.send ∈ declared i "T") ∧ (i.tr = .sync → Bound.sync ∈ declared i "T") := by decide

/-- `ConcurrentIter: Send + Sync`, `AtomicIter<T: Send + Sync>: Send + Sync`, `Item: Send + Sync` -/
theorem supertraits_present :
    (Bound.send ∈ concurrentIterSupertraits ∧ Bound.sync ∈ concurrentIterSupertraits) ∧
    (Bound.send ∈ atomicIterSupertraits ∧ Bound.sync ∈ atomicIterSupertraits) ∧
    (Bound.send ∈ atomicIterParamBounds ∧ Bound.sync ∈ atomicIterParamBounds) ∧
    (Bound.send ∈ concurrentIterItemBounds ∧ Bound.sync ∈ concurrentIterItemBounds) := by decide

/-- every constructor trait impl (`con_iter`, `into_con_iter` on slice, Vec, array, Range, any Iterator) requires
`Send + Sync` of the element type in its own header -/
theorem constructors_require_send_sync :
    ∀ c ∈ ctorImpls,
      Bound.send ∈ declaredOf c.params (if c.selfTy = "Range<Idx>" then "Idx" else "T") ∧
      Bound.sync ∈ declaredOf c.params (if c.selfTy = "Range<Idx>" then "Idx" else "T") := by decide

/-- all nine constructor impls are present -/
theorem constructors_all_present :
    ∀ ts ∈ [("ConcurrentIterable", "&'a [T]"), ("ConcurrentIterable", "Vec<T>"), ("ConcurrentIterable", "[T; N]"),
            ("ConcurrentIterable", "Range<Idx>"), ("IntoConcurrentIter", "&'a [T]"), ("IntoConcurrentIter", "Vec<T>"),
            ("IntoConcurrentIter", "[T; N]"), ("IntoConcurrentIter", "Range<Idx>"), ("IterIntoConcurrentIter", "Iter")],
      (ctorImpls.any (fun c => c.trait == ts.1 && c.selfTy == ts.2)) = true := by decide

/-- the chunk returned by `BufferedIter::next(&mut self)` captures the anonymous lifetime of that `&mut` borrow:
it cannot be alive at the next pull on the same buffer (partial: that rustc enforces this is shown by the probes
`bad_buffered_chunk_across_next*`) -/
theorem chunk_borrows_buffer :
    hasSub bufferedNextReturn.toList "'_".toList = true ∧ bufferedNextReceiver = "&mut self" ∧
    bufferedNextReturnHasAnonLifetime = true := by decide

/-- `impl ConcurrentIter for ConIterOfSlice<'a, T> { type Item = &'a T; }` and the struct stores `&'a [T]`:
delivered references carry the lifetime of the borrow of the collection, not of the iterator (partial: probes
`bad_ref_outlives_vec`, `ok_ref_outlives_iter_not_vec`) -/
theorem slice_item_lifetime :
    sliceItemType = "&" ++ sliceImplSelfLifetime ++ " " ++ sliceImplSelfElem ∧
    sliceImplSelfType = "ConIterOfSlice<" ++ sliceImplSelfLifetime ++ ", " ++ sliceImplSelfElem ++ ">" ∧
    sliceFieldType = "&" ++ sliceStructLifetime ++ " [" ++ sliceStructElem ++ "]" := by decide

/-- **partial theorem**: every requirement of every impl is declared, except `Iter: Send` of `ConIterOfIter` -/
theorem bounds_sufficient_partial :
    ∀ i ∈ unsafeImpls, ∀ r ∈ required i, isIterGap i r = false → entailed (declared i r.1) r.2 = true := by decide

/-- the excepted requirement is exactly `Iter: Send` -/
theorem iter_gap_is_send :
    ∀ i ∈ unsafeImpls, ∀ r ∈ required i, isIterGap i r = true → i.ty = "ConIterOfIter" ∧ r = ("Iter", Bound.send) := by
  decide

/-- the gap is the *only* one: once `Iter: Send` is required, the full statement follows (not by evaluation: this
implication does not depend on which way `iter_bound_sufficient` goes) -/
theorem only_gap_is_iter_send (h : iter_bound_sufficient) : bounds_sufficient := by
  intro i hi r hr
  cases hg : isIterGap i r with
  | false => exact bounds_sufficient_partial i hi r hr hg
  | true =>
    obtain ⟨hty, hreq⟩ := iter_gap_is_send i hi r hr hg
    subst hreq
    exact h i hi hty

/-! ## findings (false on the current tree; negations proved on the generated data) -/

/-- **`unsafe impl Sync for ConIterOfIter` asks nothing of `Iter` beyond `Iterator`: what makes that tolerable is that no `&self`
method reaches the wrapped iterator outside its turn.** The `UnsafeCell<Iter>` is dereferenced in exactly one place,
`mut_iter` (`into_seq_iter` takes `self` by value: `into_inner`); `mut_iter()` is called by exactly the three pullers `get`,
`fetch_n` (implementors/iter.rs) and `BufferIter::pull` (buffered/iter.rs) — whose translated program trees call the wrapped
`next()` only between winning the turn and publishing it (C07: `source_next_only_in_turn`, `mutex_all`); `size_hint` is
called only in `new`, which owns the iterator. Any further access (a length query peeking at `size_hint`, a pre-sized
allocation before the turn, …) changes this extracted data and breaks the theorem. -/
theorem wrapped_iterator_reached_only_in_turn :
    wrappedCellAccesses = [("into_seq_iter", "into_inner"), ("mut_iter", "get")] ∧
    mutIterCallers = [("src/iter/buffered/iter.rs", "pull"), ("src/iter/implementors/iter.rs", "fetch_n"),
      ("src/iter/implementors/iter.rs", "get"), ("src/iter/implementors/iter.rs", "new:size_hint")] := by decide

/-- **D11**: neither `unsafe impl Send` nor `unsafe impl Sync for ConIterOfIter<T, Iter>` requires `Iter: Send` —
the only bound on `Iter` is `Iterator<Item = T>`. A `!Send` iterator (one holding an `Rc`, a thread-local handle, …)
is therefore used and dropped on other threads by safe code (probes `bad_iter_not_send*` compile). -/
theorem C14_finding_iter_not_required_send : ¬ iter_bound_sufficient := by decide

/-- what is declared instead -/
theorem C14_finding_iter_declares_only_iterator :
    ∀ i ∈ unsafeImpls, i.ty = "ConIterOfIter" → declared i "Iter" = [Bound.iterator] := by decide

/-- hence the full statement fails -/
theorem C14_finding_bounds_not_sufficient : ¬ bounds_sufficient := by decide

/-- **D12**: `AtomicIter::get` is a safe method of a `pub trait` in `pub mod iter::atomic_iter`: safe client code
can call `get(i)` twice on a consuming iterator and own the same element twice (probe `bad_atomic_get_twice`) -/
theorem C14_finding_get_is_safe_public : ¬ get_not_safely_reachable := by decide

/-- in positive form -/
theorem C14_finding_get_signature :
    atomicGetIsUnsafe = false ∧ atomicIterTraitIsPub = true ∧ modIterIsPub = true ∧ modAtomicIterIsPub = true ∧
    atomicGetReceiver = "&self" ∧ atomicGetReturn = "Option<" ++ atomicIterParam ++ ">" := by decide

/-! ## predictor for the thread-safety probes

`accepts p` predicts rustc's verdict on the minimal program "create the iterator with constructor `p.ctor` over
elements of kind `p.elem` (wrapping an iterator of kind `p.iter`), share it by reference between two scoped
threads": the where-clauses of the constructor impl and of the struct's `unsafe impl Sync` must be satisfied.
`tools/c14.py` compares it with the real verdict of every probe that carries a `model` entry. -/

inductive ElemKind where
  | sendSync | notSend | notSync
deriving DecidableEq, Repr

inductive IterKind where
  | send | notSend
deriving DecidableEq, Repr

structure Probe where
  ctor : String
  elem : ElemKind
  iter : IterKind
deriving DecidableEq, Repr

/-- constructor name ↦ (constructor trait, self type, struct whose `Sync` impl is used, element parameter) -/
def ctorTable : List (String × String × String × String × String) := [
  ("slice_con_iter", "ConcurrentIterable", "&'a [T]", "ConIterOfSlice", "T"),
  ("slice_into_con_iter", "IntoConcurrentIter", "&'a [T]", "ConIterOfSlice", "T"),
  ("vec_con_iter", "ConcurrentIterable", "Vec<T>", "ConIterOfSlice", "T"),
  ("vec_into_con_iter", "IntoConcurrentIter", "Vec<T>", "ConIterOfVec", "T"),
  ("array_con_iter", "ConcurrentIterable", "[T; N]", "ConIterOfSlice", "T"),
  ("array_into_con_iter", "IntoConcurrentIter", "[T; N]", "ConIterOfArray", "T"),
  ("range_con_iter", "ConcurrentIterable", "Range<Idx>", "ConIterOfRange", "Idx"),
  ("range_into_con_iter", "IntoConcurrentIter", "Range<Idx>", "ConIterOfRange", "Idx"),
  ("iter_into_con_iter", "IterIntoConcurrentIter", "Iter", "ConIterOfIter", "T"),
  -- adaptors: created from `vec.con_iter()`, shared as `Cloned` / `Copied`
  ("cloned", "ConcurrentIterable", "Vec<T>", "Cloned", "T"),
  ("copied", "ConcurrentIterable", "Vec<T>", "Copied", "T")]

def ctorNames : List String := ctorTable.map (·.1)

/-- does a type of this kind satisfy the bound? (`Clone`, `Copy`, arithmetic and `Iterator` bounds are satisfied
by construction of the probes) -/
def ElemKind.sat (k : ElemKind) : Bound → Bool
  | .send => k != .notSend
  | .sync => k == .sendSync   -- the `notSend` probes use `Rc`, which is not `Sync` either
  | _ => true

def IterKind.sat (k : IterKind) : Bound → Bool
  | .send => k == .send
  | _ => true

/-- all declared bounds of the element parameter and of an `Iter` parameter hold for the probe's kinds -/
def paramsSat (p : Probe) (elem : String) (params : List (String × List Bound)) : Bool :=
  params.all (fun q =>
    if q.1 == elem then q.2.all p.elem.sat
    else if q.1 == "Iter" then q.2.all p.iter.sat
    else true)

def accepts (p : Probe) : Bool :=
  match ctorTable.find? (fun e => e.1 == p.ctor) with
  | none => false
  | some (_, tr, selfTy, struct, elem) =>
    (match ctorImpls.find? (fun c => c.trait == tr && c.selfTy == selfTy) with
     | none => false
     | some c => paramsSat p elem c.params) &&
    (match unsafeImpls.find? (fun i => i.ty == struct && i.tr == .sync) with
     | none => false
     | some i => paramsSat p (elemParam i.ty) i.params)

/-- a thread-safe element type and a `Send` iterator are accepted by every constructor -/
theorem accepts_thread_safe : ∀ c ∈ ctorNames, accepts ⟨c, .sendSync, .send⟩ = true := by decide

/-- an element type that is not `Send`, or not `Sync`, is rejected by every constructor and adaptor -/
theorem rejects_unsafe_elements :
    ∀ c ∈ ctorNames, ∀ it : IterKind, accepts ⟨c, .notSend, it⟩ = false ∧ accepts ⟨c, .notSync, it⟩ = false := by
  intro c hc it
  cases it <;> revert c <;> decide

/-- **D11** seen by the predictor: a wrapped iterator that is not `Send` is accepted -/
theorem C14_finding_accepts_not_send_iter : accepts ⟨"iter_into_con_iter", .sendSync, .notSend⟩ = true := by decide

def ElemKind.name : ElemKind → String
  | .sendSync => "sendSync" | .notSend => "notSend" | .notSync => "notSync"
def IterKind.name : IterKind → String
  | .send => "send" | .notSend => "notSend"

/-- one line per probe description, read by `tools/c14.py` (`PRED <ctor> <elem> <iter> <accept|reject>`) -/
def predictionLines : List String :=
  ctorNames.flatMap fun c =>
    [ElemKind.sendSync, .notSend, .notSync].flatMap fun e =>
      [IterKind.send, .notSend].map fun it =>
        "PRED " ++ c ++ " " ++ e.name ++ " " ++ it.name ++ " " ++ (if accepts ⟨c, e, it⟩ then "accept" else "reject")

section Surface
open Orx.GenThms.Surface

/-- **no consuming iterator, wrapper, chunk or buffered iterator is `Clone`** (a clone of a value that owns elements, or the wrapped
iterator, would give two owners through safe code): `Clone` exists for the counter, the slice iterator (by hand), the range
iterator and `HasMore` (derived) only -/
theorem source_no_owner_is_clone :
    sameSet (implsOf "Clone") ["AtomicCounter", "ConIterOfSlice"] = true ∧
    fnsOf "Clone" "AtomicCounter" = [["clone"]] ∧ fnsOf "Clone" "ConIterOfSlice" = [["clone"]] ∧
    sameSet (derivers "Clone") ["HasMore", "ConIterOfRange"] = true ∧
    sameSet (derivers "Copy") ["HasMore"] = true :=
  Orx.GenThms.Surface.the_clonables

end Surface

end Orx.Props.C14
