import Orx.KSRun
import Orx.IW.Outs
import Orx.IW.NoLoss
import Orx.Props.C07
import Orx.GenThms.Surface
/-! # C01 Exactly-once delivery under concurrent pulling -/
namespace Orx.Props.C01
open Orx Orx.KS

/-- **Known-size kinds** (slice, vec, array, range, cloned/copied): for every source, every family of
per-thread programs mixing all pulling methods with any chunk sizes, and **every interleaving** `σ`:
as long as the history of a slot has no `skip_to_end` and its cumulative requested count does not wrap the
counter, the positions handed out so far are pairwise distinct, and they are all of `0..len` as soon as the
counter has reached the length (every thread that then pulls observes the end). -/
theorem known_size_exactly_once (s : KSrc) (progs : Nat → List SOp) (hp : ∀ t, ∀ o ∈ progs t, NoCloneOp o)
    (σ : List Nat) (k : Nat) :
    let c := run s σ (init s progs)
    NoSkip (atomsOf c.hist k) → NoWrap s.len (atomsOf c.hist k) 0 →
      (delOf c.del k).Nodup ∧ (s.len ≤ c.ctr k → delOf c.del k = List.range s.len) := by
  intro c hns hw
  have h := cursor_all_schedules s progs hp σ k hns hw
  refine ⟨by rw [h]; exact List.nodup_range, fun hl => ?_⟩
  rw [h]
  have : pos s.len (c.ctr k) = s.len := by unfold pos; omega
  rw [this]

/-- **Wrapper over an arbitrary iterator, no duplicate**: in every reachable configuration (every fused
wrapped iterator, all request programs with chunk sizes ≥ 1 — single, one-shot chunk, buffered, looping —
every schedule) the positions inside the outputs of one thread are strictly increasing from output to output … -/
theorem iter_thread_outputs_increasing (s : IW.Script) (ps : Nat → List IW.Req)
    (hok : ∀ t, ∀ r ∈ ps t, IW.ReqOk r) (σ : List Nat) (hW : (IW.run s σ (IW.init ps)).R < W) (t : Nat) :
    ((IW.run s σ (IW.init ps)).th t).outs.Pairwise fun a b => ∀ p ∈ a.pos, ∀ q ∈ b.pos, p < q :=
  (IW.oinv_run σ (IW.inv_init s ps hok) (IW.oinv_init s ps) hW).sorted t

/-- … and no position is handed to two different threads. -/
theorem iter_no_position_twice (s : IW.Script) (ps : Nat → List IW.Req)
    (hok : ∀ t, ∀ r ∈ ps t, IW.ReqOk r) (σ : List Nat) (hW : (IW.run s σ (IW.init ps)).R < W)
    (t u : Nat) (htu : t ≠ u) (o o' : IW.POut)
    (ho : o ∈ ((IW.run s σ (IW.init ps)).th t).outs) (ho' : o' ∈ ((IW.run s σ (IW.init ps)).th u).outs)
    (p : Nat) (hp : p ∈ o.pos) (hq : p ∈ o'.pos) : False :=
  (IW.oinv_run σ (IW.inv_init s ps hok) (IW.oinv_init s ps) hW).disj t u htu o ho o' ho' p hp p hq rfl

/-- positions inside one chunk are distinct as well -/
theorem iter_chunk_positions_nodup (o : IW.POut) : o.pos.Nodup := by
  cases o <;> simp [IW.POut.pos, List.nodup_range']

/-- every handed-out position has been published: it lies below the yielded counter -/
theorem iter_delivered_below_yielded (s : IW.Script) (ps : Nat → List IW.Req)
    (hok : ∀ t, ∀ r ∈ ps t, IW.ReqOk r) (σ : List Nat) (hW : (IW.run s σ (IW.init ps)).R < W)
    (t : Nat) (o : IW.POut) (ho : o ∈ ((IW.run s σ (IW.init ps)).th t).outs) (p : Nat) (hp : p ∈ o.pos) :
    p < (IW.run s σ (IW.init ps)).Y :=
  (IW.oinv_run σ (IW.inv_init s ps hok) (IW.oinv_init s ps) hW).belowY t o ho p hp

/-- **Wrapper, exactly once (no loss, nothing extra) — for every wrapped iterator, fused or not.** For every
non-panicking wrapped iterator, all request programs (single, one-shot chunk, buffered, looping; chunk sizes ≥ 1;
no skip) and every interleaving: once no thread is inside the critical section and some thread has observed the
end, a position has been delivered **iff** the wrapped iterator filled it before it ended (every call up to and
including that position returned an element). Together with the two no-duplicate theorems above: every position
of the source sequence is delivered to exactly one caller. -/
theorem iter_exactly_once (s : IW.Script) (hnp : IW.NoPanic s) (ps : Nat → List IW.Req)
    (hok : ∀ t, ∀ r ∈ ps t, IW.ReqOk r) (hns : ∀ t, ∀ r ∈ ps t, r ≠ .skip) (σ : List Nat)
    (hW : (IW.run s σ (IW.init ps)).R < W)
    (hquiet : ∀ t, ((IW.run s σ (IW.init ps)).th t).pc.inCS = false)
    (hend : ∃ t, IW.POut.fin ∈ ((IW.run s σ (IW.init ps)).th t).outs) (p : Nat) :
    IW.Delivered (IW.run s σ (IW.init ps)) p ↔ IW.NoNoneBefore s (p + 1) :=
  IW.exactly_once s hnp ps hok hns σ hW hquiet hend p

/-- for a fused iterator this reads: delivered iff the wrapped iterator has an element at that position -/
theorem iter_exactly_once_fused (s : IW.Script) (hf : IW.Fused s) (hnp : IW.NoPanic s) (ps : Nat → List IW.Req)
    (hok : ∀ t, ∀ r ∈ ps t, IW.ReqOk r) (hns : ∀ t, ∀ r ∈ ps t, r ≠ .skip) (σ : List Nat)
    (hW : (IW.run s σ (IW.init ps)).R < W)
    (hquiet : ∀ t, ((IW.run s σ (IW.init ps)).th t).pc.inCS = false)
    (hend : ∃ t, IW.POut.fin ∈ ((IW.run s σ (IW.init ps)).th t).outs) (p : Nat) :
    IW.Delivered (IW.run s σ (IW.init ps)) p ↔ IW.IsSome (s p) := by
  rw [IW.exactly_once s hnp ps hok hns σ hW hquiet hend p]
  exact IW.filled_iff_isSome hf p

-- non-vacuity: a 3-thread mixed program satisfies the hypotheses
def exPs : Nat → List IW.Req
  | 0 => [.single false, .chunk 3]
  | 1 => [.buffered 2 true, .single false]
  | 2 => [.chunk 1, .skip]
  | _ => []
example : ∀ t, ∀ r ∈ exPs t, IW.ReqOk r := by
  intro t r hr
  match t with
  | 0 => simp [exPs] at hr; rcases hr with rfl | rfl <;> simp [IW.ReqOk, IW.Req.len]
  | 1 => simp [exPs] at hr; rcases hr with rfl | rfl <;> simp [IW.ReqOk, IW.Req.len]
  | 2 => simp [exPs] at hr; rcases hr with rfl | rfl <;> simp [IW.ReqOk, IW.Req.len]
  | _ + 3 => simp [exPs] at hr


/-- **What exactly-once delivery of the wrapper presupposes beyond SC interleavings.** The theorems above speak about positions; that the
element delivered at a position is the one the wrapped iterator produced for it also needs the iterator's internal state to
be handed from one puller to the next without a data race. That is the happens-before chain of C07, which holds for the
memory orderings *extracted from the current source* (`Acquire` load of `yielded`, releasing `fetch_add` /
`fetch_and_increment`), under every schedule and every choice of stale loads: -/
theorem iter_handover_is_race_free (s : IW.Script) (ps : Nat → List IW.Req) (hok : ∀ t, ∀ r ∈ ps t, IW.ReqOk r)
    (σ : List (Nat × IW.Stale)) (hW : (IW.runS s σ (IW.init ps)).R < W) (t : Nat)
    (huse : ∃ r b acc, ((IW.hrunS C07.srcOrds s σ (IW.hinit ps)).core.th t).pc = .cs r b acc ∨
                       ((IW.hrunS C07.srcOrds s σ (IW.hinit ps)).core.th t).pc = .ins r b acc) :
    (IW.hrunS C07.srcOrds s σ (IW.hinit ps)).last.le ((IW.hrunS C07.srcOrds s σ (IW.hinit ps)).clk t) :=
  C07.hb_chain_under_stale_reads s ps hok σ hW t huse

section Surface
open Orx.GenThms.Surface

/-- **every kind's single pull is the trait's default `fetch_one`** (one reservation of one position, then `get`): no implementor of
`AtomicIter` overrides it, and there is no implementor besides the seven modelled ones -/
theorem source_single_pull_is_the_trait_default :
    (implementors.all fun x => (fnsOf "AtomicIter" x).length == 1 &&
      (fnsOf "AtomicIter" x).all (sameSet requiredAtomicIter)) = true ∧
    sameSet (implsOf "AtomicIter") implementors = true ∧
    fnsOf "trait" "AtomicIter" = [["counter", "progress_and_get_begin_idx", "get", "fetch_one", "fetch_n", "early_exit"]] :=
  Orx.GenThms.Surface.atomic_iter_defaults_are_not_overridden

end Surface

section SurfaceConv
open Orx.GenThms.Surface Orx.Gen

/-- an iterator built through `From` / `Into` is the one built by `new`: the conversions add nothing (no eager completion, no
second classification of the size hint) -/
theorem source_conversions_are_the_constructors :
    fnsOf "frombody" "ConIterOfSlice" = [["Self::new(slice)"]] ∧ fnsOf "frombody" "ConIterOfVec" = [["Self::new(vec)"]] ∧
    fnsOf "frombody" "ConIterOfArray" = [["Self::new(array)"]] ∧ fnsOf "frombody" "ConIterOfRange" = [["Self::new(range)"]] ∧
    fnsOf "frombody" "ConIterOfIter" = [["Self::new(iter)"]] ∧
    fnsOf "frombody" "ConIterValues" = [["Self{con_iter}"]] ∧ fnsOf "frombody" "ConIterIdsAndValues" = [["Self{con_iter}"]] ∧
    sameSet (implsOf "From") ["ConIterOfSlice", "ConIterOfVec", "ConIterOfArray", "ConIterOfRange", "ConIterOfIter", "ConIterValues",
      "ConIterIdsAndValues"] = true :=
  Orx.GenThms.Surface.the_conversions

end SurfaceConv

end Orx.Props.C01
