import Orx.KSRun
import Orx.Props.C02Base
import Orx.IW.Outs
import Orx.GenThms.Slice
import Orx.GenThms.Vec
import Orx.GenThms.Arr
import Orx.GenThms.Range
import Orx.Props.C07
import Orx.GenThms.Defaults
import Orx.GenThms.Surface
/-! # C02 Index fidelity: a reported index is the element's source position -/
namespace Orx.Props.C02
open Orx Orx.KS

/-- single pulls of a known-size kind: the reported index is the counter value read, and the value is the
source element there (`fetch_one` of atomic_iter.rs with the `get` of each kind) -/
theorem known_size_item_good (s : KSrc) (cv : Nat) (h : cv < s.len) : EvGood s (.ret (.item cv (s.valAt cv))) :=
  ⟨h, rfl⟩

/-- `enumerate_for_each` / `ids_and_values`: every closure invocation over the positions of a pull gets the
source element of the index it is given -/
theorem known_size_visits_good (s : KSrc) (pa : Option Nat) (cv n : Nat) (v sm : Nat) :
    ∀ e ∈ (visitAll s true pa (rangeList (pullRange s.len cv n).1 (pullRange s.len cv n).2) v sm []).1, EvGood s e :=
  visitAll_good s true pa _ v sm [] (fun p hp => by have := mem_rangeList hp; have := pullRange_le s.len cv n; omega) (by simp)

/-- **Every event of every step of every thread is faithful to the source** (known-size kinds, any configuration whatever —
hence every reachable one, under every schedule): an item line carries the element at its index, a chunk line the
elements at `begin + offset …` (`offset` ≠ 0 only for chunks consumed through `nth`), a closure invocation that is given
an index gets the element of that index. Proof: `C02Base.lean`, one lemma per (pc, operation) of `KS.stepRest`. -/
theorem known_size_every_event_good (s : KSrc) (t : Nat) (c : Cfg) : ∀ e ∈ (step s t c).2, EvGoodX s e := by
  unfold step
  split
  · exact stepRest_events_good s t c _
  · exact stepRest_events_good s t c c

/-- the log of a schedule (the thread that steps, in order) from configuration `c` -/
def traceOf (s : KSrc) : List Nat → Cfg → List Ev
  | [], _ => []
  | t :: ts, c => (step s t c).2 ++ traceOf s ts (step s t c).1

/-- **Index fidelity of whole runs**: every line of the log of every schedule, of every program, on every source of
a known-size kind, is faithful (`EvGoodX`). -/
theorem known_size_every_logged_event_good (s : KSrc) (sched : List Nat) (c : Cfg) :
    ∀ e ∈ traceOf s sched c, EvGoodX s e := by
  induction sched generalizing c with
  | nil => intro e he; simp [traceOf] at he
  | cons t ts ih =>
    intro e he
    simp only [traceOf, List.mem_append] at he
    rcases he with he | he
    · exact known_size_every_event_good s t c e he
    · exact ih _ e he

/-- a chunk line of a consumer other than `nth` has offset 0: the chunk's values are the source elements from `begin` on -/
theorem chunk_line_without_nth_starts_at_begin (s : KSrc) (b a off : Nat) (vals : List Nat)
    (h : ChunkGood s b a off vals) (h0 : off = 0) :
    vals = (List.range vals.length).map fun k => s.valAt (b + k) := by
  subst h0; simpa [ChunkGood] using h.2.2

/-- non-vacuity: a run in which two threads pull single items and a chunk from a 5-element slice logs item and chunk
lines, so the theorem above speaks about something -/
example :
    let s : KSrc := { kind := .slice, vals := [10, 11, 12, 13, 14] }
    let c := init s (fun t => if t = 0 then [⟨0, .next⟩] else if t = 1 then [⟨0, .chunk 3 .all⟩] else [])
    traceOf s [0, 1, 0, 1] c ≠ [] ∧
      (traceOf s [0, 1, 0, 1] c).any (fun e => match e with | .ret (.chunk _ _ _ _) => true | _ => false) = true := by
  decide +kernel

/-- **Wrapper over an arbitrary iterator**: every item `(idx, val)` ever returned to any thread, under every
schedule, satisfies `wrapped[idx] = val` … -/
theorem iter_item_fidelity (s : IW.Script) (ps : Nat → List IW.Req)
    (hok : ∀ t, ∀ r ∈ ps t, IW.ReqOk r) (σ : List Nat) (hW : (IW.run s σ (IW.init ps)).R < W)
    (t b v : Nat) (ho : IW.POut.item b v ∈ ((IW.run s σ (IW.init ps)).th t).outs) : s b = .some v := by
  have := (IW.oinv_run σ (IW.inv_init s ps hok) (IW.oinv_init s ps) hW).good t _ ho
  simpa [IW.GoodOut] using this

/-- … and every chunk element at offset `k` is `wrapped[begin + k]`. -/
theorem iter_chunk_fidelity (s : IW.Script) (ps : Nat → List IW.Req)
    (hok : ∀ t, ∀ r ∈ ps t, IW.ReqOk r) (σ : List Nat) (hW : (IW.run s σ (IW.init ps)).R < W)
    (t b : Nat) (vals : List Nat) (ho : IW.POut.chunk b vals ∈ ((IW.run s σ (IW.init ps)).th t).outs)
    (k : Nat) (hk : k < vals.length) : s (b + k) = .some (vals[k]) := by
  have := (IW.oinv_run σ (IW.inv_init s ps hok) (IW.oinv_init s ps) hW).good t _ ho
  simp only [IW.GoodOut] at this
  exact this.2 k hk

/-- while a thread fills its chunk, what it has accumulated is already the wrapped iterator's run at its ticket -/
theorem iter_accumulator_fidelity (s : IW.Script) (ps : Nat → List IW.Req)
    (hok : ∀ t, ∀ r ∈ ps t, IW.ReqOk r) (σ : List Nat) (hW : (IW.run s σ (IW.init ps)).R < W)
    (t b n : Nat) (h : ((IW.run s σ (IW.init ps)).th t).pc.ticket = some (b, n))
    (k : Nat) (hk : k < ((IW.run s σ (IW.init ps)).th t).pc.acc.length) :
    s (b + k) = .some (((IW.run s σ (IW.init ps)).th t).pc.acc[k]) :=
  ((IW.inv_reach s ps hok σ hW).accOk t b n h).1 k hk


/-! ## The source itself (translated on every run) -/
open Orx.RS Orx.Gen Orx.GenThms in
/-- **single pulls, as they are in the source**: the counter value `c` read by the one `fetch_add(1)` is the reported
index, and the element is the one at position `c` (for a range: `start + c`) — or the end is reported when `c ≥ len` -/
theorem source_single_pull_fidelity (len a b c : Nat) (evs dr) (ha : a < W) (hb : b < W) :
    Slice.fetch_one (slice len) (st c evs dr) = .ok (if c < len then some ⟨c, c⟩ else none) (st (wrapAdd c 1) (evs ++ [faa c 1]) dr) ∧
    Vec.fetch_one (vec len) (st c evs dr) = .ok (if c < len then some ⟨c, c⟩ else none) (st (wrapAdd c 1) (evs ++ [faa c 1]) dr) ∧
    Arr.fetch_one len (arr len) (st c evs dr) = .ok (if c < len then some ⟨c, c⟩ else none) (st (wrapAdd c 1) (evs ++ [faa c 1]) dr) ∧
    Range.fetch_one (range a b) (st c evs dr) = .ok (if c < b - a then some ⟨c, a + c⟩ else none) (st (wrapAdd c 1) (evs ++ [faa c 1]) dr) :=
  ⟨slice_fetch_one len c evs dr, vec_fetch_one len c evs dr, arr_fetch_one len c evs dr, range_fetch_one a b c evs dr ha hb⟩


/-- **What index fidelity of the wrapper presupposes beyond SC interleavings.** The theorems above speak about positions; that the
element delivered at a position is the one the wrapped iterator produced for it also needs the iterator's internal state to
be handed from one puller to the next without a data race. That is the happens-before chain of C07, which holds for the
memory orderings *extracted from the current source* (`Acquire` load of `yielded`, releasing `fetch_add` /
`fetch_and_increment`), under every schedule and every choice of stale loads: -/
theorem iter_handover_is_race_free (s : IW.Script) (ps : Nat → List IW.Req) (hok : ∀ t, ∀ r ∈ ps t, IW.ReqOk r)
    (σ : List (Nat × IW.Stale)) (hW : (IW.runS s σ (IW.init ps)).R < W) (t : Nat)
    (huse : ∃ r b acc, ((IW.hrunS C07.srcOrds s σ (IW.hinit ps)).core.th t).pc = .cs r b acc ∨
                       ((IW.hrunS C07.srcOrds s σ (IW.hinit ps)).core.th t).pc = .ins r b acc) :
    (IW.hrunS C07.srcOrds s σ (IW.hinit ps)).last.le ((IW.hrunS C07.srcOrds s σ (IW.hinit ps)).clk t) :=
  C07.hb_chain_under_stale_reads s ps hok σ hW t huse


open Orx.RS Orx.Gen Orx.GenThms in
/-- **`next()` as in the source** (the trait's default method: `next_id_and_value().map(|x| x.value)`): the element at the
counter value read by the one `fetch_add(1)`, for every kind — the value of a range is `start + c` -/
theorem source_next_is_the_element_at_the_counter (len a b c : Nat) (evs dr) (ha : a < W) (hb : b < W) :
    Slice.next (slice len) (st c evs dr) = .ok (if c < len then some c else none) (st (wrapAdd c 1) (evs ++ [faa c 1]) dr) ∧
    Vec.next (vec len) (st c evs dr) = .ok (if c < len then some c else none) (st (wrapAdd c 1) (evs ++ [faa c 1]) dr) ∧
    Arr.next len (arr len) (st c evs dr) = .ok (if c < len then some c else none) (st (wrapAdd c 1) (evs ++ [faa c 1]) dr) ∧
    Range.next (range a b) (st c evs dr) = .ok (if c < b - a then some (a + c) else none) (st (wrapAdd c 1) (evs ++ [faa c 1]) dr) :=
  ⟨slice_next len c evs dr, vec_next len c evs dr, arr_next len c evs dr, range_next a b c evs dr ha hb⟩

section Surface
open Orx.GenThms.Surface

/-- the index a single pull reports is computed by the trait's default `fetch_one` for every kind (no override anywhere) -/
theorem source_single_pull_is_the_trait_default :
    (implementors.all fun x => (fnsOf "AtomicIter" x).length == 1 &&
      (fnsOf "AtomicIter" x).all (sameSet requiredAtomicIter)) = true ∧
    sameSet (implsOf "AtomicIter") implementors = true ∧
    fnsOf "trait" "AtomicIter" = [["counter", "progress_and_get_begin_idx", "get", "fetch_one", "fetch_n", "early_exit"]] :=
  Orx.GenThms.Surface.atomic_iter_defaults_are_not_overridden

end Surface

end Orx.Props.C02
