import Orx.KSRun
import Orx.IW.Outs
import Orx.GenThms.Slice
import Orx.GenThms.Vec
import Orx.GenThms.Arr
import Orx.GenThms.Range
import Orx.Props.C07
/-! # C02 Index fidelity: a reported index is the element's source position -/
namespace Orx.Props.C02
open Orx Orx.KS

/-- what an event may claim about the source -/
def EvGood (s : KSrc) : Ev → Prop
  | .ret (.item i v) => i < s.len ∧ v = s.valAt i
  | .ret (.chunk b a _ vals) => b + a ≤ s.len ∧ vals.length ≤ a ∧ vals = (List.range vals.length).map fun k => s.valAt (b + k)
  | .visit (some i) v => i < s.len ∧ v = s.valAt i
  | _ => True

theorem rangeList_map_valAt (s : KSrc) (b j : Nat) :
    (rangeList b (b + j)).map s.valAt = (List.range j).map fun k => s.valAt (b + k) := by
  simp [rangeList, Nat.add_comm]

theorem visitAll_good (s : KSrc) (withIdx : Bool) (pa : Option Nat) (ps : List Nat) (v sm : Nat) (acc : List Ev)
    (hps : ∀ p ∈ ps, p < s.len) (hacc : ∀ e ∈ acc, EvGood s e) :
    ∀ e ∈ (visitAll s withIdx pa ps v sm acc).1, EvGood s e := by
  induction ps generalizing v sm acc with
  | nil => simpa [visitAll] using hacc
  | cons p ps ih =>
    have hp : p < s.len := hps p (by simp)
    have hacc' : ∀ e ∈ acc ++ cloneEvs s [p] ++ [Ev.visit (if withIdx = true then some p else none) (s.valAt p)], EvGood s e := by
      intro e he
      simp only [List.mem_append, List.mem_singleton] at he
      rcases he with (he | he) | he
      · exact hacc e he
      · unfold cloneEvs at he; split at he <;> simp at he; subst he; trivial
      · subst he; cases withIdx <;> simp [EvGood, hp]
    simp only [visitAll]
    split
    · exact hacc'
    · exact ih _ _ _ (fun q hq => hps q (by simp [hq])) hacc'

theorem pullRange_le (len c n : Nat) : (pullRange len c n).2 ≤ len ∧ (pullRange len c n).1 ≤ (pullRange len c n).2 := by
  simp only [pullRange]; split <;> omega

theorem mem_rangeList {b e p : Nat} (h : p ∈ rangeList b e) : b ≤ p ∧ p < e := by
  simp [rangeList] at h; omega

theorem cloneEvs_good (s : KSrc) (l : List Nat) : ∀ e ∈ cloneEvs s l, EvGood s e := by
  intro e he; unfold cloneEvs at he; split at he
  · simp at he; obtain ⟨_, _, rfl⟩ := he; trivial
  · simp at he

theorem dropEvs_good (s : KSrc) (l : List Nat) : ∀ e ∈ dropEvs s l, EvGood s e := by
  intro e he; unfold dropEvs at he; split at he
  · simp at he; obtain ⟨_, _, rfl⟩ := he; trivial
  · simp at he

/-- what the `ret chunk b a l vals` line of a chunk consumed from offset `off` on may claim -/
def ChunkGood (s : KSrc) (b a off : Nat) (vals : List Nat) : Prop :=
  b + a ≤ s.len ∧ off + vals.length ≤ a ∧ vals = (List.range vals.length).map fun k => s.valAt (b + off + k)

/-- chunk pulls of a known-size kind, for every way of consuming the chunk (`all`, the first `k`, `nth(k)`): the
values handed to the caller are the source elements at `begin + offset`, where `offset` is the number of elements
the consumer discarded itself (`0` unless it used `nth`) -/
theorem chunk_ret_good (s : KSrc) (cv n : Nat) (kk : Take) :
    ChunkGood s (pullRange s.len cv n).1 ((pullRange s.len cv n).2 - (pullRange s.len cv n).1)
      (kk.skipped ((pullRange s.len cv n).2 - (pullRange s.len cv n).1))
      ((rangeList ((pullRange s.len cv n).1 + kk.skipped ((pullRange s.len cv n).2 - (pullRange s.len cv n).1))
        ((pullRange s.len cv n).1 + takeCount kk ((pullRange s.len cv n).2 - (pullRange s.len cv n).1))).map s.valAt) := by
  have h := pullRange_le s.len cv n
  have htc := Take.count_le kk ((pullRange s.len cv n).2 - (pullRange s.len cv n).1)
  have hsk := Take.skipped_le_count kk ((pullRange s.len cv n).2 - (pullRange s.len cv n).1)
  refine ⟨by omega, by simp [rangeList, takeCount]; omega, ?_⟩
  simp [rangeList, takeCount, Nat.add_comm, Nat.add_left_comm]

/-- for consumers that only use `next()` the offset is 0: the line satisfies `EvGood` as it stands -/
theorem chunk_ret_good_next (s : KSrc) (cv n : Nat) (kk : Take) (hk : ∀ k, kk ≠ .nth k) (hc : kk ≠ .cnt) :
    EvGood s (.ret (.chunk (pullRange s.len cv n).1 ((pullRange s.len cv n).2 - (pullRange s.len cv n).1)
      ((pullRange s.len cv n).2 - (pullRange s.len cv n).1 - takeCount kk ((pullRange s.len cv n).2 - (pullRange s.len cv n).1))
      ((rangeList ((pullRange s.len cv n).1 + kk.skipped ((pullRange s.len cv n).2 - (pullRange s.len cv n).1))
        ((pullRange s.len cv n).1 + takeCount kk ((pullRange s.len cv n).2 - (pullRange s.len cv n).1))).map s.valAt))) := by
  have h := chunk_ret_good s cv n kk
  have h0 : kk.skipped ((pullRange s.len cv n).2 - (pullRange s.len cv n).1) = 0 := by
    cases kk <;> simp [Take.skipped] <;> first | exact absurd rfl (hk _) | exact absurd rfl hc
  rw [h0] at h ⊢
  simpa [ChunkGood, EvGood] using h

/-- single pulls of a known-size kind: the reported index is the counter value read, and the value is the
source element there (`fetch_one` of atomic_iter.rs with the `get` of each kind) -/
theorem known_size_item_good (s : KSrc) (cv : Nat) (h : cv < s.len) : EvGood s (.ret (.item cv (s.valAt cv))) :=
  ⟨h, rfl⟩

/-- `enumerate_for_each` / `ids_and_values`: every closure invocation over the positions of a pull gets the
source element of the index it is given -/
theorem known_size_visits_good (s : KSrc) (pa : Option Nat) (cv n : Nat) (v sm : Nat) :
    ∀ e ∈ (visitAll s true pa (rangeList (pullRange s.len cv n).1 (pullRange s.len cv n).2) v sm []).1, EvGood s e :=
  visitAll_good s true pa _ v sm [] (fun p hp => by have := mem_rangeList hp; have := pullRange_le s.len cv n; omega) (by simp)

/-- **Wrapper over an arbitrary iterator**: every item `(idx, val)` ever returned to any thread, under every
schedule, satisfies `wrapped[idx] = val` … -/
theorem iter_item_fidelity (s : IW.Script) (ps : Nat → List IW.Req)
    (hok : ∀ t, ∀ r ∈ ps t, IW.ReqOk r) (σ : List Nat) (hW : (IW.run s σ (IW.init ps)).R < W)
    (t b v : Nat) (ho : IW.POut.item b v ∈ ((IW.run s σ (IW.init ps)).th t).outs) : s b = .some v := by
  have := (IW.oinv_run σ (IW.inv_init s ps hok) (IW.oinv_init s ps) hW).good t _ ho
  simpa [IW.GoodOut] using this

/-- … and every chunk element at offset `k` is `wrapped[begin + k]`. -/
theorem iter_chunk_fidelity (s : IW.Script) (ps : Nat → List IW.Req)
    (hok : ∀ t, ∀ r ∈ ps t, IW.ReqOk r) (σ : List Nat) (hW : (IW.run s σ (IW.init ps)).R < W)
    (t b : Nat) (vals : List Nat) (ho : IW.POut.chunk b vals ∈ ((IW.run s σ (IW.init ps)).th t).outs)
    (k : Nat) (hk : k < vals.length) : s (b + k) = .some (vals[k]) := by
  have := (IW.oinv_run σ (IW.inv_init s ps hok) (IW.oinv_init s ps) hW).good t _ ho
  simp only [IW.GoodOut] at this
  exact this.2 k hk

/-- while a thread fills its chunk, what it has accumulated is already the wrapped iterator's run at its ticket -/
theorem iter_accumulator_fidelity (s : IW.Script) (ps : Nat → List IW.Req)
    (hok : ∀ t, ∀ r ∈ ps t, IW.ReqOk r) (σ : List Nat) (hW : (IW.run s σ (IW.init ps)).R < W)
    (t b n : Nat) (h : ((IW.run s σ (IW.init ps)).th t).pc.ticket = some (b, n))
    (k : Nat) (hk : k < ((IW.run s σ (IW.init ps)).th t).pc.acc.length) :
    s (b + k) = .some (((IW.run s σ (IW.init ps)).th t).pc.acc[k]) :=
  ((IW.inv_reach s ps hok σ hW).accOk t b n h).1 k hk


/-! ## The source itself (translated on every run) -/
open Orx.RS Orx.Gen Orx.GenThms in
/-- **single pulls, as they are in the source**: the counter value `c` read by the one `fetch_add(1)` is the reported
index, and the element is the one at position `c` (for a range: `start + c`) — or the end is reported when `c ≥ len` -/
theorem source_single_pull_fidelity (len a b c : Nat) (evs dr) (ha : a < W) (hb : b < W) :
    Slice.fetch_one (slice len) (st c evs dr) = .ok (if c < len then some ⟨c, c⟩ else none) (st (wrapAdd c 1) (evs ++ [faa c 1]) dr) ∧
    Vec.fetch_one (vec len) (st c evs dr) = .ok (if c < len then some ⟨c, c⟩ else none) (st (wrapAdd c 1) (evs ++ [faa c 1]) dr) ∧
    Arr.fetch_one len (arr len) (st c evs dr) = .ok (if c < len then some ⟨c, c⟩ else none) (st (wrapAdd c 1) (evs ++ [faa c 1]) dr) ∧
    Range.fetch_one (range a b) (st c evs dr) = .ok (if c < b - a then some ⟨c, a + c⟩ else none) (st (wrapAdd c 1) (evs ++ [faa c 1]) dr) :=
  ⟨slice_fetch_one len c evs dr, vec_fetch_one len c evs dr, arr_fetch_one len c evs dr, range_fetch_one a b c evs dr ha hb⟩


/-- **What index fidelity of the wrapper presupposes beyond SC interleavings.** The theorems above speak about positions; that the
element delivered at a position is the one the wrapped iterator produced for it also needs the iterator's internal state to
be handed from one puller to the next without a data race. That is the happens-before chain of C07, which holds for the
memory orderings *extracted from the current source* (`Acquire` load of `yielded`, releasing `fetch_add` /
`fetch_and_increment`), under every schedule and every choice of stale loads: -/
theorem iter_handover_is_race_free (s : IW.Script) (ps : Nat → List IW.Req) (hok : ∀ t, ∀ r ∈ ps t, IW.ReqOk r)
    (σ : List (Nat × IW.Stale)) (hW : (IW.runS s σ (IW.init ps)).R < W) (t : Nat)
    (huse : ∃ r b acc, ((IW.hrunS C07.srcOrds s σ (IW.hinit ps)).core.th t).pc = .cs r b acc ∨
                       ((IW.hrunS C07.srcOrds s σ (IW.hinit ps)).core.th t).pc = .ins r b acc) :
    (IW.hrunS C07.srcOrds s σ (IW.hinit ps)).last.le ((IW.hrunS C07.srcOrds s σ (IW.hinit ps)).clk t) :=
  C07.hb_chain_under_stale_reads s ps hok σ hW t huse

end Orx.Props.C02
