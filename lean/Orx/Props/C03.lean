import Orx.KSRun
import Orx.IW.Outs
import Orx.GenThms.Slice
import Orx.GenThms.Vec
import Orx.GenThms.Arr
import Orx.IW.FullLedgerRun
import Orx.GenThms.ProtoSim
import Orx.GenThms.ProtoSimBuf
import Orx.GenThms.Surface
/-! # C03 Chunk contract: non-empty, bounded, consecutive, exact length -/
namespace Orx.Props.C03
open Orx Orx.KS

/-- Known-size kinds, one-shot and buffered chunk pulls, **whole 64-bit domain** (no no-wrap hypothesis on the
request): for chunk size `n ≥ 1` the pull reports the end (`b = e`) exactly when the cursor is at the end, and
otherwise hands out the non-empty run `[b, e)` with `b` the cursor, at most `n` long, short only at the source end. -/
theorem known_size_chunk_contract (len c n : Nat) (hn : 1 ≤ n) (hlen : len < W) :
    let b := (pullRange len c n).1
    let e := (pullRange len c n).2
    (b = e ↔ len ≤ c) ∧ (c < len → b = c ∧ b < e ∧ e - b ≤ n ∧ e ≤ len ∧ (e - b < n → e = len)) := by
  simp only [pullRange]
  by_cases hc : c < len
  · simp only [hc, ↓reduceIte]
    have h1 : c < satAdd c n := by
      unfold satAdd; split
      · omega
      · simp only [MAXW, W] at *; omega
    have h2 : satAdd c n ≤ c + n := by
      unfold satAdd; split
      · omega
      · simp only [MAXW, W] at *; omega
    have h3 : satAdd c n < c + n → len ≤ satAdd c n := by
      unfold satAdd; split
      · omega
      · simp only [MAXW, W] at *; omega
    refine ⟨⟨fun h => by omega, fun h => by omega⟩, fun _ => ⟨by trivial, by omega, by omega, by omega, fun h => by omega⟩⟩
  · simp only [hc, ↓reduceIte]
    refine ⟨⟨fun _ => by omega, fun _ => by omega⟩, fun h => by simp at h⟩

/-- what a known-size chunk contains is the source run starting at the announced begin index -/
theorem known_size_chunk_values (s : KSrc) (b j : Nat) :
    (rangeList b (b + j)).map s.valAt = (List.range j).map fun k => s.valAt (b + k) := by
  simp [rangeList, Nat.add_comm]

/-- Wrapper over an arbitrary iterator: every chunk ever returned, by any thread under any schedule, is a
non-empty run of consecutive positions starting at its begin index, holding exactly the wrapped iterator's
elements at those positions. -/
theorem iter_chunk_contract (s : IW.Script) (ps : Nat → List IW.Req)
    (hok : ∀ t, ∀ r ∈ ps t, IW.ReqOk r) (σ : List Nat) (hW : (IW.run s σ (IW.init ps)).R < W)
    (t b : Nat) (vals : List Nat) (ho : IW.POut.chunk b vals ∈ ((IW.run s σ (IW.init ps)).th t).outs) :
    vals ≠ [] ∧ ∀ k (h : k < vals.length), s (b + k) = .some (vals[k]) := by
  have hi := IW.inv_init s ps hok
  have := (IW.oinv_run σ hi (IW.oinv_init s ps) hW).good t _ ho
  simpa [IW.GoodOut] using this

/-- the accumulator of a pull never exceeds its chunk size (so a chunk has at most `n` elements) -/
theorem iter_chunk_bounded (s : IW.Script) (ps : Nat → List IW.Req)
    (hok : ∀ t, ∀ r ∈ ps t, IW.ReqOk r) (σ : List Nat) (hW : (IW.run s σ (IW.init ps)).R < W)
    (t b n : Nat) (h : ((IW.run s σ (IW.init ps)).th t).pc.ticket = some (b, n)) :
    ((IW.run s σ (IW.init ps)).th t).pc.acc.length ≤ n :=
  ((IW.inv_reach s ps hok σ hW).accOk t b n h).2

/-- a chunk shorter than its size is published only after the wrapped iterator returned `None` -/
theorem iter_short_chunk_at_end (s : IW.Script) (ps : Nat → List IW.Req)
    (hok : ∀ t, ∀ r ∈ ps t, IW.ReqOk r) (σ : List Nat) (hW : (IW.run s σ (IW.init ps)).R < W)
    (t : Nat) (r : IW.Req) (b : Nat) (acc : List Nat)
    (h : ((IW.run s σ (IW.init ps)).th t).pc = .pub r b acc) (hshort : acc.length ≠ r.len) :
    ¬ IW.NoNoneBefore s (IW.run s σ (IW.init ps)).P :=
  fun hnn => hshort ((IW.inv_reach s ps hok σ hW).pubFull t r b acc h hnn)

-- the hypotheses are satisfiable by a non-trivial configuration
example : (1 : Nat) ≤ 3 ∧ (5 : Nat) < W := by decide
example : pullRange 5 3 3 = (3, 5) := by decide


/-! ## The source itself (translated on every run) -/
open Orx.RS Orx.Gen Orx.GenThms Orx.KS in
/-- **One-shot and buffered chunk pulls of the four known-size kinds, as they are in the source**: the chunk returned
for a counter value `c` is the model's `[b, e) = pullRange len c n` — `None` iff empty — with begin index `b`; and a
buffered chunk (chunk size ≥ 1, asserted by `BufferedIter::new`) is never empty. -/
theorem source_chunks_are_the_models (len n c : Nat) (evs dr) (hl : len < W) :
    Slice.fetch_n (slice len) n (st c evs dr) = .ok (chunkOf (pullRange len c n)) (st (wrapAdd c n) (evs ++ [faa c n]) dr) ∧
    Vec.fetch_n (vec len) n (st c evs dr) = .ok (chunkOf (pullRange len c n)) (st (wrapAdd c n) (evs ++ [faa c n]) dr) ∧
    Arr.fetch_n len (arr len) n (st c evs dr) = .ok (chunkOf (pullRange len c n)) (st (wrapAdd c n) (evs ++ [faa c n]) dr) ∧
    BufferedIterSlice.next ⟨⟨n⟩, slice len⟩ (st c evs dr) = .ok (bufChunk len c n) (st (wrapAdd c n) (evs ++ [faa c n]) dr) ∧
    BufferedIterVec.next ⟨⟨n⟩, vec len⟩ (st c evs dr) = .ok (bufChunk len c n) (st (wrapAdd c n) (evs ++ [faa c n]) dr) ∧
    BufferedIterArr.next len ⟨⟨n⟩, arr len⟩ (st c evs dr) = .ok (bufChunk len c n) (st (wrapAdd c n) (evs ++ [faa c n]) dr) :=
  ⟨slice_fetch_n len n c evs dr, vec_fetch_n len n c evs dr hl, arr_fetch_n len n c evs dr hl,
   slice_buffered_next len n c evs dr, vec_buffered_next len n c evs dr hl, arr_buffered_next len n c evs dr hl⟩

open Orx.GenThms Orx.KS in
theorem source_buffered_chunk_nonempty (len c n : Nat) (h : c < len) (hn : 0 < n) (hl : len < W) :
    c < (pullRange len c n).2 := buffered_chunk_nonempty len c n h hn hl


/-- **A buffered chunk over a reused buffer is exactly what the pull wrote** (every schedule, stale slots included): when a
thread is about to publish a buffered pull with accumulator `acc`, the first `acc.length` slots of the buffer it filled
hold exactly `acc`; the chunk iterator reads these slots, so the announced length `acc.length` is the number of elements
it yields, and they are `acc`. -/
theorem buffered_chunk_over_reused_buffer (s : IWF.ISrc) (hown : s.owning = true) (n : Nat) (progs : Nat → List SOp)
    (σ : List Nat) (hσ : ∀ t ∈ σ, t < n) (hb : IWF.Below s σ (IWF.init progs)) (t m b : Nat) (lp : Bool) (acc : List Nat)
    (hd : ((IWF.run s σ (IWF.init progs)).d t).dead = false)
    (hpc : ((IWF.run s σ (IWF.init progs)).core.th t).pc = .pub (.buffered m lp) b acc) :
    ∃ l, IWF.actBuf ((IWF.run s σ (IWF.init progs)).d t) lp = some l ∧ l.length = m ∧ l.take acc.length = acc.map some :=
  IWF.buffered_chunk_is_what_was_pulled s hown n progs σ hσ hb t m b lp acc hd hpc


/-- **`next_chunk` of the wrapper as in the source** (translated `fetch_n`): the chunk returned is exactly the values
polled under the thread's ticket, with the ticket's begin as `begin_idx`; an empty buffer is the end; the publication adds
the *requested* size to `yielded`. -/
theorem source_chunk_is_what_was_polled (n b : Nat) (acc : List Nat) :
    GenThms.Proto.child (GenThms.Proto.sPub n b acc) (.nat b) =
      some (.ret (match acc with | [] => .fin | v :: rest => .chunk b (v :: rest))) ∧
    GenThms.Proto.head (GenThms.Proto.sPub n b acc) = some (.faa .Y .acqrel n) := by
  constructor
  · cases acc <;> simp [GenThms.Proto.sPub, GenThms.Proto.child]
  · rfl

/-- the number of polls of one `fetch_n` is bounded by the requested size (`begin..begin.saturating_add(n)`) -/
theorem source_chunk_polls_bounded (n b : Nat) : satAdd b n - b ≤ n := GenThms.Proto.iters_le_chunk n b

theorem source_requests_are_the_translated_functions (k : Nat) :
    (∀ n, 1 ≤ n → GenThms.Proto.reqTree k (.chunk n) = GenThms.Proto.treeAt k (.resv (.chunk n))) :=
  GenThms.Proto.reqTree_chunk k


/-- **The chunk's value iterator as in the source** (`BufferedIter::next` of buffered/iter.rs, translated): it takes the
slot at `current_idx` while `current_idx < initial_len` and never touches a slot at or beyond `initial_len` — stale
elements of earlier, partly consumed chunks behind the filled prefix are never handed out. -/
theorem source_chunk_values_stop_at_initial_len {ρ' : Type} (k : Nat) (it : RSP.BufferedIter)
    (h : ¬ it.current_idx < it.initial_len) :
    (GenP.ChunkIt.next k it : RSP.PF ρ' _) = .ret (.norm (none, it)) := by
  rw [GenThms.Proto.chunk_next_tree]; simp [h]

theorem source_chunk_values_take_the_slot {ρ' : Type} (k : Nat) (it : RSP.BufferedIter) (v : Nat)
    (h : it.current_idx < it.initial_len) (hv : it.values[it.current_idx]? = some (some v)) (hw : it.current_idx + 1 < W) :
    (GenP.ChunkIt.next k it : RSP.PF ρ' _) =
      .ret (.norm (some v, { it with values := it.values.set it.current_idx none, current_idx := it.current_idx + 1 })) := by
  rw [GenThms.Proto.chunk_next_tree]; simp [h, hv, hw]

/-- the buffered pull fills the first slots of the reused buffer and announces exactly the filled prefix -/
theorem source_buffered_request_is_the_translated_function (F : Nat) (buf : List (Option Nat)) (l : Bool) :
    GenThms.Proto.reqTreeB F buf = GenThms.Proto.treeAtB F F buf (.resv (.buffered buf.length l)) :=
  GenThms.Proto.reqTreeB_eq F buf l

theorem source_buffered_chunk_is_the_filled_prefix (b : Nat) (buf : List (Option Nat)) (acc : List Nat) :
    GenThms.Proto.chunkOut b (GenThms.Proto.fillvals buf acc) acc.length =
      match acc with | [] => .fin | v :: rest => .chunk b (v :: rest) :=
  GenThms.Proto.chunkOut_fill b buf acc

/-- **the announced length is the number of elements the chunk then yields, as in the source**: `len()` of the chunk's value
iterator is `initial_len - current_idx` (no underflow); `next` yields while `current_idx < initial_len` and stops exactly
there (`source_chunk_values_stop_at_initial_len`, `source_chunk_values_take_the_slot`), and the buffered pull announces the
filled prefix (`source_buffered_chunk_is_the_filled_prefix`); for the consuming kinds `Taken::size_hint` is `len - idx` and
`Taken::next` yields exactly while `idx < len` (`GenThms/Own.lean`: `taken_size_hint`, `taken_next_some/none`) -/
theorem source_chunk_len_is_what_is_left {ρ' : Type} (k : Nat) (it : RSP.BufferedIter) (h : it.current_idx ≤ it.initial_len) :
    (GenP.ChunkIt.len k it : RSP.PF ρ' _) = .ret (.norm (it.initial_len - it.current_idx)) :=
  GenThms.Proto.chunk_len k it h

/-- **… and `size_hint` announces the same number, exactly** (`(len, Some(len))`: std's requirement on an `ExactSizeIterator`,
from which `take`, `zip`, `collect`, … compute; the pinned crate kept the default `(0, None)` — defect D16, repaired by `bfb3855`) -/
theorem source_chunk_size_hint_is_exact {ρ' : Type} (k : Nat) (it : RSP.BufferedIter) (h : it.current_idx ≤ it.initial_len) :
    (GenP.ChunkIt.size_hint k it : RSP.PF ρ' _) = .ret (.norm (it.initial_len - it.current_idx, some (it.initial_len - it.current_idx))) :=
  GenThms.Proto.chunk_size_hint k it h

/-- the value iterators of chunks define nothing beyond what the theorems above cover: the wrapper's chunk iterator `next`,
`size_hint` and `len` (no `Drop`), `Taken` `next` and `size_hint` (`Props/C08.source_chunk_iterator_overrides`) — every other way of consuming a
chunk (`nth`, `last`, `fold`, `count`, `skip`, `peekable`, …) is std's default implementation over `next` -/
theorem source_chunk_iterator_defines_next_and_len_only :
    GenP.ChunkIt.iterator_overrides = ["next", "size_hint"] ∧ GenP.ChunkIt.exact_size_overrides = ["len"] ∧ GenP.ChunkIt.has_drop = false :=
  GenThms.Proto.chunk_iterator_defines_next_and_len_only

section Surface
open Orx.GenThms.Surface

/-- the seven chunk pullers (`BufferedChunk`) define `new`, `chunk_size`, `pull` and nothing else; the buffered iterator over them has
`new` and `next` only -/
theorem source_chunk_pullers_are_the_modelled_ones :
    ((implsOf "BufferedChunk").all fun ty => fnsOf "BufferedChunk" ty == [["new", "chunk_size", "pull"]]) = true ∧
    sameSet (implsOf "BufferedChunk") ["BufferedArray", "ClonedBufferedChunk", "CopiedBufferedChunk", "BufferIter", "BufferedRange",
      "BufferedSlice", "BufferedVec"] = true ∧
    fnsOf "trait" "BufferedChunk" = [["new", "chunk_size", "pull"]] ∧
    -- two types are called `BufferedIter`: the buffered iterator (buffered_iter.rs: `new`, `next`) and the chunk value iterator
    -- of the wrapper (iter.rs: no inherent impl)
    fnsOf "" "BufferedIter" = [["new", "next"]] :=
  Orx.GenThms.Surface.the_chunk_pullers

/-- the std iterators the crate defines, and the methods each overrides (everything else is std's default over `next`) -/
theorem source_value_iterators_are_the_modelled_ones :
    sameSet (implsOf "Iterator") ["BufferedIter", "Taken", "ConIterIdsAndValues", "ConIterValues"] = true ∧
    fnsOf "Iterator" "BufferedIter" = [["next", "size_hint"]] ∧ fnsOf "Iterator" "Taken" = [["next", "size_hint"]] ∧
    fnsOf "Iterator" "ConIterIdsAndValues" = [["next"]] ∧ fnsOf "Iterator" "ConIterValues" = [["next"]] ∧
    sameSet (implsOf "ExactSizeIterator") ["BufferedIter", "Taken"] = true ∧
    fnsOf "ExactSizeIterator" "BufferedIter" = [["len"]] ∧ fnsOf "ExactSizeIterator" "Taken" = [[]] :=
  Orx.GenThms.Surface.the_iterators

end Surface

end Orx.Props.C03
