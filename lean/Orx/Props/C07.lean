import Orx.IW.Outs
/-! # C07 Wrapped iterator is used exclusively and in order -/
namespace Orx.Props.C07
open Orx Orx.IW

/-- **Mutual exclusion, all schedules**: for every fused wrapped iterator (panicking ones included), all
request programs with chunk sizes ≥ 1 and skips anywhere, and every interleaving, two distinct threads are
never both in the critical section … -/
theorem mutex_all (s : Script) (hf : Fused s) (ps : Nat → List Req) (hok : ∀ t, ∀ r ∈ ps t, ReqOk r)
    (σ : List Nat) (hW : (run s σ (init ps)).R < W) (t u : Nat) (htu : t ≠ u) :
    ¬ (((run s σ (init ps)).th t).pc.inCS = true ∧ ((run s σ (init ps)).th u).pc.inCS = true) :=
  fun ⟨ht, hu⟩ => mutex (inv_reach s hf ps hok σ hW) t u htu ht hu

/-- … in particular never both executing the wrapped iterator's `next()`. -/
theorem next_never_overlaps (s : Script) (hf : Fused s) (ps : Nat → List Req) (hok : ∀ t, ∀ r ∈ ps t, ReqOk r)
    (σ : List Nat) (hW : (run s σ (init ps)).R < W) (t u : Nat) (htu : t ≠ u) :
    ¬ (((run s σ (init ps)).th t).pc.inNext = true ∧ ((run s σ (init ps)).th u).pc.inNext = true) := by
  intro ⟨ht, hu⟩
  have h1 : ∀ pc : Pc, pc.inNext = true → pc.inCS = true := by intro pc; cases pc <;> simp [Pc.inNext, Pc.inCS]
  exact mutex_all s hf ps hok σ hW t u htu ⟨h1 _ ht, h1 _ hu⟩

/-- the `k`-th call of `next()` is made by the holder of the ticket the yielded counter points at, and while no
`None` was returned it produces exactly position `begin + |acc|`: the wrapped iterator sees a sequential use -/
theorem calls_in_position_order (s : Script) (hf : Fused s) (ps : Nat → List Req) (hok : ∀ t, ∀ r ∈ ps t, ReqOk r)
    (σ : List Nat) (hW : (run s σ (init ps)).R < W) (t b n : Nat)
    (hcs : ((run s σ (init ps)).th t).pc.inCS = true) (htk : ((run s σ (init ps)).th t).pc.ticket = some (b, n))
    (hnn : NoNoneBefore s (run s σ (init ps)).P) :
    (run s σ (init ps)).P = b + ((run s σ (init ps)).th t).pc.acc.length :=
  (inv_reach s hf ps hok σ hW).pcs t b n hcs htk hnn

end Orx.Props.C07
