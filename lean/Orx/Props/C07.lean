import Orx.IW.Outs
import Orx.IW.HB
import Orx.IW.Weak
import Orx.Generated.Orderings
import Orx.GenThms.ProtoSim
import Orx.GenThms.ProtoSimBuf
/-! # C07 Wrapped iterator is used exclusively and in order -/
namespace Orx.Props.C07
open Orx Orx.IW

/-- **Mutual exclusion, all schedules**: for every fused wrapped iterator (panicking ones included), all
request programs with chunk sizes ≥ 1 and skips anywhere, and every interleaving, two distinct threads are
never both in the critical section … -/
theorem mutex_all (s : Script) (ps : Nat → List Req) (hok : ∀ t, ∀ r ∈ ps t, ReqOk r)
    (σ : List Nat) (hW : (run s σ (init ps)).R < W) (t u : Nat) (htu : t ≠ u) :
    ¬ (((run s σ (init ps)).th t).pc.inCS = true ∧ ((run s σ (init ps)).th u).pc.inCS = true) :=
  fun ⟨ht, hu⟩ => mutex (inv_reach s ps hok σ hW) t u htu ht hu

/-- … in particular never both executing the wrapped iterator's `next()`. -/
theorem next_never_overlaps (s : Script) (ps : Nat → List Req) (hok : ∀ t, ∀ r ∈ ps t, ReqOk r)
    (σ : List Nat) (hW : (run s σ (init ps)).R < W) (t u : Nat) (htu : t ≠ u) :
    ¬ (((run s σ (init ps)).th t).pc.inNext = true ∧ ((run s σ (init ps)).th u).pc.inNext = true) := by
  intro ⟨ht, hu⟩
  have h1 : ∀ pc : Pc, pc.inNext = true → pc.inCS = true := by intro pc; cases pc <;> simp [Pc.inNext, Pc.inCS]
  exact mutex_all s ps hok σ hW t u htu ⟨h1 _ ht, h1 _ hu⟩

/-- the `k`-th call of `next()` is made by the holder of the ticket the yielded counter points at, and while no
`None` was returned it produces exactly position `begin + |acc|`: the wrapped iterator sees a sequential use -/
theorem calls_in_position_order (s : Script) (ps : Nat → List Req) (hok : ∀ t, ∀ r ∈ ps t, ReqOk r)
    (σ : List Nat) (hW : (run s σ (init ps)).R < W) (t b n : Nat)
    (hcs : ((run s σ (init ps)).th t).pc.inCS = true) (htk : ((run s σ (init ps)).th t).pc.ticket = some (b, n))
    (hnn : NoNoneBefore s (run s σ (init ps)).P) :
    (run s σ (init ps)).P = b + ((run s σ (init ps)).th t).pc.acc.length :=
  (inv_reach s ps hok σ hW).pcs t b n hcs htk hnn

/-- the orderings the current source uses on the `yielded` counter (extracted on every run) -/
def srcOrds : Ords :=
  { yLoad := Orx.Generated.Orderings.counterCurrent
    yFaa := Orx.Generated.Orderings.counterFetchAdd }

/-- obligation on the source: `AtomicCounter::current` acquires … -/
theorem ord_current_acquire : srcOrds.yLoad.isAcq = true := by decide

/-- … and `AtomicCounter::fetch_and_add` / `fetch_and_increment` release (and acquire). -/
theorem ord_faa_release : srcOrds.yFaa.isRel = true ∧ Orx.Generated.Orderings.counterFetchInc.isRel = true := by decide

/-- **Happens-before, all schedules, with the orderings of the current source**: every entry into and exit from
the wrapped iterator's `next()` happens-after the previous use of the iterator (C11 release/acquire through the
`yielded` counter; vector clocks over SC interleavings). No data race on the `UnsafeCell<Iter>`. -/
theorem hb_chain (s : Script) (ps : Nat → List Req) (hok : ∀ t, ∀ r ∈ ps t, ReqOk r) (σ : List Nat)
    (hW : (run s σ (init ps)).R < W) (t : Nat)
    (huse : ∃ r b acc, ((hrun srcOrds s σ (hinit ps)).core.th t).pc = .cs r b acc ∨
                       ((hrun srcOrds s σ (hinit ps)).core.th t).pc = .ins r b acc) :
    (hrun srcOrds s σ (hinit ps)).last.le ((hrun srcOrds s σ (hinit ps)).clk t) :=
  no_race srcOrds ord_current_acquire ord_faa_release.1 s ps hok σ hW t huse

/-- the bookkeeping layer does not change the protocol: its core is the plain run -/
theorem hb_layer_is_conservative (s : Script) (ps : Nat → List Req) (σ : List Nat) :
    (hrun srcOrds s σ (hinit ps)).core = run s σ (init ps) := hrun_core srcOrds s σ (hinit ps)

/-- why the ordering matters (the defect fixed by 5ddb4aa): with a relaxed load the entering thread joins
nothing; 2 threads, one `next` each: thread 1 enters `next()` without thread 0's last use in its past. -/
theorem C07_relaxed_load_races :
    let o : Ords := { yLoad := .relaxed, yFaa := .acqrel }
    let s : Script := fun i => if i < 2 then .some (i + 7) else .none
    let h := hrun o s [0,0,0,0,0,0,0,0, 1,1,1,1,1] (hinit fun t => if t < 2 then [.single false] else [])
    (∃ acc, (h.core.th 1).pc = .cs (.single false) 1 acc) ∧ ¬ (h.last 0 ≤ h.clk 1 0) := by
  refine ⟨⟨[], by decide⟩, by decide⟩

/-- **The orderings `IW/Weak.lean` relies on, read off the current source**: every store to `completed` (`get`, `fetch_n`,
`early_exit`, `mark_completed`, the unwind guard) and the loads of `completed` right after reserving and at the thread's
turn (in `progress_and_get_begin_idx` and in `get`) are `SeqCst` — so those loads cannot return a stale `false` —, and
only the load in the spin loop is `Relaxed` (the one `stepS` lets be stale). -/
theorem ord_completed_as_modelled :
    Orx.Generated.Orderings.completed_progress_and_get_begin_idx_load0 = .seqcst ∧
    Orx.Generated.Orderings.completed_progress_and_get_begin_idx_load1 = .seqcst ∧
    Orx.Generated.Orderings.completed_get_load0 = .seqcst ∧
    Orx.Generated.Orderings.completed_get_load1 = .seqcst ∧
    Orx.Generated.Orderings.completed_get_store2 = .seqcst ∧
    Orx.Generated.Orderings.completed_fetch_n_store0 = .seqcst ∧
    Orx.Generated.Orderings.completed_early_exit_store0 = .seqcst ∧
    Orx.Generated.Orderings.completed_mark_completed_store0 = .seqcst ∧
    Orx.Generated.Orderings.completed_drop_store0 = .seqcst ∧
    Orx.Generated.Orderings.completed_try_get_len_load0 = .seqcst := by decide

/-! ## Beyond SC interleavings: stale loads (`IW/Weak.lean`)

`runS` lets the `Acquire` load of `yielded` return any older value and the `Relaxed` load of `completed` return a stale
`false`, adversarially at every step (read-modify-writes and the all-`SeqCst` accesses of `completed` read the latest
value, as C11 guarantees). -/

/-- **Mutual exclusion under stale reads**: never two threads in the critical section, hence never two executions of
the wrapped `next()` at once — for every iterator, program family, schedule and every choice of stale loads. -/
theorem mutex_under_stale_reads (s : Script) (ps : Nat → List Req) (hok : ∀ t, ∀ r ∈ ps t, ReqOk r)
    (σ : List (Nat × Stale)) (hW : (runS s σ (init ps)).R < W) (t u : Nat) (htu : t ≠ u) :
    ¬ (((runS s σ (init ps)).th t).pc.inCS = true ∧ ((runS s σ (init ps)).th u).pc.inCS = true) :=
  fun ⟨ht, hu⟩ => mutex_weak s ps hok σ hW t u htu ht hu

/-- a stale value of `yielded` is never mistaken for the thread's turn: such a step is the fresh step or one more spin -/
theorem stale_read_only_spins (s : Script) (ps : Nat → List Req) (hok : ∀ t, ∀ r ∈ ps t, ReqOk r)
    (σ : List (Nat × Stale)) (hW : (runS s σ (init ps)).R < W) (t : Nat) (st : Stale) :
    let c := runS s σ (init ps)
    stepS s t st c = step s t c ∨
    ∃ r b pc', ((c.th t).pc = .wait r b ∨ (c.th t).pc = .chk r b) ∧ (pc' = .wait r b ∨ pc' = .chk r b) ∧
      stepS s t st c = setTh c t { (c.th t) with pc := pc' } :=
  stepS_cases (inv_runS σ (inv_init s ps hok) hW) t st

/-- **Happens-before under stale reads, with the orderings of the current source**: whoever enters or leaves the
wrapped iterator's `next()` has the previous use in its past — the turn is only ever seen through the latest value of
`yielded`, which was written by the previous holder's releasing `fetch_add`. -/
theorem hb_chain_under_stale_reads (s : Script) (ps : Nat → List Req) (hok : ∀ t, ∀ r ∈ ps t, ReqOk r)
    (σ : List (Nat × Stale)) (hW : (runS s σ (init ps)).R < W) (t : Nat)
    (huse : ∃ r b acc, ((hrunS srcOrds s σ (hinit ps)).core.th t).pc = .cs r b acc ∨
                       ((hrunS srcOrds s σ (hinit ps)).core.th t).pc = .ins r b acc) :
    (hrunS srcOrds s σ (hinit ps)).last.le ((hrunS srcOrds s σ (hinit ps)).clk t) :=
  no_race_weak srcOrds ord_current_acquire ord_faa_release.1 s ps hok σ hW t huse

/-- non-vacuity: a schedule in which thread 1 reads the stale value 0 of `yielded` while thread 0 has already published
(so `yielded = 1` is thread 1's turn): thread 1 just spins once more, then enters with the fresh value. -/
example :
    let s : Script := fun i => if i < 2 then .some (i + 7) else .none
    let ps : Nat → List Req := fun t => if t < 2 then [.single false] else []
    let c := runS s ([0,0,0,0,0,0,0,0, 1,1,1].map (·, Stale.fresh) ++ [(1, .yOld 0), (1, .cOld), (1, .fresh)]) (init ps)
    c.Y = 1 ∧ (c.th 1).pc = .ent (.single false) 1 := by decide


/-! ## The protocol model is the source's (translation, every run)

`tools/rs2lean.py` translates `progress_and_get_begin_idx`, `get`, `fetch_one`, `fetch_n` (and the entry points
`next_id_and_value`, `next_chunk`, `skip_to_end`) of the current source into program trees on every run
(`Generated/ProtoIter.lean`); `GenThms/Proto.lean` computes them, `GenThms/ProtoSim.lean` relates them to this model. -/

/-- **Every thread of the model executes the translated source**: in every reachable configuration, the access the
thread performs next is the root of its residual program `treeAt k pc`, the step of the model is that access against the
shared memory, and what remains is the tree's child for the value read. -/
theorem source_protocol_is_the_models (s : Script) (ps : Nat → List Req)
    (hps : ∀ t, ∀ r ∈ ps t, GenThms.Proto.Covered r) (σ : List Nat) (hW : (run s σ (init ps)).R < W) (t k : Nat) (hk : 1 ≤ k)
    (ha : actOf ((run s σ (init ps)).th t).pc ≠ none) :
    let c := run s σ (init ps)
    let pc := (c.th t).pc
    GenThms.Proto.head (GenThms.Proto.treeAt k pc) = actOf pc ∧
    GenThms.Proto.child (GenThms.Proto.treeAt k pc) (respOf s c pc) =
      some (GenThms.Proto.contOf k pc (lstep pc (respOf s c pc))) ∧
    step s t c = setTh (effOf c pc) t (applyL (c.th t) (lstep pc (respOf s c pc))) :=
  GenThms.Proto.model_thread_follows_source s ps hps σ hW t k hk ha

/-- at the start of a request the residual program is the translated Rust function itself -/
theorem source_requests_are_the_translated_functions (k : Nat) :
    (∀ l, GenThms.Proto.reqTree k (.single l) = GenThms.Proto.treeAt k (.resv (.single l))) ∧
    (∀ n, 1 ≤ n → GenThms.Proto.reqTree k (.chunk n) = GenThms.Proto.treeAt k (.resv (.chunk n))) ∧
    GenThms.Proto.reqTree k .skip = GenThms.Proto.treeAt k .skp :=
  ⟨GenThms.Proto.reqTree_single k, GenThms.Proto.reqTree_chunk k, GenThms.Proto.reqTree_skip k⟩

/-- the wrapped iterator is entered in the source only behind a `SeqCst` load of `completed` that read `false`, itself
behind an `Acquire` load of `yielded` that read the thread's own ticket: the two guards of the critical section, as
written in `get` (the tree of its spin loop, for every fuel and every continuation) -/
theorem source_entry_is_guarded {β : Type} (K : Option Nat → RSP.Prog β) (k b : Nat) :
    GenThms.Proto.tGetLoop K (k + 1) b = .ldN .Y .acquire fun y =>
      if b < y then K none
      else if b = y then .ldB .C .seqcst fun c => if c then K none else GenThms.Proto.tPollOne K
      else .ldB .C .relaxed fun c => if c then K none else GenThms.Proto.tGetLoop K k b := rfl

/-- the crate's own `assert_eq!(older_count, begin_idx)` never fires -/
theorem source_publish_assertion_never_fires (s : Script) (ps : Nat → List Req) (hps : ∀ t, ∀ r ∈ ps t, ReqOk r)
    (σ : List Nat) (hW : (run s σ (init ps)).R < W) (t : Nat) (r : Req) (b : Nat) (acc : List Nat)
    (hpc : ((run s σ (init ps)).th t).pc = .pub r b acc) : (run s σ (init ps)).Y = b :=
  GenThms.Proto.publish_assertion_holds s ps hps σ hW t r b acc hpc


/-- **Buffered requests** (`for_each`/`fold` with chunk size > 1, `buffered_iter`): the model's thread executes the
translated `BufferedIter::next` (buffered_iter.rs) with `BufferIter::pull` (buffered/iter.rs) — reserve `chunk_size`,
look at `completed`, spin for the turn, fill the reused buffer under the drop guard, mark the end if it stays short,
publish on `yielded`. For every stale content `buf` of the thread's buffer and every fuel. -/
theorem source_buffered_protocol_is_the_models (s : Script) (ps : Nat → List Req) (hps : ∀ t, ∀ r ∈ ps t, ReqOk r)
    (σ : List Nat) (hW : (run s σ (init ps)).R < W) (t F k : Nat) (hk : 1 ≤ k) (buf : List (Option Nat))
    (hn : buf.length < W) (hF : buf.length ≤ F) (l : Bool)
    (hreq : ∀ r, GenThms.Proto.pcReq ((run s σ (init ps)).th t).pc = some r → r = .buffered buf.length l)
    (ha : actOf ((run s σ (init ps)).th t).pc ≠ none) (hskp : ((run s σ (init ps)).th t).pc ≠ .skp) :
    let c := run s σ (init ps)
    let pc := (c.th t).pc
    GenThms.Proto.head (GenThms.Proto.treeAtB F k buf pc) = actOf pc ∧
    GenThms.Proto.child (GenThms.Proto.treeAtB F k buf pc) (respOf s c pc) =
      some (GenThms.Proto.contOfB F k buf pc (lstep pc (respOf s c pc))) ∧
    step s t c = setTh (effOf c pc) t (applyL (c.th t) (lstep pc (respOf s c pc))) :=
  GenThms.Proto.model_buffered_thread_follows_source s ps hps σ hW t F k hk buf hn hF l hreq ha hskp

theorem source_buffered_request_is_the_translated_function (F : Nat) (buf : List (Option Nat)) (l : Bool) :
    GenThms.Proto.reqTreeB F buf = GenThms.Proto.treeAtB F F buf (.resv (.buffered buf.length l)) :=
  GenThms.Proto.reqTreeB_eq F buf l

end Orx.Props.C07
