import Orx.KSRun
/-! # C02, helper layer: what an event may claim about the source, and one lemma per (pc, operation) of `KS.stepRest` -/
set_option linter.unusedSimpArgs false
namespace Orx.Props.C02
open Orx Orx.KS

/-- what an event may claim about the source -/
def EvGood (s : KSrc) : Ev → Prop
  | .ret (.item i v) => i < s.len ∧ v = s.valAt i
  | .ret (.chunk b a _ vals) => b + a ≤ s.len ∧ vals.length ≤ a ∧ vals = (List.range vals.length).map fun k => s.valAt (b + k)
  | .visit (some i) v => i < s.len ∧ v = s.valAt i
  | _ => True

theorem rangeList_map_valAt (s : KSrc) (b j : Nat) :
    (rangeList b (b + j)).map s.valAt = (List.range j).map fun k => s.valAt (b + k) := by
  simp [rangeList, Nat.add_comm]

theorem visitAll_good (s : KSrc) (withIdx : Bool) (pa : Option Nat) (ps : List Nat) (v sm : Nat) (acc : List Ev)
    (hps : ∀ p ∈ ps, p < s.len) (hacc : ∀ e ∈ acc, EvGood s e) :
    ∀ e ∈ (visitAll s withIdx pa ps v sm acc).1, EvGood s e := by
  induction ps generalizing v sm acc with
  | nil => simpa [visitAll] using hacc
  | cons p ps ih =>
    have hp : p < s.len := hps p (by simp)
    have hacc' : ∀ e ∈ acc ++ cloneEvs s [p] ++ [Ev.visit (if withIdx = true then some p else none) (s.valAt p)], EvGood s e := by
      intro e he
      simp only [List.mem_append, List.mem_singleton] at he
      rcases he with (he | he) | he
      · exact hacc e he
      · unfold cloneEvs at he; split at he <;> simp at he; subst he; trivial
      · subst he; cases withIdx <;> simp [EvGood, hp]
    simp only [visitAll]
    split
    · exact hacc'
    · exact ih _ _ _ (fun q hq => hps q (by simp [hq])) hacc'

theorem pullRange_le (len c n : Nat) : (pullRange len c n).2 ≤ len ∧ (pullRange len c n).1 ≤ (pullRange len c n).2 := by
  simp only [pullRange]; split <;> omega

theorem mem_rangeList {b e p : Nat} (h : p ∈ rangeList b e) : b ≤ p ∧ p < e := by
  simp [rangeList] at h; omega

theorem cloneEvs_good (s : KSrc) (l : List Nat) : ∀ e ∈ cloneEvs s l, EvGood s e := by
  intro e he; unfold cloneEvs at he; split at he
  · simp at he; obtain ⟨_, _, rfl⟩ := he; trivial
  · simp at he

theorem dropEvs_good (s : KSrc) (l : List Nat) : ∀ e ∈ dropEvs s l, EvGood s e := by
  intro e he; unfold dropEvs at he; split at he
  · simp at he; obtain ⟨_, _, rfl⟩ := he; trivial
  · simp at he

/-- what the `ret chunk b a l vals` line of a chunk consumed from offset `off` on may claim -/
def ChunkGood (s : KSrc) (b a off : Nat) (vals : List Nat) : Prop :=
  b + a ≤ s.len ∧ off + vals.length ≤ a ∧ vals = (List.range vals.length).map fun k => s.valAt (b + off + k)

/-- chunk pulls of a known-size kind, for every way of consuming the chunk (`all`, the first `k`, `nth(k)`): the
values handed to the caller are the source elements at `begin + offset`, where `offset` is the number of elements
the consumer discarded itself (`0` unless it used `nth`) -/
theorem chunk_ret_good (s : KSrc) (cv n : Nat) (kk : Take) :
    ChunkGood s (pullRange s.len cv n).1 ((pullRange s.len cv n).2 - (pullRange s.len cv n).1)
      (kk.skipped ((pullRange s.len cv n).2 - (pullRange s.len cv n).1))
      ((rangeList ((pullRange s.len cv n).1 + kk.skipped ((pullRange s.len cv n).2 - (pullRange s.len cv n).1))
        ((pullRange s.len cv n).1 + takeCount kk ((pullRange s.len cv n).2 - (pullRange s.len cv n).1))).map s.valAt) := by
  have h := pullRange_le s.len cv n
  have htc := Take.count_le kk ((pullRange s.len cv n).2 - (pullRange s.len cv n).1)
  have hsk := Take.skipped_le_count kk ((pullRange s.len cv n).2 - (pullRange s.len cv n).1)
  refine ⟨by omega, by simp [rangeList, takeCount]; omega, ?_⟩
  simp [rangeList, takeCount, Nat.add_comm, Nat.add_left_comm]

/-- for consumers that only use `next()` the offset is 0: the line satisfies `EvGood` as it stands -/
theorem chunk_ret_good_next (s : KSrc) (cv n : Nat) (kk : Take) (hk : ∀ k, kk ≠ .nth k) (hc : kk ≠ .cnt) :
    EvGood s (.ret (.chunk (pullRange s.len cv n).1 ((pullRange s.len cv n).2 - (pullRange s.len cv n).1)
      ((pullRange s.len cv n).2 - (pullRange s.len cv n).1 - takeCount kk ((pullRange s.len cv n).2 - (pullRange s.len cv n).1))
      ((rangeList ((pullRange s.len cv n).1 + kk.skipped ((pullRange s.len cv n).2 - (pullRange s.len cv n).1))
        ((pullRange s.len cv n).1 + takeCount kk ((pullRange s.len cv n).2 - (pullRange s.len cv n).1))).map s.valAt))) := by
  have h := chunk_ret_good s cv n kk
  have h0 : kk.skipped ((pullRange s.len cv n).2 - (pullRange s.len cv n).1) = 0 := by
    cases kk <;> simp [Take.skipped] <;> first | exact absurd rfl (hk _) | exact absurd rfl hc
  rw [h0] at h ⊢
  simpa [ChunkGood, EvGood] using h


/-- what an event may claim about the source; a chunk consumed through `nth` reports the values from its offset on -/
def EvGoodX (s : KSrc) : Ev → Prop
  | .ret (.item i v) => i < s.len ∧ v = s.valAt i
  | .ret (.chunk b a _ vals) => ∃ off, ChunkGood s b a off vals
  | .visit (some i) v => i < s.len ∧ v = s.valAt i
  | _ => True

theorem skipEvs_good (s : KSrc) (l : List Nat) : ∀ e ∈ skipEvs s l, EvGoodX s e := by
  intro e he; unfold skipEvs at he
  split at he
  · simp at he; obtain ⟨_, _, rfl⟩ := he; trivial
  · split at he
    · simp at he; obtain ⟨_, _, rfl | rfl⟩ := he <;> trivial
    · simp at he

theorem cloneEvs_goodX (s : KSrc) (l : List Nat) : ∀ e ∈ cloneEvs s l, EvGoodX s e := by
  intro e he; unfold cloneEvs at he; split at he
  · simp at he; obtain ⟨_, _, rfl⟩ := he; trivial
  · simp at he

theorem dropEvs_goodX (s : KSrc) (l : List Nat) : ∀ e ∈ dropEvs s l, EvGoodX s e := by
  intro e he; unfold dropEvs at he; split at he
  · simp at he; obtain ⟨_, _, rfl⟩ := he; trivial
  · simp at he

theorem visitAll_goodX (s : KSrc) (withIdx : Bool) (pa : Option Nat) (ps : List Nat) (v sm : Nat) (acc : List Ev)
    (hps : ∀ p ∈ ps, p < s.len) (hacc : ∀ e ∈ acc, EvGoodX s e) :
    ∀ e ∈ (visitAll s withIdx pa ps v sm acc).1, EvGoodX s e := by
  induction ps generalizing v sm acc with
  | nil => simpa [visitAll] using hacc
  | cons p ps ih =>
    have hp : p < s.len := hps p (by simp)
    have hacc' : ∀ e ∈ acc ++ cloneEvs s [p] ++ [Ev.visit (if withIdx = true then some p else none) (s.valAt p)], EvGoodX s e := by
      intro e he
      simp only [List.mem_append, List.mem_singleton] at he
      rcases he with (he | he) | he
      · exact hacc e he
      · exact cloneEvs_goodX s _ e he
      · subst he; cases withIdx <;> simp [EvGoodX, hp]
    simp only [visitAll]
    split
    · exact hacc'
    · exact ih _ _ _ (fun q hq => hps q (by simp [hq])) hacc'

theorem atom_good_next (s : KSrc) (t : Nat) (c c1 : Cfg) (o : SOp) (hpc : (c.th t).pc = .atom o) (hop : o.op = .next) :
    ∀ e ∈ (stepRest s t c c1).2, EvGoodX s e := by
  intro e he
  simp only [stepRest, hpc, hop] at he
  split at he
  · rename_i hlt
    simp only [setTh, List.mem_append, List.mem_cons, List.mem_singleton, List.not_mem_nil, or_false, false_or, or_assoc] at he
    rcases he with rfl | he | rfl
    · trivial
    · exact cloneEvs_goodX _ _ _ he
    · first | exact ⟨hlt, rfl⟩ | trivial
  · simp only [setTh, List.mem_append, List.mem_cons, List.mem_singleton, List.not_mem_nil, or_false, false_or, or_assoc] at he
    rcases he with rfl | rfl <;> trivial

theorem atom_good_nextv (s : KSrc) (t : Nat) (c c1 : Cfg) (o : SOp) (hpc : (c.th t).pc = .atom o) (hop : o.op = .nextv) :
    ∀ e ∈ (stepRest s t c c1).2, EvGoodX s e := by
  intro e he
  simp only [stepRest, hpc, hop] at he
  split at he
  · rename_i hlt
    simp only [setTh, List.mem_append, List.mem_cons, List.mem_singleton, List.not_mem_nil, or_false, false_or, or_assoc] at he
    rcases he with rfl | he | rfl
    · trivial
    · exact cloneEvs_goodX _ _ _ he
    · first | exact ⟨hlt, rfl⟩ | trivial
  · simp only [setTh, List.mem_append, List.mem_cons, List.mem_singleton, List.not_mem_nil, or_false, false_or, or_assoc] at he
    rcases he with rfl | rfl <;> trivial

theorem atom_good_chunk (s : KSrc) (t : Nat) (c c1 : Cfg) (o : SOp) (n : Nat) (kk : Take) (hpc : (c.th t).pc = .atom o) (hop : o.op = .chunk n kk) :
    ∀ e ∈ (stepRest s t c c1).2, EvGoodX s e := by
  intro e he
  simp only [stepRest, hpc, hop] at he
  split at he
  · simp only [setTh, List.mem_append, List.mem_cons, List.mem_singleton, List.not_mem_nil, or_false, false_or, or_assoc] at he
    rcases he with rfl | rfl <;> trivial
  · split at he <;>
    · simp only [setTh, List.mem_append, List.mem_cons, List.mem_singleton, List.not_mem_nil, or_false, false_or, or_assoc] at he
      rcases he with rfl | he | he | he | rfl
      · trivial
      · exact skipEvs_good _ _ _ he
      · exact cloneEvs_goodX _ _ _ he
      · exact dropEvs_goodX _ _ _ he
      · exact ⟨_, chunk_ret_good s (c.ctr o.slot) n kk⟩

theorem atom_good_bufnext (s : KSrc) (t : Nat) (c c1 : Cfg) (o : SOp) (kk : Take) (hpc : (c.th t).pc = .atom o) (hop : o.op = .bufnext kk) :
    ∀ e ∈ (stepRest s t c c1).2, EvGoodX s e := by
  intro e he
  simp only [stepRest, hpc, hop] at he
  split at he
  · simp [setTh] at he
  · rename_i bk n hb
    split at he
    · split at he <;>
      · simp only [setTh, List.mem_append, List.mem_cons, List.mem_singleton, List.not_mem_nil, or_false, false_or, or_assoc] at he
        rcases he with rfl | he | he | he | rfl
        · trivial
        · exact skipEvs_good _ _ _ he
        · exact cloneEvs_goodX _ _ _ he
        · exact dropEvs_goodX _ _ _ he
        · exact ⟨_, chunk_ret_good s (c.ctr bk) n kk⟩
    · simp only [setTh, List.mem_append, List.mem_cons, List.mem_singleton, List.not_mem_nil, or_false, false_or, or_assoc] at he
      rcases he with rfl | rfl <;> trivial

theorem atom_good_skip (s : KSrc) (t : Nat) (c c1 : Cfg) (o : SOp) (hpc : (c.th t).pc = .atom o) (hop : o.op = .skip) :
    ∀ e ∈ (stepRest s t c c1).2, EvGoodX s e := by
  intro e he
  simp only [stepRest, hpc, hop] at he
  split at he
  · simp only [setTh, List.mem_append, List.mem_cons, List.mem_singleton, List.not_mem_nil, or_false, false_or, or_assoc] at he
    rcases he with rfl | he | rfl
    · trivial
    · exact dropEvs_goodX _ _ _ he
    · trivial
  · simp only [setTh, List.mem_append, List.mem_cons, List.mem_singleton, List.not_mem_nil, or_false, false_or, or_assoc] at he
    rcases he with rfl | rfl <;> trivial

theorem atom_good_len (s : KSrc) (t : Nat) (c c1 : Cfg) (o : SOp) (hpc : (c.th t).pc = .atom o) (hop : o.op = .len) :
    ∀ e ∈ (stepRest s t c c1).2, EvGoodX s e := by
  intro e he
  simp only [stepRest, hpc, hop] at he
  simp only [setTh, List.mem_append, List.mem_cons, List.mem_singleton, List.not_mem_nil, or_false, false_or, or_assoc] at he
  rcases he with rfl | rfl <;> trivial

theorem atom_good_hasmore (s : KSrc) (t : Nat) (c c1 : Cfg) (o : SOp) (hpc : (c.th t).pc = .atom o) (hop : o.op = .hasmore) :
    ∀ e ∈ (stepRest s t c c1).2, EvGoodX s e := by
  intro e he
  simp only [stepRest, hpc, hop] at he
  simp only [setTh, List.mem_append, List.mem_cons, List.mem_singleton, List.not_mem_nil, or_false, false_or, or_assoc] at he
  rcases he with rfl | rfl <;> trivial

theorem atom_good_clone (s : KSrc) (t : Nat) (c c1 : Cfg) (o : SOp) (j : Nat) (hpc : (c.th t).pc = .atom o) (hop : o.op = .clone j) :
    ∀ e ∈ (stepRest s t c c1).2, EvGoodX s e := by
  intro e he
  simp only [stepRest, hpc, hop] at he
  simp only [setTh, List.mem_append, List.mem_cons, List.mem_singleton, List.not_mem_nil, or_false, false_or, or_assoc] at he
  rcases he with rfl | rfl <;> trivial

theorem atom_good_bufnew (s : KSrc) (t : Nat) (c c1 : Cfg) (o : SOp) (n : Nat) (hpc : (c.th t).pc = .atom o) (hop : o.op = .bufnew n) :
    ∀ e ∈ (stepRest s t c c1).2, EvGoodX s e := by
  intro e he
  simp only [stepRest, hpc, hop] at he
  simp [setTh] at he

theorem atom_good_bufdrop (s : KSrc) (t : Nat) (c c1 : Cfg) (o : SOp) (hpc : (c.th t).pc = .atom o) (hop : o.op = .bufdrop) :
    ∀ e ∈ (stepRest s t c c1).2, EvGoodX s e := by
  intro e he
  simp only [stepRest, hpc, hop] at he
  simp [setTh] at he

theorem atom_good_foreach (s : KSrc) (t : Nat) (c c1 : Cfg) (o : SOp) (n : Nat) (pa : Option Nat) (hpc : (c.th t).pc = .atom o) (hop : o.op = .foreach n pa) :
    ∀ e ∈ (stepRest s t c c1).2, EvGoodX s e := by
  intro e he
  simp only [stepRest, hpc, hop] at he
  simp [setTh] at he

theorem atom_good_enumforeach (s : KSrc) (t : Nat) (c c1 : Cfg) (o : SOp) (n : Nat) (pa : Option Nat) (hpc : (c.th t).pc = .atom o) (hop : o.op = .enumforeach n pa) :
    ∀ e ∈ (stepRest s t c c1).2, EvGoodX s e := by
  intro e he
  simp only [stepRest, hpc, hop] at he
  simp [setTh] at he

theorem atom_good_fold (s : KSrc) (t : Nat) (c c1 : Cfg) (o : SOp) (n : Nat) (hpc : (c.th t).pc = .atom o) (hop : o.op = .fold n) :
    ∀ e ∈ (stepRest s t c c1).2, EvGoodX s e := by
  intro e he
  simp only [stepRest, hpc, hop] at he
  simp [setTh] at he

theorem atom_good_values (s : KSrc) (t : Nat) (c c1 : Cfg) (o : SOp) (hpc : (c.th t).pc = .atom o) (hop : o.op = .values) :
    ∀ e ∈ (stepRest s t c c1).2, EvGoodX s e := by
  intro e he
  simp only [stepRest, hpc, hop] at he
  simp [setTh] at he

theorem atom_good_idsvalues (s : KSrc) (t : Nat) (c c1 : Cfg) (o : SOp) (hpc : (c.th t).pc = .atom o) (hop : o.op = .idsvalues) :
    ∀ e ∈ (stepRest s t c c1).2, EvGoodX s e := by
  intro e he
  simp only [stepRest, hpc, hop] at he
  simp [setTh] at he

theorem atom_good_get (s : KSrc) (t : Nat) (c c1 : Cfg) (o : SOp) (i : Nat) (hpc : (c.th t).pc = .atom o) (hop : o.op = .get i) :
    ∀ e ∈ (stepRest s t c c1).2, EvGoodX s e := by
  intro e he
  simp only [stepRest, hpc, hop] at he
  simp [setTh] at he

theorem idle_good_next (s : KSrc) (t : Nat) (c c1 : Cfg) (o : SOp) (rest : List SOp) (hpc : (c.th t).pc = .idle) (htd : (c.th t).todo = o :: rest) (hop : o.op = .next) :
    ∀ e ∈ (stepRest s t c c1).2, EvGoodX s e := by
  intro e he
  simp only [stepRest, hpc, htd, hop, loopParams] at he
  ·
    simp only [setTh, List.mem_append, List.mem_cons, List.mem_singleton, List.not_mem_nil, or_false, false_or, or_assoc] at he
    subst he; trivial

theorem idle_good_nextv (s : KSrc) (t : Nat) (c c1 : Cfg) (o : SOp) (rest : List SOp) (hpc : (c.th t).pc = .idle) (htd : (c.th t).todo = o :: rest) (hop : o.op = .nextv) :
    ∀ e ∈ (stepRest s t c c1).2, EvGoodX s e := by
  intro e he
  simp only [stepRest, hpc, htd, hop, loopParams] at he
  ·
    simp only [setTh, List.mem_append, List.mem_cons, List.mem_singleton, List.not_mem_nil, or_false, false_or, or_assoc] at he
    subst he; trivial

theorem idle_good_chunk (s : KSrc) (t : Nat) (c c1 : Cfg) (o : SOp) (rest : List SOp) (n : Nat) (kk : Take) (hpc : (c.th t).pc = .idle) (htd : (c.th t).todo = o :: rest) (hop : o.op = .chunk n kk) :
    ∀ e ∈ (stepRest s t c c1).2, EvGoodX s e := by
  intro e he
  simp only [stepRest, hpc, htd, hop, loopParams] at he
  ·
    simp only [setTh, List.mem_append, List.mem_cons, List.mem_singleton, List.not_mem_nil, or_false, false_or, or_assoc] at he
    subst he; trivial

theorem idle_good_skip (s : KSrc) (t : Nat) (c c1 : Cfg) (o : SOp) (rest : List SOp) (hpc : (c.th t).pc = .idle) (htd : (c.th t).todo = o :: rest) (hop : o.op = .skip) :
    ∀ e ∈ (stepRest s t c c1).2, EvGoodX s e := by
  intro e he
  simp only [stepRest, hpc, htd, hop, loopParams] at he
  ·
    simp only [setTh, List.mem_append, List.mem_cons, List.mem_singleton, List.not_mem_nil, or_false, false_or, or_assoc] at he
    subst he; trivial

theorem idle_good_len (s : KSrc) (t : Nat) (c c1 : Cfg) (o : SOp) (rest : List SOp) (hpc : (c.th t).pc = .idle) (htd : (c.th t).todo = o :: rest) (hop : o.op = .len) :
    ∀ e ∈ (stepRest s t c c1).2, EvGoodX s e := by
  intro e he
  simp only [stepRest, hpc, htd, hop, loopParams] at he
  ·
    simp only [setTh, List.mem_append, List.mem_cons, List.mem_singleton, List.not_mem_nil, or_false, false_or, or_assoc] at he
    subst he; trivial

theorem idle_good_hasmore (s : KSrc) (t : Nat) (c c1 : Cfg) (o : SOp) (rest : List SOp) (hpc : (c.th t).pc = .idle) (htd : (c.th t).todo = o :: rest) (hop : o.op = .hasmore) :
    ∀ e ∈ (stepRest s t c c1).2, EvGoodX s e := by
  intro e he
  simp only [stepRest, hpc, htd, hop, loopParams] at he
  ·
    simp only [setTh, List.mem_append, List.mem_cons, List.mem_singleton, List.not_mem_nil, or_false, false_or, or_assoc] at he
    subst he; trivial

theorem idle_good_clone (s : KSrc) (t : Nat) (c c1 : Cfg) (o : SOp) (rest : List SOp) (j : Nat) (hpc : (c.th t).pc = .idle) (htd : (c.th t).todo = o :: rest) (hop : o.op = .clone j) :
    ∀ e ∈ (stepRest s t c c1).2, EvGoodX s e := by
  intro e he
  simp only [stepRest, hpc, htd, hop, loopParams] at he
  ·
    simp only [setTh, List.mem_append, List.mem_cons, List.mem_singleton, List.not_mem_nil, or_false, false_or, or_assoc] at he
    subst he; trivial

theorem idle_good_bufdrop (s : KSrc) (t : Nat) (c c1 : Cfg) (o : SOp) (rest : List SOp) (hpc : (c.th t).pc = .idle) (htd : (c.th t).todo = o :: rest) (hop : o.op = .bufdrop) :
    ∀ e ∈ (stepRest s t c c1).2, EvGoodX s e := by
  intro e he
  simp only [stepRest, hpc, htd, hop, loopParams] at he
  ·
    simp only [setTh, List.mem_append, List.mem_cons, List.mem_singleton, List.not_mem_nil, or_false, false_or, or_assoc] at he
    rcases he with rfl | rfl <;> trivial

theorem idle_good_bufnew (s : KSrc) (t : Nat) (c c1 : Cfg) (o : SOp) (rest : List SOp) (n : Nat) (hpc : (c.th t).pc = .idle) (htd : (c.th t).todo = o :: rest) (hop : o.op = .bufnew n) :
    ∀ e ∈ (stepRest s t c c1).2, EvGoodX s e := by
  intro e he
  simp only [stepRest, hpc, htd, hop, loopParams] at he
  split at he
  ·
    simp only [setTh, List.mem_append, List.mem_cons, List.mem_singleton, List.not_mem_nil, or_false, false_or, or_assoc] at he
    rcases he with rfl | rfl <;> trivial
  ·
    simp only [setTh, List.mem_append, List.mem_cons, List.mem_singleton, List.not_mem_nil, or_false, false_or, or_assoc] at he
    rcases he with rfl | rfl <;> trivial

theorem idle_good_bufnext (s : KSrc) (t : Nat) (c c1 : Cfg) (o : SOp) (rest : List SOp) (kk : Take) (hpc : (c.th t).pc = .idle) (htd : (c.th t).todo = o :: rest) (hop : o.op = .bufnext kk) :
    ∀ e ∈ (stepRest s t c c1).2, EvGoodX s e := by
  intro e he
  simp only [stepRest, hpc, htd, hop, loopParams] at he
  split at he
  ·
    simp only [setTh, List.mem_append, List.mem_cons, List.mem_singleton, List.not_mem_nil, or_false, false_or, or_assoc] at he
    rcases he with rfl | rfl <;> trivial
  ·
    simp only [setTh, List.mem_append, List.mem_cons, List.mem_singleton, List.not_mem_nil, or_false, false_or, or_assoc] at he
    subst he; trivial

theorem idle_good_foreach (s : KSrc) (t : Nat) (c c1 : Cfg) (o : SOp) (rest : List SOp) (n : Nat) (pa : Option Nat) (hpc : (c.th t).pc = .idle) (htd : (c.th t).todo = o :: rest) (hop : o.op = .foreach n pa) :
    ∀ e ∈ (stepRest s t c c1).2, EvGoodX s e := by
  intro e he
  simp only [stepRest, hpc, htd, hop, loopParams] at he
  split at he
  ·
    simp only [setTh, List.mem_append, List.mem_cons, List.mem_singleton, List.not_mem_nil, or_false, false_or, or_assoc] at he
    rcases he with rfl | rfl <;> trivial
  ·
    simp only [setTh, List.mem_append, List.mem_cons, List.mem_singleton, List.not_mem_nil, or_false, false_or, or_assoc] at he
    subst he; trivial

theorem idle_good_enumforeach (s : KSrc) (t : Nat) (c c1 : Cfg) (o : SOp) (rest : List SOp) (n : Nat) (pa : Option Nat) (hpc : (c.th t).pc = .idle) (htd : (c.th t).todo = o :: rest) (hop : o.op = .enumforeach n pa) :
    ∀ e ∈ (stepRest s t c c1).2, EvGoodX s e := by
  intro e he
  simp only [stepRest, hpc, htd, hop, loopParams] at he
  split at he
  ·
    simp only [setTh, List.mem_append, List.mem_cons, List.mem_singleton, List.not_mem_nil, or_false, false_or, or_assoc] at he
    rcases he with rfl | rfl <;> trivial
  ·
    simp only [setTh, List.mem_append, List.mem_cons, List.mem_singleton, List.not_mem_nil, or_false, false_or, or_assoc] at he
    subst he; trivial

theorem idle_good_fold (s : KSrc) (t : Nat) (c c1 : Cfg) (o : SOp) (rest : List SOp) (n : Nat) (hpc : (c.th t).pc = .idle) (htd : (c.th t).todo = o :: rest) (hop : o.op = .fold n) :
    ∀ e ∈ (stepRest s t c c1).2, EvGoodX s e := by
  intro e he
  simp only [stepRest, hpc, htd, hop, loopParams] at he
  split at he
  ·
    simp only [setTh, List.mem_append, List.mem_cons, List.mem_singleton, List.not_mem_nil, or_false, false_or, or_assoc] at he
    rcases he with rfl | rfl <;> trivial
  ·
    simp only [setTh, List.mem_append, List.mem_cons, List.mem_singleton, List.not_mem_nil, or_false, false_or, or_assoc] at he
    subst he; trivial

theorem idle_good_values (s : KSrc) (t : Nat) (c c1 : Cfg) (o : SOp) (rest : List SOp) (hpc : (c.th t).pc = .idle) (htd : (c.th t).todo = o :: rest) (hop : o.op = .values) :
    ∀ e ∈ (stepRest s t c c1).2, EvGoodX s e := by
  intro e he
  simp only [stepRest, hpc, htd, hop, loopParams] at he
  split at he
  · simp only [setTh, List.mem_append, List.mem_cons, List.mem_singleton, List.not_mem_nil, or_false, false_or, or_assoc] at he
    rcases he with rfl | rfl <;> trivial
  ·
    simp only [setTh, List.mem_append, List.mem_cons, List.mem_singleton, List.not_mem_nil, or_false, false_or, or_assoc] at he
    subst he; trivial

theorem idle_good_idsvalues (s : KSrc) (t : Nat) (c c1 : Cfg) (o : SOp) (rest : List SOp) (hpc : (c.th t).pc = .idle) (htd : (c.th t).todo = o :: rest) (hop : o.op = .idsvalues) :
    ∀ e ∈ (stepRest s t c c1).2, EvGoodX s e := by
  intro e he
  simp only [stepRest, hpc, htd, hop, loopParams] at he
  split at he
  · simp only [setTh, List.mem_append, List.mem_cons, List.mem_singleton, List.not_mem_nil, or_false, false_or, or_assoc] at he
    rcases he with rfl | rfl <;> trivial
  ·
    simp only [setTh, List.mem_append, List.mem_cons, List.mem_singleton, List.not_mem_nil, or_false, false_or, or_assoc] at he
    subst he; trivial

theorem idle_good_get (s : KSrc) (t : Nat) (c c1 : Cfg) (o : SOp) (rest : List SOp) (i : Nat) (hpc : (c.th t).pc = .idle) (htd : (c.th t).todo = o :: rest) (hop : o.op = .get i) :
    ∀ e ∈ (stepRest s t c c1).2, EvGoodX s e := by
  intro e he
  simp only [stepRest, hpc, htd, hop, loopParams] at he
  split at he
  · simp only [setTh, List.mem_append, List.mem_cons, List.mem_singleton, List.not_mem_nil, or_false, false_or, or_assoc] at he
    rcases he with rfl | he | rfl
    · trivial
    · exact cloneEvs_goodX _ _ _ he
    · trivial
  ·
    simp only [setTh, List.mem_append, List.mem_cons, List.mem_singleton, List.not_mem_nil, or_false, false_or, or_assoc] at he
    rcases he with rfl | rfl <;> trivial


theorem rangeList_lt (a b len : Nat) (hb : b ≤ len) : ∀ p ∈ rangeList a b, p < len := by
  intro p hp
  have := mem_rangeList hp
  omega

theorem pullRange_snd_le (len c n : Nat) : (pullRange len c n).2 ≤ len := (pullRange_le len c n).1

theorem loop_good (s : KSrc) (t : Nat) (c c1 : Cfg) (o : SOp) (vis sm : Nat) (hpc : (c.th t).pc = .loop o vis sm) :
    ∀ e ∈ (stepRest s t c c1).2, EvGoodX s e := by
  intro e he
  simp only [stepRest, hpc] at he
  split at he
  · simp [setTh] at he
  · rename_i n withIdx pa isFold hlp
    split at he
    · rename_i hlt
      have hps : ∀ p ∈ rangeList (if n = 1 then c.ctr o.slot else (pullRange s.len (c.ctr o.slot) n).1)
          (if n = 1 then c.ctr o.slot + 1 else (pullRange s.len (c.ctr o.slot) n).2), p < s.len := by
        apply rangeList_lt
        split
        · omega
        · exact pullRange_snd_le _ _ _
      have hv := visitAll_goodX s withIdx pa _ vis sm [] hps (by simp)
      split at he
      · simp only [setTh, List.mem_append, List.mem_cons, List.mem_singleton, List.not_mem_nil, or_false, false_or, or_assoc] at he
        rcases he with rfl | he
        · trivial
        · exact hv e he
      · simp only [setTh, List.mem_append, List.mem_cons, List.mem_singleton, List.not_mem_nil, or_false, false_or, or_assoc] at he
        rcases he with rfl | he | he | rfl
        · trivial
        · exact hv e he
        · exact dropEvs_goodX _ _ _ he
        · trivial
    · simp only [setTh, List.mem_append, List.mem_cons, List.mem_singleton, List.not_mem_nil, or_false, false_or, or_assoc] at he
      rcases he with rfl | rfl
      · trivial
      · cases isFold <;> trivial

/-- every event of `stepRest`, whatever the configuration: one lemma per (pc, operation) above -/
theorem stepRest_events_good (s : KSrc) (t : Nat) (c c1 : Cfg) : ∀ e ∈ (stepRest s t c c1).2, EvGoodX s e := by
  cases hpc : (c.th t).pc with
  | dead => intro e he; simp [stepRest, hpc] at he
  | idle =>
    cases htd : (c.th t).todo with
    | nil => intro e he; simp [stepRest, hpc, htd] at he
    | cons o rest =>
      cases hop : o.op with
      | next  => exact idle_good_next s t c c1 o rest  hpc htd hop
      | nextv  => exact idle_good_nextv s t c c1 o rest  hpc htd hop
      | chunk n kk => exact idle_good_chunk s t c c1 o rest n kk hpc htd hop
      | bufnew n => exact idle_good_bufnew s t c c1 o rest n hpc htd hop
      | bufnext kk => exact idle_good_bufnext s t c c1 o rest kk hpc htd hop
      | bufdrop  => exact idle_good_bufdrop s t c c1 o rest  hpc htd hop
      | foreach n pa => exact idle_good_foreach s t c c1 o rest n pa hpc htd hop
      | enumforeach n pa => exact idle_good_enumforeach s t c c1 o rest n pa hpc htd hop
      | fold n => exact idle_good_fold s t c c1 o rest n hpc htd hop
      | values  => exact idle_good_values s t c c1 o rest  hpc htd hop
      | idsvalues  => exact idle_good_idsvalues s t c c1 o rest  hpc htd hop
      | skip  => exact idle_good_skip s t c c1 o rest  hpc htd hop
      | len  => exact idle_good_len s t c c1 o rest  hpc htd hop
      | hasmore  => exact idle_good_hasmore s t c c1 o rest  hpc htd hop
      | get i => exact idle_good_get s t c c1 o rest i hpc htd hop
      | clone j => exact idle_good_clone s t c c1 o rest j hpc htd hop
  | atom o =>
    cases hop : o.op with
    | next  => exact atom_good_next s t c c1 o  hpc hop
    | nextv  => exact atom_good_nextv s t c c1 o  hpc hop
    | chunk n kk => exact atom_good_chunk s t c c1 o n kk hpc hop
    | bufnew n => exact atom_good_bufnew s t c c1 o n hpc hop
    | bufnext kk => exact atom_good_bufnext s t c c1 o kk hpc hop
    | bufdrop  => exact atom_good_bufdrop s t c c1 o  hpc hop
    | foreach n pa => exact atom_good_foreach s t c c1 o n pa hpc hop
    | enumforeach n pa => exact atom_good_enumforeach s t c c1 o n pa hpc hop
    | fold n => exact atom_good_fold s t c c1 o n hpc hop
    | values  => exact atom_good_values s t c c1 o  hpc hop
    | idsvalues  => exact atom_good_idsvalues s t c c1 o  hpc hop
    | skip  => exact atom_good_skip s t c c1 o  hpc hop
    | len  => exact atom_good_len s t c c1 o  hpc hop
    | hasmore  => exact atom_good_hasmore s t c c1 o  hpc hop
    | get i => exact atom_good_get s t c c1 o i hpc hop
    | clone j => exact atom_good_clone s t c c1 o j hpc hop
  | loop o vis sm => exact loop_good s t c c1 o vis sm hpc

end Orx.Props.C02
