import Orx.KSRun
import Orx.KSLedger
import Orx.KSFault
import Orx.IW.Outs
import Orx.IW.FullLedgerRun
import Orx.GenThms.Own
import Orx.GenThms.Surface
/-! # C08 Consumed elements are moved out or dropped exactly once -/
namespace Orx.Props.C08
open Orx Orx.KS

/-- a chunk of a consuming kind: the elements the caller took and the elements the chunk iterator drops when
it is dropped are together exactly the positions handed out, each once (`Taken` in taken.rs) -/
theorem chunk_consumed_and_dropped_partition (b e j : Nat) (hj : b + j ≤ e) :
    rangeList b (b + j) ++ rangeList (b + j) e = rangeList b e :=
  rangeList_append b (b + j) e (by omega) hj

theorem takeCount_le (kk : Take) (a : Nat) : takeCount kk a ≤ a := Take.count_le kk a

/-- the same when the caller consumes through `Iterator::nth(k)`: the `min k a` discarded elements, the one element
returned (none if `k ≥ a`) and what the chunk iterator drops at the end are together the positions handed out -/
theorem chunk_nth_partition (b e : Nat) (kk : Take) (hbe : b ≤ e) :
    rangeList b (b + kk.skipped (e - b)) ++ rangeList (b + kk.skipped (e - b)) (b + takeCount kk (e - b))
      ++ rangeList (b + takeCount kk (e - b)) e = rangeList b e := by
  have h1 := Take.skipped_le_count kk (e - b)
  have h2 := Take.count_le kk (e - b)
  rw [rangeList_append b _ _ (by omega) (by unfold takeCount; omega)]
  exact rangeList_append b _ e (by omega) (by unfold takeCount; omega)

/-- `Drop` of `ConIterOfVec` / `ConIterOfArray` drops exactly the positions from the clamped counter to the end -/
theorem drop_drops_remainder (s : KSrc) (c : Cfg) (h : s.owning = true) :
    (owner s c .drop).1.dr = c.dr ++ rangeList (min (c.ctr 0) s.len) s.len := by
  unfold owner
  cases hk : s.kind <;> simp [KSrc.owning, hk] at h ⊢

/-- **Every position exactly once (vec, array; no skip, no `AtomicIter::get`, no counter wrap)**: for every
family of programs and every interleaving, the positions handed out by pulls (each then either taken by the
caller or dropped by the chunk) together with the positions dropped by `Drop` are `0..len`, each exactly once. -/
theorem handed_out_or_dropped_once (s : KSrc) (progs : Nat → List SOp) (hp : ∀ t, ∀ o ∈ progs t, NoCloneOp o)
    (σ : List Nat) :
    let c := run s σ (init s progs)
    NoSkip (atomsOf c.hist 0) → NoWrap s.len (atomsOf c.hist 0) 0 →
      delOf c.del 0 ++ rangeList (min (c.ctr 0) s.len) s.len = List.range s.len := by
  intro c hns hw
  rw [cursor_all_schedules s progs hp σ 0 hns hw, ← rangeList_zero, ← rangeList_zero]
  exact rangeList_append 0 _ _ (Nat.zero_le _) (by unfold pos; omega)

/-- wrapper over an owning iterator: the elements a thread has pulled but not yet published are exactly the
wrapped iterator's elements of its ticket (they are owned by that thread alone: mutual exclusion) -/
theorem iter_accumulated_owned_once (s : IW.Script) (ps : Nat → List IW.Req)
    (hok : ∀ t, ∀ r ∈ ps t, IW.ReqOk r) (σ : List Nat) (hW : (IW.run s σ (IW.init ps)).R < W)
    (t u : Nat) (htu : t ≠ u) (b n b' n' : Nat)
    (h1 : ((IW.run s σ (IW.init ps)).th t).pc.ticket = some (b, n))
    (h2 : ((IW.run s σ (IW.init ps)).th u).pc.ticket = some (b', n')) : b + n ≤ b' ∨ b' + n' ≤ b :=
  (IW.inv_reach s ps hok σ hW).disj t u b n b' n' htu h1 h2

def vec3 : KSrc := { kind := .vec, vals := [101, 102, 103] }

/-- **skip_to_end on a consuming kind** (fix for D5): the swap returns the previous counter value `c`; the positions
`[min(c,len), len)` are dropped by the skipping thread, the positions below were handed out (cursor theorem), and
afterwards neither a pull nor `Drop` touches anything: handed out ++ dropped at the skip = `0..len`, each once. -/
theorem skip_drops_the_rest (len : Nat) (as bs : List Atom) (hns : NoSkip as) (hw : NoWrap len as 0)
    (hwb : NoWrap len bs (Atom.skip.next len (runAtoms len as 0))) :
    delivered len as 0 ++ rangeList (min (runAtoms len as 0) len) len ++ delivered len bs (Atom.skip.next len (runAtoms len as 0))
      ++ rangeList (min (runAtoms len bs (Atom.skip.next len (runAtoms len as 0))) len) len = List.range len := by
  rw [skip_final len bs _ hwb, delivered_fresh len as hns hw]
  have hend := (end_permanent len bs (Atom.skip.next len (runAtoms len as 0)) (by simp [Atom.next]) hwb).2
  have : min (runAtoms len bs (Atom.skip.next len (runAtoms len as 0))) len = len := by omega
  rw [this, rangeList_self, List.append_nil, List.append_nil, ← rangeList_zero, ← rangeList_zero]
  exact rangeList_append 0 _ _ (Nat.zero_le _) (by unfold pos; omega)

/-- the witness of the former finding D5 (vec, one pull, `skip_to_end`, drop): position 0 was moved out, the skip
drops positions 1 and 2, `Drop` has nothing left to do. -/
theorem C08_fixed_witness_vec_skip :
    let c := run vec3 [0, 0, 0, 0] (init vec3 fun t => if t = 0 then [⟨0, .next⟩, ⟨0, .skip⟩] else [])
    c.mv = [0] ∧ c.dr = [1, 2] ∧ (owner vec3 c .drop).1.dr = [1, 2] := by decide

/-- **Moved out or destroyed exactly once — vec and array, every history, every schedule.** For every consuming
known-size source, all per-thread programs built from single pulls, chunk pulls consumed in any way (fully, the
first `k`, through `nth`), buffered pulls, `for_each`/`fold` loops (also with a panicking closure), `skip_to_end` and
length queries, every interleaving `σ` of their steps, and either ending (`Drop`, or `into_seq_iter` consumed to any
extent): if the counter did not wrap, every position below `len` is in "moved out to a caller" ++ "destroyed by the
machinery" exactly once, and no other position ever is. (`AtomicIter::get` is excluded: finding D12.) -/
theorem vec_array_exactly_once (s : KSrc) (hown : s.owning = true) (progs : Nat → List SOp)
    (hp : ∀ t, ∀ o ∈ progs t, OwnProg o) (σ : List Nat) (op : OwnerOp) (p : Nat)
    (hw : NoWrap s.len (atomsOf (run s σ (init s progs)).hist 0) 0) :
    ((owner s (run s σ (init s progs)) op).1.mv ++ (owner s (run s σ (init s progs)) op).1.dr).count p
      = if p < s.len then 1 else 0 :=
  exactly_once_all_schedules s hown progs hp σ op p hw

/-- at every moment of every schedule: moved out + destroyed so far = what the atomic history consumed so far -/
theorem vec_array_ledger_invariant (s : KSrc) (hown : s.owning = true) (progs : Nat → List SOp)
    (hp : ∀ t, ∀ o ∈ progs t, OwnProg o) (σ : List Nat) (p : Nat) :
    ((run s σ (init s progs)).mv ++ (run s σ (init s progs)).dr).count p
      = (consumed s.len (atomsOf (run s σ (init s progs)).hist 0) 0).count p :=
  ledger_all_schedules s hown progs hp σ p

/-- **… also when an element's destructor panics.** `s.dpanic = some k` makes the `k`-th destruction performed by the
machinery panic (in a chunk's `Drop`, inside `Iterator::nth`, in `skip_to_end`, in the iterator's `Drop`, in the
remainder of `into_seq_iter`): for every `k`, every program family, every schedule and either ending, every position
below `len` is still moved out or destroyed exactly once — the machinery never forgets the elements behind a
panicking one and never destroys one twice while unwinding. (`runF`/`ownerF` are what the driver runs.) -/
theorem vec_array_exactly_once_with_panicking_destructor (s : KSrc) (hown : s.owning = true)
    (progs : Nat → List SOp) (hp : ∀ t, ∀ o ∈ progs t, OwnProg o) (σ : List Nat) (op : OwnerOp) (p : Nat)
    (hw : NoWrap s.len (atomsOf (runF s σ (init s progs)).hist 0) 0) :
    ((ownerF s (runF s σ (init s progs)) op).1.mv ++ (ownerF s (runF s σ (init s progs)) op).1.dr).count p
      = if p < s.len then 1 else 0 :=
  exactly_once_all_schedules_F s hown progs hp σ op p hw

/-- a destructor panic never changes what is handed out -/
theorem panicking_destructor_same_handout (s : KSrc) (progs : Nat → List SOp) (hp : ∀ t, ∀ o ∈ progs t, NoCloneOp o)
    (σ : List Nat) :
    let c := runF s σ (init s progs)
    NoSkip (atomsOf c.hist 0) → NoWrap s.len (atomsOf c.hist 0) 0 →
      delOf c.del 0 = List.range (pos s.len (c.ctr 0)) :=
  cursor_all_schedules_F s progs hp σ 0

def vec6 : KSrc := { kind := .vec, vals := [10, 11, 12, 13, 14, 15], dpanic := some 1 }

/-- non-vacuity, on the concrete run of corpus-style case `chunk 5 nth:3` with the 2nd destruction panicking: `nth`
discards 10, the destructor of 11 panics, the unwinding chunk destroys 12, 13 (which `nth` would have handed out) and
14; the thread is dead; `Drop` destroys 15. -/
example :
    let c := runF vec6 [0, 0] (init vec6 fun t => if t = 0 then [⟨0, .chunk 5 (.nth 3)⟩, ⟨0, .next⟩] else [])
    c.mv = [] ∧ c.dr = [0, 1, 2, 3, 4] ∧ (c.th 0).pc = .dead ∧ (ownerF vec6 c .drop).1.dr = [0, 1, 2, 3, 4, 5] := by decide

def progsW : Nat → List SOp := fun t =>
  if t = 0 then [⟨0, .chunk 2 (.nth 1)⟩, ⟨0, .skip⟩] else if t = 1 then [⟨0, .foreach 2 (some 0)⟩] else []

/-- the hypotheses are satisfiable by a non-trivial history (nth-consumed chunk, a panicking closure, a skip, two
threads interleaved), and the conclusion is what it says on it -/
example : (∀ t, ∀ o ∈ progsW t, OwnProg o) ∧
    NoWrap vec3.len (atomsOf (run vec3 [0, 1, 0, 1, 1, 0, 0, 0] (init vec3 progsW)).hist 0) 0 ∧
    (run vec3 [0, 1, 0, 1, 1, 0, 0, 0] (init vec3 progsW)).mv = [1, 2] ∧
    (run vec3 [0, 1, 0, 1, 1, 0, 0, 0] (init vec3 progsW)).dr = [0] := by
  refine ⟨?_, by decide, by decide, by decide⟩
  intro t o ho
  unfold progsW at ho
  split at ho
  · simp at ho; rcases ho with rfl | rfl <;> exact ⟨rfl, fun _ => by simp, fun _ => by simp⟩
  · split at ho
    · simp at ho; subst ho; exact ⟨rfl, fun _ => by simp, fun _ => by simp⟩
    · simp at ho

/-- **Finding D12 (open)**: `AtomicIter::get(0)` twice from safe code moves element 0 out twice. -/
theorem C08_finding_get_twice :
    (run vec3 [0, 0] (init vec3 fun t => if t = 0 then [⟨0, .get 0⟩, ⟨0, .get 0⟩] else [])).mv = [0, 0] := by decide


/-! ## The owning wrapper (`ConIterOfIter` over an iterator of owned values): the full machine, every schedule -/

/-- **Moved out or destroyed exactly once — owning iterator, every history, every schedule.** `IWF.step` is the full thread
machine of the wrapper that the driver runs against the real crate: ticket protocol, `fetch_n` accumulators, the reused
`Vec<Option<T>>` of buffered iterators (with stale slots of partly consumed chunks), loop-owned buffers, chunk consumption
in any way (`nth` included), drops, panicking closures, a panicking wrapped iterator. For every wrapped iterator `s` (fused
or not, panicking or not), all programs of the threads `0..n-1`, every interleaving `σ` (ticket dispenser below `2^64`):
once all threads have finished, after the owner's `Drop` or `into_seq_iter` (consumed to any extent) the multiset of
elements produced by all calls of the wrapped `next()` equals the multiset of elements moved out to callers plus the
multiset of elements destroyed by the machinery. -/
theorem owning_iterator_exactly_once (s : IWF.ISrc) (hown : s.owning = true) (n : Nat) (progs : Nat → List SOp)
    (σ : List Nat) (hσ : ∀ t ∈ σ, t < n) (hb : IWF.Below s σ (IWF.init progs))
    (hfin : ∀ t, t < n → IWF.finished ((IWF.run s σ (IWF.init progs)).d t) = true) (op : OwnerOp) (p : Nat) :
    (IWF.prod s (IWF.owner s n (IWF.run s σ (IWF.init progs)) op).1.core.P).count p =
      (IWF.owner s n (IWF.run s σ (IWF.init progs)) op).1.mv.count p +
        (IWF.owner s n (IWF.run s σ (IWF.init progs)) op).1.dr.count p :=
  IWF.wrapper_exactly_once s hown n progs σ hσ hb hfin op p

/-- … and at every moment of every schedule: produced = moved out + destroyed + held by the threads -/
theorem owning_iterator_ledger_invariant (s : IWF.ISrc) (hown : s.owning = true) (n : Nat) (progs : Nat → List SOp)
    (σ : List Nat) (hσ : ∀ t ∈ σ, t < n) (hb : IWF.Below s σ (IWF.init progs)) (p : Nat) :
    (IWF.prod s (IWF.run s σ (IWF.init progs)).core.P).count p =
      (IWF.run s σ (IWF.init progs)).mv.count p + (IWF.run s σ (IWF.init progs)).dr.count p +
        ((List.range n).flatMap (IWF.held (IWF.run s σ (IWF.init progs)))).count p :=
  IWF.wrapper_ledger_invariant s hown n progs σ hσ hb p

def itS : IWF.ISrc := { script := [.some 7, .some 3, .some 9, .some 4, .none] }
def itProgs : Nat → List SOp := fun t =>
  if t = 0 then [⟨0, .bufnew 2⟩, ⟨0, .bufnext (.first 1)⟩, ⟨0, .bufnext (.first 0)⟩, ⟨0, .next⟩]
  else if t = 1 then [⟨0, .chunk 2 (.nth 0)⟩] else []
def itSched : List Nat := List.replicate 40 0 ++ List.replicate 30 1 ++ List.replicate 30 0

/-- the hypotheses are satisfiable by a non-trivial history: a buffered iterator whose first chunk (7, 3) is partly
consumed (3 stays in its slot), whose second pull overwrites slot 0 with 9 (… and the one-shot chunk of the other thread, the
stale 3 and the rest are destroyed): both threads finish, the counters stay small, and the ledger is what it says. -/
example : IWF.Below itS itSched (IWF.init itProgs) ∧
    (∀ t, t < 2 → IWF.finished ((IWF.run itS itSched (IWF.init itProgs)).d t) = true) ∧
    (IWF.owner itS 2 (IWF.run itS itSched (IWF.init itProgs)) .drop).1.mv.length +
      (IWF.owner itS 2 (IWF.run itS itSched (IWF.init itProgs)) .drop).1.dr.length = 4 := by
  refine ⟨by decide +kernel, ?_, by decide +kernel⟩
  intro t ht
  have : t = 0 ∨ t = 1 := by omega
  rcases this with rfl | rfl <;> decide +kernel


/-! ## The source itself: the owner-side code translated on every run (`Generated/Own.lean`, `GenThms/Own.lean`) -/
section Source
open Orx.RSO Orx.GenO Orx.GenThms.Own

/-- **a chunk of a consumed vector / array as in the source** (`Taken::next`, `Drop for Taken`, and through std's default
methods `nth` / `fold` / `count`: `source_chunk_iterator_overrides`): whatever number `j` of elements the caller pulls before
dropping the chunk, it receives the first `min j len` positions of the chunk in order and the drop destroys exactly the
others — every position once, nothing outside the chunk touched, no fault (no slot read or destroyed twice, no pointer out
of its allocation), also when a destructor panics (then the call unwinds after destroying the rest) -/
theorem source_chunk_partition (cap b len j f : Nat) (s : OSt) (ρ' : Type) (hc : b + len ≤ cap) (hw : cap < W)
    (hu : Untouched s b (b + len)) :
    (consumeTaken f j (taken cap b len 0) : PF ρ' _) s =
      if dpHit s.dpanic (len - min j len) then .unwind (afterConsume s b len 0 j)
      else .ok (.norm (KS.rangeList b (b + min j len))) (afterConsume s b len 0 j) := by
  have := consume_taken cap b len f ρ' hc hw j 0 s (Nat.zero_le _) (by simpa using hu)
  simpa [KS.rangeList, RSO.rangeList] using this

/-- what the caller got and what the drop destroyed are together the chunk, each position once -/
theorem source_chunk_partition_lists (b len j : Nat) :
    RSO.rangeList (b + 0) (b + min (0 + j) len) ++ RSO.rangeList (b + min (0 + j) len) (b + len) = RSO.rangeList b (b + len) := by
  simpa using GenThms.Own.rangeList_append b (b + min (0 + j) len) (b + len) (by omega) (by omega)

theorem source_chunk_iterator_overrides : Taken.iterator_overrides = ["next", "size_hint"] := taken_overrides_only_next

/-- **`Drop for ConIterOfVec` as in the source = the model's owner step**: both destroy exactly the positions
`[min(counter, len), len)`, in order; the source does so without a fault, for every length, capacity and counter value,
and also when a destructor panics -/
theorem source_vec_drop_is_model_drop (s : KSrc) (hk : s.kind = .vec) (c : Cfg) (cap f : Nat) (o : OSt) (ρ' : Type)
    (hctr : o.ctr = c.ctr 0) (hc : VecCell o s.len cap) (hu : Untouched o (min o.ctr s.len) s.len) :
    (KS.owner s c .drop).1.dr = c.dr ++ KS.rangeList (min (c.ctr 0) s.len) s.len ∧
    (afterVecDrop o s.len cap).dr = o.dr ++ KS.rangeList (min (c.ctr 0) s.len) s.len ∧
    ((Vec.drop f (vecS s.len) : PF ρ' _) o = .ok (.norm ((), vecS s.len)) (afterVecDrop o s.len cap) ∨
     (Vec.drop f (vecS s.len) : PF ρ' _) o = .unwind (afterVecDrop o s.len cap)) := by
  refine ⟨drop_drops_remainder s c (by simp [KSrc.owning, hk]), by simp [afterVecDrop, hctr, KS.rangeList, RSO.rangeList], ?_⟩
  rw [vec_drop s.len s.len cap f o ρ' hc hu]
  cases dpHit o.dpanic (s.len - min o.ctr s.len) <;> simp

/-- the same for the array -/
theorem source_array_drop_is_model_drop (s : KSrc) (hk : s.kind = .array) (c : Cfg) (f : Nat) (o : OSt) (ρ' : Type)
    (hctr : o.ctr = c.ctr 0) (hc : ArrCell o s.len) (hu : Untouched o (min o.ctr s.len) s.len) :
    (KS.owner s c .drop).1.dr = c.dr ++ KS.rangeList (min (c.ctr 0) s.len) s.len ∧
    (afterArrDrop o s.len).dr = o.dr ++ KS.rangeList (min (c.ctr 0) s.len) s.len ∧
    ((Arr.drop f s.len arrS : PF ρ' _) o = .ok (.norm ((), arrS)) (afterArrDrop o s.len) ∨
     (Arr.drop f s.len arrS : PF ρ' _) o = .unwind (afterArrDrop o s.len)) := by
  refine ⟨drop_drops_remainder s c (by simp [KSrc.owning, hk]), ?_, ?_⟩
  · unfold afterArrDrop
    by_cases h : o.ctr ≤ s.len
    · have : min (c.ctr 0) s.len = o.ctr := by omega
      simp [h, this, KS.rangeList, RSO.rangeList]
    · have : min (c.ctr 0) s.len = s.len := by omega
      simp [h, this, KS.rangeList]
  · rw [arr_drop s.len f o ρ' hc hu]
    by_cases h : o.ctr ≤ s.len ∧ dpHit o.dpanic (s.len - o.ctr) = true <;> simp [h]

/-- **`skip_to_end` on a consumed vector as in the source = the model's `skip` step**: one `swap(len)`, then exactly the
positions no pull has reserved are destroyed in place -/
theorem source_vec_skip_destroys_unreserved (len cap f : Nat) (o : OSt) (ρ' : Type) (hc : VecCell o len cap)
    (hu : Untouched o (min o.ctr len) len) :
    (afterSkip o len).dr = o.dr ++ KS.rangeList (min o.ctr len) len ∧ (afterSkip o len).ctr = len ∧
    ((Vec.early_exit f (vecS len) : PF ρ' _) o = .ok (.norm ()) (afterSkip o len) ∨
     (Vec.early_exit f (vecS len) : PF ρ' _) o = .unwind (afterSkip o len)) := by
  refine ⟨by simp [afterSkip, KS.rangeList, RSO.rangeList], rfl, ?_⟩
  rw [vec_early_exit len cap f o ρ' hc hu]
  cases dpHit o.dpanic (len - min o.ctr len) <;> simp

/-- **a single pull of a consumed vector as in the source**: the element at the counter value read is moved out of the
storage exactly when that value is below the length — once: a second `take_one` of the same slot would fault -/
theorem source_vec_single_pull_moves_once (len cap f : Nat) (o : OSt) (ρ' : Type) (hc : VecCell o len cap) (hlt : o.ctr < len)
    (hu : Untouched o o.ctr (o.ctr + 1)) :
    (Vec.fetch_one f (vecS len) : PF ρ' _) o =
      .ok (.norm (some ⟨o.ctr, o.ctr⟩)) { o with ctr := wrapAdd o.ctr 1, evs := o.evs ++ [.faa (.ctr 0) .acqrel o.ctr 1], vac := o.vac ++ [o.ctr], scratch := none } := by
  rw [vec_fetch_one len cap f o ρ' hc (fun _ => hu)]; simp [hlt]

/-- `AtomicIter::get(i)` twice on a consuming iterator (finding D12) at the source level: the second call reads a vacated
slot — the ownership discipline is violated (`Fault.precondition`) -/
theorem source_get_twice_faults (len cap i f : Nat) (o : OSt) (hc : VecCell o len cap) (hi : i < len) (hu : Untouched o i (i + 1)) :
    ((do let _ ← Vec.get f (vecS len) i; Vec.get f (vecS len) i : PF Unit _) o) = .fail .precondition := by
  have h2 : i ≤ cap := by have := hc.2; omega
  have h3 : i < cap := by have := hc.2; omega
  simp only [bind, PF.bind, vec_get_some len cap i f o _ hc hi hu]
  simp [Vec.get, Vec.take_one, vecS, m_fn, pure, bind, PF.bind, m_cmp, hi, m_as_mut_ptr, MAsMutPtr.m_as_mut_ptr, hc.1, m_add, h2,
    MaybeUninit_uninit, m_read, h3]

/-- non-vacuity: a vector of 3 elements in a block of 4, one pulled, nothing injected -/
example : VecCell { cell := some ⟨0, 3, 4, 0⟩, ctr := 1, vac := [0] } 3 4 ∧
    Untouched { cell := some ⟨0, 3, 4, 0⟩, ctr := 1, vac := [0] } (min 1 3) 3 := by
  refine ⟨⟨rfl, by omega⟩, ?_⟩
  intro p h1 h2
  simp; omega

/-- **the premise of the source-level theorems holds in every reachable state of the model**: after any programs under any
schedule (no counter wrap), every position that has been moved out or destroyed lies below the clamped counter — so no
position from `min(counter, len)` on has been touched. (`o` is any ownership state that mentions only positions the model's
ledger mentions.) -/
theorem reachable_state_untouched (s : KSrc) (hown : s.owning = true) (progs : Nat → List SOp)
    (hp : ∀ t, ∀ o ∈ progs t, OwnProg o) (σ : List Nat)
    (hw : NoWrap s.len (atomsOf (run s σ (init s progs)).hist 0) 0) (o : OSt)
    (hctr : o.ctr = (run s σ (init s progs)).ctr 0)
    (hsub : ∀ p, p ∈ o.vac ∨ p ∈ o.dr → p ∈ (run s σ (init s progs)).mv ++ (run s σ (init s progs)).dr) :
    Untouched o (min o.ctr s.len) s.len := by
  intro p h1 h2
  have hi := init_ok s progs (fun t o ho => (hp t o ho).2.2)
  have hl := init_led s progs hp
  have hr := run_led s hown σ hi.1 hi.2 hl.1 hl.2
  have hpart := consumed_partition s.len (atomsOf (run s σ (init s progs)).hist 0) 0 hw
  have hc0 := hr.2.ctr 0
  -- `p` is in the untouched tail, hence not in what the history consumed
  have hnot : p ∉ (run s σ (init s progs)).mv ++ (run s σ (init s progs)).dr := by
    intro hm
    have hcnt : 0 < ((run s σ (init s progs)).mv ++ (run s σ (init s progs)).dr).count p := List.count_pos_iff.mpr hm
    have hled := hr.1 p
    unfold led at hled
    rw [List.count_append] at hcnt
    have hcons : 0 < (consumed s.len (atomsOf (run s σ (init s progs)).hist 0) 0).count p := by omega
    have htail : p ∈ KS.rangeList (pos s.len (runAtoms s.len (atomsOf (run s σ (init s progs)).hist 0) 0)) s.len := by
      rw [← hc0, ← hctr]
      simp only [KS.rangeList, pos, List.mem_map, List.mem_range]
      exact ⟨p - min o.ctr s.len, by omega, by omega⟩
    have hboth : 1 < (consumed s.len (atomsOf (run s σ (init s progs)).hist 0) 0 ++
        KS.rangeList (pos s.len (runAtoms s.len (atomsOf (run s σ (init s progs)).hist 0) 0)) s.len).count p := by
      rw [List.count_append]
      have := List.count_pos_iff.mpr htail
      omega
    rw [hpart] at hboth
    simp [pos, rangeList_zero, List.count_range] at hboth
    split at hboth <;> omega
  exact ⟨fun h => hnot (hsub p (Or.inl h)), fun h => hnot (hsub p (Or.inr h))⟩

/-- **end to end: the translated `Drop for ConIterOfVec`, run in the state any programs under any schedule leave behind,
never faults and destroys exactly what the model's owner step destroys** (and its `into_seq_iter` hands over exactly the
model's remainder) — the cursor theorem of the model discharges the premise of the ownership theorems -/
theorem source_drop_after_any_run (s : KSrc) (hk : s.kind = .vec) (progs : Nat → List SOp)
    (hp : ∀ t, ∀ o ∈ progs t, OwnProg o) (σ : List Nat)
    (hw : NoWrap s.len (atomsOf (run s σ (init s progs)).hist 0) 0) (cap f : Nat) (o : OSt) (ρ' : Type)
    (hctr : o.ctr = (run s σ (init s progs)).ctr 0) (hcell : VecCell o s.len cap)
    (hsub : ∀ p, p ∈ o.vac ∨ p ∈ o.dr → p ∈ (run s σ (init s progs)).mv ++ (run s σ (init s progs)).dr) :
    ((Vec.drop f (vecS s.len) : PF ρ' _) o = .ok (.norm ((), vecS s.len)) (afterVecDrop o s.len cap) ∨
     (Vec.drop f (vecS s.len) : PF ρ' _) o = .unwind (afterVecDrop o s.len cap)) ∧
    (afterVecDrop o s.len cap).dr = o.dr ++ KS.rangeList (min ((run s σ (init s progs)).ctr 0) s.len) s.len ∧
    (KS.owner s (run s σ (init s progs)) .drop).1.dr =
      (run s σ (init s progs)).dr ++ KS.rangeList (min ((run s σ (init s progs)).ctr 0) s.len) s.len ∧
    (Vec.into_seq_iter f (vecS s.len) : PF ρ' _) o =
      .ok (.norm ⟨min o.ctr s.len, s.len - min o.ctr s.len, s.len - min o.ctr s.len, 1⟩) (afterVecIntoSeq o s.len cap) := by
  have hown : s.owning = true := by simp [KSrc.owning, hk]
  have hu := reachable_state_untouched s hown progs hp σ hw o hctr hsub
  have h := source_vec_drop_is_model_drop s hk (run s σ (init s progs)) cap f o ρ' hctr hcell hu
  exact ⟨h.2.2, h.2.1, h.1, vec_into_seq_iter s.len cap f o ρ' hcell hu⟩

end Source

section Surface
open Orx.GenThms.Surface

/-- the crate's destructors are exactly those the ownership theorems cover (`Drop` of the vector / array iterator, of `Taken`, of the
unwind guard) -/
theorem source_destructors_are_the_modelled_ones :
    sameSet (implsOf "Drop") ["ConIterOfArray", "ConIterOfVec", "Taken", "CompleteOnUnwind"] = true :=
  Orx.GenThms.Surface.the_destructors

/-- no consuming iterator, chunk or buffered iterator is `Clone`: an element cannot come to be owned twice by cloning its holder -/
theorem source_no_consuming_iterator_is_clone :
    sameSet (implsOf "Clone") ["AtomicCounter", "ConIterOfSlice"] = true ∧
    fnsOf "Clone" "AtomicCounter" = [["clone"]] ∧ fnsOf "Clone" "ConIterOfSlice" = [["clone"]] ∧
    sameSet (derivers "Clone") ["HasMore", "ConIterOfRange"] = true ∧
    sameSet (derivers "Copy") ["HasMore"] = true :=
  Orx.GenThms.Surface.the_clonables

end Surface

section SurfaceState
open Orx.GenThms.Surface Orx.Gen

/-- the consuming iterators hold their storage and one counter — no cached element pointer, no ownership bitmap: which elements are
still owned is a function of the counter alone, as in the ownership theorems -/
theorem source_state_is_the_models :
    fieldsOf "AtomicCounter" = [["current: AtomicUsize"]] ∧
    fieldsOf "ConIterOfSlice" = [["slice: &'a[T]", "counter: AtomicCounter"]] ∧
    fieldsOf "ConIterOfRange" = [["range: Range<Idx>", "counter: AtomicCounter"]] ∧
    fieldsOf "ConIterOfVec" = [["vec: UnsafeCell<ManuallyDrop<Vec<T>>>", "vec_len: usize", "counter: AtomicCounter"]] ∧
    fieldsOf "ConIterOfArray" = [["array: UnsafeCell<ManuallyDrop<[T;N]>>", "counter: AtomicCounter"]] ∧
    fieldsOf "ConIterOfIter" = [["iter: UnsafeCell<Iter>", "initial_len: Option<usize>", "reserved_counter: AtomicCounter",
      "yielded_counter: AtomicCounter", "completed: AtomicBool"]] ∧
    fieldsOf "CompleteOnUnwind" = [["completed: &'aAtomicBool", "armed: bool"]] ∧
    fieldsOf "Taken" = [["ptr: *mutT", "len: usize", "idx: usize"]] ∧
    fieldsOf "BufferedIter" = [["buffered_iter: B", "atomic_iter: &'aB::ConIter", "phantom: PhantomData<T>"],
      ["values: &'amut[Option<T>]", "initial_len: usize", "current_idx: usize"]] ∧
    fieldsOf "BufferIter" = [["values: Vec<Option<T>>", "phantom: PhantomData<Iter>"]] ∧
    fieldsOf "BufferedSlice" = [["chunk_size: usize", "phantom: PhantomData<T>"]] ∧
    fieldsOf "BufferedVec" = [["chunk_size: usize", "phantom: PhantomData<T>"]] ∧
    fieldsOf "BufferedArray" = [["chunk_size: usize", "phantom: PhantomData<T>"]] ∧
    fieldsOf "BufferedRange" = [["chunk_size: usize"]] ∧
    fieldsOf "ClonedBufferedChunk" = [["chunk: C", "phantom: PhantomData<&'aT>"]] ∧
    fieldsOf "CopiedBufferedChunk" = [["chunk: C", "phantom: PhantomData<&'aT>"]] ∧
    fieldsOf "Cloned" = [["iter: A", "phantom: PhantomData<&'aT>"]] ∧ fieldsOf "Copied" = [["iter: A", "phantom: PhantomData<&'aT>"]] ∧
    fieldsOf "ConIterValues" = [["con_iter: &'aC"]] ∧ fieldsOf "ConIterIdsAndValues" = [["con_iter: &'aC"]] :=
  Orx.GenThms.Surface.the_state

end SurfaceState

end Orx.Props.C08
