import Orx.KSRun
import Orx.IW.Completed
import Orx.IW.Full
import Orx.GenThms.Slice
import Orx.GenThms.Vec
import Orx.GenThms.Arr
import Orx.GenThms.Range
import Orx.GenThms.Iter
import Orx.GenThms.Ctor
import Orx.GenThms.Defaults
import Orx.GenThms.Loops
import Orx.GenThms.Surface
/-! # C11 try_get_len / has_more are truthful; 'No' is definitive -/
namespace Orx.Props.C11
open Orx Orx.KS

/-- known size: the reported length is exactly what later pulls can still deliver: any continuation delivers at
most that many positions, and exactly that many once it has drained the iterator -/
theorem known_size_len_truthful (len : Nat) (as : List Atom) (c : Nat) (hns : NoSkip as) (hw : NoWrap len as c) :
    (delivered len as c).length ≤ lenOf len c ∧
    (len ≤ runAtoms len as c → (delivered len as c).length = lenOf len c) :=
  len_truthful len as c hns hw

/-- reported lengths never increase, along any history (also with skips) -/
theorem known_size_len_never_increases (len : Nat) (as : List Atom) (c : Nat) (hw : NoWrap len as c) :
    lenOf len (runAtoms len as c) ≤ lenOf len c := by
  induction as generalizing c with
  | nil => simp [runAtoms]
  | cons a as ih =>
    obtain ⟨h1, h2⟩ := hw
    simp only [runAtoms]
    have hstep : lenOf len (a.next len c) ≤ lenOf len c := by
      cases a with
      | skip => simp [Atom.next, lenOf]
      | _ => exact lenOf_mono len c _ h1
    exact Nat.le_trans (ih _ h2) hstep

/-- zero / `No` is definitive: nothing is delivered by any continuation -/
theorem known_size_zero_is_definitive (len : Nat) (as : List Atom) (c : Nat) (h0 : lenOf len c = 0) (hw : NoWrap len as c) :
    delivered len as c = [] := by
  have : len ≤ c := by unfold lenOf at h0; split at h0 <;> omega
  exact (end_permanent len as c this hw).1

/-- `has_more` trichotomy on known-size kinds: `Yes n` with the truthful `n ≥ 1`, or `No`; never `Maybe` -/
theorem known_size_has_more (n : Nat) : hasMoreOf n = (if n = 0 then .no else .yes n) := rfl

/-- wrapper: `completed` ⇒ `Some(0)` / `No`, and that answer is definitive (`Completed.quiet_run`) -/
theorem iter_completed_reports_zero (init : Option Nat) (r : Nat) : IWF.lenOut init true r = some 0 := rfl

/-- wrapper with an exact size hint: the report is `initial_len - reserved`, clamped at 0; unknown size: `None`/`Maybe` -/
theorem iter_exact_hint (l r : Nat) : IWF.lenOut (some l) false r = some (l - r) := by
  simp [IWF.lenOut]; omega

theorem iter_unknown_size (r : Nat) : IWF.moreOf (IWF.lenOut none false r) = .maybe := rfl

/-- the reserved counter never decreases, so the exact-hint report never increases -/
theorem iter_report_monotone (s : IW.Script) (σ : List Nat) (c : IW.Cfg) (l : Nat) :
    l - (IW.run s σ c).R ≤ l - c.R := by
  have := IW.run_R_mono s σ c; omega


/-! ## The source itself (translated on every run) -/
open Orx.RS Orx.Gen Orx.GenThms Orx.KS in
/-- **`try_get_len` as it is in the source** is one `Acquire` load `c` of the counter and returns `lenOf len c`, the
function `len_truthful` / `lenOf_mono` are about; the subtraction `initial_len - current` cannot underflow -/
theorem source_try_get_len (len a b c : Nat) (evs dr) :
    Slice.try_get_len (slice len) (st c evs dr) = .ok (some (lenOf len c)) (st c (evs ++ [.ld (.ctr 0) .acquire c]) dr) ∧
    Vec.try_get_len (vec len) (st c evs dr) = .ok (some (lenOf len c)) (st c (evs ++ [.ld (.ctr 0) .acquire c]) dr) ∧
    Arr.try_get_len len (arr len) (st c evs dr) = .ok (some (lenOf len c)) (st c (evs ++ [.ld (.ctr 0) .acquire c]) dr) ∧
    Range.try_get_len (range a b) (st c evs dr) = .ok (some (lenOf (b - a) c)) (st c (evs ++ [.ld (.ctr 0) .acquire c]) dr) :=
  ⟨slice_try_get_len len c evs dr, vec_try_get_len len c evs dr, arr_try_get_len len c evs dr, range_try_get_len a b c evs dr⟩


open Orx.RS Orx.Gen Orx.GenThms in
/-- **`try_get_len` of the wrapper as in the source** is the model's query: `completed` first (`SeqCst`), then — only
for a source that claimed an exact length — the reserved counter (`Acquire`); the answer is `IWF.lenOut`, the function
`iter_completed_reports_zero` / `iter_exact_hint` / `iter_report_monotone` are about -/
theorem source_iter_try_get_len (init : Option Nat) (R Y : Nat) (C : Bool) (evs : List Ev) :
    Iter.try_get_len (iter init) (ist R Y C evs) =
      .ok (IWF.lenOut init C R)
        (ist R Y C (evs ++ [.ld .C .seqcst (if C then 1 else 0)] ++ (if C = false ∧ init.isSome then [.ld .R .acquire R] else []))) :=
  iter_try_get_len init R Y C evs


open Orx.RS Orx.Gen Orx.GenThms in
/-- **which wrapped iterators have a known size, as in the source** (`ConIterOfIter::new`): exactly those whose `size_hint()`
is exact (`lower == upper`) — then `try_get_len` reports `Some`/`has_more` `Yes|No` (`source_try_get_len`), for every value of
the bound including the largest word; every other hint (no upper bound, or `lower < upper`) gives the unknown-size wrapper
whose answers are `None` / `Maybe` until the end has been seen -/
theorem source_iter_new_records_exact_hints (lo : Nat) (hi : Option Nat) (s : St) :
    NewIter.new ⟨(lo, hi)⟩ s = .ok ⟨⟨(lo, hi)⟩, (if hi = some lo then some lo else none), ⟨0⟩, ⟨0⟩, false⟩ s := by
  rw [iter_new]
  cases hi with
  | none => simp [claimedLen]
  | some u =>
    by_cases e : lo = u
    · subst e; simp [claimedLen]
    · have : ¬ u = lo := fun h => e h.symm
      simp [claimedLen, e, this]


open Orx.RS Orx.Gen Orx.GenThms in
/-- **`has_more` as in the source** (the trait's default method over each kind's `try_get_len`): for a known-size kind one
`Acquire` load `c` and `Yes(len - c)` while `c < len`, `No` from then on, never `Maybe`; for the wrapper `No` once `completed`
is set, otherwise `Yes | No` from the claimed exact length and the reserved counter, `Maybe` only when no exact length was
claimed -/
theorem source_has_more (len a b c : Nat) (evs dr) (init : Option Nat) (R Y : Nat) (C : Bool) (ievs : List Ev) :
    Slice.has_more (slice len) (st c evs dr) = .ok (KS.hasMoreOf (KS.lenOf len c)) (st c (evs ++ [.ld (.ctr 0) .acquire c]) dr) ∧
    Vec.has_more (vec len) (st c evs dr) = .ok (KS.hasMoreOf (KS.lenOf len c)) (st c (evs ++ [.ld (.ctr 0) .acquire c]) dr) ∧
    Arr.has_more len (arr len) (st c evs dr) = .ok (KS.hasMoreOf (KS.lenOf len c)) (st c (evs ++ [.ld (.ctr 0) .acquire c]) dr) ∧
    Range.has_more (range a b) (st c evs dr) = .ok (KS.hasMoreOf (KS.lenOf (b - a) c)) (st c (evs ++ [.ld (.ctr 0) .acquire c]) dr) ∧
    Iter.has_more (iter init) (ist R Y C ievs) =
      .ok (IWF.moreOf (IWF.lenOut init C R))
        (ist R Y C (ievs ++ [.ld .C .seqcst (if C then 1 else 0)] ++ (if C = false ∧ init.isSome then [.ld .R .acquire R] else []))) :=
  ⟨slice_has_more len c evs dr, vec_has_more len c evs dr, arr_has_more len c evs dr, range_has_more a b c evs dr,
   iter_has_more init R Y C ievs⟩

/-- the sequential views `values()` / `ids_and_values()` define `next` only: in particular no `size_hint`, so wrapping one of
them into a concurrent iterator again (`inner.values().into_con_iter()`) gives an unknown-size source (`Maybe`), never a
length that other consumers of `inner` could falsify -/
theorem source_views_define_next_only :
    GenL.Values.iterator_overrides = ["next"] ∧ GenL.IdsAndValues.iterator_overrides = ["next"] :=
  GenThms.Loops.wrappers_override_only_next

section Surface
open Orx.GenThms.Surface

/-- `has_more` is the trait's default body over `try_get_len` for every kind (no implementor overrides it) -/
theorem source_has_more_is_the_trait_default :
    (implementors.all fun x => (fnsOf "ConcurrentIter" x).length == 1 &&
      (fnsOf "ConcurrentIter" x).all (sameSet requiredConcurrentIter)) = true ∧
    sameSet (implsOf "ConcurrentIter") implementors = true ∧
    fnsOf "trait" "ConcurrentIter" = [["into_seq_iter", "next_id_and_value", "next_chunk", "buffered_iter", "next", "values",
      "ids_and_values", "skip_to_end", "for_each", "enumerate_for_each", "fold", "try_get_len", "has_more"]] :=
  Orx.GenThms.Surface.concurrent_iter_defaults_are_not_overridden

end Surface

section SurfaceConv
open Orx.GenThms.Surface Orx.Gen

/-- the `From` conversion of the wrapper is `new`: the size hint is classified once, there -/
theorem source_conversions_are_the_constructors :
    fnsOf "frombody" "ConIterOfSlice" = [["Self::new(slice)"]] ∧ fnsOf "frombody" "ConIterOfVec" = [["Self::new(vec)"]] ∧
    fnsOf "frombody" "ConIterOfArray" = [["Self::new(array)"]] ∧ fnsOf "frombody" "ConIterOfRange" = [["Self::new(range)"]] ∧
    fnsOf "frombody" "ConIterOfIter" = [["Self::new(iter)"]] ∧
    fnsOf "frombody" "ConIterValues" = [["Self{con_iter}"]] ∧ fnsOf "frombody" "ConIterIdsAndValues" = [["Self{con_iter}"]] ∧
    sameSet (implsOf "From") ["ConIterOfSlice", "ConIterOfVec", "ConIterOfArray", "ConIterOfRange", "ConIterOfIter", "ConIterValues",
      "ConIterIdsAndValues"] = true :=
  Orx.GenThms.Surface.the_conversions

end SurfaceConv

end Orx.Props.C11
