import Orx.KSRun
import Orx.GenThms.Ctor
import Orx.GenThms.Surface
/-! # C19 Non-consuming iteration leaves the source intact; iterators are independent -/
namespace Orx.Props.C19
open Orx Orx.KS

/-- **Frame**: an atomic access on the iterator in slot `k` leaves the counter of every other slot unchanged -/
theorem other_iterators_untouched (len : Nat) (c : Cfg) (t k j : Nat) (a : Atom) (hj : j ≠ k) :
    (applyAtom len c t k a).ctr j = c.ctr j := by
  simp [applyAtom, hj]

/-- … and what an access on slot `k` hands out depends only on slot `k`'s own counter -/
theorem own_output_depends_on_own_counter (len : Nat) (c c' : Cfg) (t k : Nat) (a : Atom) (h : c.ctr k = c'.ctr k) :
    a.range len (c.ctr k) = a.range len (c'.ctr k) ∧ (applyAtom len c t k a).ctr k = (applyAtom len c' t k a).ctr k := by
  simp [applyAtom, h]

/-- the hand-out log of every slot is its own cursor run: several iterators (and clones, see below) over one
collection progress independently (per-slot statement of the cursor theorem, any schedule) -/
theorem every_slot_is_its_own_cursor (s : KSrc) (progs : Nat → List SOp) (hp : ∀ t, ∀ o ∈ progs t, NoCloneOp o)
    (σ : List Nat) (k : Nat) :
    let c := run s σ (init s progs)
    NoSkip (atomsOf c.hist k) → NoWrap s.len (atomsOf c.hist k) 0 →
      delOf c.del k = List.range (pos s.len (c.ctr k)) :=
  cursor_all_schedules s progs hp σ k

/-- `clone` starts at the original's current position: the clone's counter is the value loaded from the original -/
theorem clone_starts_at_current (s : KSrc) (t : Nat) (c : Cfg) (k j : Nat) (rest : List SOp) (buf : Option (Nat × Nat))
    (h : c.th t = { pc := .atom ⟨k, .clone j⟩, todo := rest, buf := buf }) :
    (step s t c).1.ctr j = c.ctr k := by
  unfold step stepAtom
  simp only [h]
  unfold stepRest
  simp [h, setTh, setCtr, applyAtom]

/-- non-consuming kinds own nothing: no step ever records a move-out or a drop of a source element -/
theorem non_consuming_source_untouched (s : KSrc) (hno : s.owning = false) (l : List Nat) : dropEvs s l = [] := by
  simp [dropEvs, hno]

/-- delivered references are the original elements: the payload at position `i` of a slice kind is `vals[i]` -/
theorem reference_is_original (vals : List Nat) (i : Nat) (hi : i < vals.length) :
    ({ kind := .slice, vals := vals } : KSrc).valAt i = vals[i] := by
  simp [KSrc.valAt, List.getD, hi]


/-! ## Construction and cloning as in the source (`Generated/ArithCtor.lean`, translated on every run) -/
section Source
open Orx.RS Orx.Gen Orx.GenThms

/-- **`con_iter()` leaves the collection intact and delivers its elements in place**: the iterator returned for a vector,
an array or a slice is `ConIterOfSlice` over the collection's own storage (a slice of the same length: nothing is read, moved
or cloned at construction), starting at position 0, without touching any shared state; a range iterator holds a copy of the
bounds -/
theorem source_con_iter_in_place (len a b : Nat) (s : St) :
    CtorVec.con_iter ⟨len⟩ s = .ok ⟨⟨len⟩, ⟨0⟩⟩ s ∧ CtorArr.con_iter ⟨len⟩ s = .ok ⟨⟨len⟩, ⟨0⟩⟩ s ∧
    CtorSlice.con_iter ⟨len⟩ s = .ok ⟨⟨len⟩, ⟨0⟩⟩ s ∧ CtorSlice.into_con_iter ⟨len⟩ s = .ok ⟨⟨len⟩, ⟨0⟩⟩ s ∧
    CtorRange.con_iter ⟨a, b⟩ s = .ok ⟨⟨a, b⟩, ⟨0⟩⟩ s ∧ CtorRange.into_con_iter ⟨a, b⟩ s = .ok ⟨⟨a, b⟩, ⟨0⟩⟩ s :=
  con_iter_in_place len a b s

/-- **a clone starts at the original's current position and is independent of it — as in the source = the model's `clone`
step**: `Clone for ConIterOfSlice` (and the derived `Clone` of `ConIterOfRange`, field by field) performs exactly one `SeqCst`
load `c` of the original's counter, writes nothing to it, and returns an iterator over the same slice / range whose own,
fresh counter starts at `c`; the model's step logs the same access and initialises the clone's slot with the value read -/
theorem source_clone_is_model_clone (len a b cv : Nat) (evs dr) (s : KSrc) (t : Nat) (c : Cfg) (k j : Nat) (rest : List SOp)
    (buf : Option (Nat × Nat)) (h : c.th t = { pc := .atom ⟨k, .clone j⟩, todo := rest, buf := buf }) :
    NewSlice.clone ⟨⟨len⟩, {}⟩ (st cv evs dr) = .ok ⟨⟨len⟩, ⟨cv⟩⟩ (st cv (evs ++ [.ld (.ctr 0) .seqcst cv]) dr) ∧
    Range.clone_derived ⟨⟨a, b⟩, {}⟩ (st cv evs dr) = .ok ⟨⟨a, b⟩, ⟨cv⟩⟩ (st cv (evs ++ [.ld (.ctr 0) .seqcst cv]) dr) ∧
    ("Clone" ∈ Range.derives ∧ Range.manual_clone = false) ∧
    (step s t c).1.ctr j = c.ctr k ∧ (step s t c).2 = [.ld (.ctr k) .seqcst (c.ctr k), .ret .unit] := by
  refine ⟨slice_clone len cv evs dr, range_clone a b cv evs dr, range_clone_is_derived, clone_starts_at_current s t c k j rest buf h, ?_⟩
  unfold step stepAtom
  simp only [h]
  unfold stepRest
  simp [h, applyAtom]

/-- **`clone_from` / `clone_into` are `clone`**: the `Clone` impls of the slice iterator and of the counter define `clone` only, and
the range iterator's is derived — so `a.clone_from(&b)` is std's default `*a = b.clone()`, whatever `a` was before -/
theorem source_clone_from_is_clone :
    NewSlice.clone_methods = ["clone"] ∧ NewCounter.clone_methods = ["clone"] ∧ ("Clone" ∈ Range.derives ∧ Range.manual_clone = false) :=
  ⟨clone_impls_define_clone_only.1, clone_impls_define_clone_only.2, range_clone_is_derived⟩

end Source

section Surface
open Orx.GenThms.Surface

/-- what can be cloned: counter and slice iterator by hand (`clone` only, so `clone_from` is `clone`), range iterator and `HasMore` derived;
nothing else -/
theorem source_clonables_are_the_modelled_ones :
    sameSet (implsOf "Clone") ["AtomicCounter", "ConIterOfSlice"] = true ∧
    fnsOf "Clone" "AtomicCounter" = [["clone"]] ∧ fnsOf "Clone" "ConIterOfSlice" = [["clone"]] ∧
    sameSet (derivers "Clone") ["HasMore", "ConIterOfRange"] = true ∧
    sameSet (derivers "Copy") ["HasMore"] = true :=
  Orx.GenThms.Surface.the_clonables

end Surface

section SurfaceState
open Orx.GenThms.Surface Orx.Gen

/-- every iterator type holds its *own* `AtomicCounter` by value beside (a reference to / the value of) its source: two iterators, or an
iterator and its clone, share no mutable state -/
theorem source_state_is_the_models :
    fieldsOf "AtomicCounter" = [["current: AtomicUsize"]] ∧
    fieldsOf "ConIterOfSlice" = [["slice: &'a[T]", "counter: AtomicCounter"]] ∧
    fieldsOf "ConIterOfRange" = [["range: Range<Idx>", "counter: AtomicCounter"]] ∧
    fieldsOf "ConIterOfVec" = [["vec: UnsafeCell<ManuallyDrop<Vec<T>>>", "vec_len: usize", "counter: AtomicCounter"]] ∧
    fieldsOf "ConIterOfArray" = [["array: UnsafeCell<ManuallyDrop<[T;N]>>", "counter: AtomicCounter"]] ∧
    fieldsOf "ConIterOfIter" = [["iter: UnsafeCell<Iter>", "initial_len: Option<usize>", "reserved_counter: AtomicCounter",
      "yielded_counter: AtomicCounter", "completed: AtomicBool"]] ∧
    fieldsOf "CompleteOnUnwind" = [["completed: &'aAtomicBool", "armed: bool"]] ∧
    fieldsOf "Taken" = [["ptr: *mutT", "len: usize", "idx: usize"]] ∧
    fieldsOf "BufferedIter" = [["buffered_iter: B", "atomic_iter: &'aB::ConIter", "phantom: PhantomData<T>"],
      ["values: &'amut[Option<T>]", "initial_len: usize", "current_idx: usize"]] ∧
    fieldsOf "BufferIter" = [["values: Vec<Option<T>>", "phantom: PhantomData<Iter>"]] ∧
    fieldsOf "BufferedSlice" = [["chunk_size: usize", "phantom: PhantomData<T>"]] ∧
    fieldsOf "BufferedVec" = [["chunk_size: usize", "phantom: PhantomData<T>"]] ∧
    fieldsOf "BufferedArray" = [["chunk_size: usize", "phantom: PhantomData<T>"]] ∧
    fieldsOf "BufferedRange" = [["chunk_size: usize"]] ∧
    fieldsOf "ClonedBufferedChunk" = [["chunk: C", "phantom: PhantomData<&'aT>"]] ∧
    fieldsOf "CopiedBufferedChunk" = [["chunk: C", "phantom: PhantomData<&'aT>"]] ∧
    fieldsOf "Cloned" = [["iter: A", "phantom: PhantomData<&'aT>"]] ∧ fieldsOf "Copied" = [["iter: A", "phantom: PhantomData<&'aT>"]] ∧
    fieldsOf "ConIterValues" = [["con_iter: &'aC"]] ∧ fieldsOf "ConIterIdsAndValues" = [["con_iter: &'aC"]] :=
  Orx.GenThms.Surface.the_state

end SurfaceState

section SurfaceConv
open Orx.GenThms.Surface Orx.Gen

/-- the `From` conversions are `new`: an iterator built through them starts at position 0 over the very source it was given -/
theorem source_conversions_are_the_constructors :
    fnsOf "frombody" "ConIterOfSlice" = [["Self::new(slice)"]] ∧ fnsOf "frombody" "ConIterOfVec" = [["Self::new(vec)"]] ∧
    fnsOf "frombody" "ConIterOfArray" = [["Self::new(array)"]] ∧ fnsOf "frombody" "ConIterOfRange" = [["Self::new(range)"]] ∧
    fnsOf "frombody" "ConIterOfIter" = [["Self::new(iter)"]] ∧
    fnsOf "frombody" "ConIterValues" = [["Self{con_iter}"]] ∧ fnsOf "frombody" "ConIterIdsAndValues" = [["Self{con_iter}"]] ∧
    sameSet (implsOf "From") ["ConIterOfSlice", "ConIterOfVec", "ConIterOfArray", "ConIterOfRange", "ConIterOfIter", "ConIterValues",
      "ConIterIdsAndValues"] = true :=
  Orx.GenThms.Surface.the_conversions

end SurfaceConv

end Orx.Props.C19
