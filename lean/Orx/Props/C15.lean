import Orx.Basic
import Orx.KSFault
import Orx.IW.FullLedgerRun
import Orx.GenThms.Own
import Orx.GenThms.Surface
/-! # C15 No leaks: consumed collections and internal buffers are released

Allocation ledger of the consuming kinds, written from the (fixed) source: which heap blocks a life-cycle
allocates and frees. The model's prediction `live = 0` is compared with the counting allocator of the harness
on every case of the C15 stream; the theorems say the ledger is balanced for **every** length and progress point. -/
namespace Orx.Props.C15

/-- allocation events: the type the translated source logs into (`RS/Own.lean`) -/
abbrev AEv := Orx.RSO.AEv

/-- roles: 0 the vector's buffer, 1 the split-off remainder, 2 a `fetch_n` Vec, 3 a `BufferIter` Vec -/
def net (role : Nat) : List AEv → Int
  | [] => 0
  | .alloc r :: l => (if role = r then 1 else 0) + net role l
  | .free r :: l => (if role = r then -1 else 0) + net role l

theorem net_append (role : Nat) (a b : List AEv) : net role (a ++ b) = net role a + net role b := by
  induction a with
  | nil => simp [net]
  | cons x xs ih => cases x <;> simp [net, ih] <;> omega

/-- `Vec::split_off(at)` allocates the right part only if it is non-empty -/
def splitAlloc (len at_ : Nat) : List AEv := if at_ < len then [.alloc 1] else []
def splitFree (len at_ : Nat) : List AEv := if at_ < len then [.free 1] else []

/-- `impl Drop for ConIterOfVec` (vec.rs, after fix 6a65933): the vector is taken back, the elements `[min cur len, len)`
are destroyed in place (no allocation), and the buffer is freed when the local vector goes out of scope — on the
normal path and on the unwinding path of a panicking element destructor alike (`unwinding` does not matter) -/
def vecDrop (_len _cur : Nat) (_unwinding : Bool := false) : List AEv := [.free 0]

/-- `into_seq_iter` of `ConIterOfVec`: split, then `Drop` of `self` (its vector now has length `min cur len`),
later the caller drops the returned `IntoIter` -/
def vecIntoSeq (len cur : Nat) : List AEv :=
  splitAlloc len (min cur len) ++ vecDrop (min cur len) cur ++ splitFree len (min cur len)

/-- **vec, every length, every progress point (also overshot counters)**: the buffer and the split-off part are released -/
theorem vec_drop_balanced (len cur role : Nat) (unwinding : Bool) :
    net role ([.alloc 0] ++ vecDrop len cur unwinding) = 0 := by
  unfold vecDrop
  by_cases h3 : role = 0 <;> simp [net, h3]

/-- the defect repaired by 6a65933, as a ledger: the old `Drop` released the buffer *after* destroying the split-off
remainder, so the unwinding path of a panicking element destructor skipped the release -/
def vecDropOld (len cur : Nat) (unwinding : Bool) : List AEv :=
  (if cur ≤ len then splitAlloc len cur ++ splitFree len cur else []) ++ (if unwinding then [] else [.free 0])

theorem C15_fixed_witness_drop_panic_leaked_buffer : net 0 ([.alloc 0] ++ vecDropOld 6 1 true) = 1 := by decide

theorem vec_into_seq_balanced (len cur role : Nat) : net role ([.alloc 0] ++ vecIntoSeq len cur) = 0 := by
  unfold vecIntoSeq vecDrop splitAlloc splitFree
  by_cases h2 : min cur len < len <;> by_cases h3 : role = 0 <;> by_cases h4 : role = 1 <;>
    simp [net, net_append, h2, h3, h4] <;> omega

/-- array: `split_off_right` collects the remainder into a Vec, which `Drop` drops at once / the caller drops later -/
def arrayEnd (len cur : Nat) : List AEv := if cur ≤ len then splitAlloc len cur ++ splitFree len cur else []

theorem array_balanced (len cur role : Nat) : net role (arrayEnd len cur) = 0 := by
  unfold arrayEnd splitAlloc splitFree
  by_cases h1 : cur ≤ len <;> by_cases h2 : cur < len <;> by_cases h4 : role = 1 <;> simp [net, h1, h2, h4]

/-- wrapper: a `fetch_n` that got `k` elements collects them into a Vec (allocated iff `k > 0`) that the
returned chunk iterator frees when dropped; a `BufferIter` of size `n ≥ 1` is one Vec, freed with the iterator -/
def fetchN (k : Nat) : List AEv := if 0 < k then [.alloc 2, .free 2] else []
def bufferLife (pulls : Nat) : List AEv := [.alloc 3] ++ List.replicate pulls (.alloc 3) ++ List.replicate pulls (.free 3) ++ [.free 3]

theorem fetchN_balanced (k role : Nat) : net role (fetchN k) = 0 := by
  unfold fetchN; split <;> by_cases h : role = 2 <;> simp [net, h]

/-- **No element is leaked (vec, array), also when a destructor panics.** For every consuming known-size source, all
programs, every schedule, either ending, and any destruction chosen to panic: every element below `len` ends up
moved out to a caller or destroyed by the machinery — none is forgotten (and with it whatever it owns). -/
theorem no_element_leaked (s : KSrc) (hown : s.owning = true) (progs : Nat → List SOp)
    (hp : ∀ t, ∀ o ∈ progs t, KS.OwnProg o) (σ : List Nat) (op : OwnerOp) (p : Nat) (hp' : p < s.len)
    (hw : KS.NoWrap s.len (KS.atomsOf (KS.runF s σ (KS.init s progs)).hist 0) 0) :
    p ∈ (KS.ownerF s (KS.runF s σ (KS.init s progs)) op).1.mv ++ (KS.ownerF s (KS.runF s σ (KS.init s progs)) op).1.dr := by
  have := KS.exactly_once_all_schedules_F s hown progs hp σ op p hw
  simp only [hp', ↓reduceIte] at this
  exact List.count_pos_iff.mp (by omega)

/-- repeating create / consume / drop does not grow memory: any concatenation of balanced life-cycles is balanced -/
theorem repeat_balanced (role : Nat) (cycles : List (List AEv)) (h : ∀ c ∈ cycles, net role c = 0) :
    net role cycles.flatten = 0 := by
  induction cycles with
  | nil => simp [net]
  | cons c cs ih =>
    simp only [List.flatten_cons, net_append]
    rw [h c (by simp), ih (fun c' hc' => h c' (by simp [hc']))]; rfl


/-- **No element of an owning wrapped iterator is leaked**: every element the wrapped iterator ever produced ends up moved
out or destroyed (corollary of the wrapper's ownership ledger; every program, schedule, ending, also with panics of the
wrapped iterator or of closures) -/
theorem owning_iterator_no_element_leaked (s : IWF.ISrc) (hown : s.owning = true) (n : Nat) (progs : Nat → List SOp)
    (σ : List Nat) (hσ : ∀ t ∈ σ, t < n) (hb : IWF.Below s σ (IWF.init progs))
    (hfin : ∀ t, t < n → IWF.finished ((IWF.run s σ (IWF.init progs)).d t) = true) (op : OwnerOp) (v : Nat)
    (hv : v ∈ IWF.prod s (IWF.owner s n (IWF.run s σ (IWF.init progs)) op).1.core.P) :
    v ∈ (IWF.owner s n (IWF.run s σ (IWF.init progs)) op).1.mv ++ (IWF.owner s n (IWF.run s σ (IWF.init progs)) op).1.dr := by
  have h := IWF.wrapper_exactly_once s hown n progs σ hσ hb hfin op v
  have hpos : 0 < (IWF.prod s (IWF.owner s n (IWF.run s σ (IWF.init progs)) op).1.core.P).count v := List.count_pos_iff.mpr hv
  exact List.count_pos_iff.mp (by rw [List.count_append]; omega)


/-! ## The source itself: the heap blocks the translated owner-side code allocates and releases (`GenThms/Own.lean`) -/
section Source
open Orx.RSO Orx.GenO Orx.GenThms.Own

/-- the heap log of a consumed vector before the iterator ends: its buffer (a block iff the capacity is non-zero) -/
def vecHeap0 (cap : Nat) : List AEv := if 0 < cap then [.alloc 0] else []

/-- a result of the ownership monad that did not fault and whose heap log is balanced for every role -/
def Balanced {α : Type} (r : Res α) : Prop :=
  match r with
  | .ok _ s => ∀ role, net role s.heap = 0
  | .unwind s => ∀ role, net role s.heap = 0
  | .fail _ => False

theorem net_free0 (role cap : Nat) : net role (vecHeap0 cap ++ (if 0 < cap then [AEv.free 0] else [])) = 0 := by
  unfold vecHeap0
  by_cases h : 0 < cap <;> by_cases h2 : role = 0 <;> simp [net, h, h2]

/-- **`Drop for ConIterOfVec` as in the source releases the consumed vector's buffer on every path**: for every length,
capacity, counter value (also overshot) and every injected destructor panic — i.e. on the normal and on the unwinding path —
the translated destructor does not fault and leaves the heap log balanced. (Fix `6a65933`, defect D15, as a theorem about the
source: moving the release behind the element destruction breaks the unwinding case.) -/
theorem source_vec_drop_balanced (len cap f : Nat) (o : OSt) (ρ' : Type) (hc : VecCell o len cap)
    (hu : Untouched o (min o.ctr len) len) (hh : o.heap = vecHeap0 cap) :
    Balanced ((Vec.drop f (vecS len) : PF ρ' _) o) := by
  rw [vec_drop len len cap f o ρ' hc hu]
  cases dpHit o.dpanic (len - min o.ctr len) <;> simp [Balanced, afterVecDrop, hh, net_free0]

/-- **`into_seq_iter` of `ConIterOfVec` as in the source, and a caller that takes any number of elements of the result and
drops it**: the old buffer and the split-off block are both released; no fault -/
theorem source_vec_into_seq_balanced (len cap f : Nat) (k : Option Nat) (o : OSt) (ρ' : Type) (hc : VecCell o len cap)
    (hu : Untouched o (min o.ctr len) len) (hh : o.heap = vecHeap0 cap) :
    Balanced ((do let it ← Vec.into_seq_iter f (vecS len); seqConsume it k : PF ρ' _) o) := by
  have hs := seq_consume ⟨min o.ctr len, len - min o.ctr len, len - min o.ctr len, 1⟩ k (afterVecIntoSeq o len cap) ρ'
    (fun p h1 h2 => (hu p h1 (by simp only at h2; omega)).2)
  dsimp only at hs
  simp only [bind, PF.bind, vec_into_seq_iter len cap f o _ hc hu]
  rw [hs]
  have key : ∀ role, net role (((vecHeap0 cap ++ (if min o.ctr len < len then [AEv.alloc 1] else [])) ++ (if 0 < cap then [AEv.free 0] else []))
      ++ (if 0 < len - min o.ctr len then [AEv.free 1] else [])) = 0 := by
    intro role
    have e : (0 < len - min o.ctr len) = (min o.ctr len < len) := propext (by omega)
    simp only [e]
    unfold vecHeap0
    by_cases h : 0 < cap <;> by_cases h1 : min o.ctr len < len <;> by_cases h2 : role = 0 <;> by_cases h3 : role = 1 <;>
      simp [net, net_append, h, h1, h2, h3] <;> omega
  split <;> simp only [Balanced] <;> intro role <;> simpa [afterVecIntoSeq, hh] using key role

/-- **`Drop for ConIterOfArray` as in the source**: the temporary vector of the remaining elements is released, also when
one of their destructors panics; an overshot counter allocates nothing -/
theorem source_array_drop_balanced (N f : Nat) (o : OSt) (ρ' : Type) (hc : ArrCell o N) (hu : Untouched o (min o.ctr N) N)
    (hh : o.heap = []) : Balanced ((Arr.drop f N arrS : PF ρ' _) o) := by
  rw [arr_drop N f o ρ' hc hu]
  have key : ∀ role, net role (if o.ctr < N then [AEv.alloc 1, AEv.free 1] else []) = 0 := by
    intro role; by_cases h : o.ctr < N <;> by_cases h2 : role = 1 <;> simp [net, h, h2]
  by_cases h : o.ctr ≤ N ∧ dpHit o.dpanic (N - o.ctr) = true
  · simp [h, Balanced, afterArrDrop, hh, key]
  · by_cases h2 : o.ctr ≤ N
    · have hB : dpHit o.dpanic (N - o.ctr) = false := by simpa [h2] using h
      simp [h2, hB, Balanced, afterArrDrop, hh, key]
    · simp [h2, Balanced, afterArrDrop, hh, net]

/-- **`into_seq_iter` of `ConIterOfArray` as in the source and a caller that takes any number of elements and drops the
result** -/
theorem source_array_into_seq_balanced (N f : Nat) (k : Option Nat) (o : OSt) (ρ' : Type) (hc : ArrCell o N)
    (hu : Untouched o (min o.ctr N) N) (hh : o.heap = []) :
    Balanced ((do let it ← Arr.into_seq_iter f N arrS; seqConsume it k : PF ρ' _) o) := by
  have hs := fun s' (hd : s'.dr = o.dr) => seq_consume (arrRest N (min o.ctr N)) k s' ρ'
    (fun p h1 h2 => by
      rw [hd]
      unfold arrRest at h1 h2
      by_cases h : min o.ctr N < N
      · simp only [h, ↓reduceIte] at h1 h2; exact (hu p h1 (by omega)).2
      · simp only [h, ↓reduceIte] at h1 h2; omega)
  have hs1 := hs { o with evs := o.evs ++ [.ld (.ctr 0) .acquire o.ctr], vac := o.vac ++ RSO.rangeList (min o.ctr N) N, heap := o.heap ++ (if min o.ctr N < N then [.alloc 1] else []) } rfl
  simp only [bind, PF.bind, arr_into_seq_iter N f o _ hc hu, hs1]
  have key : ∀ role, net role ((if min o.ctr N < N then [AEv.alloc 1] else []) ++ (if 0 < (arrRest N (min o.ctr N)).cap then [AEv.free (arrRest N (min o.ctr N)).role] else [])) = 0 := by
    intro role
    have e : (0 < N - min o.ctr N) = (min o.ctr N < N) := propext (by omega)
    unfold arrRest
    by_cases h1 : min o.ctr N < N <;> by_cases h3 : role = 1 <;> simp [net, h1, h3, e]
  split <;> simp only [Balanced] <;> intro role <;> simpa [hh] using key role

end Source

section Surface
open Orx.GenThms.Surface

/-- the crate's destructors are exactly those the balance theorems cover -/
theorem source_destructors_are_the_modelled_ones :
    sameSet (implsOf "Drop") ["ConIterOfArray", "ConIterOfVec", "Taken", "CompleteOnUnwind"] = true :=
  Orx.GenThms.Surface.the_destructors

end Surface

end Orx.Props.C15
