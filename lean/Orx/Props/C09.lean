import Orx.KSRun
import Orx.IW.Outs
import Orx.IW.Progress
import Orx.IW.Termination
import Orx.GenThms.ProtoSim
import Orx.GenThms.ProtoSimBuf
/-! # C09 Progress: every call returns; known-size sources never wait -/
namespace Orx.Props.C09
open Orx Orx.KS

/-- **Frame**: a step of thread `t` never changes the state of another thread `u` — known-size kinds have no
waiting protocol at all, a thread frozen anywhere is simply never read. -/
theorem known_size_step_frame (s : KSrc) (t u : Nat) (c : Cfg) (hu : u ≠ t) : (step s t c).1.th u = c.th u := by
  unfold step
  split <;> rw [stepRest_th_other s t u _ _ hu] <;> rfl

/-- **Wait-freedom**: a called operation (`next`, `next_chunk`, buffered `next`, `skip_to_end`, `try_get_len`,
`has_more`) completes with the very next step of its own thread — one atomic access — in *every*
configuration, i.e. whatever the other threads have done or are in the middle of. -/
theorem known_size_wait_free (s : KSrc) (t : Nat) (c : Cfg) (o : SOp) (h : (c.th t).pc = .atom o) :
    ((step s t c).1.th t).pc = .idle := by
  have key : ∀ c1 : Cfg, ((stepRest s t c c1).1.th t).pc = .idle := by
    intro c1
    unfold stepRest
    simp only [h]
    cases o.op <;> simp only [] <;> repeat' (first | split | simp [setTh, setCtr])
  unfold step
  split <;> exact key _

/-- a looping operation (`for_each`, `fold`, `values`) makes progress with every own step: it either ends or
the counter of its slot strictly grows (so it ends after at most `len - pos + 1` own steps, no wrap) -/
theorem known_size_loop_progress (len c n : Nat) (hn : 1 ≤ n) (hw : c + n < W) :
    (Atom.many n).next len c = c + n ∧ Atom.one.next len c = wrapAdd c 1 := by
  simp [Atom.next, wrapAdd, Nat.mod_eq_of_lt hw]

/-- **Wrapper**: a spinning thread only reads; the thread the yielded counter points at is never blocked:
if a ticket equals `yielded`, its holder's next step takes its turn (`ent`), and the step after that either enters
the critical section or returns (if `completed` is set) -- without waiting for anyone. -/
theorem iter_ticket_holder_takes_turn (s : IW.Script) (t : Nat) (c : IW.Cfg) (r : IW.Req) (b : Nat)
    (h : (c.th t).pc = .wait r b) (hb : b = c.Y) : ((IW.step s t c).th t).pc = .ent r b := by
  unfold IW.step
  simp [h, hb, IW.setTh]

/-- **Wrapper, deadlock freedom, all schedules**: in every reachable configuration (fused scripts, panics
included; skips anywhere), if some thread still has work then some working thread is not waiting: the holder of
the ticket `yielded` points at, or — once `completed` is set — everybody. -/
theorem iter_deadlock_free (s : IW.Script) (ps : Nat → List IW.Req) (hok : ∀ t, ∀ r ∈ ps t, IW.ReqOk r)
    (σ : List Nat) (hW : (IW.run s σ (IW.init ps)).R < W) (t0 : Nat) (hb : IW.Busy (IW.run s σ (IW.init ps)) t0) :
    ∃ t, IW.Busy (IW.run s σ (IW.init ps)) t ∧ ¬ IW.Spinning (IW.run s σ (IW.init ps)) t := by
  obtain ⟨hi, hc, hd⟩ := IW.cover_run σ (IW.inv_init s ps hok) (IW.cover_init ps) (by intro t b n h; simp [IW.init] at h) hW
  exact IW.deadlock_free hi hc hd t0 hb

/-- a waiting thread's spin iteration changes nothing but its own place in the two-load loop: it cannot delay
anybody, and it keeps being a spin iteration until `yielded` or `completed` changes -/
theorem iter_spin_is_harmless (s : IW.Script) (t : Nat) (c : IW.Cfg) (h : IW.Spinning c t) :
    (IW.step s t c).R = c.R ∧ (IW.step s t c).Y = c.Y ∧ (IW.step s t c).C = c.C ∧ (IW.step s t c).P = c.P ∧
    (∀ u, u ≠ t → (IW.step s t c).th u = c.th u) ∧ IW.Spinning (IW.step s t c) t :=
  IW.spin_step_harmless s t c h

/-- **Every call returns under every fair interleaving (wrapper over an arbitrary iterator).** For every wrapped
iterator that eventually stops yielding (call `L` is the first that returns `None` or panics; it may be non-fused),
every family of per-thread programs over `T` threads — single pulls, one-shot chunks, buffered chunks,
`skip_to_end`, and the looping adaptors `for_each`/`fold`/`values`/`ids_and_values` with chunk sizes `1 ≤ n ≤ M` —
and every schedule that keeps scheduling each of the `T` threads: after finitely many steps no thread has work left.
Also when other threads stop pulling, reach the end, panic inside the wrapped iterator or call `skip_to_end`: those are
just programs and scripts. (An iterator that never ends makes `for_each` run forever by definition; that is the only
reason for the hypothesis `FirstNone s L`.) Proof: a potential that every non-waiting step decreases and every spin
iteration preserves (`IW.prog_cost_lt`, `IW.ins_cost_le`, `IW.spin_cost_eq`), deadlock freedom, and the generic lemma
`Orx.Fair.fair_termination`. -/
theorem iter_fair_termination (s : IW.Script) (T M L B : Nat) (hL : IW.FirstNone s L) (hB : B < W) (ps : Nat → List IW.Req)
    (hok : ∀ t, ∀ r ∈ ps t, IW.ReqOk r) (hml : ∀ t, ∀ r ∈ ps t, r.len ≤ M) (hout : ∀ t, T ≤ t → ps t = [])
    (hbud : ((List.range T).map fun t => IW.lenSum (ps t)).sum + M * (L + 1) ≤ B)
    (σ : Nat → Nat) (hfair : ∀ t, t < T → ∀ k, ∃ d, σ (k + d) = t) :
    ∃ d, ∀ t, t < T → ¬ IW.Busy (Orx.Fair.seg (IW.sys s T M L B hL hB) σ 0 d (IW.init ps)) t :=
  IW.fair_termination s T M L B hL hB ps hok hml hout hbud σ hfair

-- the hypotheses are satisfiable: 3 threads, loops and plain pulls, a skip, a 4-element iterator
def exPs : Nat → List IW.Req
  | 0 => [.single true, .chunk 3]
  | 1 => [.buffered 2 true, .single false, .skip]
  | 2 => [.chunk 1]
  | _ => []
def exScript : IW.Script := fun i => if i < 4 then .some (i + 10) else .none
example : IW.FirstNone exScript 4 := by
  refine ⟨by simp [exScript, IW.IsSome], ?_⟩
  intro i hi; simp [exScript, hi, IW.IsSome]
example : (∀ t, ∀ r ∈ exPs t, r.len ≤ 3) ∧ (∀ t, 3 ≤ t → exPs t = []) ∧
    ((List.range 3).map fun t => IW.lenSum (exPs t)).sum + 3 * (4 + 1) ≤ 100 := by
  refine ⟨?_, ?_, by decide⟩
  · intro t r hr
    match t with
    | 0 => simp [exPs] at hr; rcases hr with rfl | rfl <;> simp [IW.Req.len]
    | 1 => simp [exPs] at hr; rcases hr with rfl | rfl | rfl <;> simp [IW.Req.len]
    | 2 => simp [exPs] at hr; subst hr; simp [IW.Req.len]
    | _ + 3 => simp [exPs] at hr
  · intro t ht
    match t with
    | 0 | 1 | 2 => omega
    | _ + 3 => rfl


/-- **A panic of the wrapped iterator, as the source handles it** (`get` and `fetch_n`, translated): the access that
follows the panicking exit of `next()` is the guard's `completed.store(true, SeqCst)`, then the thread unwinds — nothing is
published on `yielded`, so waiting threads leave through `completed` (the model's pcs `unw`/`dead`). -/
theorem source_panic_marks_completed {β : Type} (K : Option Nat → RSP.Prog β) (REST : List Nat → RSP.Prog β) (m : Nat)
    (acc : List Nat) :
    GenThms.Proto.child (GenThms.Proto.tPollOneExit K) (.src .panic) = some (.stB .C .seqcst true (.panic "next")) ∧
    GenThms.Proto.child (GenThms.Proto.tCollectExit REST m acc) (.src .panic) = some (.stB .C .seqcst true (.panic "next")) ∧
    (∀ k b n, GenThms.Proto.treeAt k (.unw b n) = .stB .C .seqcst true (.panic "next")) :=
  ⟨rfl, rfl, fun _ _ _ => rfl⟩

/-- the requests of the model are the translated functions (single pulls, one-shot chunks, skips) -/
theorem source_requests_are_the_translated_functions (k : Nat) :
    (∀ l, GenThms.Proto.reqTree k (.single l) = GenThms.Proto.treeAt k (.resv (.single l))) ∧
    (∀ n, 1 ≤ n → GenThms.Proto.reqTree k (.chunk n) = GenThms.Proto.treeAt k (.resv (.chunk n))) ∧
    GenThms.Proto.reqTree k .skip = GenThms.Proto.treeAt k .skp :=
  ⟨GenThms.Proto.reqTree_single k, GenThms.Proto.reqTree_chunk k, GenThms.Proto.reqTree_skip k⟩


/-- a panic of the wrapped iterator inside the fill loop of the buffered pull: the guard stores `completed := true`, then
the thread unwinds; nothing is published -/
theorem source_buffered_panic_marks_completed {β : Type} (REST : List (Option Nat) → Nat → RSP.Prog β) (k : Nat)
    (vals : List (Option Nat)) (i : Nat) :
    GenThms.Proto.child (GenThms.Proto.tFillExit REST k vals i) (.src .panic) =
      some (.stB .C .seqcst true (.panic "next")) := rfl

end Orx.Props.C09
